#!/usr/bin/env python3
"""Regenerates MANIFEST.json from checks.json + manifest_text.json (level texts per property)."""
import json, os
ROOT = os.path.dirname(os.path.abspath(__file__))
cfg = json.load(open(os.path.join(ROOT, "checks.json")))
txt = json.load(open(os.path.join(ROOT, "manifest_text.json")))
props = [json.loads(l)["id"] for l in open(os.path.join(ROOT, "properties.jsonl")) if l.strip()]
checks, na = [], []
for pid in props:
    if pid in cfg and pid in txt.get("checks", {}):
        t = txt["checks"][pid]
        c = {
            "property_id": pid,
            "quick_cmd": "./check %s --tier quick" % pid,
            "evidence_file": "/verif/evidence/%s.json" % pid,
            "replay_cmd_template": "./check %s --replay {path}" % pid,
            "engine": "rapid-harness",
            "level_claimed": {"category": cfg[pid].get("level", "exploration"), "text": t["level_text"], "design_ref": t.get("design_ref", "DESIGN.md §4 " + pid)},
            "level_note": t["level_note"],
            "technique": t["technique"],
        }
        if "thorough" in cfg[pid]:
            c["thorough_cmd"] = "./check %s --tier thorough" % pid
        checks.append(c)
    else:
        na.append({"property_id": pid, "reason": txt.get("not_applicable", {}).get(pid, "check not built yet (work in progress, see DESIGN.md §9 build order)")})
m = {
    "version": 1,
    "setup_cmd": "./setup.sh",
    "hooks": txt["hooks"],
    "engines": [{"name": "rapid-harness", "path": "harness/", "serves_properties": [c["property_id"] for c in checks],
                 "kind_free_text": "Go test binaries (pgregory.net/rapid v1.3.0 property-based + stateful testing, native go fuzzing in thorough tier) built against /repo's working tree via a replace directive; python3 driver ./check shards, classifies, saves replays and writes evidence"}],
    "checks": checks,
    "notes": txt.get("notes", ""),
    "not_applicable": na,
}
json.dump(m, open(os.path.join(ROOT, "MANIFEST.json"), "w"), indent=1)
print("claimed:", [c["property_id"] for c in checks], "not claimed:", [n["property_id"] for n in na])
