#!/bin/sh
# MANIFEST.setup_cmd: build the framework offline from files on disk only.
set -e
cd "$(dirname "$0")"
export GOFLAGS=-mod=mod GOPROXY=off GOSUMDB=off GOTOOLCHAIN=local
mkdir -p .build .work evidence replays
./check --build-all
# self-test of the reference object store against a plain map model
(cd harness && go test -count=1 ./memstore/ ./hx/ 2>&1 | tail -5)
git -C /repo checkout -- go.sum go.mod 2>/dev/null || true
