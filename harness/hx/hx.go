// Package hx holds helpers shared by all property checks: scratch directories on tmpfs, the set
// of memstore backends making up a datamon context, local trees, a watchdog and the case journal.
package hx

import (
	"context"
	"encoding/json"
	"fmt"
	"os"
	"path/filepath"
	"sort"
	"strings"
	"sync/atomic"
	"time"

	"github.com/oneconcern/datamon/pkg/cafs"
	context2 "github.com/oneconcern/datamon/pkg/context"
	"github.com/oneconcern/datamon/pkg/core"
	"github.com/oneconcern/datamon/pkg/model"
	"github.com/oneconcern/datamon/pkg/storage"
	"github.com/oneconcern/datamon/pkg/storage/localfs"
	"github.com/segmentio/ksuid"
	"github.com/spf13/afero"
	"go.uber.org/zap"

	"verifharness/memstore"
)

// Nop is the logger given to every datamon component
var Nop = zap.NewNop()

var scratchSeq int64

// ScratchRoot is where per-case directories live (tmpfs when available)
func ScratchRoot() string {
	if st, err := os.Stat("/dev/shm"); err == nil && st.IsDir() {
		return "/dev/shm"
	}
	return os.TempDir()
}

// Cleaner is the subset of testing.TB / rapid.T needed here
type Cleaner interface {
	Fatalf(format string, args ...interface{})
}

// Scratch is a per-case directory tree, removed by Close
type Scratch struct {
	Root string
	n    int
}

// NewScratch creates a fresh scratch directory
func NewScratch() *Scratch {
	n := atomic.AddInt64(&scratchSeq, 1)
	root := filepath.Join(ScratchRoot(), fmt.Sprintf("verif-%d-%d", os.Getpid(), n))
	if err := os.MkdirAll(root, 0o755); err != nil {
		panic(err)
	}
	return &Scratch{Root: root}
}

// Dir creates a new empty sub directory
func (s *Scratch) Dir(name string) string {
	s.n++
	d := filepath.Join(s.Root, fmt.Sprintf("%s-%d", name, s.n))
	if err := os.MkdirAll(d, 0o755); err != nil {
		panic(err)
	}
	return d
}

// Close removes everything
func (s *Scratch) Close() { _ = os.RemoveAll(s.Root) }

// Local returns a localfs store rooted at dir (no retry, nop logger)
func Local(dir string) storage.Store {
	return localfs.New(afero.NewBasePathFs(afero.NewOsFs(), dir), localfs.WithRetry(false), localfs.WithLogger(Nop))
}

// Env is a datamon context made of memstore backends
type Env struct {
	Meta, VMeta, Blob, Wal, ReadLog *memstore.Backend
	CRC                             bool // metadata/blob views implement StoreCRC
}

// NewEnv creates empty backends
func NewEnv() *Env {
	return &Env{
		Meta:    memstore.NewBackend("meta"),
		VMeta:   memstore.NewBackend("vmeta"),
		Blob:    memstore.NewBackend("blob"),
		Wal:     memstore.NewBackend("wal"),
		ReadLog: memstore.NewBackend("readlog"),
	}
}

// Clone deep-copies all backends
func (e *Env) Clone() *Env {
	return &Env{Meta: e.Meta.Clone(), VMeta: e.VMeta.Clone(), Blob: e.Blob.Clone(), Wal: e.Wal.Clone(), ReadLog: e.ReadLog.Clone(), CRC: e.CRC}
}

// Views are the store views of one actor
type Views struct {
	Meta, VMeta, Blob, Wal, ReadLog *memstore.Store
	Stores                          context2.Stores
	Proc                            *memstore.Proc // shared crash plan of all views
}

// All returns the views as a slice
func (v *Views) All() []*memstore.Store {
	return []*memstore.Store{v.Meta, v.VMeta, v.Blob, v.Wal, v.ReadLog}
}

// Actor creates the views of a named actor (a "process") and the matching context stores
func (e *Env) Actor(name string) *Views {
	v := &Views{
		Meta:    e.Meta.View(name),
		VMeta:   e.VMeta.View(name),
		Blob:    e.Blob.View(name),
		Wal:     e.Wal.View(name),
		ReadLog: e.ReadLog.View(name),
	}
	v.Proc = memstore.NewProc()
	for _, s := range v.All() {
		s.Attach(v.Proc)
	}
	w := func(s *memstore.Store) storage.Store {
		if e.CRC {
			return s.WithCRC()
		}
		return s
	}
	v.Stores = context2.NewStores(w(v.Wal), w(v.ReadLog), w(v.Blob), w(v.Meta), w(v.VMeta))
	return v
}

// Tree is a file tree: slash separated relative path -> content
type Tree map[string][]byte

// Paths returns the sorted paths
func (t Tree) Paths() []string {
	ps := make([]string, 0, len(t))
	for p := range t {
		ps = append(ps, p)
	}
	sort.Strings(ps)
	return ps
}

// Write materialises the tree under dir
func (t Tree) Write(dir string) error {
	for p, data := range t {
		full := filepath.Join(dir, filepath.FromSlash(p))
		if err := os.MkdirAll(filepath.Dir(full), 0o755); err != nil {
			return err
		}
		if err := os.WriteFile(full, data, 0o644); err != nil {
			return err
		}
	}
	return nil
}

// ReadTree reads back all regular files below dir
func ReadTree(dir string) (Tree, error) {
	out := Tree{}
	err := filepath.Walk(dir, func(p string, info os.FileInfo, err error) error {
		if err != nil {
			return err
		}
		if info.IsDir() {
			return nil
		}
		rel, err := filepath.Rel(dir, p)
		if err != nil {
			return err
		}
		b, err := os.ReadFile(p)
		if err != nil {
			return err
		}
		out[filepath.ToSlash(rel)] = b
		return nil
	})
	return out, err
}

// WithoutMeta drops the .datamon/ entries of a downloaded tree
func (t Tree) WithoutMeta() Tree {
	out := Tree{}
	for p, d := range t {
		if strings.HasPrefix(p, ".datamon/") {
			continue
		}
		out[p] = d
	}
	return out
}

// CreateRepo creates a repository
func CreateRepo(stores context2.Stores, name string) error {
	return core.CreateRepo(model.RepoDescriptor{
		Name:        name,
		Description: "verif " + name,
		Timestamp:   time.Date(2020, 1, 1, 0, 0, 0, 0, time.UTC),
		Contributor: model.Contributor{Name: "verif", Email: "verif@example.com"},
	}, stores)
}

// KSUID builds a bundle-like ID from a timestamp (seconds since the KSUID epoch offset) and a payload byte
func KSUID(sec int, tag uint64) string {
	var payload [16]byte
	for i := 0; i < 8; i++ {
		payload[15-i] = byte(tag >> (8 * uint(i)))
	}
	t := time.Unix(1600000000+int64(sec), 0)
	id, err := ksuid.FromParts(t, payload[:])
	if err != nil {
		panic(err)
	}
	return id.String()
}

// NewBundle builds a core.Bundle for upload or download
func NewBundle(repo string, stores context2.Stores, consumable storage.Store, leaf uint32, opts ...core.BundleOption) *core.Bundle {
	bd := model.NewBundleDescriptor(model.Message("verif"))
	if leaf != 0 {
		bd.LeafSize = leaf
	}
	all := []core.BundleOption{
		core.Repo(repo),
		core.ContextStores(stores),
		core.BundleDescriptor(bd),
		core.Logger(Nop),
	}
	if consumable != nil {
		all = append(all, core.ConsumableStore(consumable))
	}
	all = append(all, opts...)
	return core.NewBundle(all...)
}

// UploadTree writes the tree to a fresh scratch dir and uploads it as a bundle; returns the bundle ID
func UploadTree(sc *Scratch, stores context2.Stores, repo string, tree Tree, leaf uint32, opts ...core.BundleOption) (string, error) {
	dir := sc.Dir("src")
	if err := tree.Write(dir); err != nil {
		return "", err
	}
	b := NewBundle(repo, stores, Local(dir), leaf, opts...)
	if err := core.Upload(context.Background(), b); err != nil {
		return b.BundleID, err
	}
	return b.BundleID, nil
}

// Download publishes a bundle to a fresh scratch dir and returns its content (including .datamon)
func Download(sc *Scratch, stores context2.Stores, repo, bundleID string, opts ...core.BundleOption) (Tree, error) {
	dir := sc.Dir("dst")
	all := append([]core.BundleOption{core.BundleID(bundleID)}, opts...)
	b := NewBundle(repo, stores, Local(dir), 0, all...)
	if err := core.Publish(context.Background(), b); err != nil {
		return nil, err
	}
	return ReadTree(dir)
}

// CafsKey computes the root key datamon assigns to content with the given leaf size, using an
// independent scratch store (validated by C02 against the python oracle)
func CafsKey(data []byte, leaf uint32) (string, error) {
	be := memstore.NewBackend("scratch")
	fs, err := cafs.New(cafs.LeafSize(leaf), cafs.Backend(be.View("k")), cafs.Logger(Nop), cafs.CacheSize(int(4*leaf)))
	if err != nil {
		return "", err
	}
	res, err := fs.Put(context.Background(), strings.NewReader(string(data)))
	if err != nil {
		return "", err
	}
	return res.Key.String(), nil
}

// Guard runs fn under a watchdog. hung=true when fn did not return within limit (the goroutine
// is abandoned).  Panics inside fn are returned as errors with panicked=true.
func Guard(limit time.Duration, fn func() error) (err error, hung bool, panicked bool) {
	type res struct {
		err      error
		panicked bool
	}
	ch := make(chan res, 1)
	go func() {
		defer func() {
			if r := recover(); r != nil {
				ch <- res{fmt.Errorf("panic: %v", r), true}
			}
		}()
		ch <- res{fn(), false}
	}()
	select {
	case r := <-ch:
		return r.err, false, r.panicked
	case <-time.After(limit):
	}
	// The limit is >= 1000x the normal cost of a case, but this machine may be heavily loaded: before
	// calling it a hang, keep waiting (without re-executing anything) up to guardFactor x limit in total.
	// A genuine hang (busy loop, deadlock) never returns and is still reported, only later.
	select {
	case r := <-ch:
		atomic.AddInt64(&SlowCases, 1)
		return r.err, false, r.panicked
	case <-time.After(time.Duration(guardFactor()-1) * limit):
		return fmt.Errorf("watchdog: no return within %s", time.Duration(guardFactor())*limit), true, false
	}
}

// SlowCases counts guarded calls that exceeded their nominal limit but returned within the extended one
var SlowCases int64

func guardFactor() int {
	f := EnvInt("VERIF_GUARD_FACTOR", 5)
	if f < 1 {
		f = 1
	}
	return f
}

// Journal appends the case about to be executed to $VERIF_JOURNAL (one JSON document per line),
// so a process-killing failure leaves its input behind.
func Journal(v interface{}) {
	p := os.Getenv("VERIF_JOURNAL")
	if p == "" {
		return
	}
	b, err := json.Marshal(v)
	if err != nil {
		return
	}
	f, err := os.OpenFile(p, os.O_CREATE|os.O_WRONLY|os.O_TRUNC, 0o644)
	if err != nil {
		return
	}
	_, _ = f.Write(append(b, '\n'))
	_ = f.Close()
}

// EnvInt reads an integer environment variable
func EnvInt(name string, def int) int {
	v := os.Getenv(name)
	if v == "" {
		return def
	}
	var n int
	if _, err := fmt.Sscanf(v, "%d", &n); err != nil {
		return def
	}
	return n
}

// Thorough tells whether the thorough tier was requested
func Thorough() bool { return os.Getenv("VERIF_TIER") == "thorough" }
