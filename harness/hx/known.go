package hx

import (
	"encoding/json"
	"os"
	"sync"
)

type finding struct {
	Status   string `json:"status"`
	Property string `json:"property"`
	ID       string `json:"id"`
	What     string `json:"what"`
}

var (
	knownOnce sync.Once
	knownMap  map[string]finding
)

func loadKnown() {
	knownMap = map[string]finding{}
	p := os.Getenv("VERIF_KNOWN")
	if p == "" {
		p = "/verif/KNOWN_FINDINGS.json"
	}
	b, err := os.ReadFile(p)
	if err != nil {
		return
	}
	var doc struct {
		Findings []finding `json:"findings"`
	}
	if json.Unmarshal(b, &doc) != nil {
		return
	}
	for _, f := range doc.Findings {
		if f.Status == "known" {
			knownMap[f.ID] = f
		}
	}
}

// Listed tells whether a finding id is listed with status "known" in KNOWN_FINDINGS.json
func Listed(id string) bool {
	knownOnce.Do(loadKnown)
	_, ok := knownMap[id]
	return ok
}

// Known tells whether generators must exclude the input class of the listed finding id.
// With VERIF_NO_EXCLUDE set (replays) nothing is excluded.
func Known(id string) bool {
	if os.Getenv("VERIF_NO_EXCLUDE") != "" {
		return false
	}
	return Listed(id)
}
