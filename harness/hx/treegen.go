package hx

import (
	"fmt"
	"sort"
	"strings"

	"pgregory.net/rapid"
)

// FileSpec is a generated file: a path and its content specification
type FileSpec struct {
	Path    string      `json:"path"`
	Content ContentSpec `json:"content"`
}

// TreeSpec is a generated tree (printable, small) that expands to a Tree
type TreeSpec struct {
	Leaf  uint32     `json:"leaf"`
	Files []FileSpec `json:"files"`
}

// Tree materialises the spec
func (s TreeSpec) Tree() Tree {
	t := Tree{}
	for _, f := range s.Files {
		t[f.Path] = f.Content.Bytes()
	}
	return t
}

var nameComponents = []string{"a", "b", "c", "dir", "sub dir", "ünï", "x.y", ".hidden", "trailing.", "bundle.yaml", "名前", "a-b", "A", "data_1", "é", "f.txt", "..x", " lead", "trail ", "tab\t", "\u00a0nb", "\u3000wide\u3000"}

// Decoys are paths that look like (or are) generated paths
var Decoys = []string{".datamon/x", ".datamon/deep/y.yaml", ".conflicts/s/p", ".checkpoints", ".checkpoints/c/q", "a/.datamon/x", ".datamonx", "x.datamon", "dir/.conflicts/z", ".Conflicts/u",
	".datamon.bak", ".conflicts-resolved/a.txt", ".checkpoints.json", ".checkpoints 2020/x", ".datamon-old/x", ".conflicts~", "..conflicts", "..checkpoints/w"}

// IsGeneratedRef is the independent reference predicate for generated (reserved) paths: strip one
// leading "./" or "/", then the first path component is .datamon, .conflicts or .checkpoints.
func IsGeneratedRef(p string) bool {
	switch {
	case strings.HasPrefix(p, "./"):
		p = p[2:]
	case strings.HasPrefix(p, "/"):
		p = p[1:]
	}
	first := p
	if i := strings.IndexByte(p, '/'); i >= 0 {
		first = p[:i]
	}
	return first == ".datamon" || first == ".conflicts" || first == ".checkpoints"
}

// GenTree draws a tree of up to maxFiles files whose paths never make a file an ancestor of
// another path. sizes are built around the leaf size. withDecoys adds generated-path decoys.
func GenTree(t *rapid.T, leaf uint32, minFiles, maxFiles int, maxK int, withDecoys bool, label string) TreeSpec {
	n := rapid.IntRange(minFiles, maxFiles).Draw(t, label+"_n")
	spec := TreeSpec{Leaf: leaf}
	isFile := map[string]bool{}
	isDir := map[string]bool{}
	dupContent := rapid.Bool().Draw(t, label+"_dup")
	var first *ContentSpec
	for i := 0; i < n; i++ {
		depth := rapid.IntRange(0, 5).Draw(t, label+"_depth")
		if rapid.IntRange(0, 2).Draw(t, label+"_shallow") > 0 && depth > 2 {
			depth = 2
		}
		parts := make([]string, 0, depth+1)
		for d := 0; d <= depth; d++ {
			parts = append(parts, rapid.SampledFrom(nameComponents).Draw(t, label+"_comp"))
		}
		// construct a non-conflicting path: directories must not be files, the file must not be a dir
		for d := 0; d < len(parts)-1; d++ {
			for isFile[strings.Join(parts[:d+1], "/")] {
				parts[d] += "_d"
			}
		}
		for {
			p := strings.Join(parts, "/")
			if !isDir[p] && !isFile[p] {
				break
			}
			parts[len(parts)-1] += fmt.Sprintf("_%d", i)
		}
		p := strings.Join(parts, "/")
		isFile[p] = true
		for d := 1; d < len(parts); d++ {
			isDir[strings.Join(parts[:d], "/")] = true
		}
		c := Content(t, leaf, maxK, label+"_c")
		if dupContent && first != nil && rapid.IntRange(0, 3).Draw(t, label+"_usedup") == 0 {
			c = *first
		}
		if first == nil {
			cc := c
			first = &cc
		}
		spec.Files = append(spec.Files, FileSpec{Path: p, Content: c})
	}
	if withDecoys {
		nd := rapid.IntRange(0, 3).Draw(t, label+"_ndecoys")
		for i := 0; i < nd; i++ {
			d := rapid.SampledFrom(Decoys).Draw(t, label+"_decoy")
			// keep the no-ancestor invariant
			ok := !isFile[d] && !isDir[d]
			parts := strings.Split(d, "/")
			for k := 1; k < len(parts) && ok; k++ {
				if isFile[strings.Join(parts[:k], "/")] {
					ok = false
				}
			}
			if !ok {
				continue
			}
			isFile[d] = true
			for k := 1; k < len(parts); k++ {
				isDir[strings.Join(parts[:k], "/")] = true
			}
			spec.Files = append(spec.Files, FileSpec{Path: d, Content: Content(t, leaf, 1, label+"_dc")})
		}
	}
	sort.Slice(spec.Files, func(i, j int) bool { return spec.Files[i].Path < spec.Files[j].Path })
	return spec
}

// Uploadable returns the sub-tree that an upload must store (generated paths removed)
func (t Tree) Uploadable() Tree {
	out := Tree{}
	for p, d := range t {
		if !IsGeneratedRef(p) {
			out[p] = d
		}
	}
	return out
}

// DiffTrees describes the first differences between two trees ("" when equal)
func DiffTrees(got, want Tree) string {
	var msgs []string
	for _, p := range want.Paths() {
		g, ok := got[p]
		if !ok {
			msgs = append(msgs, fmt.Sprintf("missing %q", p))
		} else if string(g) != string(want[p]) {
			msgs = append(msgs, fmt.Sprintf("content of %q differs (%d vs %d bytes)", p, len(g), len(want[p])))
		}
	}
	for _, p := range got.Paths() {
		if _, ok := want[p]; !ok {
			msgs = append(msgs, fmt.Sprintf("unexpected %q", p))
		}
	}
	if len(msgs) > 6 {
		msgs = append(msgs[:6], fmt.Sprintf("... and %d more", len(msgs)-6))
	}
	return strings.Join(msgs, "; ")
}
