package hx

import (
	"context"
	"io"
	"sync"

	"github.com/oneconcern/datamon/pkg/storage"
)

// Breaker wraps a store: once armed with n, the n-th following object download (Get) delivers half of the object
// and then breaks with io.ErrUnexpectedEOF, like a connection cut in the middle of a transfer.
type Breaker struct {
	storage.Store
	mu    sync.Mutex
	nth   int
	match func(key string) bool
	Hits  int
}

// NewBreaker wraps s
func NewBreaker(s storage.Store) *Breaker { return &Breaker{Store: s} }

// Arm makes the n-th next Get of a key accepted by match (nil: any) break half-way; n = 0 disarms
func (b *Breaker) Arm(n int, match func(string) bool) {
	b.mu.Lock()
	b.nth, b.match = n, match
	b.mu.Unlock()
}

// Get implements storage.Store
func (b *Breaker) Get(c context.Context, key string) (io.ReadCloser, error) {
	r, err := b.Store.Get(c, key)
	if err != nil {
		return r, err
	}
	b.mu.Lock()
	hit := false
	if b.nth > 0 && (b.match == nil || b.match(key)) {
		b.nth--
		if b.nth == 0 {
			hit = true
			b.Hits++
		}
	}
	b.mu.Unlock()
	if !hit {
		return r, nil
	}
	data, _ := io.ReadAll(r)
	_ = r.Close()
	return &brokenBody{data: data[:len(data)/2]}, nil
}

type brokenBody struct {
	data []byte
	pos  int
}

func (b *brokenBody) Read(p []byte) (int, error) {
	if b.pos >= len(b.data) {
		return 0, io.ErrUnexpectedEOF
	}
	n := copy(p, b.data[b.pos:])
	b.pos += n
	return n, nil
}

func (b *brokenBody) Close() error { return nil }
