package hx

import (
	"fmt"

	"pgregory.net/rapid"
)

// Expand deterministically expands a drawn seed into n bytes. kind 0: pseudo-random bytes,
// kind 1: low entropy (period-`period` pattern, so leaves repeat when period divides the leaf
// size), kind 2: all zero.
func Expand(seed uint64, n int, kind int, period int) []byte {
	out := make([]byte, n)
	switch kind {
	case 2:
		return out
	case 1:
		if period <= 0 {
			period = 1
		}
		pat := Expand(seed, period, 0, 0)
		for i := range out {
			out[i] = pat[i%period]
		}
		return out
	}
	x := seed*0x9E3779B97F4A7C15 + 0x1234567
	for i := 0; i < n; i += 8 {
		x += 0x9E3779B97F4A7C15
		z := x
		z = (z ^ (z >> 30)) * 0xBF58476D1CE4E5B9
		z = (z ^ (z >> 27)) * 0x94D049BB133111EB
		z ^= z >> 31
		for j := 0; j < 8 && i+j < n; j++ {
			out[i+j] = byte(z >> (8 * uint(j)))
		}
	}
	return out
}

// ContentSpec describes generated content relative to a leaf size
type ContentSpec struct {
	Leaf   uint32 `json:"leaf"`
	K      int    `json:"k"`
	D      int    `json:"d"`
	Size   int    `json:"size"`
	Seed   uint64 `json:"seed"`
	Kind   int    `json:"kind"`
	Period int    `json:"period"`
}

// Bytes materialises the content
func (c ContentSpec) Bytes() []byte { return Expand(c.Seed, c.Size, c.Kind, c.Period) }

// DClass classifies the offset from the leaf multiple
func (c ContentSpec) DClass() string {
	L := int(c.Leaf)
	switch {
	case c.Size == 0:
		return "empty"
	case c.Size == 1:
		return "one"
	case c.Size%L == 0:
		return "exact"
	case c.Size%L == 1:
		return "plus1"
	case c.Size%L == L-1:
		return "minus1"
	}
	return "mid"
}

// NonTrivial per the C01 rule: more than one leaf, or a boundary size
func (c ContentSpec) NonTrivial() bool {
	return c.Size > int(c.Leaf) || c.DClass() != "mid"
}

func (c ContentSpec) String() string {
	return fmt.Sprintf("L=%d size=%d(k=%d,d=%d,%s) kind=%d", c.Leaf, c.Size, c.K, c.D, c.DClass(), c.Kind)
}

// SmallLeaf draws a small leaf size with the interesting constants over-represented
func SmallLeaf(t *rapid.T, label string) uint32 {
	if rapid.Bool().Draw(t, label+"_const") {
		return rapid.SampledFrom([]uint32{64, 65, 100, 127, 128, 255, 256, 1000, 4096}).Draw(t, label)
	}
	return rapid.Uint32Range(64, 8192).Draw(t, label)
}

// Content draws content of k*L+d bytes, k in 0..maxK
func Content(t *rapid.T, leaf uint32, maxK int, label string) ContentSpec {
	L := int(leaf)
	k := rapid.IntRange(0, maxK).Draw(t, label+"_k")
	var d int
	switch rapid.IntRange(0, 4).Draw(t, label+"_dsel") {
	case 0:
		d = -1
	case 1:
		d = 0
	case 2:
		d = 1
	default:
		d = rapid.IntRange(-(L-1), L-1).Draw(t, label+"_d")
	}
	size := k*L + d
	if size < 0 {
		size = 0
	}
	kind := rapid.SampledFrom([]int{0, 0, 0, 1, 1, 2}).Draw(t, label+"_kind")
	period := 1
	if kind == 1 {
		period = rapid.SampledFrom([]int{1, 7, L / 2, L, L + 1, 2 * L}).Draw(t, label+"_period")
		if period < 1 {
			period = 1
		}
	}
	return ContentSpec{Leaf: leaf, K: k, D: d, Size: size, Seed: rapid.Uint64().Draw(t, label+"_seed"), Kind: kind, Period: period}
}
