package hx

import (
	context2 "github.com/oneconcern/datamon/pkg/context"
	"github.com/oneconcern/datamon/pkg/core"
	"github.com/oneconcern/datamon/pkg/model"
)

// CreateDiamond initialises a diamond like `datamon diamond initialize`
func CreateDiamond(stores context2.Stores, repo string, opts ...core.DiamondOption) (model.DiamondDescriptor, error) {
	all := append([]core.DiamondOption{core.DiamondLogger(Nop)}, opts...)
	return core.CreateDiamond(repo, stores, all...)
}

// SplitAdd follows `datamon diamond split add`: NewSplit + CreateSplit + Upload of directory dir.
// splitID may be empty (a random one is generated). Returns the split ID.
func SplitAdd(stores context2.Stores, repo, diamondID, splitID, dir string, extra ...core.SplitOption) (string, error) {
	descOpts := []model.SplitDescriptorOption{model.SplitContributor(model.Contributor{Name: "verif", Email: "verif@example.com"})}
	if splitID != "" {
		descOpts = append(descOpts, model.SplitID(splitID))
	}
	opts := []core.SplitOption{
		core.SplitDescriptor(model.NewSplitDescriptor(descOpts...)),
		core.SplitConsumableStore(Local(dir)),
		core.SplitLogger(Nop),
	}
	opts = append(opts, extra...)
	s := core.NewSplit(repo, diamondID, stores, opts...)
	if _, err := core.CreateSplit(repo, diamondID, stores, core.SplitDescriptor(&s.SplitDescriptor), core.SplitLogger(Nop)); err != nil {
		return s.SplitDescriptor.SplitID, err
	}
	if err := s.Upload(); err != nil {
		return s.SplitDescriptor.SplitID, err
	}
	return s.SplitDescriptor.SplitID, nil
}

// SplitAddRetried is SplitAdd by a library caller that keeps its Split object: arm() is called before the first
// Upload (it is expected to make a store call of that upload fail), disarm() after it, and when the first Upload
// failed Upload is called again on the same object. Returns whether a retry took place.
func SplitAddRetried(stores context2.Stores, repo, diamondID, splitID, dir string, arm, disarm func(), extra ...core.SplitOption) (bool, error) {
	descOpts := []model.SplitDescriptorOption{model.SplitContributor(model.Contributor{Name: "verif", Email: "verif@example.com"})}
	if splitID != "" {
		descOpts = append(descOpts, model.SplitID(splitID))
	}
	opts := []core.SplitOption{
		core.SplitDescriptor(model.NewSplitDescriptor(descOpts...)),
		core.SplitConsumableStore(Local(dir)),
		core.SplitLogger(Nop),
	}
	opts = append(opts, extra...)
	s := core.NewSplit(repo, diamondID, stores, opts...)
	if _, err := core.CreateSplit(repo, diamondID, stores, core.SplitDescriptor(&s.SplitDescriptor), core.SplitLogger(Nop)); err != nil {
		return false, err
	}
	arm()
	err := s.Upload()
	disarm()
	if err == nil {
		return false, nil
	}
	return true, s.Upload()
}

// Commit follows `datamon diamond commit`; returns the diamond object (BundleID, descriptor)
func Commit(stores context2.Stores, repo, diamondID string, mode model.ConflictMode, extra ...core.DiamondOption) (*core.Diamond, error) {
	return CommitWith(stores, repo, diamondID, mode, nil, extra...)
}

// CommitWith is Commit with listing options handed to Diamond.Commit (e.g. core.BatchSize: a small page
// size puts page boundaries where they would fall with hundreds of splits at the default size)
func CommitWith(stores context2.Stores, repo, diamondID string, mode model.ConflictMode, commitOpts []core.Option, extra ...core.DiamondOption) (*core.Diamond, error) {
	diamond, err := core.GetDiamond(repo, diamondID, stores, core.DiamondLogger(Nop))
	if err != nil {
		return nil, err
	}
	opts := []core.DiamondOption{
		core.DiamondDescriptor(model.NewDiamondDescriptor(model.DiamondClone(diamond), model.DiamondMode(mode))),
		core.DiamondMessage("verif commit"),
		core.DiamondLogger(Nop),
	}
	opts = append(opts, extra...)
	d := core.NewDiamond(repo, stores, opts...)
	return d, d.Commit(commitOpts...)
}

// Cancel follows `datamon diamond cancel`
func Cancel(stores context2.Stores, repo, diamondID string) error {
	diamond, err := core.GetDiamond(repo, diamondID, stores, core.DiamondLogger(Nop))
	if err != nil {
		return err
	}
	d := core.NewDiamond(repo, stores,
		core.DiamondDescriptor(model.NewDiamondDescriptor(model.DiamondClone(diamond))),
		core.DiamondLogger(Nop))
	return d.Cancel()
}
