// Package memstore is the harness' reference object store: an in-memory implementation of
// datamon's storage.Store with GCS-like semantics (atomic create-if-absent, lexicographic
// listing, missing keys are errors wrapping storagestatus.ErrNotExists) which also owns the
// clock, the fault plan, the crash plan, gates and a call trace.
//
// A Backend holds the objects. A *Store is a named view of a Backend (an "actor" / a process):
// all views share the objects, each view has its own interceptor.
package memstore

import (
	"bytes"
	"context"
	"errors"
	"fmt"
	"hash/crc32"
	"io"
	"sort"
	"strings"
	"sync"
	"sync/atomic"
	"time"

	"github.com/oneconcern/datamon/pkg/storage"
	storagestatus "github.com/oneconcern/datamon/pkg/storage/status"
)

// ErrCrashed is returned by every call made after the crash point was reached.
var ErrCrashed = errors.New("memstore: process crashed (injected)")

// ErrInjected is the transient error returned for injected faults.
var ErrInjected = errors.New("memstore: transient failure (injected)")

// Op names
const (
	OpHas        = "Has"
	OpGet        = "Get"
	OpGetAttr    = "GetAttr"
	OpGetAt      = "GetAt"
	OpReadAt     = "ReadAt"
	OpTouch      = "Touch"
	OpPut        = "Put"
	OpDelete     = "Delete"
	OpKeys       = "Keys"
	OpKeysPrefix = "KeysPrefix"
	OpClear      = "Clear"
)

// Mutating tells whether an op changes the store
func Mutating(op string) bool {
	switch op {
	case OpPut, OpDelete, OpTouch, OpClear:
		return true
	}
	return false
}

// Object is one stored object
type Object struct {
	Data    []byte
	Created time.Time
	Updated time.Time
	Gen     int64 // bumped on every (re)write, unique across the backend
	CRC     uint32
	HasCRC  bool
}

// Call describes one call on a store view, as seen by interceptors and the trace.
type Call struct {
	Seq     int64 // global sequence number
	Actor   string
	Store   string
	Op      string
	Key     string // key, or prefix for KeysPrefix
	Excl    bool   // Put with NoOverWrite
	Err     error  // result (filled after the call)
	Landed  bool   // for mutating calls: the effect took place
	MutIdx  int    // index among the mutating calls of this view (1-based), 0 otherwise
	Done    int64  // global completion stamp (order in which calls finished, across all backends)
	Size    int    // for Put: bytes
	Comment string
}

func (c Call) String() string {
	e := ""
	if c.Err != nil {
		e = " err=" + c.Err.Error()
	}
	x := ""
	if c.Excl {
		x = " excl"
	}
	return fmt.Sprintf("#%d %s/%s %s %q%s%s", c.Seq, c.Actor, c.Store, c.Op, c.Key, x, e)
}

// Backend holds objects of one bucket
type Backend struct {
	Name string

	mu      sync.Mutex
	objs    map[string]*Object
	sorted  []string
	dirty   bool
	gen     int64
	seq     int64
	now     func() time.Time
	logical time.Time

	traceOn  bool
	trace    []Call
	traceCap int
}

// NewBackend creates an empty bucket with a logical clock starting at a fixed epoch and
// advancing 1ms per mutating call.
func NewBackend(name string) *Backend {
	return &Backend{
		Name:     name,
		objs:     make(map[string]*Object),
		logical:  time.Date(2020, 1, 1, 0, 0, 0, 0, time.UTC),
		traceCap: 20000,
	}
}

// UseWallClock makes timestamps come from a strictly increasing wall clock
func (b *Backend) UseWallClock() {
	b.mu.Lock()
	defer b.mu.Unlock()
	var last time.Time
	b.now = func() time.Time {
		t := time.Now()
		if !t.After(last) {
			t = last.Add(time.Nanosecond)
		}
		last = t
		return t
	}
}

// SetClock installs a custom clock (called with the backend lock held)
func (b *Backend) SetClock(f func() time.Time) {
	b.mu.Lock()
	defer b.mu.Unlock()
	b.now = f
}

// Advance moves the logical clock forward
func (b *Backend) Advance(d time.Duration) {
	b.mu.Lock()
	defer b.mu.Unlock()
	b.logical = b.logical.Add(d)
}

// Now returns the current store time (without advancing it)
func (b *Backend) Now() time.Time {
	b.mu.Lock()
	defer b.mu.Unlock()
	if b.now != nil {
		return b.now()
	}
	return b.logical
}

func (b *Backend) tick() time.Time {
	if b.now != nil {
		return b.now()
	}
	b.logical = b.logical.Add(time.Millisecond)
	return b.logical
}

// EnableTrace switches call tracing on/off
func (b *Backend) EnableTrace(on bool) {
	b.mu.Lock()
	defer b.mu.Unlock()
	b.traceOn = on
}

// Trace returns a copy of the trace
func (b *Backend) Trace() []Call {
	b.mu.Lock()
	defer b.mu.Unlock()
	return append([]Call(nil), b.trace...)
}

// ResetTrace drops the trace
func (b *Backend) ResetTrace() {
	b.mu.Lock()
	defer b.mu.Unlock()
	b.trace = nil
}

func (b *Backend) record(c Call) {
	if !b.traceOn {
		return
	}
	if len(b.trace) < b.traceCap {
		b.trace = append(b.trace, c)
	}
}

// Snapshot returns a deep copy of all objects
func (b *Backend) Snapshot() map[string]Object {
	b.mu.Lock()
	defer b.mu.Unlock()
	out := make(map[string]Object, len(b.objs))
	for k, o := range b.objs {
		c := *o
		c.Data = append([]byte(nil), o.Data...)
		out[k] = c
	}
	return out
}

// Clone returns an independent backend with the same objects and clock position
func (b *Backend) Clone() *Backend {
	b.mu.Lock()
	defer b.mu.Unlock()
	nb := NewBackend(b.Name)
	nb.logical = b.logical
	nb.gen = b.gen
	for k, o := range b.objs {
		c := *o
		c.Data = append([]byte(nil), o.Data...)
		nb.objs[k] = &c
	}
	nb.dirty = true
	return nb
}

// RawKeys lists all keys in lexicographic order, bypassing interceptors
func (b *Backend) RawKeys() []string {
	b.mu.Lock()
	defer b.mu.Unlock()
	return append([]string(nil), b.sortedKeys()...)
}

// RawGet reads an object bypassing interceptors
func (b *Backend) RawGet(key string) ([]byte, bool) {
	b.mu.Lock()
	defer b.mu.Unlock()
	o, ok := b.objs[key]
	if !ok {
		return nil, false
	}
	return append([]byte(nil), o.Data...), true
}

// RawObject reads an object with attributes, bypassing interceptors
func (b *Backend) RawObject(key string) (Object, bool) {
	b.mu.Lock()
	defer b.mu.Unlock()
	o, ok := b.objs[key]
	if !ok {
		return Object{}, false
	}
	c := *o
	c.Data = append([]byte(nil), o.Data...)
	return c, true
}

// RawPut writes an object bypassing interceptors (the harness acting as an outside party)
func (b *Backend) RawPut(key string, data []byte) {
	b.mu.Lock()
	defer b.mu.Unlock()
	b.put(key, data, false, 0)
}

// RawDelete removes an object bypassing interceptors
func (b *Backend) RawDelete(key string) bool {
	b.mu.Lock()
	defer b.mu.Unlock()
	if _, ok := b.objs[key]; !ok {
		return false
	}
	delete(b.objs, key)
	b.dirty = true
	return true
}

// RawSetTimes overrides the timestamps of an object
func (b *Backend) RawSetTimes(key string, created, updated time.Time) bool {
	b.mu.Lock()
	defer b.mu.Unlock()
	o, ok := b.objs[key]
	if !ok {
		return false
	}
	o.Created, o.Updated = created, updated
	return true
}

// Len returns the number of objects
func (b *Backend) Len() int {
	b.mu.Lock()
	defer b.mu.Unlock()
	return len(b.objs)
}

func (b *Backend) sortedKeys() []string {
	if b.dirty || b.sorted == nil {
		ks := make([]string, 0, len(b.objs))
		for k := range b.objs {
			ks = append(ks, k)
		}
		sort.Strings(ks)
		b.sorted = ks
		b.dirty = false
	}
	return b.sorted
}

func (b *Backend) put(key string, data []byte, hasCRC bool, crc uint32) {
	t := b.tick()
	b.gen++
	o, ok := b.objs[key]
	if !ok {
		o = &Object{Created: t}
		b.objs[key] = o
		b.dirty = true
	}
	o.Data = append([]byte(nil), data...)
	o.Updated = t
	o.Gen = b.gen
	o.HasCRC = hasCRC
	o.CRC = crc
	if !hasCRC {
		// GCS always computes a CRC32C server-side
		o.CRC = crc32.Checksum(data, crc32.MakeTable(crc32.Castagnoli))
	}
}

// Interceptor is consulted before each call of a view takes effect. Returning a non-nil error
// makes the call fail with that error without any effect. It is called WITHOUT the backend
// lock held, so it may block (scheduler, gates).
type Interceptor func(c *Call) error

// Proc is a "process": views attached to the same Proc share one crash plan and one counter of
// mutating calls, so a crash point can be any store write of the process, whatever the store.
type Proc struct {
	mu        sync.Mutex
	mutCount  int
	crashAt   int
	crashLand bool
	crashed   bool
	failAt    int  // transient failure at the n-th mutating call (0: none)
	failLand  bool // the failing call takes effect although it reports an error
	failed    bool
	Log       []string // mutating calls seen: "store:op:key"
}

// FailAt plans one transient failure: the n-th mutating call of the process returns ErrInjected;
// with land=true its effect takes place nevertheless (the acknowledgement was lost). Later calls succeed.
func (p *Proc) FailAt(n int, land bool) {
	p.mu.Lock()
	defer p.mu.Unlock()
	p.failAt, p.failLand, p.failed, p.mutCount = n, land, false, 0
	p.Log = nil
}

// Failed reports whether the planned transient failure was delivered
func (p *Proc) Failed() bool {
	p.mu.Lock()
	defer p.mu.Unlock()
	return p.failed
}

// NewProc creates a process
func NewProc() *Proc { return &Proc{} }

// CrashAt plans a crash at the n-th mutating call of the process (see Store.CrashAt)
func (p *Proc) CrashAt(n int, land bool) {
	p.mu.Lock()
	defer p.mu.Unlock()
	p.crashAt, p.crashLand, p.crashed, p.mutCount = n, land, false, 0
	p.Log = nil
}

// Crashed reports whether the crash point was reached
func (p *Proc) Crashed() bool {
	p.mu.Lock()
	defer p.mu.Unlock()
	return p.crashed
}

// MutCount returns the number of mutating calls seen since the last CrashAt/Reset
func (p *Proc) MutCount() int {
	p.mu.Lock()
	defer p.mu.Unlock()
	return p.mutCount
}

// MutLog returns a copy of the mutating call log
func (p *Proc) MutLog() []string {
	p.mu.Lock()
	defer p.mu.Unlock()
	return append([]string(nil), p.Log...)
}

// Reset clears plan, crashed flag and counters
func (p *Proc) Reset() {
	p.mu.Lock()
	defer p.mu.Unlock()
	p.crashAt, p.crashLand, p.crashed, p.mutCount = 0, false, false, 0
	p.Log = nil
}

// Store is one view (actor) of a backend and implements storage.Store.
type Store struct {
	b     *Backend
	actor string
	proc  *Proc

	mu        sync.Mutex
	before    []Interceptor
	after     []func(c *Call)
	mutCount  int
	crashAt   int  // 0: no crash plan
	crashLand bool // the crashing call lands (crash just after it)
	crashed   bool
	faults    []*Fault
	faultHits int
}

var _ storage.Store = &Store{}

// View creates a new view of the backend for the named actor
func (b *Backend) View(actor string) *Store {
	return &Store{b: b, actor: actor}
}

// Attach makes the view part of a process (shared crash plan)
func (s *Store) Attach(p *Proc) *Store {
	s.proc = p
	return s
}

// Backend returns the underlying bucket
func (s *Store) Backend() *Backend { return s.b }

// Actor returns the view name
func (s *Store) Actor() string { return s.actor }

// Before adds an interceptor
func (s *Store) Before(i Interceptor) *Store {
	s.mu.Lock()
	defer s.mu.Unlock()
	s.before = append(s.before, i)
	return s
}

// After adds a completion callback
func (s *Store) After(f func(c *Call)) *Store {
	s.mu.Lock()
	defer s.mu.Unlock()
	s.after = append(s.after, f)
	return s
}

// ClearHooks removes interceptors, crash plan and fault plan ("process restart")
func (s *Store) ClearHooks() {
	s.mu.Lock()
	defer s.mu.Unlock()
	s.before, s.after = nil, nil
	s.crashAt, s.crashed, s.crashLand = 0, false, false
	s.faults = nil
	s.mutCount = 0
}

// CrashAt plans a crash at the n-th mutating call of this view (1-based). If land is true the
// call takes effect and the crash occurs right after; otherwise the call has no effect.
// From then on every call on this view fails with ErrCrashed.
func (s *Store) CrashAt(n int, land bool) {
	s.mu.Lock()
	defer s.mu.Unlock()
	s.crashAt, s.crashLand, s.crashed = n, land, false
	s.mutCount = 0
}

// Crashed reports whether the crash point was reached
func (s *Store) Crashed() bool {
	if s.proc != nil && s.proc.Crashed() {
		return true
	}
	s.mu.Lock()
	defer s.mu.Unlock()
	return s.crashed
}

// Restart clears the crashed state and the crash plan, keeps interceptors
func (s *Store) Restart() {
	s.mu.Lock()
	defer s.mu.Unlock()
	s.crashAt, s.crashed, s.crashLand = 0, false, false
	s.mutCount = 0
}

// MutCount returns the number of mutating calls seen on this view since the last plan/reset
func (s *Store) MutCount() int {
	s.mu.Lock()
	defer s.mu.Unlock()
	return s.mutCount
}

// ResetMutCount zeroes the mutating call counter
func (s *Store) ResetMutCount() {
	s.mu.Lock()
	defer s.mu.Unlock()
	s.mutCount = 0
}

// Fault is a transient failure plan: calls with Op (empty = any) on keys containing KeySub fail
// Times times starting at the Nth match (1-based).
type Fault struct {
	Op     string
	KeySub string
	Nth    int
	Times  int
	seen   int
	Hits   int
	Err    error
}

// AddFault registers a transient fault
func (s *Store) AddFault(f *Fault) {
	s.mu.Lock()
	defer s.mu.Unlock()
	s.faults = append(s.faults, f)
}

// FaultHits returns the number of injected failures that actually happened
func (s *Store) FaultHits() int {
	s.mu.Lock()
	defer s.mu.Unlock()
	return s.faultHits
}

// ClearFaults removes all fault plans
func (s *Store) ClearFaults() {
	s.mu.Lock()
	defer s.mu.Unlock()
	s.faults = nil
}

func (s *Store) String() string { return "memstore://" + s.b.Name + "#" + s.actor }

func notExists(key string) error {
	return storagestatus.ErrNotExists.Wrap(fmt.Errorf("storage: object doesn't exist: %q", key))
}

func precondition(key string) error {
	return storagestatus.ErrExists.Wrap(fmt.Errorf("googleapi: Error 412: Precondition Failed, conditionNotMet: %q", key))
}

// enter runs crash/fault/interceptor logic. It returns (proceed, landAndCrash, err).
func (s *Store) enter(c *Call) (land bool, crashAfter bool, err error) {
	s.b.mu.Lock()
	s.b.seq++
	c.Seq = s.b.seq
	s.b.mu.Unlock()
	c.Actor = s.actor
	c.Store = s.b.Name

	if s.proc != nil && s.proc.Crashed() {
		return false, false, ErrCrashed
	}
	s.mu.Lock()
	if s.crashed {
		s.mu.Unlock()
		return false, false, ErrCrashed
	}
	before := s.before
	s.mu.Unlock()

	for _, i := range before {
		if e := i(c); e != nil {
			return false, false, e
		}
	}

	s.mu.Lock()
	defer s.mu.Unlock()
	if s.crashed {
		return false, false, ErrCrashed
	}
	for _, f := range s.faults {
		if f.Op != "" && f.Op != c.Op {
			continue
		}
		if f.KeySub != "" && !strings.Contains(c.Key, f.KeySub) {
			continue
		}
		f.seen++
		if f.seen >= f.Nth && f.seen < f.Nth+f.Times {
			f.Hits++
			s.faultHits++
			if f.Err != nil {
				return false, false, f.Err
			}
			return false, false, ErrInjected
		}
	}
	if s.proc != nil {
		p := s.proc
		p.mu.Lock()
		defer p.mu.Unlock()
		if p.crashed {
			return false, false, ErrCrashed
		}
		if Mutating(c.Op) {
			p.mutCount++
			c.MutIdx = p.mutCount
			p.Log = append(p.Log, s.b.Name+":"+c.Op+":"+c.Key)
			if p.crashAt > 0 && p.mutCount == p.crashAt {
				p.crashed = true
				if p.crashLand {
					return true, true, nil
				}
				return false, false, ErrCrashed
			}
			if p.failAt > 0 && p.mutCount == p.failAt && !p.failed {
				p.failed = true
				if p.failLand {
					return true, true, nil // lands, then reports an error (see callers: crashAfter path)
				}
				return false, false, ErrInjected
			}
		}
	}
	if Mutating(c.Op) {
		s.mutCount++
		c.MutIdx = s.mutCount
		if s.crashAt > 0 && s.mutCount == s.crashAt {
			s.crashed = true
			if s.crashLand {
				return true, true, nil
			}
			return false, false, ErrCrashed
		}
	}
	return true, false, nil
}

var doneStamp int64

func (s *Store) leave(c *Call) {
	c.Done = atomic.AddInt64(&doneStamp, 1)
	s.b.mu.Lock()
	s.b.record(*c)
	s.b.mu.Unlock()
	s.mu.Lock()
	after := s.after
	s.mu.Unlock()
	for _, f := range after {
		f(c)
	}
}

// Has this object in the store?
func (s *Store) Has(_ context.Context, key string) (bool, error) {
	c := &Call{Op: OpHas, Key: key}
	defer s.leave(c)
	if _, _, err := s.enter(c); err != nil {
		c.Err = err
		return false, err
	}
	s.b.mu.Lock()
	_, ok := s.b.objs[key]
	s.b.mu.Unlock()
	return ok, nil
}

type reader struct {
	*bytes.Reader
}

func (r reader) Close() error { return nil }

// Get this object's bytes (a snapshot of the current generation)
func (s *Store) Get(_ context.Context, key string) (io.ReadCloser, error) {
	c := &Call{Op: OpGet, Key: key}
	defer s.leave(c)
	if _, _, err := s.enter(c); err != nil {
		c.Err = err
		return nil, err
	}
	s.b.mu.Lock()
	o, ok := s.b.objs[key]
	var data []byte
	if ok {
		data = o.Data // never mutated in place: put() copies
	}
	s.b.mu.Unlock()
	if !ok {
		c.Err = notExists(key)
		return nil, c.Err
	}
	return reader{bytes.NewReader(data)}, nil
}

// GetAttr looks up attributes
func (s *Store) GetAttr(_ context.Context, key string) (storage.Attributes, error) {
	c := &Call{Op: OpGetAttr, Key: key}
	defer s.leave(c)
	if _, _, err := s.enter(c); err != nil {
		c.Err = err
		return storage.Attributes{}, err
	}
	s.b.mu.Lock()
	defer s.b.mu.Unlock()
	o, ok := s.b.objs[key]
	if !ok {
		c.Err = notExists(key)
		return storage.Attributes{}, c.Err
	}
	return storage.Attributes{Created: o.Created, Updated: o.Updated, Owner: "verif", Size: int64(len(o.Data)), CRC32C: o.CRC}, nil
}

type readerAt struct {
	s   *Store
	key string
}

func (r readerAt) ReadAt(p []byte, off int64) (int, error) {
	c := &Call{Op: OpReadAt, Key: r.key}
	defer r.s.leave(c)
	if _, _, err := r.s.enter(c); err != nil {
		c.Err = err
		return 0, err
	}
	r.s.b.mu.Lock()
	o, ok := r.s.b.objs[r.key]
	var data []byte
	if ok {
		data = o.Data
	}
	r.s.b.mu.Unlock()
	if !ok {
		c.Err = notExists(r.key)
		return 0, c.Err
	}
	return bytes.NewReader(data).ReadAt(p, off)
}

// GetAt returns a lazy random access reader (like the GCS backend, it never fails here)
func (s *Store) GetAt(_ context.Context, key string) (io.ReaderAt, error) {
	c := &Call{Op: OpGetAt, Key: key}
	defer s.leave(c)
	if _, _, err := s.enter(c); err != nil {
		c.Err = err
		return nil, err
	}
	return readerAt{s: s, key: key}, nil
}

// Touch bumps the update time of an existing object
func (s *Store) Touch(_ context.Context, key string) error {
	c := &Call{Op: OpTouch, Key: key}
	defer s.leave(c)
	land, _, err := s.enter(c)
	if err != nil {
		c.Err = err
		return err
	}
	if !land {
		return nil
	}
	s.b.mu.Lock()
	o, ok := s.b.objs[key]
	if ok {
		o.Updated = s.b.tick()
		c.Landed = true
	}
	s.b.mu.Unlock()
	if !ok {
		c.Err = notExists(key)
		return c.Err
	}
	if s.Crashed() {
		c.Err = ErrCrashed
		return ErrCrashed
	}
	return nil
}

// Put writes an object. The source is drained before the object becomes visible.
func (s *Store) Put(ctx context.Context, key string, r io.Reader, noOverwrite bool) error {
	return s.putObject(ctx, key, r, noOverwrite, false, 0)
}

func (s *Store) putObject(_ context.Context, key string, r io.Reader, noOverwrite bool, hasCRC bool, crc uint32) error {
	c := &Call{Op: OpPut, Key: key, Excl: noOverwrite}
	defer s.leave(c)
	// the source is consumed first, as a real upload would do
	data, rerr := io.ReadAll(r)
	c.Size = len(data)
	land, crashAfter, err := s.enter(c)
	if err != nil {
		c.Err = err
		return err
	}
	if rerr != nil {
		c.Err = rerr
		return rerr
	}
	if !land {
		return nil
	}
	if hasCRC && crc32.Checksum(data, crc32.MakeTable(crc32.Castagnoli)) != crc {
		c.Err = storagestatus.ErrStorageAPI.Wrap(fmt.Errorf("googleapi: Error 400: Provided CRC32C doesn't match calculated CRC32C"))
		return c.Err
	}
	s.b.mu.Lock()
	_, exists := s.b.objs[key]
	if exists && noOverwrite {
		s.b.mu.Unlock()
		c.Err = precondition(key)
		if crashAfter {
			c.Err = ErrCrashed
		}
		return c.Err
	}
	s.b.put(key, data, hasCRC, crc)
	c.Landed = true
	s.b.mu.Unlock()
	if crashAfter {
		c.Err = ErrCrashed
		return ErrCrashed
	}
	return nil
}

// Delete removes an object; a missing object is an error (GCS semantics)
func (s *Store) Delete(_ context.Context, key string) error {
	c := &Call{Op: OpDelete, Key: key}
	defer s.leave(c)
	land, crashAfter, err := s.enter(c)
	if err != nil {
		c.Err = err
		return err
	}
	if !land {
		return nil
	}
	s.b.mu.Lock()
	_, ok := s.b.objs[key]
	if ok {
		delete(s.b.objs, key)
		s.b.dirty = true
		s.b.tick()
		c.Landed = true
	}
	s.b.mu.Unlock()
	if crashAfter {
		c.Err = ErrCrashed
		return ErrCrashed
	}
	if !ok {
		c.Err = notExists(key)
		return c.Err
	}
	return nil
}

// Clear is not implemented on cloud stores
func (s *Store) Clear(context.Context) error {
	return storagestatus.ErrNotImplemented
}

// Keys returns all keys
func (s *Store) Keys(ctx context.Context) ([]string, error) {
	c := &Call{Op: OpKeys}
	defer s.leave(c)
	if _, _, err := s.enter(c); err != nil {
		c.Err = err
		return nil, err
	}
	s.b.mu.Lock()
	defer s.b.mu.Unlock()
	return append([]string{}, s.b.sortedKeys()...), nil
}

// KeysPrefix lists keys (or collapsed prefixes) in lexicographic order starting at the first
// item >= pageToken.
func (s *Store) KeysPrefix(_ context.Context, pageToken, prefix, delimiter string, count int) ([]string, string, error) {
	c := &Call{Op: OpKeysPrefix, Key: prefix, Comment: pageToken}
	defer s.leave(c)
	if _, _, err := s.enter(c); err != nil {
		c.Err = err
		return nil, "", err
	}
	if count <= 0 {
		count = 1000
	}
	s.b.mu.Lock()
	defer s.b.mu.Unlock()
	all := s.b.sortedKeys()
	start := sort.SearchStrings(all, prefix)
	out := make([]string, 0, count)
	last := ""
	haveLast := false
	for i := start; i < len(all); i++ {
		k := all[i]
		if !strings.HasPrefix(k, prefix) {
			break
		}
		item := k
		if delimiter != "" {
			if cut := strings.Index(k[len(prefix):], delimiter); cut >= 0 {
				item = k[:len(prefix)+cut+len(delimiter)]
			}
		}
		if haveLast && item == last {
			continue
		}
		last, haveLast = item, true
		if pageToken != "" && item < pageToken {
			continue
		}
		if len(out) == count {
			return out, item, nil
		}
		out = append(out, item)
	}
	return out, "", nil
}

// CRCStore is a view that additionally implements storage.StoreCRC
type CRCStore struct {
	*Store
}

var _ storage.StoreCRC = CRCStore{}

// PutCRC writes with a client-side CRC which is verified
func (s CRCStore) PutCRC(ctx context.Context, key string, r io.Reader, noOverwrite bool, crc uint32) error {
	return s.putObject(ctx, key, r, noOverwrite, true, crc)
}

// WithCRC wraps the view into one implementing StoreCRC
func (s *Store) WithCRC() CRCStore { return CRCStore{s} }
