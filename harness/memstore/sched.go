package memstore

import (
	"fmt"
	"os"
	"runtime"
	"sort"
	"sync"
	"time"
)

// Sched serialises the store calls of a set of actors: every store call of a registered view
// parks until the controller releases it. Exactly one call runs at a time, so an execution is
// (up to datamon-internal goroutines) a function of the choice sequence.
type Sched struct {
	mu      sync.Mutex
	parked  []*parkedCall
	running int // actors still running
	live    map[string]bool
	done    map[string]bool
	wake    chan struct{}
	History []string // released calls in order
	Branch  []int    // number of actors that could have been chosen at each step
	Chosen  []int    // index (among the sorted contending actors) chosen at each step
	free    bool     // when set, calls are not parked anymore (drain mode)
}

type parkedCall struct {
	actor string
	call  *Call
	ch    chan struct{}
	order int64
}

// NewSched creates a scheduler
func NewSched() *Sched {
	return &Sched{done: map[string]bool{}, live: map[string]bool{}, wake: make(chan struct{}, 1024)}
}

func (s *Sched) poke() {
	select {
	case s.wake <- struct{}{}:
	default:
	}
}

// Attach makes every call of the view a yield point
func (s *Sched) Attach(v *Store) {
	v.Before(func(c *Call) error {
		s.mu.Lock()
		if s.free {
			s.mu.Unlock()
			return nil
		}
		p := &parkedCall{actor: v.actor, call: c, ch: make(chan struct{}), order: c.Seq}
		s.parked = append(s.parked, p)
		s.mu.Unlock()
		s.poke()
		<-p.ch
		return nil
	})
}

// Go starts an actor
func (s *Sched) Go(name string, f func()) {
	s.mu.Lock()
	s.running++
	s.live[name] = true
	s.mu.Unlock()
	go func() {
		defer func() {
			s.mu.Lock()
			s.running--
			delete(s.live, name)
			s.done[name] = true
			s.mu.Unlock()
			s.poke()
		}()
		f()
	}()
}

// settle waits until something is parked or everything finished; gives other goroutines a
// short chance to reach their next yield point so that choices are made among all contenders.
func (s *Sched) settle(timeout time.Duration) (nparked, running int) {
	deadline := time.Now().Add(timeout)
	for {
		s.mu.Lock()
		np, run := len(s.parked), s.running
		all := np > 0
		if all {
			has := map[string]bool{}
			for _, p := range s.parked {
				has[p.actor] = true
			}
			for a := range s.live {
				if !has[a] {
					all = false
					break
				}
			}
		}
		s.mu.Unlock()
		if run == 0 && np == 0 {
			return 0, 0
		}
		if all {
			// every running actor has at least one parked call: settled
			return np, run
		}
		if time.Now().After(deadline) {
			return np, run
		}
		select {
		case <-s.wake:
		case <-time.After(200 * time.Microsecond):
		}
		runtime.Gosched()
	}
}

// Run drives the actors until all finished. choices[i] selects which parked call proceeds at
// step i (modulo the number of parked calls, after sorting them by actor then arrival); when
// choices run out index 0 is used. It returns an error if nothing progresses for stall.
func (s *Sched) Run(choices []int, stall time.Duration) error {
	// the stall limit only guards against a harness deadlock; on a heavily loaded machine an actor may
	// need long to reach its next store call, so the nominal limit is stretched (VERIF_GUARD_FACTOR, default 5)
	stall *= time.Duration(stallFactor())
	step := 0
	for {
		np, run := s.settle(20 * time.Millisecond)
		if np == 0 && run == 0 {
			return nil
		}
		if np == 0 {
			// actors running but nobody parked: wait longer
			np, run = s.settle(stall)
			if np == 0 && run == 0 {
				return nil
			}
			if np == 0 {
				return fmt.Errorf("scheduler stalled: %d actors running, none parked", run)
			}
		}
		s.mu.Lock()
		sort.SliceStable(s.parked, func(i, j int) bool {
			if s.parked[i].actor != s.parked[j].actor {
				return s.parked[i].actor < s.parked[j].actor
			}
			return s.parked[i].order < s.parked[j].order
		})
		// choose among distinct actors first: the choice picks an actor, then its oldest call
		actors := []string{}
		for _, p := range s.parked {
			if len(actors) == 0 || actors[len(actors)-1] != p.actor {
				actors = append(actors, p.actor)
			}
		}
		ch := 0
		if step < len(choices) {
			ch = choices[step]
		}
		if ch < 0 {
			ch = -ch
		}
		a := actors[ch%len(actors)]
		s.Branch = append(s.Branch, len(actors))
		s.Chosen = append(s.Chosen, ch%len(actors))
		idx := -1
		for i, p := range s.parked {
			if p.actor == a {
				idx = i
				break
			}
		}
		p := s.parked[idx]
		s.parked = append(s.parked[:idx], s.parked[idx+1:]...)
		s.History = append(s.History, fmt.Sprintf("%s:%s:%s", p.actor, p.call.Op, p.call.Key))
		s.mu.Unlock()
		step++
		close(p.ch)
		// let the released call complete and its goroutine reach the next yield point
		runtime.Gosched()
	}
}

func stallFactor() int {
	f := 5
	if v := os.Getenv("VERIF_GUARD_FACTOR"); v != "" {
		if _, err := fmt.Sscanf(v, "%d", &f); err != nil || f < 1 {
			f = 5
		}
	}
	return f
}

// Free releases everything parked and stops parking (used for clean-up after a failure)
func (s *Sched) Free() {
	s.mu.Lock()
	s.free = true
	ps := s.parked
	s.parked = nil
	s.mu.Unlock()
	for _, p := range ps {
		close(p.ch)
	}
}

// Gate blocks Get calls on keys accepted by match until released in order.
type Gate struct {
	mu      sync.Mutex
	match   func(c *Call) bool
	waiting map[string]chan struct{}
	arrived chan string
	open    bool
}

// NewGate creates a gate for calls selected by match
func NewGate(match func(c *Call) bool) *Gate {
	return &Gate{match: match, waiting: map[string]chan struct{}{}, arrived: make(chan string, 1024)}
}

// Attach installs the gate on a view
func (g *Gate) Attach(v *Store) {
	v.Before(func(c *Call) error {
		if !g.match(c) {
			return nil
		}
		g.mu.Lock()
		if g.open {
			g.mu.Unlock()
			return nil
		}
		ch := make(chan struct{})
		g.waiting[c.Key] = ch
		g.mu.Unlock()
		g.arrived <- c.Key
		<-ch
		return nil
	})
}

// WaitArrivals blocks until n gated calls are waiting (or timeout); returns the keys waiting
func (g *Gate) WaitArrivals(n int, timeout time.Duration) []string {
	deadline := time.After(timeout)
	for {
		g.mu.Lock()
		cur := len(g.waiting)
		g.mu.Unlock()
		if cur >= n {
			break
		}
		select {
		case <-g.arrived:
		case <-deadline:
			goto out
		}
	}
out:
	g.mu.Lock()
	defer g.mu.Unlock()
	ks := make([]string, 0, len(g.waiting))
	for k := range g.waiting {
		ks = append(ks, k)
	}
	sort.Strings(ks)
	return ks
}

// WaitArrivalsIdle is WaitArrivals that also gives up when, after the first arrival, no further call has arrived
// for the idle duration (the remaining calls will presumably never come), or when stop is closed
func (g *Gate) WaitArrivalsIdle(n int, timeout, idle time.Duration, stop <-chan struct{}) []string {
	deadline := time.After(timeout)
	for {
		g.mu.Lock()
		cur := len(g.waiting)
		g.mu.Unlock()
		if cur >= n {
			break
		}
		var idleC <-chan time.Time
		if cur > 0 {
			idleC = time.After(idle)
		}
		select {
		case <-g.arrived:
			continue
		case <-idleC:
		case <-deadline:
		case <-stop: // the gated party is gone: nothing more will arrive
		}
		break
	}
	return g.WaitArrivals(0, 0)
}

// Release lets the waiting call on key proceed
func (g *Gate) Release(key string) bool {
	g.mu.Lock()
	ch, ok := g.waiting[key]
	delete(g.waiting, key)
	g.mu.Unlock()
	if ok {
		close(ch)
	}
	return ok
}

// Open releases everything and disables the gate
func (g *Gate) Open() {
	g.mu.Lock()
	g.open = true
	w := g.waiting
	g.waiting = map[string]chan struct{}{}
	g.mu.Unlock()
	for _, ch := range w {
		close(ch)
	}
}
