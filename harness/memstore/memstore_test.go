package memstore

import (
	"bytes"
	"context"
	"errors"
	"io"
	"sort"
	"strings"
	"testing"

	storagestatus "github.com/oneconcern/datamon/pkg/storage/status"
	"pgregory.net/rapid"
)

// Self-test of the reference store against a plain map model, incl. pagination and delimiter.
func TestAgainstMap(t *testing.T) {
	rapid.Check(t, func(t *rapid.T) {
		b := NewBackend("t")
		s := b.View("a")
		model := map[string][]byte{}
		ctx := context.Background()
		keyGen := rapid.StringMatching(`(a|ab|a-b|b|A)(/(a|ab|b|x\.y)){0,3}`)
		t.Repeat(map[string]func(*rapid.T){
			"put": func(t *rapid.T) {
				k, v := keyGen.Draw(t, "k"), rapid.SliceOfN(rapid.Byte(), 0, 8).Draw(t, "v")
				excl := rapid.Bool().Draw(t, "excl")
				err := s.Put(ctx, k, bytes.NewReader(v), excl)
				_, had := model[k]
				if excl && had {
					if err == nil || !errors.Is(err, storagestatus.ErrExists) {
						t.Fatalf("exclusive put on existing key: err=%v", err)
					}
					return
				}
				if err != nil {
					t.Fatalf("put: %v", err)
				}
				model[k] = v
			},
			"delete": func(t *rapid.T) {
				k := keyGen.Draw(t, "k")
				err := s.Delete(ctx, k)
				if _, had := model[k]; had {
					if err != nil {
						t.Fatalf("delete: %v", err)
					}
					delete(model, k)
				} else if !errors.Is(err, storagestatus.ErrNotExists) {
					t.Fatalf("delete missing: %v", err)
				}
			},
			"get": func(t *rapid.T) {
				k := keyGen.Draw(t, "k")
				r, err := s.Get(ctx, k)
				want, had := model[k]
				if !had {
					if !errors.Is(err, storagestatus.ErrNotExists) {
						t.Fatalf("get missing: %v", err)
					}
					return
				}
				got, _ := io.ReadAll(r)
				if !bytes.Equal(got, want) {
					t.Fatalf("get %q: %q want %q", k, got, want)
				}
				has, _ := s.Has(ctx, k)
				if !has {
					t.Fatalf("has")
				}
			},
			"list": func(t *rapid.T) {
				prefix := rapid.SampledFrom([]string{"", "a", "a/", "ab", "a-b/", "b/a", "zz", "a/a/"}).Draw(t, "prefix")
				delim := rapid.SampledFrom([]string{"", "/"}).Draw(t, "delim")
				count := rapid.IntRange(1, 5).Draw(t, "count")
				var got []string
				tok := ""
				for i := 0; ; i++ {
					ks, next, err := s.KeysPrefix(ctx, tok, prefix, delim, count)
					if err != nil {
						t.Fatalf("list: %v", err)
					}
					if len(ks) > count {
						t.Fatalf("page too large")
					}
					got = append(got, ks...)
					if next == "" {
						break
					}
					tok = next
					if i > 1000 {
						t.Fatalf("pagination does not end")
					}
				}
				set := map[string]bool{}
				for k := range model {
					if !strings.HasPrefix(k, prefix) {
						continue
					}
					item := k
					if delim != "" {
						if cut := strings.Index(k[len(prefix):], delim); cut >= 0 {
							item = k[:len(prefix)+cut+1]
						}
					}
					set[item] = true
				}
				want := make([]string, 0, len(set))
				for k := range set {
					want = append(want, k)
				}
				sort.Strings(want)
				if strings.Join(got, "\n") != strings.Join(want, "\n") {
					t.Fatalf("list(%q,%q,%d): got %v want %v", prefix, delim, count, got, want)
				}
			},
		})
	})
}

func TestCrashPlan(t *testing.T) {
	b := NewBackend("t")
	s := b.View("a")
	ctx := context.Background()
	s.CrashAt(2, false)
	if err := s.Put(ctx, "k1", strings.NewReader("1"), true); err != nil {
		t.Fatal(err)
	}
	if err := s.Put(ctx, "k2", strings.NewReader("2"), true); !errors.Is(err, ErrCrashed) {
		t.Fatalf("want crash, got %v", err)
	}
	if _, ok := b.RawGet("k2"); ok {
		t.Fatal("crash-before landed")
	}
	if _, err := s.Get(ctx, "k1"); !errors.Is(err, ErrCrashed) {
		t.Fatalf("calls after the crash must fail: %v", err)
	}
	s.Restart()
	s.CrashAt(1, true)
	if err := s.Put(ctx, "k3", strings.NewReader("3"), true); !errors.Is(err, ErrCrashed) {
		t.Fatalf("want crash, got %v", err)
	}
	if _, ok := b.RawGet("k3"); !ok {
		t.Fatal("crash-after did not land")
	}
}
