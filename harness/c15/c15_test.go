package c15

import (
	"context"
	"fmt"
	"os"
	"runtime"
	"sort"
	"strings"
	"sync"
	"testing"
	"time"

	"github.com/oneconcern/datamon/pkg/cafs"
	"github.com/oneconcern/datamon/pkg/core"
	"github.com/oneconcern/datamon/pkg/model"
	"pgregory.net/rapid"

	"verifharness/evid"
	"verifharness/hx"
	"verifharness/memstore"
)

var stats = evid.New("C15", "rapid: a workload of 2..16 goroutines over shared stores built with the race detector: bundle uploads of trees drawn from a small shared content pool (heavy overlap, multi-leaf files), split uploads into one diamond, downloads of pre-existing bundles, label sets, a commit of a second (already completed) diamond - all started together, with seeded scheduler jitter (Gosched bursts) at every store call - followed by the commit of the first diamond. Oracle: every operation succeeds and yields what it yields alone (bundle entries as sets with independently computed keys, downloaded bytes, label values, commit = union of split files); the process's race report must be empty (the driver turns a DATA RACE report into a violation). Non-trivial: the blob-store trace shows >= 2 concurrent operations touching the same blob key; distinct by (operation multiset, #shared blob keys class).")

const repo = "repo"

func TestMain(m *testing.M) {
	code := m.Run()
	stats.Flush()
	os.Exit(code)
}

type opT struct {
	Kind  string `json:"kind"` // upload | split | download | label | commit2
	Files []int  `json:"files,omitempty"`
	Conc  int    `json:"conc,omitempty"`
	Which int    `json:"which,omitempty"`
}

type caseT struct {
	Ops    []opT  `json:"ops"`
	Jitter uint64 `json:"jitter"`
	CRC    bool   `json:"crc"`
}

const leaf = 4096

// shared content pool: some multi-leaf, sharing leading leaves
func pool() [][]byte {
	base := hx.Expand(42, 3*leaf+17, 0, 0)
	big := hx.Expand(43, 19*leaf+100, 0, 0)
	return [][]byte{
		base,
		base[:2*leaf],
		base[:leaf],
		append(append([]byte{}, base[:leaf]...), hx.Expand(7, 100, 0, 0)...),
		hx.Expand(9, 10, 0, 0),
		{},
		hx.Expand(11, leaf+1, 0, 0),
		// larger than the 32 KiB copy buffer of io.Copy: the uploader's source buffer is refilled while
		// earlier leaves of the same file may still be in flight
		big,
		big[:9*leaf],
	}
}

func drawCase(t *rapid.T) caseT {
	c := caseT{Jitter: rapid.Uint64().Draw(t, "jitter"), CRC: rapid.Bool().Draw(t, "crc")}
	n := rapid.IntRange(2, 16).Draw(t, "nops")
	commit2 := false
	for i := 0; i < n; i++ {
		k := rapid.SampledFrom([]string{"upload", "upload", "upload", "split", "split", "download", "label", "commit2"}).Draw(t, "kind")
		if k == "commit2" {
			if commit2 {
				k = "upload"
			}
			commit2 = true
		}
		op := opT{Kind: k}
		switch k {
		case "upload", "split":
			op.Files = rapid.SliceOfN(rapid.IntRange(0, 8), 1, 5).Draw(t, "files")
			op.Conc = rapid.IntRange(1, 8).Draw(t, "conc")
		case "download", "label":
			op.Which = rapid.IntRange(0, 1).Draw(t, "which")
			op.Conc = rapid.IntRange(1, 8).Draw(t, "conc")
		}
		c.Ops = append(c.Ops, op)
	}
	return c
}

func treeOf(files []int, prefix string) hx.Tree {
	p := pool()
	t := hx.Tree{}
	for j, f := range files {
		t[fmt.Sprintf("%sf%d-%d", prefix, j, f)] = p[f]
	}
	return t
}

var keyCache sync.Map

func keyOf(data []byte, l uint32) (string, error) {
	k := fmt.Sprintf("%d/%x", l, data)
	if v, ok := keyCache.Load(k); ok {
		return v.(string), nil
	}
	v, err := hx.CafsKey(data, l)
	if err == nil {
		keyCache.Store(k, v)
	}
	return v, err
}

func entriesOf(stores *hx.Views, id string) (map[string]string, error) {
	b := hx.NewBundle(repo, stores.Stores, nil, 0, core.BundleID(id))
	if err := core.DownloadMetadata(context.Background(), b); err != nil {
		return nil, err
	}
	out := map[string]string{}
	for _, e := range b.BundleEntries {
		if _, dup := out[e.NameWithPath]; dup {
			return nil, fmt.Errorf("entry %q listed twice", e.NameWithPath)
		}
		out[e.NameWithPath] = fmt.Sprintf("%s/%d", e.Hash, e.Size)
	}
	return out, nil
}

func expectEntries(t hx.Tree, l uint32) (map[string]string, error) {
	out := map[string]string{}
	for p, d := range t {
		k, err := keyOf(d, l)
		if err != nil {
			return nil, err
		}
		out[p] = fmt.Sprintf("%s/%d", k, len(d))
	}
	return out, nil
}

func sameMap(a, b map[string]string) string {
	var diffs []string
	for k, v := range b {
		if a[k] != v {
			diffs = append(diffs, fmt.Sprintf("%s: got %q want %q", k, a[k], v))
		}
	}
	for k := range a {
		if _, ok := b[k]; !ok {
			diffs = append(diffs, "unexpected "+k)
		}
	}
	sort.Strings(diffs)
	if len(diffs) > 4 {
		diffs = diffs[:4]
	}
	return strings.Join(diffs, "; ")
}

func jitter(seed uint64) memstore.Interceptor {
	return func(c *memstore.Call) error {
		x := (seed ^ uint64(c.Seq)*0x9E3779B97F4A7C15) * 0xBF58476D1CE4E5B9
		n := int(x>>60) & 7
		if c.Op == memstore.OpPut && c.Store == "blob" {
			// widen the window between a writer's existence check and its write of a blob
			n += 20 + int(x>>50)&31
		}
		for i := 0; i < n; i++ {
			runtime.Gosched()
		}
		return nil
	}
}

type outcome struct {
	sig        string
	nontrivial bool
}

func runCase(c caseT) (outcome, error) {
	var out outcome
	sc := hx.NewScratch()
	defer sc.Close()
	env := hx.NewEnv()
	env.CRC = c.CRC
	prep := env.Actor("prep")
	if err := hx.CreateRepo(prep.Stores, repo); err != nil {
		return out, err
	}
	// two pre-existing bundles
	seedTrees := []hx.Tree{treeOf([]int{0, 2, 4}, "seed0/"), treeOf([]int{1, 3, 6, 5}, "seed1/")}
	var seedIDs []string
	for i, tr := range seedTrees {
		id, err := hx.UploadTree(sc, prep.Stores, repo, tr, leaf, core.BundleID(hx.KSUID(i+1, uint64(i+1))))
		if err != nil {
			return out, fmt.Errorf("seed upload: %v", err)
		}
		seedIDs = append(seedIDs, id)
	}
	// diamond 1 receives the concurrent splits; diamond 2 is complete and gets committed concurrently
	d1, err := hx.CreateDiamond(prep.Stores, repo)
	if err != nil {
		return out, err
	}
	d2, err := hx.CreateDiamond(prep.Stores, repo)
	if err != nil {
		return out, err
	}
	d2want := hx.Tree{}
	for s := 0; s < 2; s++ {
		tr := treeOf([]int{s, s + 2, 4}, fmt.Sprintf("d2s%d/", s))
		dir := sc.Dir("d2split")
		if err := tr.Write(dir); err != nil {
			return out, err
		}
		if _, err := hx.SplitAdd(prep.Stores, repo, d2.DiamondID, fmt.Sprintf("d2-split-%d", s), dir); err != nil {
			return out, fmt.Errorf("prepare diamond 2: %v", err)
		}
		for p, d := range tr {
			d2want[p] = d
		}
	}
	env.Blob.EnableTrace(true)

	type res struct {
		err error
		id  string
	}
	results := make([]res, len(c.Ops))
	views := make([]*hx.Views, len(c.Ops))
	dirs := make([]string, len(c.Ops))
	for i, op := range c.Ops {
		v := env.Actor(fmt.Sprintf("op%d-%s", i, op.Kind))
		for _, s := range v.All() {
			s.Before(jitter(c.Jitter + uint64(i)))
		}
		views[i] = v
		switch op.Kind {
		case "upload":
			dirs[i] = sc.Dir("up")
			if err := treeOf(op.Files, fmt.Sprintf("u%d/", i)).Write(dirs[i]); err != nil {
				return out, err
			}
		case "split":
			dirs[i] = sc.Dir("split")
			if err := treeOf(op.Files, fmt.Sprintf("s%d/", i)).Write(dirs[i]); err != nil {
				return out, err
			}
		case "download":
			dirs[i] = sc.Dir("down")
		}
	}
	var wg sync.WaitGroup
	start := make(chan struct{})
	for i, op := range c.Ops {
		wg.Add(1)
		go func(i int, op opT) {
			defer wg.Done()
			<-start
			v := views[i]
			ctx := context.Background()
			switch op.Kind {
			case "upload":
				b := hx.NewBundle(repo, v.Stores, hx.Local(dirs[i]), leaf, core.BundleID(hx.KSUID(100+i, uint64(i))), core.ConcurrentFileUploads(op.Conc))
				results[i] = res{core.Upload(ctx, b), b.BundleID}
			case "split":
				_, err := hx.SplitAdd(v.Stores, repo, d1.DiamondID, fmt.Sprintf("split-%d", i), dirs[i], core.SplitConcurrentFileUploads(op.Conc))
				results[i] = res{err: err}
			case "download":
				b := hx.NewBundle(repo, v.Stores, hx.Local(dirs[i]), 0, core.BundleID(seedIDs[op.Which]), core.ConcurrentFileDownloads(op.Conc))
				results[i] = res{err: core.Publish(ctx, b)}
			case "label":
				b := hx.NewBundle(repo, v.Stores, nil, 0, core.BundleID(seedIDs[op.Which]))
				l := core.NewLabel(core.LabelDescriptor(model.NewLabelDescriptor(model.LabelName(fmt.Sprintf("label-%d", i)), model.LabelContributor(model.Contributor{Name: "v", Email: "v@example.com"}))))
				results[i] = res{err: l.UploadDescriptor(ctx, b)}
			case "commit2":
				d, err := hx.Commit(v.Stores, repo, d2.DiamondID, model.EnableConflicts)
				r := res{err: err}
				if d != nil {
					r.id = d.BundleID
				}
				results[i] = r
			}
		}(i, op)
	}
	close(start)
	wg.Wait()

	obs := env.Actor("obs")
	nsplits := 0
	d1want := hx.Tree{}
	kinds := map[string]int{}
	for i, op := range c.Ops {
		kinds[op.Kind]++
		r := results[i]
		if r.err != nil {
			return out, fmt.Errorf("concurrent %s (op %d) failed: %v", op.Kind, i, r.err)
		}
		switch op.Kind {
		case "upload":
			got, err := entriesOf(obs, r.id)
			if err != nil {
				return out, fmt.Errorf("op %d upload: bundle unreadable: %v", i, err)
			}
			want, err := expectEntries(treeOf(op.Files, fmt.Sprintf("u%d/", i)), leaf)
			if err != nil {
				return out, err
			}
			if d := sameMap(got, want); d != "" {
				return out, fmt.Errorf("op %d: concurrent upload differs from the same upload alone: %s", i, d)
			}
			tree, err := hx.Download(sc, obs.Stores, repo, r.id)
			if err != nil {
				return out, fmt.Errorf("op %d: download of the concurrently uploaded bundle: %v", i, err)
			}
			if d := hx.DiffTrees(tree.WithoutMeta(), treeOf(op.Files, fmt.Sprintf("u%d/", i))); d != "" {
				return out, fmt.Errorf("op %d: concurrently uploaded bundle downloads differently: %s", i, d)
			}
		case "split":
			nsplits++
			for p, d := range treeOf(op.Files, fmt.Sprintf("s%d/", i)) {
				d1want[p] = d
			}
		case "download":
			tree, err := hx.ReadTree(dirs[i])
			if err != nil {
				return out, err
			}
			if d := hx.DiffTrees(tree.WithoutMeta(), seedTrees[op.Which]); d != "" {
				return out, fmt.Errorf("op %d: concurrent download differs: %s", i, d)
			}
		case "label":
			l := core.NewLabel(core.LabelDescriptor(model.NewLabelDescriptor(model.LabelName(fmt.Sprintf("label-%d", i)))))
			b := hx.NewBundle(repo, obs.Stores, nil, 0)
			if err := l.DownloadDescriptor(context.Background(), b, true); err != nil {
				return out, fmt.Errorf("op %d: label not resolvable: %v", i, err)
			}
			if l.Descriptor.BundleID != seedIDs[op.Which] {
				return out, fmt.Errorf("op %d: label resolves to %s want %s", i, l.Descriptor.BundleID, seedIDs[op.Which])
			}
		case "commit2":
			got, err := entriesOf(obs, r.id)
			if err != nil {
				return out, fmt.Errorf("commit of diamond 2: bundle unreadable: %v", err)
			}
			want, err := expectEntries(d2want, model.NewBundleDescriptor().LeafSize)
			if err != nil {
				return out, err
			}
			if d := sameMap(got, want); d != "" {
				return out, fmt.Errorf("concurrent commit differs from the commit alone: %s", d)
			}
		}
	}
	if nsplits > 0 {
		d, err := hx.Commit(obs.Stores, repo, d1.DiamondID, model.EnableConflicts)
		if err != nil {
			return out, fmt.Errorf("commit after the concurrent splits: %v", err)
		}
		got, err := entriesOf(obs, d.BundleID)
		if err != nil {
			return out, err
		}
		want, err := expectEntries(d1want, model.NewBundleDescriptor().LeafSize)
		if err != nil {
			return out, err
		}
		if df := sameMap(got, want); df != "" {
			return out, fmt.Errorf("commit after concurrent split uploads differs from the union of the splits: %s", df)
		}
	}
	// seeded bundles untouched
	for i, id := range seedIDs {
		tree, err := hx.Download(sc, obs.Stores, repo, id)
		if err != nil {
			return out, fmt.Errorf("pre-existing bundle %d: %v", i, err)
		}
		if d := hx.DiffTrees(tree.WithoutMeta(), seedTrees[i]); d != "" {
			return out, fmt.Errorf("pre-existing bundle %d changed: %s", i, d)
		}
	}
	// classification from the blob trace: keys touched by >= 2 concurrent operations
	touched := map[string]map[string]bool{}
	for _, e := range env.Blob.Trace() {
		if !strings.HasPrefix(e.Actor, "op") {
			continue
		}
		if touched[e.Key] == nil {
			touched[e.Key] = map[string]bool{}
		}
		touched[e.Key][e.Actor] = true
	}
	shared := 0
	for _, a := range touched {
		if len(a) > 1 {
			shared++
		}
	}
	cls := "0"
	switch {
	case shared > 10:
		cls = ">10"
	case shared > 3:
		cls = "4-10"
	case shared > 0:
		cls = "1-3"
	}
	var ks []string
	for k, n := range kinds {
		ks = append(ks, fmt.Sprintf("%s=%d", k, n))
	}
	sort.Strings(ks)
	out.sig = fmt.Sprintf("%s shared=%s", strings.Join(ks, ","), cls)
	out.nontrivial = shared > 0
	return out, nil
}

func TestProp(t *testing.T) {
	rapid.Check(t, func(t *rapid.T) {
		c := drawCase(t)
		hx.Journal(c)
		var out outcome
		err, hung, panicked := hx.Guard(600*time.Second, func() error {
			var e error
			out, e = runCase(c)
			return e
		})
		if hung || panicked || err != nil {
			t.Fatalf("%v (hung=%v panicked=%v)", err, hung, panicked)
		}
		stats.Case(out.sig, out.nontrivial, func() interface{} { return c })
		stats.Count(fmt.Sprintf("ops_%d", len(c.Ops)), 1)
	})
}

// rendezvous holds the first existence check of every writer on one blob key until all writers asked
// (or a grace period elapsed: scenario shaping only), forcing check, check, ..., put, put, ...
type rendezvous struct {
	mu      sync.Mutex
	key     string
	want    int
	arrived map[string]bool
	open    chan struct{}
	once    sync.Once
}

func (r *rendezvous) intercept(c *memstore.Call) error {
	if c.Op != memstore.OpGetAttr || c.Key != r.key {
		return nil
	}
	r.mu.Lock()
	if r.arrived[c.Actor] {
		r.mu.Unlock()
		return nil
	}
	r.arrived[c.Actor] = true
	n := len(r.arrived)
	r.mu.Unlock()
	if n >= r.want {
		r.once.Do(func() { close(r.open) })
	}
	select {
	case <-r.open:
	case <-time.After(3 * time.Second):
		r.once.Do(func() { close(r.open) })
	}
	return nil
}

// TestRegressIdenticalLeafWriters: N uploads and split uploads store the same not-yet-present content at the
// same moment, with their existence checks on the first leaf forced to happen before any of their writes
func TestRegressIdenticalLeafWriters(t *testing.T) {
	for _, n := range []int{2, 4} {
		sc := hx.NewScratch()
		env := hx.NewEnv()
		prep := env.Actor("prep")
		if err := hx.CreateRepo(prep.Stores, repo); err != nil {
			t.Fatal(err)
		}
		d1, err := hx.CreateDiamond(prep.Stores, repo)
		if err != nil {
			t.Fatal(err)
		}
		data := hx.Expand(uint64(1000+n), 2*leaf+5, 0, 0)
		// uploads use the 4096 leaf, splits the default leaf: watch the first blob each kind writes
		kUp, err := cafs.KeyFromBytes(data[:leaf], leaf, 1, false)
		if err != nil {
			t.Fatal(err)
		}
		kSplit, err := cafs.KeyFromBytes(data, model.NewBundleDescriptor().LeafSize, 0, true)
		if err != nil {
			t.Fatal(err)
		}
		rvUp := &rendezvous{key: kUp.String(), want: n, arrived: map[string]bool{}, open: make(chan struct{})}
		rvSplit := &rendezvous{key: kSplit.String(), want: n, arrived: map[string]bool{}, open: make(chan struct{})}
		errs := make([]error, 2*n)
		ids := make([]string, 2*n)
		var wg sync.WaitGroup
		for i := 0; i < 2*n; i++ {
			v := env.Actor(fmt.Sprintf("w%d", i))
			v.Blob.Before(rvUp.intercept)
			v.Blob.Before(rvSplit.intercept)
			dir := sc.Dir("w")
			if err := (hx.Tree{fmt.Sprintf("w%d/file", i): data}).Write(dir); err != nil {
				t.Fatal(err)
			}
			wg.Add(1)
			go func(i int, v *hx.Views, dir string) {
				defer wg.Done()
				if i < n {
					b := hx.NewBundle(repo, v.Stores, hx.Local(dir), leaf, core.BundleID(hx.KSUID(200+i, uint64(i))))
					errs[i] = core.Upload(context.Background(), b)
					ids[i] = b.BundleID
				} else {
					_, errs[i] = hx.SplitAdd(v.Stores, repo, d1.DiamondID, fmt.Sprintf("split-%d", i), dir)
				}
			}(i, v, dir)
		}
		wg.Wait()
		obs := env.Actor("obs")
		for i := 0; i < 2*n; i++ {
			if errs[i] != nil {
				t.Fatalf("writer %d of %d storing content identical to its peers failed: %v", i, 2*n, errs[i])
			}
			if i < n {
				tree, err := hx.Download(sc, obs.Stores, repo, ids[i])
				if err != nil {
					t.Fatalf("bundle of writer %d: %v", i, err)
				}
				if d := hx.DiffTrees(tree.WithoutMeta(), hx.Tree{fmt.Sprintf("w%d/file", i): data}); d != "" {
					t.Fatalf("bundle of writer %d differs: %s", i, d)
				}
			}
		}
		stats.Case(fmt.Sprintf("identical-leaf-writers n=%d", n), true, func() interface{} {
			return fmt.Sprintf("%d uploads + %d split uploads of identical new content, existence checks forced before writes", n, n)
		})
		sc.Close()
	}
}
