package c07

import (
	"fmt"
	"os"
	"path"
	"sort"
	"strings"
	"sync/atomic"
	"testing"
	"time"

	context2 "github.com/oneconcern/datamon/pkg/context"
	"github.com/oneconcern/datamon/pkg/core"
	"github.com/oneconcern/datamon/pkg/model"
	"pgregory.net/rapid"

	"verifharness/evid"
	"verifharness/hx"
)

var stats = evid.New("C07", "rapid: a history creates 0..N repositories (N=40 quick, 300 thorough; names over letters/digits/hyphen, many being prefixes of others); 1-3 'focus' repos whose names are preferably prefixes of one another get 0..N bundles (harness-chosen KSUIDs, several per second, created out of order; real uploads, descriptors written at the documented path, and leftovers of interrupted uploads), 0..N labels (core API; few distinct bundle IDs so the sort key has ties; prefix-related names), 0..N diamonds (CreateDiamond/Cancel/Commit or written descriptors; initialized/canceled/done) each with 0..N splits (CreateSplit/Split.Upload or written descriptors; user-style and KSUID split IDs; 0-2 generations with 0-60 file-list index objects each). One EVALUATION = one listing call (ListRepos/ListBundles[also with WithMinimalBundle, as squash lists]/ListLabels[prefix]/ListDiamonds/ListSplits or its *Apply variant) with BatchSize in {1,2,3,5,8,64,1024,2048} or any 1..2048 and ConcurrentList in {1,2,7,32} or any 1..32, compared with the reference model: returned IDs == model set, each once (diamonds/splits: with the state of the final descriptor when there is one); order: bundles strictly ascending by ID; repos/labels: pages of BatchSize keys in key order, each page sorted by name / by bundle ID; diamonds/splits: non-decreasing start time when one page holds all keys under the scanned prefix. Non-trivial: >= 2 pages, or foreign keys under the scanned prefix (split descriptors and file lists, leftovers), or a prefix-related sibling repo holding objects of the kind; distinct by (kind, #objects class, page-size class, #pages class, foreign-key class, sibling flag).")

func TestMain(m *testing.M) {
	code := m.Run()
	stats.Flush()
	os.Exit(code)
}

// knownEmptyPage: fetchKeys stops at the first page that the basename filter leaves empty
const knownEmptyPage = "C07-empty-filtered-page-truncates-listing"
const whatEmptyPage = "core.ListDiamonds/ListSplits (and their *Apply variants, hence Diamond.Commit) stop at the first page of keys that contains no descriptor (fetchKeys: `len(ks)==0 => break` although the store returned a continuation token): diamonds or splits whose keys come after a run of >= BatchSize split/file-list keys are silently missing from the listing"

// ---------------------------------------------------------------------------------------------
// running the listings

type item struct {
	id    string
	state string
	start time.Time
	aux   string // label: bundle ID
}

func opts(l listT) []core.Option {
	var o []core.Option
	if !l.NoOpts {
		o = []core.Option{core.BatchSize(l.Batch), core.ConcurrentList(l.Conc)}
	}
	if l.Minimal {
		o = append(o, core.WithMinimalBundle(true))
	}
	return o
}

func effBatch(l listT) int {
	if l.NoOpts {
		return 1024
	}
	return l.Batch
}

func doList(stores context2.Stores, l listT, repo, did string) ([]item, error) {
	var out []item
	o := opts(l)
	switch l.Kind {
	case "repos":
		add := func(r model.RepoDescriptor) error { out = append(out, item{id: r.Name}); return nil }
		if l.Apply {
			return out, wrap(core.ListReposApply(stores, add, o...), &out)
		}
		rs, err := core.ListRepos(stores, o...)
		for _, r := range rs {
			_ = add(r)
		}
		return out, err
	case "bundles":
		add := func(b model.BundleDescriptor) error { out = append(out, item{id: b.ID}); return nil }
		if l.Apply {
			return out, wrap(core.ListBundlesApply(repo, stores, add, o...), &out)
		}
		bs, err := core.ListBundles(repo, stores, o...)
		for _, b := range bs {
			_ = add(b)
		}
		return out, err
	case "labels":
		if l.Prefix != "" {
			o = append(o, core.WithLabelPrefix(l.Prefix))
		}
		add := func(b model.LabelDescriptor) error { out = append(out, item{id: b.Name, aux: b.BundleID}); return nil }
		if l.Apply {
			return out, wrap(core.ListLabelsApply(repo, stores, add, o...), &out)
		}
		ls, err := core.ListLabels(repo, stores, o...)
		for _, b := range ls {
			_ = add(b)
		}
		return out, err
	case "diamonds":
		add := func(d model.DiamondDescriptor) error {
			out = append(out, item{id: d.DiamondID, state: string(d.State), start: d.StartTime})
			return nil
		}
		if l.Apply {
			return out, wrap(core.ListDiamondsApply(repo, stores, add, o...), &out)
		}
		ds, err := core.ListDiamonds(repo, stores, o...)
		for _, d := range ds {
			_ = add(d)
		}
		return out, err
	case "splits":
		add := func(s model.SplitDescriptor) error {
			out = append(out, item{id: s.SplitID, state: string(s.State), start: s.StartTime})
			return nil
		}
		if l.Apply {
			return out, wrap(core.ListSplitsApply(repo, did, stores, add, o...), &out)
		}
		ss, err := core.ListSplits(repo, did, stores, o...)
		for _, s := range ss {
			_ = add(s)
		}
		return out, err
	}
	return nil, fmt.Errorf("harness: unknown kind %q", l.Kind)
}

// wrap only exists so that the Apply variants read like the collecting ones
func wrap(err error, _ *[]item) error { return err }

// ---------------------------------------------------------------------------------------------
// oracle

func ids(items []item) []string {
	out := make([]string, len(items))
	for i, it := range items {
		out[i] = it.id
	}
	return out
}

// sameSet checks got == want as multisets (every object exactly once, nothing else)
func sameSet(got []string, want map[string]bool) error {
	seen := map[string]int{}
	for _, g := range got {
		seen[g]++
	}
	var missing, extra, dup []string
	for w := range want {
		if seen[w] == 0 {
			missing = append(missing, w)
		}
	}
	for g, n := range seen {
		if !want[g] {
			extra = append(extra, g)
		} else if n > 1 {
			dup = append(dup, fmt.Sprintf("%s x%d", g, n))
		}
	}
	if len(missing)+len(extra)+len(dup) == 0 {
		return nil
	}
	sort.Strings(missing)
	sort.Strings(extra)
	sort.Strings(dup)
	return fmt.Errorf("returned %d objects, %d exist; missing %q, unexpected %q, repeated %q", len(got), len(want), clip(missing), clip(extra), clip(dup))
}

func clip(s []string) []string {
	if len(s) > 6 {
		return append(append([]string{}, s[:6]...), fmt.Sprintf("... (%d)", len(s)))
	}
	return s
}

func chunks(keys []string, n int) [][]string {
	var out [][]string
	for len(keys) > n {
		out = append(out, keys[:n])
		keys = keys[n:]
	}
	if len(keys) > 0 {
		out = append(out, keys)
	}
	return out
}

// emptiedPage tells whether some page of `batch` consecutive keys, other than the last page, holds no
// key whose base name starts with `filter` (the input class of the known finding)
func emptiedPage(keys []string, batch int, filter string) bool {
	cs := chunks(keys, batch)
	for i, c := range cs {
		if i == len(cs)-1 {
			break
		}
		found := false
		for _, k := range c {
			if strings.HasPrefix(path.Base(k), filter) {
				found = true
				break
			}
		}
		if !found {
			return true
		}
	}
	return false
}

func under(keys []string, prefix string) []string {
	i := sort.SearchStrings(keys, prefix)
	j := i
	for j < len(keys) && strings.HasPrefix(keys[j], prefix) {
		j++
	}
	return keys[i:j]
}

type verdict struct {
	nobj    int
	pages   int
	foreign int
	sibling bool
	sorted  string // diamonds/splits with several pages: was the output globally sorted? (observed only)
}

func related(a, b string) bool {
	return a != b && (strings.HasPrefix(a, b) || strings.HasPrefix(b, a))
}

// check compares one listing with the model
func check(w *world, c caseT, l listT, got []item, vmetaKeys []string) (verdict, error) {
	var v verdict
	batch := effBatch(l)
	repo := ""
	if l.Kind != "repos" {
		repo = c.Focus[l.Repo].Name
	}
	sib := func(has func(r string) bool) bool {
		for _, r := range c.Focus {
			if related(r.Name, repo) && has(r.Name) {
				return true
			}
		}
		return false
	}
	switch l.Kind {
	case "repos":
		if err := sameSet(ids(got), w.repos); err != nil {
			return v, err
		}
		var keys []string
		for r := range w.repos {
			keys = append(keys, "repos/"+r+"/repo.yaml")
		}
		sort.Strings(keys)
		pos := 0
		for pi, page := range chunks(keys, batch) {
			want := make([]string, len(page))
			for i, k := range page {
				want[i] = strings.TrimSuffix(strings.TrimPrefix(k, "repos/"), "/repo.yaml")
			}
			sort.Strings(want)
			for i := range want {
				if got[pos+i].id != want[i] {
					return v, fmt.Errorf("order: page %d (keys %d..%d) should read %q, got %q", pi, pos, pos+len(want)-1, clip(want), clip(ids(got[pos:pos+len(want)])))
				}
			}
			pos += len(page)
		}
		v.nobj, v.pages = len(keys), (len(keys)+batch-1)/batch
		for a := range w.repos {
			for _, f := range c.Focus {
				if related(a, f.Name) {
					v.sibling = true
				}
			}
		}
	case "bundles":
		if err := sameSet(ids(got), w.bundles[repo]); err != nil {
			return v, err
		}
		for i := 1; i < len(got); i++ {
			if !(got[i-1].id < got[i].id) {
				return v, fmt.Errorf("order: bundle %s listed before %s (documented: ordered by bundle ID)", got[i-1].id, got[i].id)
			}
		}
		v.nobj, v.foreign = len(w.bundles[repo]), len(w.leftover[repo])
		v.pages = (v.nobj + v.foreign + batch - 1) / batch
		v.sibling = sib(func(r string) bool { return len(w.bundles[r])+len(w.leftover[r]) > 0 })
	case "labels":
		want := map[string]bool{}
		var keys []string
		for n := range w.labels[repo] {
			if strings.HasPrefix(n, l.Prefix) {
				want[n] = true
				keys = append(keys, "labels/"+repo+"/"+n+"/label.yaml")
			}
		}
		if err := sameSet(ids(got), want); err != nil {
			return v, err
		}
		for _, g := range got {
			if g.aux != w.labels[repo][g.id] {
				return v, fmt.Errorf("label %q listed with bundle %s, it was set to %s", g.id, g.aux, w.labels[repo][g.id])
			}
		}
		sort.Strings(keys)
		pos := 0
		for pi, page := range chunks(keys, batch) {
			in := map[string]bool{}
			for _, k := range page {
				in[strings.TrimSuffix(strings.TrimPrefix(k, "labels/"+repo+"/"), "/label.yaml")] = true
			}
			for i := 0; i < len(page); i++ {
				if !in[got[pos+i].id] {
					return v, fmt.Errorf("order: label %q at position %d does not belong to page %d of the key order", got[pos+i].id, pos+i, pi)
				}
				if i > 0 && got[pos+i-1].aux > got[pos+i].aux {
					return v, fmt.Errorf("order: inside page %d label %q (bundle %s) comes before %q (bundle %s)", pi, got[pos+i-1].id, got[pos+i-1].aux, got[pos+i].id, got[pos+i].aux)
				}
			}
			pos += len(page)
		}
		v.nobj, v.pages = len(keys), (len(keys)+batch-1)/batch
		v.sibling = sib(func(r string) bool { return len(w.labels[r]) > 0 })
	case "diamonds", "splits":
		var exp map[string]dInfo
		var prefix, filter string
		if l.Kind == "diamonds" {
			exp, prefix, filter = w.diamonds[repo], "diamonds/"+repo+"/", "diamond-"
		} else {
			did := c.Focus[l.Repo].Diamonds[l.Diamond].id()
			exp, prefix, filter = w.splits[repo+"/"+did], "diamonds/"+repo+"/"+did+"/splits/", "split-"
		}
		want := map[string]bool{}
		for id := range exp {
			want[id] = true
		}
		if err := sameSet(ids(got), want); err != nil {
			return v, err
		}
		for _, g := range got {
			e := exp[g.id]
			if g.state != e.state {
				return v, fmt.Errorf("%s %s listed in state %q, its current state is %q", l.Kind, g.id, g.state, e.state)
			}
			if !g.start.Equal(e.start) {
				return v, fmt.Errorf("%s %s listed with start time %v, want %v", l.Kind, g.id, g.start, e.start)
			}
		}
		raw := under(vmetaKeys, prefix)
		desc := 0
		for _, k := range raw {
			if strings.HasPrefix(path.Base(k), filter) {
				desc++
			}
		}
		v.nobj, v.foreign, v.pages = len(exp), len(raw)-desc, (len(raw)+batch-1)/batch
		isSorted := true
		for i := 1; i < len(got); i++ {
			if got[i].start.Before(got[i-1].start) {
				isSorted = false
				if v.pages <= 1 {
					return v, fmt.Errorf("order: %s %s (start %v) listed before %s (start %v) although a single page holds all %d keys (documented: ordered by start time)",
						l.Kind, got[i-1].id, got[i-1].start, got[i].id, got[i].start, len(raw))
				}
			}
		}
		if v.pages > 1 {
			v.sorted = fmt.Sprintf("%s_multipage_globally_sorted_%v", l.Kind, isSorted)
		}
		v.sibling = sib(func(r string) bool { return len(w.diamonds[r]) > 0 })
	}
	return v, nil
}

func cls(n int) string {
	switch {
	case n == 0:
		return "0"
	case n == 1:
		return "1"
	case n < 10:
		return "2-9"
	case n < 40:
		return "10-39"
	case n < 100:
		return "40-99"
	}
	return "100+"
}

func batchCls(l listT) string {
	if l.NoOpts {
		return "default"
	}
	for _, b := range batchSizes {
		if b == l.Batch {
			return fmt.Sprint(b)
		}
	}
	switch {
	case l.Batch < 64:
		return "other<64"
	case l.Batch < 1024:
		return "other<1024"
	}
	return "other>=1024"
}

func foreignCls(n int) string {
	switch {
	case n == 0:
		return "none"
	case n < 10:
		return "few"
	}
	return "many"
}

func pagesCls(n int) string {
	switch {
	case n <= 1:
		return "1"
	case n < 10:
		return "2-9"
	}
	return "10+"
}

// scanned returns the key prefix a diamond/split listing scans and the base-name filter it applies
func scanned(l listT, repo, did string) (prefix, filter string) {
	switch l.Kind {
	case "diamonds":
		return "diamonds/" + repo + "/", "diamond-"
	case "splits":
		return "diamonds/" + repo + "/" + did + "/splits/", "split-"
	}
	return "", ""
}

// runCase builds the history and evaluates all its listings
func runCase(c caseT, record bool, exclude bool) error {
	sc := hx.NewScratch()
	defer sc.Close()
	env := hx.NewEnv()
	b := &builder{env: env, v: env.Actor("builder"), sc: sc, w: newWorld()}
	if err, hung, panicked := hx.Guard(buildLimit, func() error { return b.build(c) }); err != nil {
		if hung {
			hungOnce.Store(true)
		}
		if hung || panicked {
			return fmt.Errorf("while creating the objects through the core API: %v (hung=%v panicked=%v)", err, hung, panicked)
		}
		return fmt.Errorf("harness/build: %v", err)
	}
	reader := env.Actor("lister")
	vkeys := env.VMeta.RawKeys()
	for li, l := range c.Lists {
		repo, did := "", ""
		if l.Kind != "repos" {
			repo = c.Focus[l.Repo].Name
		}
		if l.Kind == "splits" {
			did = c.Focus[l.Repo].Diamonds[l.Diamond].id()
		}
		prefix, filter := scanned(l, repo, did)
		if filter != "" && exclude && hx.Known(knownEmptyPage) {
			raw := under(vkeys, prefix)
			if emptiedPage(raw, effBatch(l), filter) {
				// the listed known finding: move to the next page size that avoids its input class
				cur := effBatch(l)
				l.NoOpts = false
				repl := len(raw) + 1
				for _, bs := range batchSizes {
					if bs > cur && !emptiedPage(raw, bs, filter) {
						repl = bs
						break
					}
				}
				l.Batch = repl
				if record {
					stats.Count("excluded_"+knownEmptyPage, 1)
				}
			}
		}
		var got []item
		lcall := l
		err, hung, panicked := hx.Guard(listLimit, func() (e error) { got, e = doList(reader.Stores, lcall, repo, did); return })
		if hung {
			hungOnce.Store(true)
			return fmt.Errorf("HANG: listing #%d %+v did not return within %s", li, l, listLimit)
		}
		if panicked {
			return fmt.Errorf("PANIC: listing #%d %+v: %v", li, l, err)
		}
		if err != nil {
			return fmt.Errorf("listing #%d %+v failed: %v", li, l, err)
		}
		v, err := check(b.w, c, l, got, vkeys)
		if err != nil {
			return fmt.Errorf("listing #%d %+v: %v", li, l, err)
		}
		if record {
			nt := v.pages >= 2 || v.foreign > 0 || v.sibling
			sig := fmt.Sprintf("%s n=%s batch=%s pages=%s foreign=%s sib=%v", l.Kind, cls(v.nobj), batchCls(l), pagesCls(v.pages), foreignCls(v.foreign), v.sibling)
			if l.Minimal {
				sig += " minimal"
				stats.Count("minimal_bundle_listings", 1)
			}
			lc := l
			stats.Case(sig, nt, func() interface{} {
				return map[string]interface{}{"listing": lc, "objects": v.nobj, "pages": v.pages, "foreign_keys": v.foreign, "sibling": v.sibling, "profile": c.Profile}
			})
			stats.Count("list_"+l.Kind, 1)
			if l.Apply {
				stats.Count("variant_apply", 1)
			}
			if v.pages >= 2 {
				stats.Count("multi_page_"+l.Kind, 1)
			}
			if v.foreign > 0 {
				stats.Count("foreign_keys_"+l.Kind, 1)
			}
			if v.sibling {
				stats.Count("sibling_repo_"+l.Kind, 1)
			}
			if v.nobj == 0 {
				stats.Count("empty_"+l.Kind, 1)
			}
			if v.sorted != "" {
				stats.Count(v.sorted, 1)
			}
			if filter != "" && emptiedPage(under(vkeys, prefix), effBatch(l), filter) {
				stats.Count("emptied_page_"+l.Kind, 1)
			}
		}
	}
	if record {
		stats.Count("histories", 1)
		stats.Count("history_"+c.Profile, 1)
		for k, n := range b.w.counters {
			stats.Count("made_"+k, n)
		}
	}
	return nil
}

// watchdog limits: a listing normally takes 1-300 ms (a few seconds for 2000 labels on a loaded machine), building a history 10 ms - 10 s
const (
	listLimit  = 180 * time.Second
	buildLimit = 300 * time.Second
)

// hungOnce is set when a watchdog fired: the abandoned goroutine may keep spinning, so nothing that
// runs afterwards in this process is meaningful.  Later invocations of the property (rapid's
// shrinking) return at once, which leaves the journalled original case as the reported one.
var hungOnce atomic.Bool

func TestProp(t *testing.T) {
	rapid.Check(t, func(t *rapid.T) {
		c := drawCase(t)
		if hungOnce.Load() {
			return
		}
		hx.Journal(c)
		err := runCase(c, true, true)
		if err != nil {
			if strings.HasPrefix(err.Error(), "harness/") {
				t.Fatalf("HARNESS TROUBLE (not a datamon defect): %v", err)
			}
			stats.Violation(err.Error())
			t.Fatalf("%v", err)
		}
	})
}
