package c07

// Pinned cases: plain Go, no generator.  TestRegress* must pass; TestKnown* pin the listed finding.

import (
	"fmt"
	"testing"
	"time"

	"verifharness/hx"
)

func allBatches(kind string, repo, diamond int, extra ...listT) []listT {
	var out []listT
	for i, b := range []int{1, 2, 3, 5, 8, 64, 1024, 2048} {
		out = append(out, listT{Kind: kind, Repo: repo, Diamond: diamond, Batch: b, Conc: []int{1, 2, 7, 32}[i%4], Apply: i%2 == 1})
	}
	return append(out, extra...)
}

func runPinned(t *testing.T, name string, c caseT, exclude bool) error {
	t.Helper()
	hx.Journal(map[string]interface{}{"pinned": name, "case": c})
	err, hung, panicked := hx.Guard(600*time.Second, func() error { return runCase(c, false, exclude) })
	if hung {
		t.Fatalf("%s: HANG", name)
	}
	if panicked {
		t.Fatalf("%s: PANIC %v", name, err)
	}
	return err
}

func mustPass(t *testing.T, name string, c caseT) {
	t.Helper()
	// like the generator, regression cases step aside from the input class of the finding while it is listed
	if err := runPinned(t, name, c, true); err != nil {
		t.Fatalf("%s: %v", name, err)
	}
}

// no repository at all; one repository without anything
func TestRegressEmpty(t *testing.T) {
	mustPass(t, "empty context", caseT{Lists: allBatches("repos", 0, 0, listT{Kind: "repos", NoOpts: true})})
	c := caseT{Focus: []repoT{{Name: "r"}}}
	for _, k := range []string{"repos", "bundles", "labels", "diamonds"} {
		c.Lists = append(c.Lists, allBatches(k, 0, 0, listT{Kind: k, NoOpts: true})...)
	}
	mustPass(t, "empty repo", c)
}

// repositories x, xy, x-y (key order: x-y, x, xy) each with their own objects of every kind
func TestRegressPrefixRepos(t *testing.T) {
	mk := func(name string, base int) repoT {
		r := repoT{Name: name}
		for i := 0; i < 3; i++ {
			r.Bundles = append(r.Bundles, bundleT{Sec: 2 - i, Tag: uint64(base + i), How: "forged"})
			r.Labels = append(r.Labels, labelT{Name: fmt.Sprintf("l%d", base+i), Sec: 2 - i, Tag: uint64(base + i)})
			r.Diamonds = append(r.Diamonds, diamondT{Sec: i, Tag: uint64(base + i), Start: 5 - i, How: "api",
				Splits: []splitT{{ID: fmt.Sprintf("s%d", base+i), Start: 1, How: "api"}}})
		}
		return r
	}
	c := caseT{Others: []string{"x0", "w", "y"}, Focus: []repoT{mk("x", 10), mk("xy", 20), mk("x-y", 30)}}
	for ri := range c.Focus {
		for _, k := range []string{"repos", "bundles", "labels", "diamonds", "splits"} {
			c.Lists = append(c.Lists, allBatches(k, ri, 1)...)
		}
	}
	mustPass(t, "prefix repos", c)
}

// bundles created out of order, several in one second, with leftovers of interrupted uploads in between
func TestRegressBundleOrderAndLeftovers(t *testing.T) {
	r := repoT{Name: "r"}
	for i, how := range []string{"forged", "leftover", "api", "forged", "leftover", "forged", "leftover"} {
		r.Bundles = append(r.Bundles, bundleT{Sec: (7 - i) / 3, Tag: uint64(100 - 7*i), How: how})
	}
	mustPass(t, "bundle order", caseT{Focus: []repoT{r}, Lists: allBatches("bundles", 0, 0, listT{Kind: "bundles", NoOpts: true})})
}

// labels: ties on the bundle ID, prefix filter, names that are prefixes of one another
func TestRegressLabels(t *testing.T) {
	r := repoT{Name: "r"}
	for i, n := range []string{"a", "ab", "a-b", "a_b", "b", "abc", "é", "a-"} {
		r.Labels = append(r.Labels, labelT{Name: n, Sec: i % 2, Tag: uint64(i % 3)})
	}
	sib := repoT{Name: "r-", Labels: []labelT{{Name: "a", Sec: 1, Tag: 1}, {Name: "zz", Sec: 1, Tag: 1}}}
	c := caseT{Focus: []repoT{r, sib}, Lists: allBatches("labels", 0, 0)}
	for _, p := range []string{"a", "ab", "a-", "b", "zz", "é"} {
		for _, b := range []int{1, 2, 1024} {
			c.Lists = append(c.Lists, listT{Kind: "labels", Batch: b, Conc: 2, Prefix: p}, listT{Kind: "labels", Repo: 1, Batch: b, Conc: 7, Prefix: p, Apply: true})
		}
	}
	mustPass(t, "labels", c)
}

// diamonds and splits in every state, both descriptors of a terminated object possibly on different
// pages, start times opposite to the key order; no file lists (so that no page is emptied)
func TestRegressDiamondStates(t *testing.T) {
	r := repoT{Name: "r"}
	for i, f := range []string{"", "canceled", "done", "", "canceled", "done"} {
		how := "api"
		if i >= 3 {
			how = "forged"
		}
		r.Diamonds = append(r.Diamonds, diamondT{Sec: i, Tag: 1, Start: 8 - i, Final: f, How: how})
	}
	c := caseT{Focus: []repoT{r}, Lists: allBatches("diamonds", 0, 0, listT{Kind: "diamonds", NoOpts: true})}
	mustPass(t, "diamond states", c)

	d := diamondT{Sec: 1, Tag: 1, Start: 1, How: "api"}
	for i, id := range []string{"pod-1", "pod-10", "pod-2", "a", "ab", "a-b", hx.KSUID(3, 3), hx.KSUID(2, 2), "split-done", "diamond-1", "splits", "diamond-running"} {
		d.Splits = append(d.Splits, splitT{ID: id, Start: 8 - i, Done: i%2 == 0, How: map[bool]string{true: "api", false: "forged"}[i%3 == 0], Gens: []int{0}})
	}
	c = caseT{Focus: []repoT{{Name: "r", Diamonds: []diamondT{d, {Sec: 2, Tag: 1, Start: 0, How: "api"}}}}, Lists: allBatches("splits", 0, 0, listT{Kind: "splits", NoOpts: true})}
	// the diamonds of that repo: split IDs looking like descriptor names must not be taken for diamonds
	c.Lists = append(c.Lists, allBatches("diamonds", 0, 0, listT{Kind: "diamonds", NoOpts: true})...)
	mustPass(t, "split states", c)
}

// a real diamond life cycle: CreateDiamond, CreateSplit, Split.Upload, Commit; the produced bundle is listed
func TestRegressRealCommit(t *testing.T) {
	d := diamondT{Sec: 1, Tag: 1, Start: 3, Final: "done", How: "api", Splits: []splitT{
		{ID: "pod-1", Start: 2, Done: true, How: "api"}, {ID: hx.KSUID(1, 9), Start: 1, Done: true, How: "api"}, {ID: "pod-3", Start: 0, How: "api"}}}
	c := caseT{Focus: []repoT{{Name: "r", Bundles: []bundleT{{Sec: 1, Tag: 1, How: "api"}}, Diamonds: []diamondT{d, {Sec: 0, Tag: 1, Start: 5, How: "api"}}}}}
	c.Lists = append(allBatches("bundles", 0, 0), allBatches("diamonds", 0, 0)...)
	c.Lists = append(c.Lists, listT{Kind: "splits", Batch: 1024, Conc: 2}, listT{Kind: "splits", NoOpts: true, Apply: true})
	mustPass(t, "real commit", c)
}

// ---------------------------------------------------------------------------------------------
// the listed finding

func known(t *testing.T, name string, c caseT) {
	t.Helper()
	err := runPinned(t, name, c, false)
	if err == nil {
		return
	}
	if hx.Listed(knownEmptyPage) {
		stats.KnownFinding(knownEmptyPage, whatEmptyPage)
		t.Logf("KNOWN-FINDING: property=C07 %s (%s: %v)", whatEmptyPage, name, err)
		return
	}
	t.Fatalf("%s: %s: %v", knownEmptyPage, name, err)
}

// minimal: diamond D1 has one split with two file-list objects, D2 follows; pages of 2 keys:
// [D1/diamond-running, D1/splits/s/G/bundle-files-0] [G/bundle-files-1, s/split-running] [D2/diamond-running]
func TestKnownEmptyFilteredPageDiamonds(t *testing.T) {
	c := caseT{Focus: []repoT{{Name: "r", Diamonds: []diamondT{
		{Sec: 0, Tag: 1, Start: 0, How: "api", Splits: []splitT{{ID: "s", Start: 0, How: "forged", Gens: []int{2}}}},
		{Sec: 1, Tag: 1, Start: 1, How: "api"}}}},
		Lists: []listT{{Kind: "diamonds", Batch: 2, Conc: 1}, {Kind: "diamonds", Batch: 2, Conc: 1, Apply: true}}}
	known(t, "2 diamonds, 1 split with 2 file lists, BatchSize 2", c)
}

// splits: split "a" has three file-list objects, split "b" follows; pages of 2 keys
func TestKnownEmptyFilteredPageSplits(t *testing.T) {
	c := caseT{Focus: []repoT{{Name: "r", Diamonds: []diamondT{
		{Sec: 0, Tag: 1, Start: 0, How: "api", Splits: []splitT{{ID: "a", Start: 0, Done: true, How: "forged", Gens: []int{3}}, {ID: "b", Start: 1, How: "api"}}}}}},
		Lists: []listT{{Kind: "splits", Batch: 2, Conc: 1}, {Kind: "splits", Batch: 2, Conc: 1, Apply: true}}}
	known(t, "2 splits, the first with 3 file lists, BatchSize 2", c)
}

// public API only: a diamond with 5 splits just created (CreateSplit), then a second diamond, BatchSize 2
func TestKnownEmptyFilteredPageAPIOnly(t *testing.T) {
	d := diamondT{Sec: 0, Tag: 1, Start: 0, How: "api"}
	for i := 0; i < 5; i++ {
		d.Splits = append(d.Splits, splitT{ID: fmt.Sprintf("pod-%d", i), Start: i, How: "api"})
	}
	c := caseT{Focus: []repoT{{Name: "r", Diamonds: []diamondT{d, {Sec: 1, Tag: 1, Start: 1, How: "api"}}}},
		Lists: []listT{{Kind: "diamonds", Batch: 2, Conc: 2}}}
	known(t, "API only, BatchSize 2", c)
}

// public API only, NO option (page size 1024): a diamond with 2100 created splits (one key each: the second
// page of 1024 keys holds no diamond descriptor) hides every later diamond
func TestKnownEmptyFilteredPageDefaults(t *testing.T) {
	if !hx.Thorough() {
		// 2100 CreateSplit calls cost 5-12 s (each builds three default zap loggers inside datamon)
		t.Skip("thorough tier only")
	}
	d := diamondT{Sec: 0, Tag: 1, Start: 0, How: "api"}
	for i := 0; i < 2100; i++ {
		d.Splits = append(d.Splits, splitT{ID: fmt.Sprintf("pod-%d", i), Start: i % 7, How: "api"})
	}
	c := caseT{Focus: []repoT{{Name: "r", Diamonds: []diamondT{d, {Sec: 1, Tag: 1, Start: 1, How: "api"}, {Sec: 2, Tag: 1, Start: 2, Final: "canceled", How: "api"}}}},
		Lists: []listT{{Kind: "diamonds", NoOpts: true}, {Kind: "diamonds", NoOpts: true, Apply: true}, {Kind: "splits", NoOpts: true}}}
	known(t, "API only, default options, 2100 splits", c)
}
