package c07

// History generator and builder for C07: a history is a set of repositories, some of which (the
// "focus" repos, chosen with names that are prefixes of one another) get bundles, labels, diamonds
// and splits.  Objects are created through the public core API and - to obtain many neighbours
// cheaply - by writing real (yaml-marshalled) descriptors at the documented metadata paths.

import (
	"context"
	"fmt"
	"os"
	"sort"
	"strings"
	"time"

	"github.com/oneconcern/datamon/pkg/core"
	"github.com/oneconcern/datamon/pkg/model"
	"gopkg.in/yaml.v2"
	"pgregory.net/rapid"

	"verifharness/hx"
)

// ---------------------------------------------------------------------------------------------
// case description (JSON-able: it is what the journal and the samples show)

type bundleT struct {
	Sec int    `json:"sec"`
	Tag uint64 `json:"tag"`
	How string `json:"how"` // api | forged | leftover (file lists of an interrupted upload, no bundle.yaml)
}

func (b bundleT) id() string { return hx.KSUID(b.Sec, b.Tag) }

type labelT struct {
	Name string `json:"name"`
	Sec  int    `json:"sec"` // the bundle ID the label points to
	Tag  uint64 `json:"tag"`
}

type splitT struct {
	ID    string `json:"id"`
	Start int    `json:"start"` // start time, seconds after t0
	Done  bool   `json:"done"`
	How   string `json:"how"`  // api (CreateSplit [+ Split.Upload when Done]) | forged
	Gens  []int  `json:"gens"` // forged only: number of file-list index objects per generation
}

type diamondT struct {
	Sec    int      `json:"sec"`
	Tag    uint64   `json:"tag"`
	Start  int      `json:"start"`
	Final  string   `json:"final"` // "" (initialized) | canceled | done
	How    string   `json:"how"`   // api (CreateDiamond, Cancel / Commit) | forged
	Splits []splitT `json:"splits,omitempty"`
}

func (d diamondT) id() string { return hx.KSUID(d.Sec, d.Tag) }

type repoT struct {
	Name     string     `json:"name"`
	Bundles  []bundleT  `json:"bundles,omitempty"`
	Labels   []labelT   `json:"labels,omitempty"`
	Diamonds []diamondT `json:"diamonds,omitempty"`
}

type listT struct {
	Kind    string `json:"kind"` // repos | bundles | labels | diamonds | splits
	Repo    int    `json:"repo"` // index in Focus
	Diamond int    `json:"diamond,omitempty"`
	Batch   int    `json:"batch"`
	Conc    int    `json:"conc"`
	Apply   bool   `json:"apply,omitempty"`
	NoOpts  bool   `json:"no_opts,omitempty"` // call without any option (defaults: page 1024)
	Prefix  string `json:"prefix,omitempty"`  // label prefix filter
	Minimal bool   `json:"minimal,omitempty"` // bundles: WithMinimalBundle (IDs only, as squash lists them)
}

type caseT struct {
	Profile string   `json:"profile"`
	Others  []string `json:"others,omitempty"` // repositories without content
	Focus   []repoT  `json:"focus,omitempty"`
	Lists   []listT  `json:"lists"`
}

// ---------------------------------------------------------------------------------------------
// generators

var t0 = time.Date(2021, 3, 4, 5, 6, 7, 0, time.UTC)

func at(sec int) time.Time { return t0.Add(time.Duration(sec) * time.Second) }

func maxObjects() int {
	if hx.Thorough() {
		return 300
	}
	return 40
}

// count draws an object count: 0, 1, a few, or many (up to max)
func count(t *rapid.T, max int, label string) int {
	switch rapid.IntRange(0, 9).Draw(t, label+"_cls") {
	case 0:
		return 0
	case 1:
		return 1
	case 2, 3, 4, 5:
		return rapid.IntRange(2, minInt(9, max)).Draw(t, label)
	default:
		return rapid.IntRange(minInt(10, max), max).Draw(t, label)
	}
}

func minInt(a, b int) int {
	if a < b {
		return a
	}
	return b
}

var (
	repoStems  = []string{"a", "x", "r", "repo", "A", "0", "é", "-"}
	nameTails  = []string{"", "y", "-y", "-", "0", "yy", "-y-z", "Y", "ÿ"}
	repoChars  = []rune("abcxyzAZ019-éя")
	labelChars = []rune("abcxyzAZ019-_‿éя")
	userSplits = []string{"my-pod", "pod-1", "pod-10", "pod-2", "a", "ab", "a-b", "a-", "split-x", "split-done", "diamond-1", "diamond-running", "splits", "0", "bundle-files-0", "Z_z"}
)

// names draws n distinct names built as stem+tail so that many are prefixes of others
func names(t *rapid.T, n int, stems []string, chars []rune, label string) []string {
	seen := map[string]bool{}
	out := make([]string, 0, n)
	for tries := 0; len(out) < n && tries < 4*n+20; tries++ {
		var s string
		if rapid.IntRange(0, 2).Draw(t, label+"_mode") == 0 {
			k := rapid.IntRange(1, 6).Draw(t, label+"_len")
			rs := make([]rune, k)
			for i := range rs {
				rs[i] = rapid.SampledFrom(chars).Draw(t, label+"_ch")
			}
			s = string(rs)
		} else {
			s = rapid.SampledFrom(stems).Draw(t, label+"_stem") + rapid.SampledFrom(nameTails).Draw(t, label+"_tail")
			if rapid.IntRange(0, 3).Draw(t, label+"_more") == 0 {
				s += rapid.SampledFrom(nameTails).Draw(t, label+"_tail2")
			}
		}
		if s == "" || seen[s] {
			continue
		}
		seen[s] = true
		out = append(out, s)
	}
	return out
}

var batchSizes = []int{1, 2, 3, 5, 8, 64, 1024, 2048}
var concLevels = []int{1, 2, 7, 32}

func drawBatch(t *rapid.T) int {
	if rapid.IntRange(0, 5).Draw(t, "batch_any") == 0 {
		return rapid.IntRange(1, 2048).Draw(t, "batch")
	}
	// small pages are the interesting ones: give them more weight
	return rapid.SampledFrom([]int{1, 1, 2, 2, 3, 3, 5, 5, 8, 8, 64, 64, 1024, 2048}).Draw(t, "batch")
}

func drawConc(t *rapid.T) int {
	if rapid.IntRange(0, 4).Draw(t, "conc_any") == 0 {
		return rapid.IntRange(1, 32).Draw(t, "conc")
	}
	return rapid.SampledFrom(concLevels).Draw(t, "conc")
}

// idAlloc hands out distinct (sec, tag) pairs: several IDs share a second, and the payload decides
type idAlloc struct{ used map[[2]uint64]bool }

func (a *idAlloc) draw(t *rapid.T, label string) (int, uint64) {
	if a.used == nil {
		a.used = map[[2]uint64]bool{}
	}
	for {
		sec := rapid.IntRange(0, 6).Draw(t, label+"_sec")
		tag := rapid.Uint64Range(0, 400).Draw(t, label+"_tag")
		if rapid.IntRange(0, 7).Draw(t, label+"_big") == 0 {
			tag = rapid.Uint64().Draw(t, label+"_tagbig")
		}
		k := [2]uint64{uint64(sec), tag}
		if !a.used[k] {
			a.used[k] = true
			return sec, tag
		}
	}
}

func drawSplits(t *rapid.T, n int, deep bool, budget *int, allowAPIUpload *int) []splitT {
	seen := map[string]bool{}
	var out []splitT
	ids := idAlloc{}
	for i := 0; i < n; i++ {
		var id string
		if rapid.IntRange(0, 2).Draw(t, "split_user") == 0 {
			id = rapid.SampledFrom(userSplits).Draw(t, "split_uid")
		} else {
			sec, tag := ids.draw(t, "split")
			id = hx.KSUID(sec, tag)
		}
		if seen[id] {
			continue
		}
		seen[id] = true
		s := splitT{ID: id, Start: rapid.IntRange(0, 8).Draw(t, "split_start"), Done: rapid.Bool().Draw(t, "split_done"), How: "forged"}
		if rapid.IntRange(0, 3).Draw(t, "split_api") == 0 {
			s.How = "api"
			if s.Done {
				if *allowAPIUpload > 0 {
					*allowAPIUpload--
				} else {
					s.Done = false
				}
			}
		}
		if s.How == "forged" {
			gens := rapid.SampledFrom([]int{0, 1, 1, 1, 2}).Draw(t, "split_gens")
			if s.Done && gens == 0 {
				gens = 1
			}
			for g := 0; g < gens; g++ {
				var k int
				switch c := rapid.IntRange(0, 9).Draw(t, "idx_cls"); {
				case c <= 3 && !deep:
					k = rapid.IntRange(0, 1).Draw(t, "idx")
				case c <= 7:
					k = rapid.IntRange(1, 5).Draw(t, "idx")
				default:
					k = rapid.IntRange(6, 60).Draw(t, "idx")
				}
				if k > *budget {
					k = *budget
				}
				*budget -= k
				s.Gens = append(s.Gens, k)
			}
		}
		out = append(out, s)
	}
	return out
}

func drawRepo(t *rapid.T, name string, deep bool, apiBundles, apiSplitUploads *int, keyBudget *int) repoT {
	r := repoT{Name: name}
	max := maxObjects()
	ids := idAlloc{}
	if !deep {
		nb := count(t, max, "bundles")
		for i := 0; i < nb; i++ {
			sec, tag := ids.draw(t, "bundle")
			b := bundleT{Sec: sec, Tag: tag, How: "forged"}
			switch rapid.IntRange(0, 9).Draw(t, "bundle_how") {
			case 0:
				if *apiBundles > 0 {
					*apiBundles--
					b.How = "api"
				}
			case 1, 2:
				b.How = "leftover"
			}
			r.Bundles = append(r.Bundles, b)
		}
		nl := count(t, max, "labels")
		// labels point to few bundle IDs, so that many share one (ties in the documented sort key)
		var targets [][2]uint64
		for i := 0; i < 1+nl/4; i++ {
			sec, tag := rapid.IntRange(0, 6).Draw(t, "lt_sec"), rapid.Uint64Range(0, 400).Draw(t, "lt_tag")
			targets = append(targets, [2]uint64{uint64(sec), tag})
		}
		for _, b := range r.Bundles {
			if b.How != "leftover" && len(targets) < 12 {
				targets = append(targets, [2]uint64{uint64(b.Sec), b.Tag})
			}
		}
		for _, n := range names(t, nl, repoStems, labelChars, "label") {
			tg := rapid.SampledFrom(targets).Draw(t, "label_target")
			r.Labels = append(r.Labels, labelT{Name: n, Sec: int(tg[0]), Tag: tg[1]})
		}
	}
	var nd int
	if deep {
		nd = rapid.IntRange(1, 8).Draw(t, "diamonds")
	} else {
		nd = count(t, max, "diamonds")
	}
	for i := 0; i < nd; i++ {
		sec, tag := ids.draw(t, "diamond")
		d := diamondT{Sec: sec, Tag: tag, Start: rapid.IntRange(0, 8).Draw(t, "d_start"), How: "forged"}
		d.Final = rapid.SampledFrom([]string{"", "", "canceled", "done"}).Draw(t, "d_final")
		if rapid.IntRange(0, 2).Draw(t, "d_api") == 0 {
			d.How = "api"
		}
		var ns int
		switch c := rapid.IntRange(0, 9).Draw(t, "d_splits_cls"); {
		case c <= 4 && !deep:
			ns = 0
		case c <= 7:
			ns = rapid.IntRange(1, 4).Draw(t, "d_splits")
		default:
			ns = rapid.IntRange(5, max).Draw(t, "d_splits")
		}
		if ns > *keyBudget/3 {
			ns = *keyBudget / 3
		}
		*keyBudget -= 2 * ns
		d.Splits = drawSplits(t, ns, deep, keyBudget, apiSplitUploads)
		if d.How == "api" && d.Final == "done" {
			// a real Commit needs at least one really uploaded split and no made-up file list among the
			// done splits (otherwise the final descriptor is written directly, see build): help it happen
			real := false
			for _, s := range d.Splits {
				real = real || (s.How == "api" && s.Done)
			}
			for i := range d.Splits {
				if real && d.Splits[i].How == "forged" {
					d.Splits[i].Done = false
				}
			}
		}
		r.Diamonds = append(r.Diamonds, d)
	}
	return r
}

// drawMany: one kind gets n > 1000 objects (n around the page sizes 1024 and 2048)
func drawMany(t *rapid.T) caseT {
	c := caseT{Profile: "many"}
	kinds := []string{"repos", "bundles", "diamonds", "splits"}
	if hx.Thorough() {
		kinds = append(kinds, "labels") // listing a label costs ~1 ms inside datamon (a default logger is built per label)
	}
	kind := rapid.SampledFrom(kinds).Draw(t, "many_kind")
	n := rapid.SampledFrom([]int{1023, 1024, 1025, 1100, 2047, 2048, 2049, 2100}).Draw(t, "many_n")
	if rapid.Bool().Draw(t, "many_any") {
		n = rapid.IntRange(1001, 2100).Draw(t, "many_n_any")
	}
	r := repoT{Name: rapid.SampledFrom([]string{"r", "many", "x-y"}).Draw(t, "many_repo")}
	salt := rapid.IntRange(0, 1000).Draw(t, "many_salt")
	switch kind {
	case "repos":
		seen := map[string]bool{r.Name: true}
		for i := 0; len(c.Others) < n-1; i++ {
			// names over the repo alphabet, many sharing prefixes: base-14 digits of a scrambled counter
			x := (i*7919 + salt) % 38416
			rs := []rune{repoChars[x%14], repoChars[(x/14)%14]}
			if x/196 > 0 {
				rs = append(rs, repoChars[(x/196)%14])
			}
			if x/2744 > 0 {
				rs = append(rs, repoChars[(x/2744)%14])
			}
			if name := string(rs); !seen[name] {
				seen[name] = true
				c.Others = append(c.Others, name)
			}
		}
	case "bundles":
		for i := 0; i < n; i++ {
			how := "forged"
			if (i+salt)%11 == 0 {
				how = "leftover"
				n++ // leftovers are not bundles: keep n bundles
			}
			r.Bundles = append(r.Bundles, bundleT{Sec: (i * 5) % 7, Tag: uint64(1000 + (i*7919+salt)%100000), How: how})
		}
		seen := map[string]bool{}
		out := r.Bundles[:0]
		for _, b := range r.Bundles {
			if !seen[b.id()] {
				seen[b.id()] = true
				out = append(out, b)
			}
		}
		r.Bundles = out
	case "labels":
		for i := 0; i < n; i++ {
			r.Labels = append(r.Labels, labelT{Name: fmt.Sprintf("v%d-%d", (i*7919+salt)%100003, i%3), Sec: i % 3, Tag: uint64(i % 5)})
		}
		seen := map[string]bool{}
		out := r.Labels[:0]
		for _, l := range r.Labels {
			if !seen[l.Name] {
				seen[l.Name] = true
				out = append(out, l)
			}
		}
		r.Labels = out
	case "diamonds":
		for i := 0; i < n; i++ {
			r.Diamonds = append(r.Diamonds, diamondT{Sec: i % 7, Tag: uint64(1000 + i), Start: (i*7 + salt) % 9, Final: []string{"", "", "canceled", "done"}[(i+salt)%4], How: "forged"})
		}
	case "splits":
		d := diamondT{Sec: 1, Tag: 1, Start: 1, How: "forged"}
		for i := 0; i < n; i++ {
			id := hx.KSUID(i%7, uint64(1000+i))
			if i%3 == 0 {
				id = fmt.Sprintf("pod-%d", i)
			}
			d.Splits = append(d.Splits, splitT{ID: id, Start: (i*7 + salt) % 9, Done: (i+salt)%3 == 0, How: "forged"})
		}
		r.Diamonds = append(r.Diamonds, d, diamondT{Sec: 2, Tag: 2, Start: 0, How: "forged"})
	}
	c.Focus = []repoT{r}
	for _, b := range []int{512, 1000, 1023, 1024, 1025, 2047, 2048} {
		if rapid.IntRange(0, 2).Draw(t, "many_skip") != 0 { // ~2 of the 7: each listing unmarshals > 1000 descriptors
			continue
		}
		c.Lists = append(c.Lists, listT{Kind: kind, Batch: b, Conc: drawConc(t), Apply: rapid.Bool().Draw(t, "many_apply")})
	}
	c.Lists = append(c.Lists, listT{Kind: kind, NoOpts: true, Apply: rapid.Bool().Draw(t, "many_apply")},
		listT{Kind: kind, Batch: rapid.IntRange(64, 2048).Draw(t, "many_batch"), Conc: drawConc(t)})
	if kind == "bundles" {
		c.Lists = append(c.Lists, listT{Kind: kind, Batch: rapid.IntRange(64, 2048).Draw(t, "many_batch_min"), Conc: drawConc(t), Minimal: true, Apply: rapid.Bool().Draw(t, "many_apply_min")})
	}
	return c
}

func drawCase(t *rapid.T) caseT {
	// profiles: mixed = all kinds, moderate sizes; deep = few diamonds whose splits have many file lists,
	// many listings; wide = deep plus one diamond with 1100..2600 keys below it (several pages of 1024/2048)
	// many = more than 1024 (up to 2100) objects of one kind, listed with pages of 512..2048 and the defaults
	c := caseT{Profile: rapid.SampledFrom([]string{"mixed", "mixed", "mixed", "mixed", "mixed", "mixed", "mixed", "mixed", "mixed", "mixed",
		"deep", "deep", "deep", "deep", "wide", "many"}).Draw(t, "profile")}
	if p := os.Getenv("VERIF_C07_PROFILE"); p != "" {
		c.Profile = p // development aid: force one profile
	}
	if c.Profile == "many" {
		return drawMany(t)
	}
	wide := c.Profile == "wide"
	deep := c.Profile == "deep" || wide
	max := maxObjects()
	var all []string
	if deep {
		all = names(t, rapid.IntRange(1, 3).Draw(t, "repos"), repoStems, repoChars, "repo")
	} else {
		all = names(t, count(t, max, "repos"), repoStems, repoChars, "repo")
	}
	// focus repos: prefer names that are prefixes of one another
	nf := 0
	if len(all) > 0 {
		nf = rapid.IntRange(1, 3).Draw(t, "focus")
		if deep {
			nf = rapid.SampledFrom([]int{1, 1, 2}).Draw(t, "focus_deep")
		}
	}
	sorted := append([]string(nil), all...)
	sort.Strings(sorted)
	focus := map[string]bool{}
	var focusNames []string
	if nf > 0 {
		first := rapid.IntRange(0, len(sorted)-1).Draw(t, "focus0")
		focusNames = append(focusNames, sorted[first])
		focus[sorted[first]] = true
		// candidates sharing a prefix relation with the first one come first
		var rel, rest []string
		for _, n := range sorted {
			if focus[n] {
				continue
			}
			if strings.HasPrefix(n, sorted[first]) || strings.HasPrefix(sorted[first], n) {
				rel = append(rel, n)
			} else {
				rest = append(rest, n)
			}
		}
		if nf > 1 && len(rel) == 0 && rapid.IntRange(0, 3).Draw(t, "focus_synth") > 0 {
			// no repository shares a prefix with the first focus repo: create one
			n := sorted[first] + rapid.SampledFrom([]string{"y", "-y", "-", "0", "Y"}).Draw(t, "focus_tail")
			dup := false
			for _, o := range all {
				dup = dup || o == n
			}
			if !dup {
				all = append(all, n)
				rel = append(rel, n)
			}
		}
		cands := append(rel, rest...)
		for len(focusNames) < nf && len(cands) > 0 {
			i := 0
			if rapid.IntRange(0, 3).Draw(t, "focus_any") == 0 {
				i = rapid.IntRange(0, len(cands)-1).Draw(t, "focus_i")
			}
			focusNames = append(focusNames, cands[i])
			focus[cands[i]] = true
			cands = append(cands[:i:i], cands[i+1:]...)
		}
	}
	for _, n := range all {
		if !focus[n] {
			c.Others = append(c.Others, n)
		}
	}
	apiBundles, apiSplitUploads := 2, 2
	keyBudget := 1500
	if hx.Thorough() {
		keyBudget = 4000
	}
	for _, n := range focusNames {
		c.Focus = append(c.Focus, drawRepo(t, n, deep, &apiBundles, &apiSplitUploads, &keyBudget))
	}

	if wide && len(c.Focus) > 0 {
		r := &c.Focus[0]
		target := rapid.IntRange(1100, 2600).Draw(t, "wide_keys")
		if hx.Thorough() {
			target = rapid.IntRange(1100, 6000).Draw(t, "wide_keys_t")
		}
		big := diamondT{Sec: rapid.IntRange(0, 6).Draw(t, "wide_sec"), Tag: 1000 + rapid.Uint64Range(0, 9).Draw(t, "wide_tag"),
			Start: rapid.IntRange(0, 8).Draw(t, "wide_start"), Final: rapid.SampledFrom([]string{"", "canceled", "done"}).Draw(t, "wide_final"), How: "forged"}
		for keys, i := 0, 0; keys < target; i++ {
			k := rapid.IntRange(20, 60).Draw(t, "wide_idx")
			s := splitT{ID: hx.KSUID(i%5, uint64(7*i)), Start: rapid.IntRange(0, 8).Draw(t, "wide_sstart"), Done: rapid.Bool().Draw(t, "wide_done"), How: "forged", Gens: []int{k}}
			if i%4 == 3 {
				s.ID = fmt.Sprintf("pod-%d", i)
			}
			big.Splits = append(big.Splits, s)
			keys += k + 1
			if s.Done {
				keys++
			}
		}
		for clash := true; clash; {
			clash = false
			for _, d := range r.Diamonds {
				if d.id() == big.id() {
					clash = true
					big.Tag++
				}
			}
		}
		pos := rapid.IntRange(0, len(r.Diamonds)).Draw(t, "wide_pos")
		r.Diamonds = append(r.Diamonds[:pos:pos], append([]diamondT{big}, r.Diamonds[pos:]...)...)
		for _, b := range []int{1024, 2048, rapid.SampledFrom([]int{512, 1000, 1023, 1025, 2047}).Draw(t, "wide_b")} {
			c.Lists = append(c.Lists,
				listT{Kind: "diamonds", Batch: b, Conc: drawConc(t), Apply: rapid.Bool().Draw(t, "wide_apply")},
				listT{Kind: "splits", Diamond: pos, Batch: b, Conc: drawConc(t), Apply: rapid.Bool().Draw(t, "wide_apply")})
		}
		c.Lists = append(c.Lists, listT{Kind: "diamonds", NoOpts: true}, listT{Kind: "splits", Diamond: pos, NoOpts: true})
	}

	// listings
	add := func(l listT) {
		l.Batch, l.Conc = drawBatch(t), drawConc(t)
		if wide && l.Batch < 64 {
			l.Batch *= 64 // thousands of keys: keep the number of pages (and the run time) moderate
		}
		l.Apply = rapid.Bool().Draw(t, "apply")
		l.NoOpts = rapid.IntRange(0, 11).Draw(t, "noopts") == 0
		if l.Kind == "bundles" {
			l.Minimal = rapid.IntRange(0, 2).Draw(t, "minimal") == 0
		}
		c.Lists = append(c.Lists, l)
	}
	for i := 0; i < rapid.IntRange(1, 2).Draw(t, "n_lrepos"); i++ {
		add(listT{Kind: "repos"})
	}
	for ri, r := range c.Focus {
		if !deep {
			for i := 0; i < rapid.IntRange(1, 2).Draw(t, "n_lb"); i++ {
				add(listT{Kind: "bundles", Repo: ri})
			}
			for i := 0; i < rapid.IntRange(1, 3).Draw(t, "n_ll"); i++ {
				l := listT{Kind: "labels", Repo: ri}
				switch rapid.IntRange(0, 3).Draw(t, "prefix_mode") {
				case 0:
					if len(r.Labels) > 0 {
						n := []rune(rapid.SampledFrom(r.Labels).Draw(t, "prefix_of").Name)
						l.Prefix = string(n[:rapid.IntRange(1, len(n)).Draw(t, "prefix_len")])
					}
				case 1:
					l.Prefix = string(rapid.SampledFrom(labelChars).Draw(t, "prefix_ch"))
				}
				add(l)
			}
		}
		nld := rapid.IntRange(1, 3).Draw(t, "n_ld")
		if deep {
			nld = rapid.IntRange(3, 6).Draw(t, "n_ld")
		}
		for i := 0; i < nld; i++ {
			add(listT{Kind: "diamonds", Repo: ri})
		}
		if len(r.Diamonds) > 0 {
			// list the splits of the diamond with most splits, plus some others
			best := 0
			for di, d := range r.Diamonds {
				if len(d.Splits) > len(r.Diamonds[best].Splits) {
					best = di
				}
			}
			nls := rapid.IntRange(1, 3).Draw(t, "n_ls")
			if deep {
				nls = rapid.IntRange(3, 6).Draw(t, "n_ls")
			}
			for i := 0; i < nls; i++ {
				di := best
				if rapid.IntRange(0, 2).Draw(t, "ls_other") == 0 {
					di = rapid.IntRange(0, len(r.Diamonds)-1).Draw(t, "ls_d")
				}
				add(listT{Kind: "splits", Repo: ri, Diamond: di})
			}
		}
	}
	return c
}

// ---------------------------------------------------------------------------------------------
// reference model: what exists after the history

type dInfo struct {
	start time.Time
	final bool
	state string
}

type world struct {
	repos    map[string]bool
	bundles  map[string]map[string]bool   // repo -> committed bundle IDs
	leftover map[string]map[string]bool   // repo -> IDs of interrupted uploads (not bundles)
	labels   map[string]map[string]string // repo -> label name -> bundle ID
	diamonds map[string]map[string]dInfo  // repo -> diamond ID
	splits   map[string]map[string]dInfo  // repo/diamond -> split ID
	counters map[string]int               // how objects were made (api / forged)
}

func newWorld() *world {
	return &world{repos: map[string]bool{}, bundles: map[string]map[string]bool{}, leftover: map[string]map[string]bool{},
		labels: map[string]map[string]string{}, diamonds: map[string]map[string]dInfo{}, splits: map[string]map[string]dInfo{},
		counters: map[string]int{}}
}

// ---------------------------------------------------------------------------------------------
// builder

var contributor = model.Contributor{Name: "verif", Email: "verif@example.com"}

func mustYAML(v interface{}) []byte {
	b, err := yaml.Marshal(v)
	if err != nil {
		panic(err)
	}
	return b
}

var fileList = mustYAML(model.BundleEntries{BundleEntries: []model.BundleEntry{{Hash: strings.Repeat("ab", 64), NameWithPath: "d/f", FileMode: 0o644, Size: 1}}})

type builder struct {
	env *hx.Env
	v   *hx.Views
	sc  *hx.Scratch
	w   *world
}

func (b *builder) bundle(repo string, x bundleT) error {
	id := x.id()
	switch x.How {
	case "api":
		tree := hx.Tree{"f-" + id[20:]: []byte("content " + id)}
		got, err := hx.UploadTree(b.sc, b.v.Stores, repo, tree, 65536, core.BundleID(id))
		if err != nil {
			return fmt.Errorf("upload bundle %s: %v", id, err)
		}
		if got != id {
			return fmt.Errorf("upload: bundle ID %q, asked for %q", got, id)
		}
		b.w.bundles[repo][id] = true
	case "forged":
		bd := model.NewBundleDescriptor(model.Message("forged"), model.BundleContributor(contributor))
		bd.ID = id
		bd.BundleEntriesFileCount = 1
		b.env.Meta.RawPut(model.GetArchivePathToBundleFileList(repo, id, 0), fileList)
		b.env.Meta.RawPut(model.GetArchivePathToBundle(repo, id), mustYAML(bd))
		b.w.bundles[repo][id] = true
	case "leftover":
		n := 1 + int(x.Tag%3)
		for i := 0; i < n; i++ {
			b.env.Meta.RawPut(model.GetArchivePathToBundleFileList(repo, id, uint64(i)), fileList)
		}
		b.w.leftover[repo][id] = true
	}
	b.w.counters["bundle_"+x.How]++
	return nil
}

func (b *builder) label(repo string, l labelT) error {
	id := hx.KSUID(l.Sec, l.Tag)
	bundle := hx.NewBundle(repo, b.v.Stores, nil, 0, core.BundleID(id))
	lab := core.NewLabel(core.LabelDescriptor(model.NewLabelDescriptor(model.LabelName(l.Name), model.LabelContributor(contributor))))
	if err := lab.UploadDescriptor(context.Background(), bundle); err != nil {
		return fmt.Errorf("label %q: %v", l.Name, err)
	}
	b.w.labels[repo][l.Name] = id
	return nil
}

func (b *builder) split(repo, did string, s splitT) error {
	key := repo + "/" + did
	sd := model.NewSplitDescriptor(model.SplitID(s.ID), model.SplitContributor(contributor))
	sd.StartTime = at(s.Start)
	switch s.How {
	case "api":
		created, err := core.CreateSplit(repo, did, b.v.Stores, core.SplitDescriptor(sd), core.SplitLogger(hx.Nop))
		if err != nil {
			return fmt.Errorf("CreateSplit %s/%s: %v", did, s.ID, err)
		}
		if s.Done {
			dir := b.sc.Dir("split")
			if err := (hx.Tree{"s/" + s.ID: []byte("split " + s.ID), "common": []byte(s.ID)}).Write(dir); err != nil {
				return err
			}
			sp := core.NewSplit(repo, did, b.v.Stores, core.SplitDescriptor(&created), core.SplitConsumableStore(hx.Local(dir)), core.SplitLogger(hx.Nop))
			if err := sp.Upload(); err != nil {
				return fmt.Errorf("Split.Upload %s/%s: %v", did, s.ID, err)
			}
			b.w.counters["split_api_upload"]++
		}
		b.w.counters["split_api"]++
	case "forged":
		sd.State = model.SplitRunning
		b.env.VMeta.RawPut(model.GetArchivePathToInitialSplit(repo, did, s.ID), mustYAML(sd))
		var lastGen string
		for g, n := range s.Gens {
			lastGen = hx.KSUID(100+g, uint64(len(s.ID)))
			for i := 0; i < n; i++ {
				b.env.VMeta.RawPut(model.GetArchivePathToSplitFileList(repo, did, s.ID, lastGen, uint64(i)), fileList)
			}
		}
		if s.Done {
			fin := *sd
			fin.State = model.SplitDone
			fin.EndTime = at(s.Start + 1)
			fin.GenerationID = lastGen
			if len(s.Gens) > 0 {
				fin.SplitEntriesFileCount = uint64(s.Gens[len(s.Gens)-1])
			}
			b.env.VMeta.RawPut(model.GetArchivePathToFinalSplit(repo, did, s.ID), mustYAML(fin))
		}
		b.w.counters["split_forged"]++
	}
	st := string(model.SplitRunning)
	if s.Done {
		st = string(model.SplitDone)
	}
	b.w.splits[key][s.ID] = dInfo{start: at(s.Start), final: s.Done, state: st}
	return nil
}

func (b *builder) diamond(repo string, d diamondT) error {
	did := d.id()
	b.w.splits[repo+"/"+did] = map[string]dInfo{}
	dd := model.NewDiamondDescriptor(model.DiamondID(did))
	dd.StartTime = at(d.Start)
	var created model.DiamondDescriptor
	if d.How == "api" {
		var err error
		created, err = core.CreateDiamond(repo, b.v.Stores, core.DiamondDescriptor(dd), core.DiamondLogger(hx.Nop))
		if err != nil {
			return fmt.Errorf("CreateDiamond %s: %v", did, err)
		}
		b.w.counters["diamond_api"]++
	} else {
		created = *dd
		b.env.VMeta.RawPut(model.GetArchivePathToInitialDiamond(repo, did), mustYAML(dd))
		b.w.counters["diamond_forged"]++
	}
	apiDone := 0
	for _, s := range d.Splits {
		if err := b.split(repo, did, s); err != nil {
			return err
		}
		if s.How == "api" && s.Done {
			apiDone++
		}
	}
	forgeFinal := func(state model.DiamondState) {
		fin := created
		fin.State = state
		fin.EndTime = at(d.Start + 2)
		b.env.VMeta.RawPut(model.GetArchivePathToFinalDiamond(repo, did), mustYAML(fin))
	}
	state := string(model.DiamondInitialized)
	switch d.Final {
	case "canceled":
		state = string(model.DiamondCanceled)
		if d.How == "api" {
			dm := core.NewDiamond(repo, b.v.Stores, core.DiamondDescriptor(model.NewDiamondDescriptor(model.DiamondClone(created))), core.DiamondLogger(hx.Nop))
			if err := dm.Cancel(); err != nil {
				return fmt.Errorf("Cancel %s: %v", did, err)
			}
			b.w.counters["diamond_api_cancel"]++
		} else {
			forgeFinal(model.DiamondCanceled)
		}
	case "done":
		state = string(model.DiamondDone)
		// a real commit is possible when every done split of the diamond is a real upload (forged
		// splits have made-up file lists) and there is at least one
		real := d.How == "api" && apiDone > 0
		for _, s := range d.Splits {
			if s.Done && s.How != "api" {
				real = false
			}
		}
		if real {
			dm := core.NewDiamond(repo, b.v.Stores, core.DiamondDescriptor(model.NewDiamondDescriptor(model.DiamondClone(created))), core.DiamondLogger(hx.Nop))
			if err := dm.Commit(); err != nil {
				return fmt.Errorf("Commit %s: %v", did, err)
			}
			if dm.BundleID == "" {
				return fmt.Errorf("Commit %s: no bundle ID", did)
			}
			b.w.bundles[repo][dm.BundleID] = true // the commit produces a bundle
			b.w.counters["diamond_api_commit"]++
		} else {
			forgeFinal(model.DiamondDone)
		}
	}
	b.w.diamonds[repo][did] = dInfo{start: at(d.Start), final: d.Final != "", state: state}
	return nil
}

func (b *builder) build(c caseT) error {
	// repositories are created in the drawn (unsorted) order, focus repos interleaved
	var all []string
	for i := 0; i < len(c.Others) || i < len(c.Focus); i++ {
		if i < len(c.Others) {
			all = append(all, c.Others[i])
		}
		if i < len(c.Focus) {
			all = append(all, c.Focus[i].Name)
		}
	}
	for _, n := range all {
		if err := hx.CreateRepo(b.v.Stores, n); err != nil {
			return fmt.Errorf("CreateRepo %q: %v", n, err)
		}
		b.w.repos[n] = true
	}
	for _, r := range c.Focus {
		b.w.bundles[r.Name] = map[string]bool{}
		b.w.leftover[r.Name] = map[string]bool{}
		b.w.labels[r.Name] = map[string]string{}
		b.w.diamonds[r.Name] = map[string]dInfo{}
	}
	// interleave the focus repos so that neighbours are written in mixed order
	for i := 0; ; i++ {
		more := false
		for _, r := range c.Focus {
			if i < len(r.Bundles) {
				more = true
				if err := b.bundle(r.Name, r.Bundles[i]); err != nil {
					return err
				}
			}
			if i < len(r.Labels) {
				more = true
				if err := b.label(r.Name, r.Labels[i]); err != nil {
					return err
				}
			}
			if i < len(r.Diamonds) {
				more = true
				if err := b.diamond(r.Name, r.Diamonds[i]); err != nil {
					return err
				}
			}
		}
		if !more {
			break
		}
	}
	return nil
}
