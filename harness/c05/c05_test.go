package c05

import (
	"context"
	"fmt"
	"os"
	"sort"
	"strings"
	"testing"
	"time"

	"github.com/oneconcern/datamon/pkg/core"
	"pgregory.net/rapid"

	"verifharness/evid"
	"verifharness/hx"
)

var stats = evid.New("C05", "rapid: a pool of 0..30 non-conflicting paths; each path is assigned to bundle A only, B only, both with identical bytes, both with different bytes, or B gets the bytes of another A file (rename / copy); contents around the leaf size; A and B uploaded with the same or different leaf sizes. Checked: core.Diff(local copy of A, remote B), Diff(remote A, remote B) and both reversed against a model diff keyed by path and compared by independently computed content key; core.Update(remote B, local A) must leave the directory byte-identical (incl. .datamon) to a fresh Publish of B; Update(A->A) is a no-op; in a third of the cases files are then deleted from the repository (DeleteEntriesFromRepo rewrites B under the same bundle ID) and Diff / Update of the now stale local copy of B against B are checked the same way. Non-trivial: >= 2 different diff types present, or same-path-same-content, or a rename; distinct by (diff-type set, counts class, leaf relation, rename/same flags).")

func TestMain(m *testing.M) {
	code := m.Run()
	stats.Flush()
	os.Exit(code)
}

type fileT struct {
	Path  string          `json:"path"`
	Where string          `json:"where"` // A | B | same | diff | renamed (in A under Path, in B under Path2 with same bytes)
	CA    hx.ContentSpec  `json:"ca"`
	CB    *hx.ContentSpec `json:"cb,omitempty"`
}

type caseT struct {
	LA, LB uint32  `json:"-"`
	LeafA  uint32  `json:"leaf_a"`
	LeafB  uint32  `json:"leaf_b"`
	Files  []fileT `json:"files"`
	Conc   int     `json:"concurrency"`
	// DelFromRepo: after the directory became a copy of B, these paths (indices into B's sorted paths, plus
	// optionally an absent one) are removed from the repository with DeleteEntriesFromRepo, which rewrites
	// the file lists of B under the same bundle ID
	DelFromRepo []int `json:"delete_from_repo,omitempty"`
}

func drawCase(t *rapid.T) caseT {
	leaves := []uint32{1024, 4096, 8192, 65536}
	c := caseT{}
	c.LeafA = rapid.SampledFrom(leaves).Draw(t, "LA")
	c.LeafB = c.LeafA
	if rapid.IntRange(0, 3).Draw(t, "difleaf") == 0 {
		c.LeafB = rapid.SampledFrom(leaves).Draw(t, "LB")
	}
	pool := hx.GenTree(t, c.LeafA, 0, 30, 2, false, "pool")
	if rapid.IntRange(0, 2).Draw(t, "lookalikes") == 0 {
		// data files that look like bundle metadata, but below the root: e.g. a downloaded bundle kept as a fixture
		for _, p := range []string{"fixt/.datamon/" + hx.KSUID(3, 3) + "-bundle-files-0.yaml", "vend/.datamon/" + hx.KSUID(4, 4) + ".yaml", "vend/.datamon/x.yaml", "fixt/.datamon/notes.txt"} {
			if rapid.Bool().Draw(t, "lookalike") {
				pool.Files = append(pool.Files, hx.FileSpec{Path: p, Content: hx.Content(t, c.LeafA, 1, "lookalike_c")})
			}
		}
	}
	empty := rapid.SampledFrom([]string{"", "", "", "", "A", "B", "both"}).Draw(t, "empty")
	for _, f := range pool.Files {
		w := rapid.SampledFrom([]string{"A", "B", "same", "same", "diff", "diff"}).Draw(t, "where")
		switch empty {
		case "A":
			w = "B"
		case "B":
			w = "A"
		case "both":
			continue
		}
		ft := fileT{Path: f.Path, Where: w, CA: f.Content}
		if w == "diff" {
			cb := hx.Content(t, c.LeafB, 2, "cb")
			if rapid.IntRange(0, 2).Draw(t, "samesize") == 0 {
				// an edit that keeps the length (a flipped flag, a fixed-size record)
				cb = ft.CA
				cb.Seed += 1 + uint64(rapid.IntRange(0, 3).Draw(t, "seedshift"))
			}
			if cb.Size == ft.CA.Size && cb.Seed == ft.CA.Seed && cb.Kind == ft.CA.Kind {
				cb.Seed++ // make sure the bytes differ
				if cb.Size == 0 {
					cb.Size = 1
				}
			}
			ft.CB = &cb
		}
		c.Files = append(c.Files, ft)
	}
	// renames: a B-only file takes the bytes of an A-only file
	var aOnly, bOnly []int
	for i, f := range c.Files {
		if f.Where == "A" {
			aOnly = append(aOnly, i)
		}
		if f.Where == "B" {
			bOnly = append(bOnly, i)
		}
	}
	if len(aOnly) > 0 && len(bOnly) > 0 && rapid.Bool().Draw(t, "rename") {
		bi := bOnly[rapid.IntRange(0, len(bOnly)-1).Draw(t, "rb")]
		ai := aOnly[rapid.IntRange(0, len(aOnly)-1).Draw(t, "ra")]
		c.Files[bi].CA = c.Files[ai].CA
		c.Files[bi].Where = "B-renamed"
	}
	c.Conc = rapid.IntRange(1, 20).Draw(t, "conc")
	if rapid.IntRange(0, 2).Draw(t, "delrepo") == 0 {
		c.DelFromRepo = rapid.SliceOfN(rapid.IntRange(0, 40), 1, 4).Draw(t, "delidx")
	}
	return c
}

func (c caseT) trees() (a, b hx.Tree) {
	a, b = hx.Tree{}, hx.Tree{}
	for _, f := range c.Files {
		switch f.Where {
		case "A":
			a[f.Path] = f.CA.Bytes()
		case "B", "B-renamed":
			b[f.Path] = f.CA.Bytes()
		case "same":
			a[f.Path] = f.CA.Bytes()
			b[f.Path] = f.CA.Bytes()
		case "diff":
			a[f.Path] = f.CA.Bytes()
			b[f.Path] = f.CB.Bytes()
		}
	}
	return
}

type dEntry struct {
	typ      core.DiffEntryType
	existing string // hash
	addl     string
}

// modelDiff computes the expected diff from existing -> additional
func modelDiff(existing, additional hx.Tree, le, la uint32, keys map[string]string) (map[string]dEntry, error) {
	key := func(d []byte, l uint32) (string, error) {
		k := fmt.Sprintf("%d/%s", l, d)
		if v, ok := keys[k]; ok {
			return v, nil
		}
		v, err := hx.CafsKey(d, l)
		keys[k] = v
		return v, err
	}
	out := map[string]dEntry{}
	for p, d := range existing {
		he, err := key(d, le)
		if err != nil {
			return nil, err
		}
		if d2, ok := additional[p]; ok {
			ha, err := key(d2, la)
			if err != nil {
				return nil, err
			}
			if he != ha {
				out[p] = dEntry{core.DiffEntryTypeDif, he, ha}
			}
		} else {
			out[p] = dEntry{core.DiffEntryTypeDel, he, ""}
		}
	}
	for p, d := range additional {
		if _, ok := existing[p]; !ok {
			ha, err := key(d, la)
			if err != nil {
				return nil, err
			}
			out[p] = dEntry{core.DiffEntryTypeAdd, "", ha}
		}
	}
	return out, nil
}

func compareDiff(what string, got core.BundleDiff, want map[string]dEntry) error {
	seen := map[string]bool{}
	for _, e := range got.Entries {
		if seen[e.Name] {
			return fmt.Errorf("%s: path %q reported twice", what, e.Name)
		}
		seen[e.Name] = true
		w, ok := want[e.Name]
		if !ok {
			return fmt.Errorf("%s: unexpected diff entry %v %q", what, e.Type, e.Name)
		}
		if e.Type != w.typ {
			return fmt.Errorf("%s: %q reported as %v, want %v", what, e.Name, e.Type, w.typ)
		}
		if w.existing != "" && (e.Existing.Hash != w.existing || e.Existing.NameWithPath != e.Name) {
			return fmt.Errorf("%s: %q existing entry is %q/%s want hash %s", what, e.Name, e.Existing.NameWithPath, e.Existing.Hash, w.existing)
		}
		if w.addl != "" && (e.Additional.Hash != w.addl || e.Additional.NameWithPath != e.Name) {
			return fmt.Errorf("%s: %q additional entry is %q/%s want hash %s", what, e.Name, e.Additional.NameWithPath, e.Additional.Hash, w.addl)
		}
	}
	if len(seen) != len(want) {
		var missing []string
		for p := range want {
			if !seen[p] {
				missing = append(missing, p)
			}
		}
		sort.Strings(missing)
		return fmt.Errorf("%s: %d entries reported, want %d; missing %q", what, len(seen), len(want), missing)
	}
	return nil
}

func runCase(c caseT) error {
	sc := hx.NewScratch()
	defer sc.Close()
	env := hx.NewEnv()
	v := env.Actor("p")
	ctx := context.Background()
	if err := hx.CreateRepo(v.Stores, "repo"); err != nil {
		return err
	}
	ta, tb := c.trees()
	idA, err := hx.UploadTree(sc, v.Stores, "repo", ta, c.LeafA, core.BundleID(hx.KSUID(1, 1)))
	if err != nil {
		return fmt.Errorf("upload A: %v", err)
	}
	idB, err := hx.UploadTree(sc, v.Stores, "repo", tb, c.LeafB, core.BundleID(hx.KSUID(2, 2)))
	if err != nil {
		return fmt.Errorf("upload B: %v", err)
	}
	keys := map[string]string{}
	// local copy of A
	dirA := sc.Dir("localA")
	pa := hx.NewBundle("repo", v.Stores, hx.Local(dirA), 0, core.BundleID(idA), core.ConcurrentFileDownloads(c.Conc))
	if err := core.Publish(ctx, pa); err != nil {
		return fmt.Errorf("publish A: %v", err)
	}
	local := func(dir string) *core.Bundle {
		return core.NewBundle(core.ConsumableStore(hx.Local(dir)), core.Logger(hx.Nop))
	}
	remote := func(id string) *core.Bundle {
		return hx.NewBundle("repo", v.Stores, nil, 0, core.BundleID(id), core.ConcurrentFileDownloads(c.Conc))
	}
	wantAB, err := modelDiff(ta, tb, c.LeafA, c.LeafB, keys)
	if err != nil {
		return err
	}
	wantBA, err := modelDiff(tb, ta, c.LeafB, c.LeafA, keys)
	if err != nil {
		return err
	}
	d, err := core.Diff(ctx, local(dirA), remote(idB))
	if err != nil {
		return fmt.Errorf("Diff(localA, remoteB): %v", err)
	}
	if err := compareDiff("Diff(localA, remoteB)", d, wantAB); err != nil {
		return err
	}
	d, err = core.Diff(ctx, remote(idA), remote(idB))
	if err != nil {
		return fmt.Errorf("Diff(remoteA, remoteB): %v", err)
	}
	if err := compareDiff("Diff(remoteA, remoteB)", d, wantAB); err != nil {
		return err
	}
	d, err = core.Diff(ctx, remote(idB), local(dirA))
	if err != nil {
		return fmt.Errorf("Diff(remoteB, localA): %v", err)
	}
	if err := compareDiff("Diff(remoteB, localA)", d, wantBA); err != nil {
		return err
	}
	d, err = core.Diff(ctx, remote(idA), local(dirA))
	if err != nil {
		return fmt.Errorf("Diff(remoteA, localA): %v", err)
	}
	if len(d.Entries) != 0 {
		return fmt.Errorf("Diff of a bundle with its own download is not empty: %d entries", len(d.Entries))
	}
	// Update(A -> A) is a no-op
	before, _ := hx.ReadTree(dirA)
	if err := core.Update(ctx, remote(idA), local(dirA)); err != nil {
		return fmt.Errorf("Update(A->A): %v", err)
	}
	after, _ := hx.ReadTree(dirA)
	if diff := hx.DiffTrees(after, before); diff != "" {
		return fmt.Errorf("Update(A->A) changed the directory: %s", diff)
	}
	// Update local A to B
	if err := core.Update(ctx, remote(idB), local(dirA)); err != nil {
		return fmt.Errorf("Update(B -> local A): %v", err)
	}
	fresh, err := hx.Download(sc, v.Stores, "repo", idB)
	if err != nil {
		return fmt.Errorf("fresh publish of B: %v", err)
	}
	got, err := hx.ReadTree(dirA)
	if err != nil {
		return err
	}
	if diff := hx.DiffTrees(got, fresh); diff != "" {
		return fmt.Errorf("after Update the directory differs from a fresh download of the target: %s", diff)
	}
	if diff := hx.DiffTrees(fresh.WithoutMeta(), tb); diff != "" {
		return fmt.Errorf("fresh download of B differs from the model: %s", diff)
	}
	// and the updated directory now diffs empty against B
	d, err = core.Diff(ctx, local(dirA), remote(idB))
	if err != nil {
		return fmt.Errorf("Diff after update: %v", err)
	}
	if len(d.Entries) != 0 {
		return fmt.Errorf("Diff(updated dir, B) not empty: %d entries", len(d.Entries))
	}
	if len(c.DelFromRepo) == 0 || len(tb) == 0 {
		return nil
	}
	// ---- files are deleted from the repository: bundle B keeps its ID but lists fewer files
	pathsB := tb.Paths()
	var del []string
	tb2 := hx.Tree{}
	for p, d := range tb {
		tb2[p] = d
	}
	for _, i := range c.DelFromRepo {
		if i >= len(pathsB) {
			if i%2 == 0 {
				del = append(del, "no/such/file")
			}
			i %= len(pathsB)
		}
		del = append(del, pathsB[i])
		delete(tb2, pathsB[i])
	}
	if err := core.DeleteEntriesFromRepo("repo", v.Stores, del); err != nil {
		return fmt.Errorf("harness precondition: DeleteEntriesFromRepo(%q): %v", del, err)
	}
	wantShrunk, err := modelDiff(tb, tb2, c.LeafB, c.LeafB, keys)
	if err != nil {
		return err
	}
	d, err = core.Diff(ctx, local(dirA), remote(idB))
	if err != nil {
		return fmt.Errorf("Diff(local copy of B, B after delete-files): %v", err)
	}
	if err := compareDiff("Diff(local copy of B, B after delete-files)", d, wantShrunk); err != nil {
		return err
	}
	if err := core.Update(ctx, remote(idB), local(dirA)); err != nil {
		return fmt.Errorf("Update(B after delete-files -> local copy of B): %v", err)
	}
	fresh, err = hx.Download(sc, v.Stores, "repo", idB)
	if err != nil {
		return fmt.Errorf("fresh publish of B after delete-files: %v", err)
	}
	if diff := hx.DiffTrees(fresh.WithoutMeta(), tb2); diff != "" {
		return fmt.Errorf("harness precondition: fresh download of B after delete-files differs from the model: %s", diff)
	}
	if got, err = hx.ReadTree(dirA); err != nil {
		return err
	}
	if diff := hx.DiffTrees(got, fresh); diff != "" {
		return fmt.Errorf("after Update to B (files deleted from the repo) the directory differs from a fresh download: %s", diff)
	}
	return nil
}

func (c caseT) classes() (string, bool) {
	n := map[string]int{}
	for _, f := range c.Files {
		n[f.Where]++
	}
	types := 0
	for _, k := range []string{"A", "diff"} {
		if n[k] > 0 {
			types++
		}
	}
	if n["B"]+n["B-renamed"] > 0 {
		types++
	}
	cl := func(x int) string {
		switch {
		case x == 0:
			return "0"
		case x <= 2:
			return "1-2"
		}
		return "3+"
	}
	leafRel := "same"
	if c.LeafA != c.LeafB {
		leafRel = "differ"
	}
	sig := fmt.Sprintf("A=%s B=%s same=%s diff=%s ren=%d leaf=%s delrepo=%v", cl(n["A"]), cl(n["B"]), cl(n["same"]), cl(n["diff"]), n["B-renamed"], leafRel, len(c.DelFromRepo) > 0)
	return sig, types >= 2 || n["same"] > 0 || n["B-renamed"] > 0
}

func TestProp(t *testing.T) {
	rapid.Check(t, func(t *rapid.T) {
		c := drawCase(t)
		hx.Journal(c)
		err, hung, panicked := hx.Guard(90*time.Second, func() error { return runCase(c) })
		if hung || panicked || err != nil {
			t.Fatalf("%v (hung=%v panicked=%v)", err, hung, panicked)
		}
		sig, nt := c.classes()
		stats.Case(sig, nt, func() interface{} { return c })
		for _, f := range c.Files {
			stats.Count("file_"+strings.ToLower(f.Where), 1)
		}
		if c.LeafA != c.LeafB {
			stats.Count("leaf_differ", 1)
		}
	})
}
