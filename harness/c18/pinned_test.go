package c18

import "testing"

// Pinned cases (plain Go, no library).  Each goes through the same executor and oracle as the generated
// programs.  The first four are the minimal programs of the defects this check found in datamon (NOTES.md).

func ops(l ...opT) []opT { return l }

func pin(t *testing.T, l ...opT) {
	t.Helper()
	check(t, caseT{Leaf: 4096, Profile: "pinned", WalkEvery: 1, Ops: l})
}

// mkdir of an existing name must answer EEXIST (was: sync "unlock of unlocked mutex", a Go fatal error)
func TestRegressMkdirExistingName(t *testing.T) {
	pin(t, opT{K: "mkdir", P: "a"}, opT{K: "mkdir", P: "a", Raw: true})
	pin(t, opT{K: "create", P: "a"}, opT{K: "mkdir", P: "a", Raw: true}, opT{K: "create", P: "a", Raw: true})
}

// a directory evicted from the kernel's cache (complete forget) is still there (was: lookup panics)
func TestRegressForgetLinkedDirectory(t *testing.T) {
	pin(t, opT{K: "mkdir", P: "a"}, opT{K: "forget", Pref: "live", Split: true}, opT{K: "lookup", P: "a", Fresh: true},
		opT{K: "create", P: "a/b", Fresh: true}, opT{K: "readdir", P: "a"})
}

// inode numbers of live entries stay distinct after a freed number was handed out again
// (was: the generator fell back to its first number once the free list ran empty)
func TestRegressInodeNumberReuse(t *testing.T) {
	pin(t, opT{K: "mkdir", P: "a"}, opT{K: "create", P: "b"}, opT{K: "rmdir", P: "a"},
		opT{K: "forget", Pref: "orphan", Split: true}, opT{K: "create", P: "c"}, opT{K: "create", P: "d"},
		opT{K: "write", P: "c", Len: 5, Seed: 1}, opT{K: "write", P: "d", Len: 7, Seed: 2}, opT{K: "write", P: "b", Len: 9, Seed: 3})
}

// rename of a directory onto a non-empty directory answers ENOTEMPTY and changes nothing
// (was: success, the target's listing entry stayed next to the renamed one)
func TestRegressRenameOntoNonEmptyDirectory(t *testing.T) {
	pin(t, opT{K: "mkdir", P: "a"}, opT{K: "mkdir", P: "c"}, opT{K: "create", P: "c/b"}, opT{K: "rename", P: "a", Q: "c"},
		opT{K: "readdir", P: ""}, opT{K: "rename", P: "c", Q: "a"}, opT{K: "lookup", P: "a/b"})
}

// a tour through every operation kind, with data crossing leaf boundaries, then commit
func TestRegressTour(t *testing.T) {
	L := 4096
	pin(t,
		opT{K: "mkdir", P: "a"}, opT{K: "mkdir", P: "a/b"}, opT{K: "create", P: "a/b/c"},
		opT{K: "write", P: "a/b/c", Off: 0, Len: 2*L + 1, Seed: 7},
		opT{K: "write", P: "a/b/c", Off: L - 1, Len: 2, Seed: 8, Kind: 1},
		opT{K: "write", P: "a/b/c", Off: 3 * L, Len: 5, Seed: 9}, // hole
		opT{K: "trunc", P: "a/b/c", Len: 2 * L},
		opT{K: "read", P: "a/b/c", Off: L - 3, Len: 10},
		opT{K: "create", P: "d"}, opT{K: "create", P: "empty"},
		opT{K: "write", P: "d", Len: 3, Seed: 1},
		opT{K: "rename", P: "d", Q: "a/b/c"}, // over a file
		opT{K: "create", P: "d"}, opT{K: "write", P: "d", Len: L, Seed: 2},
		opT{K: "forget", Pref: "orphan"}, opT{K: "forget", Pref: "live", Amt: 1},
		opT{K: "mkdir", P: "c"}, opT{K: "rename", P: "a/b", Q: "c"}, // over an empty directory
		opT{K: "rename", P: "c", Q: "c/x"}, // into its own subtree: EINVAL
		opT{K: "rename", P: "c/c", Q: "c"}, // onto an ancestor: ENOTEMPTY
		opT{K: "unlink", P: "c"}, opT{K: "rmdir", P: "d"}, opT{K: "rmdir", P: "c"}, opT{K: "rmdir", P: "a"},
		opT{K: "getattr", P: "c/c"}, opT{K: "readdir", P: "c"}, opT{K: "lookup", P: "a/b/c"},
		opT{K: "unlink", P: "empty"}, opT{K: "create", P: "empty"},
	)
}

// committing a mount without any file produces an (empty) bundle
func TestRegressCommitEmpty(t *testing.T) {
	pin(t, opT{K: "mkdir", P: "a"})
	pin(t, opT{K: "lookup", P: "a"})
}
