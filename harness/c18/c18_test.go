package c18

import (
	"context"
	"encoding/json"
	"fmt"
	"os"
	"path"
	"sort"
	"strings"
	"syscall"
	"testing"
	"time"

	"github.com/jacobsa/fuse/fuseops"
	"github.com/jacobsa/fuse/fuseutil"
	dfuse "github.com/oneconcern/datamon/pkg/fuse"
	"pgregory.net/rapid"

	"verifharness/evid"
	"verifharness/hx"
)

var stats = evid.New("C18", "rapid: programs of 1..60 operations over names {a,ab,b,c} (depth <= 3, biased by a simulated tree towards existing entries) run against the fuseutil.FileSystem of a mutable mount by a harness that plays the kernel: dentry cache + owed lookup counts, path resolution by LookUpInode (cached or fresh), VFS-level checks (EEXIST/EISDIR/ENOTDIR, rename type compatibility, rename into own subtree, same inode), create/mkdir (also sent on an existing name: the op contract demands EEXIST), write (holes, appends, leaf-relative sizes), truncate, rename (over files, empty and non-empty directories, across directories), unlink, rmdir, lookup, getattr, read within [0,size], readdir (offset 0, one large buffer), forget (live or unlinked inode; one/half/all of the owed count; as one op with N=n or n ops with N=1). After every k-th op (k drawn, mostly 1) the whole tree is compared with a reference POSIX tree model: every directory listed, every name of the name space looked up in every directory (ENOENT for absent), all live inodes held at once must be pairwise distinct, attributes (type, size), then the lookups are given back. Finally Commit, download of the new bundle and comparison of its files with the model. Non-trivial: a forget of a live entry followed by a lookup/create/mkdir op, or a rename over an existing file, or an inode number handed out again for another entry; distinct by the set of op-kind bigrams of the program.")

func TestMain(m *testing.M) {
	code := m.Run()
	stats.Flush()
	os.Exit(code)
}

// Known findings (see FINDINGS.json): none are excluded by construction at the moment.

// ---------------------------------------------------------------------------------------------
// cases

type opT struct {
	K     string `json:"k"`               // create mkdir write trunc rename unlink rmdir lookup getattr read readdir forget
	P     string `json:"p,omitempty"`     // path below the mount root
	Q     string `json:"q,omitempty"`     // rename target
	Raw   bool   `json:"raw,omitempty"`   // create/mkdir: send the op although the name exists (the op contract demands EEXIST)
	Fresh bool   `json:"fresh,omitempty"` // resolve with real lookups instead of cached dentries
	Off   int    `json:"off,omitempty"`
	Len   int    `json:"len,omitempty"`
	Seed  uint64 `json:"seed,omitempty"`
	Kind  int    `json:"kind,omitempty"`  // data kind for hx.Expand
	Sel   int    `json:"sel,omitempty"`   // forget: index into the held inodes
	Pref  string `json:"pref,omitempty"`  // forget: live | orphan | any
	Amt   int    `json:"amt,omitempty"`   // forget: 0 everything owed, 1 one, 2 half
	Split bool   `json:"split,omitempty"` // forget: n ops with N=1 instead of one op with N=n
}

type caseT struct {
	Leaf      uint32 `json:"leaf"`
	Profile   string `json:"profile"`    // mixed | inodes (namespace ops and forgets only, two names)
	WalkEvery int    `json:"walk_every"` // full comparison after every k-th op (0: only at the end)
	Ops       []opT  `json:"ops"`
}

// "a" is a proper prefix of "ab": lookup keys of siblings share a prefix
var nameSpace = []string{"a", "ab", "b", "c"}

type gen struct {
	t     *rapid.T
	sim   *model
	leaf  int
	names []string
	i     int
}

func (g *gen) lbl(s string) string { return fmt.Sprintf("%s%d", s, g.i) }

// intn draws a uniform index: rapid's integer generators favour small values, which would make the first
// op kind / name / existing entry dominate, so a drawn word is mixed before it is reduced.
func (g *gen) intn(n int, label string) int {
	z := rapid.Uint64().Draw(g.t, g.lbl(label)) + 0x9E3779B97F4A7C15
	z = (z ^ (z >> 30)) * 0xBF58476D1CE4E5B9
	z = (z ^ (z >> 27)) * 0x94D049BB133111EB
	z ^= z >> 31
	return int(z % uint64(n))
}

func (g *gen) name() string { return g.names[g.intn(len(g.names), "name")] }

func (g *gen) randPath() string {
	depth := []int{1, 1, 2, 2, 3}[g.intn(5, "depth")]
	parts := make([]string, depth)
	for i := range parts {
		parts[i] = g.name()
	}
	return strings.Join(parts, "/")
}

func rel(n *mnode) string { return strings.TrimPrefix(n.path(), "/") }

// existing picks the path of an existing entry: want 'd' dir (root included when rootOK), 'f' file, 'a' any
func (g *gen) existing(want byte, rootOK bool) (string, bool) {
	var list []string
	if want == 'd' && rootOK {
		list = append(list, "")
	}
	for _, n := range g.sim.all() {
		if want == 'a' || (want == 'd') == n.dir {
			list = append(list, rel(n))
		}
	}
	if len(list) == 0 {
		return "", false
	}
	return list[g.intn(len(list), "pick")], true
}

// inDir is an existing directory (not deeper than 2) plus a name of the name space
func (g *gen) inDir() string {
	var list []string
	list = append(list, "")
	for _, n := range g.sim.all() {
		if n.dir && strings.Count(rel(n), "/") < 2 {
			list = append(list, rel(n))
		}
	}
	d := list[g.intn(len(list), "dir")]
	return path.Join(d, g.name())
}

func (g *gen) pathFor(want byte, pExisting int) string {
	if g.intn(100, "ex") < pExisting {
		if p, ok := g.existing(want, false); ok {
			return p
		}
	}
	if g.intn(2, "anyex") == 0 {
		if p, ok := g.existing('a', false); ok {
			return p
		}
	}
	return g.randPath()
}

func (g *gen) size(cur int) int {
	L := g.leaf
	return rapid.SampledFrom([]int{0, 1, cur, cur + 1, max(cur-1, 0), L - 1, L, L + 1, 2 * L, rapid.IntRange(0, 3*L).Draw(g.t, g.lbl("sz"))}).Draw(g.t, g.lbl("szc"))
}

func (g *gen) drawOp(kinds []string) opT {
	t := g.t
	op := opT{K: kinds[g.intn(len(kinds), "k")]}
	if len(g.sim.all()) < 4 && g.intn(10, "grow") < 6 {
		op.K = []string{"create", "create", "mkdir"}[g.intn(3, "growk")] // little to operate on yet
	}
	op.Fresh = g.intn(10, "fresh") < 3
	switch op.K {
	case "create", "mkdir":
		if g.intn(10, "where") < 8 {
			op.P = g.inDir()
		} else {
			op.P = g.randPath()
		}
		op.Raw = g.intn(3, "raw") == 0
	case "write":
		op.P = g.pathFor('f', 85)
		cur := 0
		if n, e := g.sim.file(split(op.P)); e == 0 {
			cur = len(n.data)
		}
		L := g.leaf
		op.Off = rapid.SampledFrom([]int{0, 0, cur, cur, cur / 2, cur + 1, cur + L, L, L - 1}).Draw(t, g.lbl("off"))
		op.Len = rapid.SampledFrom([]int{1, 7, 64, L - 1, L, L + 1, rapid.IntRange(1, 2*L+3).Draw(t, g.lbl("ln"))}).Draw(t, g.lbl("lnc"))
		if op.Off+op.Len > 3*L+8 {
			op.Off = cur
			if op.Off+op.Len > 3*L+8 {
				op.Off, op.Len = 0, min(op.Len, L+1)
			}
		}
		op.Seed = rapid.Uint64().Draw(t, g.lbl("seed"))
		op.Kind = rapid.SampledFrom([]int{0, 0, 1, 2}).Draw(t, g.lbl("kind"))
	case "trunc":
		op.P = g.pathFor('f', 85)
		cur := 0
		if n, e := g.sim.file(split(op.P)); e == 0 {
			cur = len(n.data)
		}
		op.Len = g.size(cur)
	case "read":
		op.P = g.pathFor('f', 90)
		op.Off = g.intn(1<<20, "off")
		op.Len = g.intn(1<<20, "ln")
	case "oio":
		// I/O by inode on a file whose name is gone while the kernel still references it (open-unlinked file)
		L := g.leaf
		op.Sel = g.intn(8, "osel")
		op.Amt = g.intn(4, "osub") // 0 getattr, 1 read, 2 write, 3 truncate
		op.Off = rapid.SampledFrom([]int{0, 0, 3, L - 1, L}).Draw(t, g.lbl("ooff"))
		op.Len = rapid.SampledFrom([]int{0, 1, 7, L, L + 1}).Draw(t, g.lbl("oln"))
		op.Seed = rapid.Uint64().Draw(t, g.lbl("oseed"))
	case "rename":
		op.P = g.pathFor('a', 85)
		switch r := g.intn(100, "dst"); {
		case r < 35:
			if op.Q = g.pathFor('a', 100); op.Q == op.P {
				op.Q = g.pathFor('a', 100)
			}
		case r < 85:
			op.Q = g.inDir()
		default:
			op.Q = g.randPath()
		}
	case "unlink":
		op.P = g.pathFor('f', 80)
	case "rmdir":
		op.P = g.pathFor('d', 80)
	case "lookup", "getattr":
		op.P = g.pathFor('a', 60)
		if op.K == "lookup" {
			op.Fresh = true
		}
	case "readdir":
		if p, ok := g.existing('d', true); ok && g.intn(10, "exd") < 9 {
			op.P = p
		} else {
			op.P = g.randPath()
		}
	case "forget":
		op.Sel = g.intn(64, "sel")
		op.Pref = []string{"live", "live", "orphan", "orphan", "any"}[g.intn(5, "pref")]
		op.Amt = []int{0, 0, 0, 1, 2}[g.intn(5, "amt")]
		op.Split = g.intn(10, "split") < 7
	}
	return op
}

// simApply keeps the generator's idea of the tree (only a bias: the oracle model runs separately)
func simApply(m *model, op opT) {
	switch op.K {
	case "create":
		m.create(split(op.P), false)
	case "mkdir":
		m.create(split(op.P), true)
	case "write":
		if n, e := m.file(split(op.P)); e == 0 {
			n.data = truncateTo(n.data, max(len(n.data), op.Off+op.Len))
		}
	case "trunc":
		if n, e := m.file(split(op.P)); e == 0 {
			n.data = truncateTo(n.data, op.Len)
		}
	case "rename":
		m.rename(split(op.P), split(op.Q))
	case "unlink":
		m.unlink(split(op.P))
	case "rmdir":
		m.rmdir(split(op.P))
	}
}

var (
	kindsMixed  = weighted(map[string]int{"create": 14, "mkdir": 12, "write": 12, "trunc": 5, "rename": 15, "unlink": 6, "rmdir": 5, "lookup": 6, "getattr": 3, "read": 5, "readdir": 3, "forget": 12, "oio": 6})
	kindsInodes = weighted(map[string]int{"create": 16, "mkdir": 16, "rename": 14, "unlink": 12, "rmdir": 12, "lookup": 8, "forget": 22})
)

func weighted(w map[string]int) []string {
	var ks, out []string
	for k := range w {
		ks = append(ks, k)
	}
	sort.Strings(ks)
	for _, k := range ks {
		for i := 0; i < w[k]; i++ {
			out = append(out, k)
		}
	}
	return out
}

func drawCase(t *rapid.T) caseT {
	c := caseT{}
	c.Leaf = rapid.SampledFrom([]uint32{4096, 4096, 4096, 1024, 16384, 65536}).Draw(t, "leaf")
	c.Profile = rapid.SampledFrom([]string{"mixed", "mixed", "inodes"}).Draw(t, "profile")
	c.WalkEvery = rapid.SampledFrom([]int{1, 1, 1, 1, 2, 5, 0}).Draw(t, "walk")
	g := &gen{t: t, sim: newModel(), leaf: int(c.Leaf), names: nameSpace}
	kinds := kindsMixed
	if c.Profile == "inodes" {
		kinds = kindsInodes
		g.names = nameSpace[:2+g.intn(2, "nnames")]
	}
	g.i = -1
	n := 1 + g.intn(60, "nops")
	for g.i = 0; g.i < n; g.i++ {
		op := g.drawOp(kinds)
		c.Ops = append(c.Ops, op)
		simApply(g.sim, op)
	}
	return c
}

// ---------------------------------------------------------------------------------------------
// execution

type result struct {
	outcomes   []string // per program op: kind:result
	counters   map[string]int
	forgotLive bool // a live entry was forgotten ...
	liveThen   bool // ... and a lookup/create/mkdir op followed
	renameOver bool
	reused     int
	files      int
	entries    int
	fsCalls    int
}

type exec struct {
	c   caseT
	m   *model
	k   *kern
	res *result
}

func (x *exec) count(name string) { x.res.counters[name]++ }

// resolve walks a whole path from the root like the kernel's path walk
func (x *exec) resolve(comps []string, fresh bool) (fuseops.InodeID, *mnode, syscall.Errno, error) {
	cur, node := fuseops.InodeID(fuseops.RootInodeID), x.m.root
	for _, name := range comps {
		if !node.dir {
			return 0, nil, syscall.ENOTDIR, nil
		}
		child := node.kids[name]
		ino, e, err := x.k.lookup(cur, node.path(), name, child, fresh)
		if err != nil {
			return 0, nil, 0, err
		}
		if e != 0 {
			return 0, nil, e, nil
		}
		cur, node = ino, child
	}
	return cur, node, 0, nil
}

// resolveDir resolves the directory in which the last component of an operation lives
func (x *exec) resolveDir(comps []string, fresh bool) (fuseops.InodeID, *mnode, syscall.Errno, error) {
	ino, node, e, err := x.resolve(comps, fresh)
	if err != nil || e != 0 {
		return 0, nil, e, err
	}
	if !node.dir {
		return 0, nil, syscall.ENOTDIR, nil
	}
	return ino, node, 0, nil
}

func harnessf(format string, a ...interface{}) error {
	return fmt.Errorf("harness: "+format, a...)
}

// step executes one program op; the returned string is the outcome (errno name, by whom)
func (x *exec) step(op opT) (string, error) {
	k, m := x.k, x.m
	comps := split(op.P)
	ctx := context.Background()
	switch op.K {
	case "create", "mkdir":
		isDir := op.K == "mkdir"
		if len(comps) == 0 {
			return "skip", nil
		}
		pino, pnode, e, err := x.resolveDir(comps[:len(comps)-1], op.Fresh)
		if err != nil || e != 0 {
			return "vfs:" + errName(e), err
		}
		name := comps[len(comps)-1]
		child := pnode.kids[name]
		if _, _, err := k.lookup(pino, pnode.path(), name, child, op.Fresh); err != nil {
			return "", err
		}
		if child != nil && !op.Raw {
			return "vfs:EEXIST", nil
		}
		where := fmt.Sprintf("%s(%s, %q)", op.K, pnode.path(), name)
		var entry *fuseops.ChildInodeEntry
		var handle fuseops.HandleID
		var errno syscall.Errno
		var viol error
		if isDir {
			o := &fuseops.MkDirOp{Parent: pino, Name: name, Mode: os.ModeDir | 0o755}
			errno, viol = k.call(where, func() error { return k.fs.MkDir(ctx, o) })
			entry = &o.Entry
		} else {
			o := &fuseops.CreateFileOp{Parent: pino, Name: name, Mode: 0o644}
			errno, viol = k.call(where, func() error { return k.fs.CreateFile(ctx, o) })
			entry, handle = &o.Entry, o.Handle
		}
		if viol != nil {
			return "", viol
		}
		if child != nil {
			if errno != syscall.EEXIST {
				return "", violf("%s: the name exists, the op contract demands EEXIST, got %s", where, errName(errno))
			}
			return "fs:EEXIST", nil
		}
		if errno != 0 {
			return "", violf("%s: want success, got %s", where, errName(errno))
		}
		n := m.add(pnode, name, isDir)
		if err := k.bind(entry.Child, n, where); err != nil {
			return "", err
		}
		k.dc[dkey{pino, name}] = entry.Child
		if s := attrMismatch(entry.Attributes, n); s != "" {
			return "", violf("%s: attributes of the new entry: %s", where, s)
		}
		if !isDir {
			if err := k.closeFile(entry.Child, handle, where); err != nil {
				return "", err
			}
		}
		if x.res.forgotLive {
			x.res.liveThen = true
		}
		return "fs:OK", nil

	case "oio":
		var cands []fuseops.InodeID
		for _, ino := range k.heldList("orphan") {
			if h := k.held[ino]; h != nil && h.orphan && !h.dir && k.orphNode[ino] != nil {
				cands = append(cands, ino)
			}
		}
		if len(cands) == 0 {
			return "skip", nil
		}
		ino := cands[op.Sel%len(cands)]
		node := k.orphNode[ino]
		x.count("io_on_unlinked_inode")
		switch op.Amt {
		case 0:
			return "fs:OK", k.getattr(ino, node)
		case 1:
			off := op.Off % (len(node.data) + 1)
			return "fs:OK", k.readFile(ino, node, off, min(op.Len, len(node.data)-off))
		case 3:
			where := fmt.Sprintf("truncate(unlinked inode %d, %d)", ino, op.Len)
			sz := uint64(op.Len)
			o := &fuseops.SetInodeAttributesOp{Inode: ino, Size: &sz}
			errno, viol := k.call(where, func() error { return k.fs.SetInodeAttributes(ctx, o) })
			if viol != nil {
				return "", viol
			}
			if errno != 0 {
				return "", violf("%s: want success, got %s", where, errName(errno))
			}
			node.data = truncateTo(node.data, op.Len)
			if s := attrMismatch(o.Attributes, node); s != "" {
				return "", violf("%s: returned attributes: %s", where, s)
			}
			return "fs:OK", nil
		}
		if op.Len == 0 {
			return "skip", nil
		}
		where := fmt.Sprintf("write(unlinked inode %d, off=%d, len=%d)", ino, op.Off, op.Len)
		oop := &fuseops.OpenFileOp{Inode: ino}
		errno, viol := k.call("open "+where, func() error { return k.fs.OpenFile(ctx, oop) })
		if viol != nil {
			return "", viol
		}
		if errno != 0 {
			return "", violf("%s: open answered %s", where, errName(errno))
		}
		data := hx.Expand(op.Seed, op.Len, 0, 16)
		wo := &fuseops.WriteFileOp{Inode: ino, Handle: oop.Handle, Offset: int64(op.Off), Data: data}
		errno, viol = k.call(where, func() error { return k.fs.WriteFile(ctx, wo) })
		if viol != nil {
			return "", viol
		}
		if errno != 0 {
			return "", violf("%s: want success, got %s", where, errName(errno))
		}
		node.data = writeAt(node.data, op.Off, data)
		return "fs:OK", k.closeFile(ino, oop.Handle, where)

	case "write", "trunc", "read":
		ino, node, e, err := x.resolve(comps, op.Fresh)
		if err != nil || e != 0 {
			return "vfs:" + errName(e), err
		}
		if node.dir {
			return "vfs:EISDIR", nil
		}
		switch op.K {
		case "read":
			off := op.Off % (len(node.data) + 1)
			ln := min(op.Len%(3*int(x.c.Leaf)+2), len(node.data)-off)
			return "fs:OK", k.readFile(ino, node, off, ln)
		case "trunc":
			where := fmt.Sprintf("truncate(%s, %d)", node.path(), op.Len)
			sz := uint64(op.Len)
			o := &fuseops.SetInodeAttributesOp{Inode: ino, Size: &sz}
			errno, viol := k.call(where, func() error { return k.fs.SetInodeAttributes(ctx, o) })
			if viol != nil {
				return "", viol
			}
			if errno != 0 {
				return "", violf("%s: want success, got %s", where, errName(errno))
			}
			node.data = truncateTo(node.data, op.Len)
			if s := attrMismatch(o.Attributes, node); s != "" {
				return "", violf("%s: returned attributes: %s", where, s)
			}
			return "fs:OK", nil
		}
		where := fmt.Sprintf("write(%s, off=%d, len=%d)", node.path(), op.Off, op.Len)
		oop := &fuseops.OpenFileOp{Inode: ino}
		errno, viol := k.call("open "+where, func() error { return k.fs.OpenFile(ctx, oop) })
		if viol != nil {
			return "", viol
		}
		if errno != 0 {
			return "", violf("%s: open answered %s", where, errName(errno))
		}
		data := hx.Expand(op.Seed, op.Len, op.Kind, 16)
		o := &fuseops.WriteFileOp{Inode: ino, Handle: oop.Handle, Offset: int64(op.Off), Data: data}
		errno, viol = k.call(where, func() error { return k.fs.WriteFile(ctx, o) })
		if viol != nil {
			return "", viol
		}
		if errno != 0 {
			return "", violf("%s: want success, got %s", where, errName(errno))
		}
		node.data = writeAt(node.data, op.Off, data)
		return "fs:OK", k.closeFile(ino, oop.Handle, where)

	case "lookup":
		_, _, e, err := x.resolve(comps, true)
		if err == nil && x.res.forgotLive {
			x.res.liveThen = true
		}
		return "vfs:" + errName(e), err

	case "getattr":
		ino, node, e, err := x.resolve(comps, op.Fresh)
		if err != nil || e != 0 {
			return "vfs:" + errName(e), err
		}
		return "fs:OK", k.getattr(ino, node)

	case "readdir":
		ino, node, e, err := x.resolve(comps, op.Fresh)
		if err != nil || e != 0 {
			return "vfs:" + errName(e), err
		}
		if !node.dir {
			return "vfs:ENOTDIR", nil
		}
		return "fs:OK", k.readdir(ino, node)

	case "unlink", "rmdir":
		if len(comps) == 0 {
			return "skip", nil
		}
		pino, pnode, e, err := x.resolveDir(comps[:len(comps)-1], op.Fresh)
		if err != nil || e != 0 {
			return "vfs:" + errName(e), err
		}
		name := comps[len(comps)-1]
		child := pnode.kids[name]
		_, e, err = k.lookup(pino, pnode.path(), name, child, op.Fresh)
		if err != nil || e != 0 {
			return "vfs:" + errName(e), err
		}
		where := fmt.Sprintf("%s(%s, %q)", op.K, pnode.path(), name)
		var errno syscall.Errno
		var viol error
		var want syscall.Errno
		if op.K == "unlink" {
			if child.dir {
				return "vfs:EISDIR", nil
			}
			o := &fuseops.UnlinkOp{Parent: pino, Name: name}
			errno, viol = k.call(where, func() error { return k.fs.Unlink(ctx, o) })
		} else {
			if !child.dir {
				return "vfs:ENOTDIR", nil
			}
			if len(child.kids) > 0 {
				want = syscall.ENOTEMPTY
			}
			o := &fuseops.RmDirOp{Parent: pino, Name: name}
			errno, viol = k.call(where, func() error { return k.fs.RmDir(ctx, o) })
		}
		if viol != nil {
			return "", viol
		}
		if errno != want {
			return "", violf("%s: want %s, got %s", where, errName(want), errName(errno))
		}
		if errno == 0 {
			delete(pnode.kids, name)
			child.parent = nil
			k.orphaned(pino, name, child)
		}
		return "fs:" + errName(errno), nil

	case "rename":
		dst := split(op.Q)
		if len(comps) == 0 || len(dst) == 0 {
			return "skip", nil
		}
		v := m.renameCheck(comps, dst)
		spIno, _, e, err := x.resolveDir(comps[:len(comps)-1], op.Fresh)
		if err != nil || e != 0 {
			if err == nil && e != v.errno {
				err = harnessf("rename: source parent %s, verdict %s", errName(e), errName(v.errno))
			}
			return "vfs:" + errName(e), err
		}
		dpIno, _, e, err := x.resolveDir(dst[:len(dst)-1], op.Fresh)
		if err != nil || e != 0 {
			if err == nil && e != v.errno {
				err = harnessf("rename: target parent %s, verdict %s", errName(e), errName(v.errno))
			}
			return "vfs:" + errName(e), err
		}
		sIno, e, err := k.lookup(spIno, v.sp.path(), v.sn, v.src, op.Fresh)
		if err != nil || e != 0 {
			return "vfs:" + errName(e), err
		}
		if _, _, err = k.lookup(dpIno, v.dp.path(), v.dn, v.dst, op.Fresh); err != nil {
			return "", err
		}
		if v.noop {
			return "vfs:same", nil
		}
		if !v.byFS {
			return "vfs:" + errName(v.errno), nil
		}
		where := fmt.Sprintf("rename(%s/%s -> %s/%s)", strings.TrimSuffix(v.sp.path(), "/"), v.sn, strings.TrimSuffix(v.dp.path(), "/"), v.dn)
		switch {
		case v.dst == nil:
			where += " [new name]"
		case !v.dst.dir:
			where += " [over a file]"
		case len(v.dst.kids) == 0:
			where += " [over an empty directory]"
		default:
			where += " [over a non-empty directory]"
		}
		o := &fuseops.RenameOp{OldParent: spIno, OldName: v.sn, NewParent: dpIno, NewName: v.dn}
		errno, viol := k.call(where, func() error { return k.fs.Rename(ctx, o) })
		if viol != nil {
			return "", viol
		}
		if errno == syscall.ENOSYS && v.dst != nil && v.dst.dir {
			// declared unsupported by the code ("rename onto an existing directory"): accepted, state unchanged
			x.count("rename_dir_target_enosys")
			return "fs:ENOSYS", nil
		}
		if errno != v.errno {
			return "", violf("%s: want %s, got %s", where, errName(v.errno), errName(errno))
		}
		if errno == 0 {
			if v.dst != nil {
				k.orphaned(dpIno, v.dn, v.dst)
				if !v.dst.dir {
					x.res.renameOver = true
					x.count("rename_over_file")
				} else {
					x.count("rename_over_emptydir")
				}
			}
			m.renameApply(v)
			delete(k.dc, dkey{spIno, v.sn})
			k.dc[dkey{dpIno, v.dn}] = sIno
			if h := k.held[sIno]; h != nil {
				h.desc = v.src.path()
			}
			if v.sp != v.dp {
				x.count("rename_across_dirs")
			}
			if v.src.dir {
				x.count("rename_dir")
			}
		}
		return "fs:" + errName(errno), nil

	case "forget":
		list := k.heldList(op.Pref)
		if len(list) == 0 {
			return "none", nil
		}
		ino := list[op.Sel%len(list)]
		h := k.held[ino]
		n := h.n
		switch op.Amt {
		case 1:
			n = 1
		case 2:
			n = (h.n + 1) / 2
		}
		if n == h.n && k.childrenCached(ino) {
			n-- // the kernel cannot evict a directory whose children it still caches
			x.count("forget_capped")
		}
		if n == 0 {
			return "capped", nil
		}
		cls := "live"
		if h.orphan {
			cls = "orphan"
		}
		if h.dir {
			cls += "_dir"
		} else {
			cls += "_file"
		}
		if n == h.n {
			cls += "_all"
		} else {
			cls += "_part"
		}
		x.count("forget_" + cls)
		if !h.orphan {
			x.res.forgotLive = true
		}
		return cls, k.forget(ino, n, op.Split)
	}
	return "", harnessf("unknown op %q", op.K)
}

// checkTree compares everything visible with the model. All live entries are looked up (so all live inodes
// are held at the same moment, which is when they must be pairwise distinct), then the lookups are given back.
func (x *exec) checkTree() error {
	k := x.k
	inoOf := map[*mnode]fuseops.InodeID{x.m.root: fuseops.RootInodeID}
	var taken []fuseops.InodeID
	var nodes []*mnode
	for _, d := range x.m.dirs() {
		dino := inoOf[d]
		if err := k.readdir(dino, d); err != nil {
			return err
		}
		for _, name := range nameSpace {
			child := d.kids[name]
			ino, _, err := k.lookup(dino, d.path(), name, child, true)
			if err != nil {
				return err
			}
			if child != nil {
				inoOf[child] = ino
				taken = append(taken, ino)
				nodes = append(nodes, child)
			}
		}
	}
	distinct := map[fuseops.InodeID]*mnode{fuseops.RootInodeID: x.m.root}
	for i, ino := range taken {
		if other, dup := distinct[ino]; dup {
			return violf("live entries %s and %s have the same inode %d", other.path(), nodes[i].path(), ino)
		}
		distinct[ino] = nodes[i]
		if err := k.getattr(ino, nodes[i]); err != nil {
			return err
		}
	}
	for i := len(taken) - 1; i >= 0; i-- {
		if err := k.forget(taken[i], 1, false); err != nil {
			return err
		}
	}
	return k.selfCheck()
}

const repoName = "r"

func runCase(c caseT) (*result, error) {
	res := &result{counters: map[string]int{}}
	sc := hx.NewScratch()
	defer sc.Close()
	env := hx.NewEnv()
	stores := env.Actor("mount").Stores
	if err := hx.CreateRepo(stores, repoName); err != nil {
		return res, harnessf("create repo: %v", err)
	}
	staging := sc.Dir("staging")
	bundle := hx.NewBundle(repoName, stores, hx.Local(staging), c.Leaf)
	mfs, err := dfuse.NewMutableFS(bundle, dfuse.Logger(hx.Nop))
	if err != nil {
		return res, harnessf("NewMutableFS: %v", err)
	}
	var fsys fuseutil.FileSystem = mfs.VerifFileSystem()
	x := &exec{c: c, m: newModel(), k: newKern(fsys), res: res}
	defer func() { res.fsCalls = x.k.calls; res.reused = x.k.reused }()

	for i, op := range c.Ops {
		out, err := x.step(op)
		if err != nil {
			return res, fmt.Errorf("op %d %s: %w", i, opString(op), err)
		}
		res.outcomes = append(res.outcomes, op.K+":"+out)
		if err := x.k.selfCheck(); err != nil {
			return res, fmt.Errorf("after op %d %s: %w", i, opString(op), err)
		}
		if c.WalkEvery > 0 && (i+1)%c.WalkEvery == 0 {
			if err := x.checkTree(); err != nil {
				return res, fmt.Errorf("tree after op %d %s: %w", i, opString(op), err)
			}
		}
	}
	if err := x.checkTree(); err != nil {
		return res, fmt.Errorf("tree at the end: %w", err)
	}

	// commit what the mount shows, download the new bundle and compare
	want := hx.Tree{}
	for p, d := range x.m.files() {
		want[p] = d
	}
	res.files, res.entries = len(want), len(x.m.all())
	var cerr error
	func() {
		defer func() {
			if r := recover(); r != nil {
				cerr = violf("Commit panicked: %v", r)
			}
		}()
		if e := mfs.Commit(); e != nil {
			cerr = violf("Commit of a tree with %d files failed: %v", len(want), e)
		}
	}()
	if cerr != nil {
		return res, cerr
	}
	if bundle.BundleID == "" {
		return res, violf("Commit succeeded but the bundle has no ID")
	}
	dl, err := hx.Download(sc, stores, repoName, bundle.BundleID)
	if err != nil {
		return res, violf("download of the committed bundle %s failed: %v", bundle.BundleID, err)
	}
	got := hx.Tree{}
	for p, d := range dl.WithoutMeta() {
		np := path.Clean("/" + p)
		if _, dup := got[np]; dup {
			return res, violf("committed bundle has two files for %s", np)
		}
		got[np] = d
	}
	if diff := hx.DiffTrees(got, want); diff != "" {
		return res, violf("committed bundle differs from the visible tree: %s", diff)
	}
	return res, nil
}

func opString(op opT) string {
	b, _ := json.Marshal(op)
	return string(b)
}

// ---------------------------------------------------------------------------------------------
// recording

func signature(c caseT) string {
	set := map[string]bool{}
	for i := 1; i < len(c.Ops); i++ {
		set[c.Ops[i-1].K+">"+c.Ops[i].K] = true
	}
	var l []string
	for k := range set {
		l = append(l, k)
	}
	sort.Strings(l)
	return c.Profile + "|" + strings.Join(l, ",")
}

func record(c caseT, r *result) {
	nt := r.liveThen || r.renameOver || r.reused > 0
	stats.Case(signature(c), nt, func() interface{} {
		return map[string]interface{}{"case": c, "outcomes": r.outcomes}
	})
	stats.Count("profile_"+c.Profile, 1)
	stats.Count("ops_total", len(c.Ops))
	stats.Count("fs_calls", r.fsCalls)
	for _, o := range r.outcomes {
		stats.Count("op_"+o, 1)
	}
	for k, v := range r.counters {
		stats.Count(k, v)
	}
	if r.liveThen {
		stats.Count("nt_forget_live_then_lookup_or_create", 1)
	}
	if r.renameOver {
		stats.Count("nt_rename_over_file", 1)
	}
	if r.reused > 0 {
		stats.Count("nt_inode_reuse", 1)
		stats.Count("inode_numbers_reused", r.reused)
	}
	switch {
	case r.files == 0:
		stats.Count("commit_files_0", 1)
	case r.files <= 3:
		stats.Count("commit_files_1_3", 1)
	default:
		stats.Count("commit_files_4plus", 1)
	}
	if r.entries > r.files {
		stats.Count("commit_with_dirs", 1)
	}
}

type fataler interface {
	Fatalf(string, ...interface{})
}

const caseLimit = 120 * time.Second

// checkCase runs one case under the watchdog; the error is nil when the property held
func checkCase(c caseT) (*result, error) {
	var res *result
	err, hung, panicked := hx.Guard(caseLimit, func() error {
		var e error
		res, e = runCase(c)
		return e
	})
	if hung {
		return res, fmt.Errorf("HANG: %v", err)
	}
	if panicked {
		return res, fmt.Errorf("the case panicked outside a file system call: %v", err)
	}
	return res, err
}

// failClass is the last clause of a failure message without its numbers: what went wrong, not where
func failClass(err error) string {
	m := err.Error()
	if i := strings.LastIndex(m, ": "); i >= 0 {
		m = m[i+2:]
	}
	return strings.Map(func(r rune) rune {
		if r >= '0' && r <= '9' {
			return -1
		}
		return r
	}, m)
}

// minimize drops operations (halves, quarters, ... single ops, repeated until nothing more can go) as long
// as the case keeps failing the same way
func minimize(c caseT, class string, budget int) caseT {
	cur := c
	for changed := true; changed && budget > 0; {
		changed = false
		for chunk := (len(cur.Ops) + 1) / 2; chunk >= 1; chunk /= 2 {
			for i := 0; i+chunk <= len(cur.Ops) && budget > 0; {
				cand := cur
				cand.Ops = append(append([]opT{}, cur.Ops[:i]...), cur.Ops[i+chunk:]...)
				budget--
				if _, err := checkCase(cand); err != nil && failClass(err) == class {
					cur, changed = cand, true
				} else {
					i += chunk
				}
			}
		}
	}
	return cur
}

var (
	firstFailure string // the first failing case of this process, minimised once (rapid re-runs failing cases while shrinking)
	firstMinimal *caseT
)

func check(t fataler, c caseT) {
	hx.Journal(c) // a Go fatal error (e.g. unlock of an unlocked mutex) kills the process: leave the input behind
	res, err := checkCase(c)
	if err != nil {
		b, _ := json.Marshal(c)
		harness := strings.Contains(err.Error(), "harness:")
		if firstFailure == "" {
			firstFailure = string(b)
			if !harness {
				stats.Violation(err.Error())
			}
			if !harness && !strings.HasPrefix(err.Error(), "HANG") && len(c.Ops) > 1 {
				mc := minimize(c, failClass(err), 400)
				if _, merr := checkCase(mc); merr != nil {
					mb, _ := json.Marshal(mc)
					firstFailure = fmt.Sprintf("%s\n    fails with: %v", mb, merr)
					firstMinimal = &mc
				}
			}
		}
		if firstMinimal != nil {
			hx.Journal(*firstMinimal) // the small case is the replay unit (TestReplayJournal)
		}
		t.Fatalf("%v\ncase=%s\nfirst failure of this run, minimised=%s", err, b, firstFailure)
	}
	record(c, res)
}

func TestPropMutableMount(t *testing.T) {
	rapid.Check(t, func(t *rapid.T) {
		check(t, drawCase(t))
	})
}

// TestReplayJournal re-executes the single case left in $VERIF_REPLAY_JOURNAL
func TestReplayJournal(t *testing.T) {
	p := os.Getenv("VERIF_REPLAY_JOURNAL")
	if p == "" {
		t.Skip("no journal given")
	}
	b, err := os.ReadFile(p)
	if err != nil {
		t.Fatalf("harness: read journal: %v", err)
	}
	var c caseT
	if err := json.Unmarshal(b, &c); err != nil {
		t.Fatalf("harness: parse journal: %v", err)
	}
	check(t, c)
}
