package c18

// The harness side of the FUSE protocol: a reference POSIX directory-tree model (the oracle) and a small
// "kernel" that keeps a dentry cache and the lookup counts it owes to the file system, resolves paths
// component by component with LookUpInode, and sends forgets.  Nothing in this file looks inside datamon.

import (
	"bytes"
	"context"
	"encoding/binary"
	"fmt"
	"sort"
	"strings"
	"syscall"

	"github.com/jacobsa/fuse/fuseops"
	"github.com/jacobsa/fuse/fuseutil"
)

// ---------------------------------------------------------------------------------------------
// reference model

type mnode struct {
	id     int
	dir    bool
	kids   map[string]*mnode
	data   []byte
	parent *mnode
	name   string
}

func (n *mnode) path() string {
	if n.parent == nil {
		return "/"
	}
	var parts []string
	for c := n; c.parent != nil; c = c.parent {
		parts = append([]string{c.name}, parts...)
	}
	return "/" + strings.Join(parts, "/")
}

func (n *mnode) names() []string {
	out := make([]string, 0, len(n.kids))
	for k := range n.kids {
		out = append(out, k)
	}
	sort.Strings(out)
	return out
}

// isAncestorOrSelf tells whether a is d or one of its ancestors
func isAncestorOrSelf(a, d *mnode) bool {
	for c := d; c != nil; c = c.parent {
		if c == a {
			return true
		}
	}
	return false
}

type model struct {
	root *mnode
	next int
}

func newModel() *model {
	return &model{root: &mnode{id: 0, dir: true, kids: map[string]*mnode{}}, next: 1}
}

func split(p string) []string {
	p = strings.Trim(p, "/")
	if p == "" {
		return nil
	}
	return strings.Split(p, "/")
}

// walk resolves all components; ENOENT for a missing one, ENOTDIR when a non-final component is a file
func (m *model) walk(comps []string) (*mnode, syscall.Errno) {
	cur := m.root
	for _, c := range comps {
		if !cur.dir {
			return nil, syscall.ENOTDIR
		}
		k := cur.kids[c]
		if k == nil {
			return nil, syscall.ENOENT
		}
		cur = k
	}
	return cur, 0
}

// parentOf resolves the directory that holds the last component
func (m *model) parentOf(comps []string) (*mnode, string, syscall.Errno) {
	if len(comps) == 0 {
		return nil, "", syscall.EINVAL
	}
	p, e := m.walk(comps[:len(comps)-1])
	if e != 0 {
		return nil, "", e
	}
	if !p.dir {
		return nil, "", syscall.ENOTDIR
	}
	return p, comps[len(comps)-1], 0
}

func (m *model) add(parent *mnode, name string, dir bool) *mnode {
	n := &mnode{id: m.next, dir: dir, parent: parent, name: name}
	m.next++
	if dir {
		n.kids = map[string]*mnode{}
	}
	parent.kids[name] = n
	return n
}

// create is open(O_CREAT|O_EXCL) / mkdir
func (m *model) create(comps []string, dir bool) (*mnode, syscall.Errno) {
	p, name, e := m.parentOf(comps)
	if e != 0 {
		return nil, e
	}
	if p.kids[name] != nil {
		return nil, syscall.EEXIST
	}
	return m.add(p, name, dir), 0
}

func (m *model) file(comps []string) (*mnode, syscall.Errno) {
	n, e := m.walk(comps)
	if e != 0 {
		return nil, e
	}
	if n.dir {
		return nil, syscall.EISDIR
	}
	return n, 0
}

func writeAt(data []byte, off int, b []byte) []byte {
	end := off + len(b)
	if end > len(data) {
		data = append(data, make([]byte, end-len(data))...)
	}
	copy(data[off:], b)
	return data
}

func truncateTo(data []byte, size int) []byte {
	if size <= len(data) {
		return data[:size:size]
	}
	return append(data, make([]byte, size-len(data))...)
}

func (m *model) unlink(comps []string) (*mnode, syscall.Errno) {
	p, name, e := m.parentOf(comps)
	if e != 0 {
		return nil, e
	}
	n := p.kids[name]
	if n == nil {
		return nil, syscall.ENOENT
	}
	if n.dir {
		return nil, syscall.EISDIR
	}
	delete(p.kids, name)
	n.parent = nil
	return n, 0
}

func (m *model) rmdir(comps []string) (*mnode, syscall.Errno) {
	p, name, e := m.parentOf(comps)
	if e != 0 {
		return nil, e
	}
	n := p.kids[name]
	if n == nil {
		return nil, syscall.ENOENT
	}
	if !n.dir {
		return nil, syscall.ENOTDIR
	}
	if len(n.kids) > 0 {
		return nil, syscall.ENOTEMPTY
	}
	delete(p.kids, name)
	n.parent = nil
	return n, 0
}

// renameVerdict is what rename(2) answers on Linux and who decides it
type renameVerdict struct {
	errno    syscall.Errno
	byFS     bool // the file system operation is reached (the VFS has no objection)
	noop     bool // same inode: success without calling the file system
	sp, dp   *mnode
	sn, dn   string
	src, dst *mnode
}

// renameCheck follows do_renameat2/vfs_rename: parents, source, trap checks, same inode, type compatibility
// (all done by the VFS), then emptiness of a directory target (left to the file system).
func (m *model) renameCheck(src, dst []string) renameVerdict {
	var v renameVerdict
	var e syscall.Errno
	if v.sp, v.sn, e = m.parentOf(src); e != 0 {
		v.errno = e
		return v
	}
	if v.dp, v.dn, e = m.parentOf(dst); e != 0 {
		v.errno = e
		return v
	}
	v.src = v.sp.kids[v.sn]
	if v.src == nil {
		v.errno = syscall.ENOENT
		return v
	}
	v.dst = v.dp.kids[v.dn]
	if v.src.dir && isAncestorOrSelf(v.src, v.dp) && v.dst != v.src {
		v.errno = syscall.EINVAL // source is an ancestor of the target
		return v
	}
	if v.dst != nil && v.dst != v.src && v.dst.dir && isAncestorOrSelf(v.dst, v.sp) {
		v.errno = syscall.ENOTEMPTY // target is an ancestor of the source
		return v
	}
	if v.dst == v.src {
		v.noop = true
		return v
	}
	if v.dst != nil {
		if v.src.dir && !v.dst.dir {
			v.errno = syscall.ENOTDIR
			return v
		}
		if !v.src.dir && v.dst.dir {
			v.errno = syscall.EISDIR
			return v
		}
	}
	v.byFS = true
	if v.dst != nil && v.dst.dir && len(v.dst.kids) > 0 {
		v.errno = syscall.ENOTEMPTY
	}
	return v
}

// renameApply performs a rename the verdict allows
func (m *model) renameApply(v renameVerdict) {
	if v.errno != 0 || v.noop {
		return
	}
	if v.dst != nil {
		v.dst.parent = nil
	}
	delete(v.sp.kids, v.sn)
	v.dp.kids[v.dn] = v.src
	v.src.parent = v.dp
	v.src.name = v.dn
}

func (m *model) rename(src, dst []string) syscall.Errno {
	v := m.renameCheck(src, dst)
	m.renameApply(v)
	return v.errno
}

// all returns every node except the root, parents before children, siblings by name
func (m *model) all() []*mnode {
	var out []*mnode
	var rec func(n *mnode)
	rec = func(n *mnode) {
		for _, k := range n.names() {
			c := n.kids[k]
			out = append(out, c)
			if c.dir {
				rec(c)
			}
		}
	}
	rec(m.root)
	return out
}

func (m *model) dirs() []*mnode {
	out := []*mnode{m.root}
	for _, n := range m.all() {
		if n.dir {
			out = append(out, n)
		}
	}
	return out
}

func (m *model) files() map[string][]byte {
	out := map[string][]byte{}
	for _, n := range m.all() {
		if !n.dir {
			out[n.path()] = n.data
		}
	}
	return out
}

// ---------------------------------------------------------------------------------------------
// the kernel's side

type dkey struct {
	parent fuseops.InodeID
	name   string
}

// kino is an inode the kernel holds: n is the lookup count it owes the file system
type kino struct {
	n      uint64
	nodeID int // model node it stands for
	dir    bool
	orphan bool   // unlinked / replaced, still referenced
	desc   string // where it was last seen, for messages
}

type violation struct{ msg string }

func (v *violation) Error() string { return v.msg }

func violf(format string, a ...interface{}) error { return &violation{fmt.Sprintf(format, a...)} }

type kern struct {
	fs      fuseutil.FileSystem
	held    map[fuseops.InodeID]*kino
	byNode  map[int]fuseops.InodeID // model node -> inode, for held inodes
	dc      map[dkey]fuseops.InodeID
	seen    map[fuseops.InodeID]int // every inode number ever handed out -> model node it was first given to
	reused  int                     // inode numbers handed out again for another node after a complete forget
	calls   int
	crashed bool
	// orphNode: the model node of an inode whose name is gone while the kernel still references it
	orphNode map[fuseops.InodeID]*mnode
}

func newKern(fs fuseutil.FileSystem) *kern {
	k := &kern{fs: fs, held: map[fuseops.InodeID]*kino{}, byNode: map[int]fuseops.InodeID{}, dc: map[dkey]fuseops.InodeID{}, seen: map[fuseops.InodeID]int{}}
	// the root is held with an implicit lookup count of one and is never forgotten
	k.held[fuseops.RootInodeID] = &kino{n: 1, nodeID: 0, dir: true, desc: "/"}
	k.byNode[0] = fuseops.RootInodeID
	return k
}

// call runs one file system operation; a panic in it is a violation of "never crashes"
func (k *kern) call(what string, fn func() error) (errno syscall.Errno, viol error) {
	k.calls++
	defer func() {
		if r := recover(); r != nil {
			k.crashed = true
			viol = violf("%s: the file system panicked: %v", what, r)
		}
	}()
	err := fn()
	if err == nil {
		return 0, nil
	}
	if e, ok := err.(syscall.Errno); ok {
		return e, nil
	}
	return 0, violf("%s: the file system answered a non-errno error: %v", what, err)
}

// bind records that the file system handed out inode ino for model node n (one more lookup owed)
func (k *kern) bind(ino fuseops.InodeID, n *mnode, where string) error {
	if ino == 0 {
		return violf("%s: inode number 0 handed out", where)
	}
	if h := k.held[ino]; h != nil {
		if h.nodeID != n.id {
			return violf("%s: inode %d handed out while the kernel still holds it (lookup count %d) for %s: two live entries share one inode", where, ino, h.n, h.desc)
		}
		h.n++
		h.desc = where
		return nil
	}
	if other, ok := k.byNode[n.id]; ok && other != ino {
		return violf("%s: answered inode %d but the kernel still holds inode %d for the same entry", where, ino, other)
	}
	if first, ok := k.seen[ino]; ok && first != n.id {
		k.reused++
	}
	k.seen[ino] = n.id
	k.held[ino] = &kino{n: 1, nodeID: n.id, dir: n.dir, desc: where}
	k.byNode[n.id] = ino
	return nil
}

func attrMismatch(a fuseops.InodeAttributes, n *mnode) string {
	if a.Mode.IsDir() != n.dir {
		return fmt.Sprintf("mode %v but the entry is dir=%v", a.Mode, n.dir)
	}
	if !n.dir && a.Size != uint64(len(n.data)) {
		return fmt.Sprintf("size %d, want %d", a.Size, len(n.data))
	}
	return ""
}

// lookup resolves one name in a directory the kernel holds. With fresh=false a cached dentry is trusted
// (the file system grants a year of validity). want is the model's child (nil when absent).
func (k *kern) lookup(parent fuseops.InodeID, pdesc, name string, want *mnode, fresh bool) (fuseops.InodeID, syscall.Errno, error) {
	if h := k.held[parent]; h == nil || h.n == 0 {
		return 0, 0, fmt.Errorf("harness: lookup under inode %d which the kernel does not hold", parent)
	}
	key := dkey{parent, name}
	if !fresh {
		if ino, ok := k.dc[key]; ok {
			return ino, 0, nil
		}
	}
	where := fmt.Sprintf("lookup(%s, %q)", pdesc, name)
	op := &fuseops.LookUpInodeOp{Parent: parent, Name: name}
	errno, viol := k.call(where, func() error { return k.fs.LookUpInode(context.Background(), op) })
	if viol != nil {
		return 0, 0, viol
	}
	if want == nil {
		if errno != syscall.ENOENT {
			return 0, 0, violf("%s: no such entry, want ENOENT, got %s (inode %d)", where, errName(errno), op.Entry.Child)
		}
		if cached, ok := k.dc[key]; ok {
			return 0, 0, fmt.Errorf("harness: dentry cache has %d for absent %s", cached, where)
		}
		return 0, syscall.ENOENT, nil
	}
	if errno != 0 {
		return 0, 0, violf("%s: the entry exists, got %s", where, errName(errno))
	}
	if err := k.bind(op.Entry.Child, want, where); err != nil {
		return 0, 0, err
	}
	if cached, ok := k.dc[key]; ok && cached != op.Entry.Child {
		return 0, 0, violf("%s: answered inode %d, the cached dentry says %d", where, op.Entry.Child, cached)
	}
	k.dc[key] = op.Entry.Child
	if s := attrMismatch(op.Entry.Attributes, want); s != "" {
		return 0, 0, violf("%s: attributes: %s", where, s)
	}
	return op.Entry.Child, 0, nil
}

// childrenCached tells whether the dentry cache has entries below a directory inode
func (k *kern) childrenCached(ino fuseops.InodeID) bool {
	for key := range k.dc {
		if key.parent == ino {
			return true
		}
	}
	return false
}

// forget gives n lookups back; as one op with N=n or as n ops with N=1
func (k *kern) forget(ino fuseops.InodeID, n uint64, split bool) error {
	h := k.held[ino]
	if h == nil || n == 0 || n > h.n || ino == fuseops.RootInodeID {
		return fmt.Errorf("harness: forget(%d, %d) not owed", ino, n)
	}
	if n == h.n && k.childrenCached(ino) {
		return fmt.Errorf("harness: complete forget of %d with cached children", ino)
	}
	where := fmt.Sprintf("forget(inode %d [%s], %d)", ino, h.desc, n)
	send := func(cnt uint64) error {
		op := &fuseops.ForgetInodeOp{Inode: ino, N: cnt}
		errno, viol := k.call(where, func() error { return k.fs.ForgetInode(context.Background(), op) })
		if viol != nil {
			return viol
		}
		if errno != 0 {
			return violf("%s: answered %s", where, errName(errno))
		}
		return nil
	}
	if split {
		for i := uint64(0); i < n; i++ {
			if err := send(1); err != nil {
				return err
			}
		}
	} else if err := send(n); err != nil {
		return err
	}
	h.n -= n
	if h.n == 0 {
		delete(k.held, ino)
		delete(k.byNode, h.nodeID)
		for key, v := range k.dc {
			if v == ino {
				delete(k.dc, key)
			}
		}
	}
	return nil
}

// orphaned is called after unlink/rmdir/replace: the name is gone, the inode stays until forgotten
func (k *kern) orphaned(parent fuseops.InodeID, name string, node *mnode) {
	key := dkey{parent, name}
	if ino, ok := k.dc[key]; ok {
		if h := k.held[ino]; h != nil {
			h.orphan = true
			h.desc += " (unlinked)"
			if node != nil {
				if k.orphNode == nil {
					k.orphNode = map[fuseops.InodeID]*mnode{}
				}
				k.orphNode[ino] = node
			}
		}
		delete(k.dc, key)
	}
}

// heldList lists held inodes (not the root) ordered by the model node they stand for
func (k *kern) heldList(pref string) []fuseops.InodeID {
	var all, sel []fuseops.InodeID
	for ino := range k.held {
		if ino != fuseops.RootInodeID {
			all = append(all, ino)
		}
	}
	sort.Slice(all, func(i, j int) bool { return k.held[all[i]].nodeID < k.held[all[j]].nodeID })
	for _, ino := range all {
		h := k.held[ino]
		if (pref == "orphan" && h.orphan) || (pref == "live" && !h.orphan) {
			sel = append(sel, ino)
		}
	}
	if len(sel) > 0 {
		return sel
	}
	return all
}

// selfCheck asserts the harness' own bookkeeping: a cached dentry implies held parent and child
func (k *kern) selfCheck() error {
	for key, ino := range k.dc {
		if h := k.held[key.parent]; h == nil || h.n == 0 {
			return fmt.Errorf("harness: dentry (%d,%q) under an inode that is not held", key.parent, key.name)
		}
		if h := k.held[ino]; h == nil || h.n == 0 {
			return fmt.Errorf("harness: dentry (%d,%q) -> %d which is not held", key.parent, key.name, ino)
		}
	}
	return nil
}

// ---------------------------------------------------------------------------------------------
// directory listings

type dirent struct {
	ino  uint64
	off  uint64
	typ  uint32
	name string
}

// parseDirents decodes the fuse_dirent records written by fuseutil.WriteDirent (host order, 8-byte aligned)
func parseDirents(b []byte) ([]dirent, error) {
	var out []dirent
	for len(b) > 0 {
		if len(b) < 24 {
			return nil, fmt.Errorf("truncated dirent header (%d bytes left)", len(b))
		}
		d := dirent{ino: binary.LittleEndian.Uint64(b[0:]), off: binary.LittleEndian.Uint64(b[8:]), typ: binary.LittleEndian.Uint32(b[20:])}
		nl := int(binary.LittleEndian.Uint32(b[16:]))
		tot := 24 + nl
		if tot%8 != 0 {
			tot += 8 - tot%8
		}
		if tot > len(b) {
			return nil, fmt.Errorf("dirent name overruns the buffer")
		}
		d.name = string(b[24 : 24+nl])
		out = append(out, d)
		b = b[tot:]
	}
	return out, nil
}

// readdir lists a directory the way ls does: opendir, one read at offset 0 with a large buffer, releasedir
func (k *kern) readdir(ino fuseops.InodeID, n *mnode) error {
	where := fmt.Sprintf("readdir(%s)", n.path())
	oop := &fuseops.OpenDirOp{Inode: ino}
	errno, viol := k.call("opendir "+where, func() error { return k.fs.OpenDir(context.Background(), oop) })
	if viol != nil {
		return viol
	}
	if errno != 0 {
		return violf("%s: opendir answered %s", where, errName(errno))
	}
	op := &fuseops.ReadDirOp{Inode: ino, Handle: oop.Handle, Offset: 0, Dst: make([]byte, 64*1024)}
	errno, viol = k.call(where, func() error { return k.fs.ReadDir(context.Background(), op) })
	if viol != nil {
		return viol
	}
	if errno != 0 {
		return violf("%s: answered %s", where, errName(errno))
	}
	if op.BytesRead < 0 || op.BytesRead > len(op.Dst) {
		return violf("%s: BytesRead=%d", where, op.BytesRead)
	}
	ents, err := parseDirents(op.Dst[:op.BytesRead])
	if err != nil {
		return violf("%s: %v", where, err)
	}
	got := map[string]bool{}
	var gotNames []string
	for _, e := range ents {
		if e.name == "." || e.name == ".." {
			continue
		}
		if got[e.name] {
			return violf("%s: lists %q twice (%v)", where, e.name, ents)
		}
		got[e.name] = true
		gotNames = append(gotNames, e.name)
		c := n.kids[e.name]
		if c == nil {
			return violf("%s: lists %q which does not exist (want %v)", where, e.name, n.names())
		}
		wantT := uint32(fuseutil.DT_File)
		if c.dir {
			wantT = uint32(fuseutil.DT_Directory)
		}
		if e.typ != wantT && e.typ != uint32(fuseutil.DT_Unknown) {
			return violf("%s: entry %q has type %d, want %d", where, e.name, e.typ, wantT)
		}
	}
	if len(got) != len(n.kids) {
		sort.Strings(gotNames)
		return violf("%s: lists %v, want %v", where, gotNames, n.names())
	}
	rop := &fuseops.ReleaseDirHandleOp{Handle: oop.Handle}
	if _, viol = k.call("releasedir "+where, func() error { return k.fs.ReleaseDirHandle(context.Background(), rop) }); viol != nil {
		return viol
	}
	return nil
}

// getattr compares the attributes of a held inode with the model
func (k *kern) getattr(ino fuseops.InodeID, n *mnode) error {
	where := fmt.Sprintf("getattr(%s)", n.path())
	op := &fuseops.GetInodeAttributesOp{Inode: ino}
	errno, viol := k.call(where, func() error { return k.fs.GetInodeAttributes(context.Background(), op) })
	if viol != nil {
		return viol
	}
	if errno != 0 {
		return violf("%s: inode %d is held by the kernel, got %s", where, ino, errName(errno))
	}
	if s := attrMismatch(op.Attributes, n); s != "" {
		return violf("%s: %s", where, s)
	}
	return nil
}

// readFile reads [off, off+ln) of a held file inode (open, read, release) and compares with the model
func (k *kern) readFile(ino fuseops.InodeID, n *mnode, off, ln int) error {
	where := fmt.Sprintf("read(%s, off=%d, len=%d of %d)", n.path(), off, ln, len(n.data))
	oop := &fuseops.OpenFileOp{Inode: ino}
	errno, viol := k.call("open "+where, func() error { return k.fs.OpenFile(context.Background(), oop) })
	if viol != nil {
		return viol
	}
	if errno != 0 {
		return violf("%s: open answered %s", where, errName(errno))
	}
	op := &fuseops.ReadFileOp{Inode: ino, Handle: oop.Handle, Offset: int64(off), Dst: make([]byte, ln)}
	errno, viol = k.call(where, func() error { return k.fs.ReadFile(context.Background(), op) })
	if viol != nil {
		return viol
	}
	if errno != 0 {
		return violf("%s: answered %s", where, errName(errno))
	}
	if op.BytesRead != ln || !bytes.Equal(op.Dst[:ln], n.data[off:off+ln]) {
		return violf("%s: %d bytes read, content equal=%v", where, op.BytesRead, op.BytesRead == ln && bytes.Equal(op.Dst[:ln], n.data[off:off+ln]))
	}
	return k.closeFile(ino, oop.Handle, where)
}

// closeFile is close(2): flush then release
func (k *kern) closeFile(ino fuseops.InodeID, h fuseops.HandleID, where string) error {
	fop := &fuseops.FlushFileOp{Inode: ino, Handle: h}
	errno, viol := k.call("flush "+where, func() error { return k.fs.FlushFile(context.Background(), fop) })
	if viol != nil {
		return viol
	}
	if errno != 0 {
		return violf("%s: flush answered %s", where, errName(errno))
	}
	rop := &fuseops.ReleaseFileHandleOp{Handle: h}
	errno, viol = k.call("release "+where, func() error { return k.fs.ReleaseFileHandle(context.Background(), rop) })
	if viol != nil {
		return viol
	}
	if errno != 0 {
		return violf("%s: release answered %s", where, errName(errno))
	}
	return nil
}

func errName(e syscall.Errno) string {
	switch e {
	case 0:
		return "OK"
	case syscall.ENOENT:
		return "ENOENT"
	case syscall.EEXIST:
		return "EEXIST"
	case syscall.ENOTDIR:
		return "ENOTDIR"
	case syscall.EISDIR:
		return "EISDIR"
	case syscall.ENOTEMPTY:
		return "ENOTEMPTY"
	case syscall.EINVAL:
		return "EINVAL"
	case syscall.ENOSYS:
		return "ENOSYS"
	case syscall.EIO:
		return "EIO"
	}
	return fmt.Sprintf("errno(%d)", int(e))
}
