package c13

import (
	"fmt"
	"github.com/oneconcern/datamon/pkg/model"
	"os"
	"strings"
	"testing"
	"time"

	"verifharness/hx"
	"verifharness/memstore"
	"verifharness/purgex"
)

func up(repo int, files ...purgex.File) purgex.Op {
	return purgex.Op{Kind: purgex.OpUpload, Repo: repo, Leaf: 1024, Files: files}
}

func file(path string, tail int, blocks ...int) purgex.File {
	return purgex.File{Path: path, C: purgex.Content{Blocks: blocks, Tail: tail}}
}

var oneRepo = purgex.Shape{Repos: []int{1}, Leaves: []uint32{1024}}

// pinned runs a fixed case. A failure is fatal unless the finding `id` is listed as known, in which
// case it is reported as a reproduction of that known finding.
func pinned(t *testing.T, id, what string, c caseT) {
	t.Helper()
	var out outcomeT
	pinnedOut(t, id, what, c, &out)
}

func pinnedOut(t *testing.T, id, what string, c caseT, outp *outcomeT) {
	t.Helper()
	hx.Journal(c)
	var out outcomeT
	defer func() { *outp = out }()
	t0 := time.Now()
	noExclude = true
	defer func() { noExclude = false }()
	err, hung, panicked := hx.Guard(240*time.Second, func() error { return runCase(c, &out) })
	if os.Getenv("C13_DEBUG") != "" {
		t.Logf("%s crash=%+v at=%s: %s", id, c.Crash, out.crashAt, time.Since(t0))
	}
	if err == nil && !hung && !panicked {
		sig, _ := c.classes(out)
		stats.Case("pinned "+id+" "+sig, true, func() interface{} { return c })
		return
	}
	if id != "" && hx.Listed(id) {
		stats.KnownFinding(id, what)
		t.Logf("KNOWN-FINDING %s still reproduces: %v", id, err)
		return
	}
	stats.Violation(fmt.Sprintf("%s: %v", id, err))
	t.Fatalf("%s: %v (hung=%v panicked=%v)\ncase: %s", id, err, hung, panicked, describe(c))
}

// A blob written after the index was built is deleted when reading its attributes fails once:
// checkAndDeleteKey returned the outer (nil) error instead of the GetAttr error.
func TestRegressAttrReadFailure(t *testing.T) {
	for nth := 1; nth <= 3; nth++ {
		pinned(t, KnownGetAttrIgnored, "a transient GetAttr failure during delete-unused makes it delete a blob uploaded after the index", caseT{
			Shape: oneRepo, Chunk: 4, Parallel: 1,
			Pre:    []purgex.Op{up(0, file("a", 0, 0, 1))},
			Post:   []purgex.Op{up(0, file("b", 1, 2), file("a", 300, 1))},
			Faults: []faultT{{Phase: "delete", Store: "blob", Op: memstore.OpGetAttr, Nth: nth, Times: 1}},
		})
	}
}

// A transient failure reading a root blob during the scan: the leaves are left out of the index
// ("the root key is corrupted") and then deleted.
func TestRegressRootReadFailure(t *testing.T) {
	for nth := 1; nth <= 2; nth++ {
		pinned(t, KnownRootGetSkipped, "a transient failure reading a root blob during build-reverse-lookup leaves its leaves out of the index; delete-unused then deletes them", caseT{
			Shape: oneRepo, Chunk: 8, Parallel: 1,
			Pre:    []purgex.Op{up(0, file("a", 0, 0, 1), file("b", 300, 2, 2, 1))},
			Faults: []faultT{{Phase: "index", Store: "blob", Op: memstore.OpGet, Nth: nth, Times: 1}},
		})
	}
}

// A failed index chunk upload is retried, but the keys already streamed into the failed attempt
// were marked as uploaded: they are in no chunk.
func TestRegressChunkPutFailure(t *testing.T) {
	for nth := 1; nth <= 2; nth++ {
		pinned(t, KnownChunkPutMarks, "a transient failure of an index chunk upload loses the keys streamed into the failed attempt; delete-unused then deletes referenced blobs", caseT{
			Shape: oneRepo, Chunk: 3, Parallel: 1,
			Pre:    []purgex.Op{up(0, file("a", 0, 0, 1), file("b", 300, 2, 2, 1))},
			Faults: []faultT{{Phase: "index", Store: "meta", Op: memstore.OpPut, Key: "reverse-index", Nth: nth, Times: 1}},
		})
	}
}

// An upload after the index that finds an orphaned blob in place does not refresh its update time
func TestRegressReuseOfOrphanCRCStore(t *testing.T) {
	// the same on stores that take and report checksums (GCS does): a matching checksum is no reason to leave the
	// update time of a re-used blob alone
	pinned(t, "", "", caseT{
		Shape: purgex.Shape{Repos: []int{1}, Leaves: []uint32{1024}, CRC: true}, Chunk: 4, Parallel: 2,
		Pre:  []purgex.Op{up(0, file("a", 0, 0, 1)), up(0, file("c", 1)), {Kind: purgex.OpDelBundle, Repo: 0, Pick: 0}},
		Post: []purgex.Op{up(0, file("z", 0, 0, 1))},
	})
}

func TestRegressReuseOfOrphan(t *testing.T) {
	pinned(t, KnownDedupNoTouch, "an upload made after the index was built that re-uses an orphaned blob (dedup hit) leaves its update time unchanged; delete-unused deletes it and the new bundle is broken", caseT{
		Shape: oneRepo, Chunk: 4, Parallel: 2,
		Pre:  []purgex.Op{up(0, file("a", 0, 0, 1)), up(0, file("c", 1)), {Kind: purgex.OpDelBundle, Repo: 0, Pick: 0}},
		Post: []purgex.Op{up(0, file("z", 0, 0, 1))},
	})
	// shared leaf only: the new file has another root but re-uses the first leaf of the orphan
	pinned(t, KnownDedupNoTouch, "as above, re-using a leaf only", caseT{
		Shape: oneRepo, Chunk: 4, Parallel: 2,
		Pre:  []purgex.Op{up(0, file("a", 0, 0, 1)), up(0, file("c", 1)), {Kind: purgex.OpDelBundle, Repo: 0, Pick: 0}},
		Post: []purgex.Op{up(0, file("z", 0, 0, 2))},
	})
}

// Kill the index build at every mutating store call (landing or not), resume, delete: "index
// builds interrupted after every chunk/store write and resumed"
func TestRegressCrashAtEveryWrite(t *testing.T) {
	base := caseT{
		Shape: oneRepo, Chunk: 2, Parallel: 3, ResumeChunk: 3,
		Pre: []purgex.Op{up(0, file("a", 0, 0, 1, 2), file("b", 300, 1)), up(0, file("c", 1, 0, 1)), up(0, file("gone", 0, 2, 2)), {Kind: purgex.OpDelBundle, Repo: 0, Pick: 2}},
		Mid: []purgex.Op{up(0, file("m", 0, 1, 1))},
	}
	// keys: a: root+3, b: root+2, c: root+3 (shares leaf 0 with a) => 10 keys, 5 chunks + the empty one
	n := 0
	for sel := 0; sel < 14; sel++ {
		for _, land := range []bool{false, true} {
			c := base
			c.Crash = &crashT{Sel: sel, Land: land}
			id := KnownResumeLeaves
			if sel == 0 {
				id = KnownResumeNoChunk
			}
			pinned(t, id, "build-reverse-lookup killed after uploading a root key but not all its leaves, then resumed: the resumed run skips the root (already in the KV) and never indexes the leaves", c)
			n++
		}
	}
	stats.Count("pinned_crash_points", n)
}

// same sweep with chunk size 1: every key its own chunk, the classic trigger of the resume defect
func TestRegressCrashChunkOne(t *testing.T) {
	base := caseT{
		Shape: oneRepo, Chunk: 1, Parallel: 1, ResumeChunk: 1, SameDir: true,
		Pre: []purgex.Op{up(0, file("a", 0, 0, 1))},
	}
	for sel := 0; sel < 10; sel++ {
		c := base
		c.Crash = &crashT{Sel: sel, Land: true}
		id := KnownResumeLeaves
		if sel == 0 {
			id = KnownResumeNoChunk
		}
		pinned(t, id, "build-reverse-lookup (chunk size 1) killed between chunks and resumed loses leaves", c)
	}
}

// The download of an index chunk breaks in the middle while delete-unused loads the index: the keys
// of the rest of the chunk are not loaded, the command goes on.
func TestRegressChunkReadBreaks(t *testing.T) {
	for nth := 1; nth <= 3; nth++ {
		pinned(t, KnownChunkReadBreaks, "an index chunk download that breaks in the middle is taken for a complete chunk (bufio.Scanner error not checked): delete-unused deletes the blobs listed in the rest of the chunk", caseT{
			Shape: oneRepo, Chunk: 8, Parallel: 1,
			Pre:    []purgex.Op{up(0, file("a", 0, 0, 1), file("b", 300, 2, 2, 1))},
			Faults: []faultT{{Phase: "delete", Store: "meta", Op: OpGetShort, Key: "reverse-index", Nth: nth, Times: 1}},
		})
	}
}

// An upload in flight across the resume: started after the kill (so after the index was started), all
// its blobs written or re-used before the resume, metadata committed after the resumed build finished.
// The resumed chunks must keep the ORIGINAL index time, or delete-unused takes these blobs for old ones.
// Parallel 1 and fewer than 10 chunks: delete-unused then deterministically ends on a resumed chunk.
func TestRegressUploadInFlightAcrossResume(t *testing.T) {
	inflight := up(0, file("f", 5, 2, 0), file("g", 0, 2, 2), file("h", 300))
	n := 0
	for _, cr := range []crashT{{Sel: 2, Land: true}, {Sel: 3, Land: false}, {Sel: 3, Land: true}, {Sel: 4, Land: true}, {Sel: 4, Land: false}} {
		cr := cr
		c := caseT{
			Shape: oneRepo, Chunk: 2, Parallel: 1, ResumeChunk: 3,
			Pre:      []purgex.Op{up(0, file("a", 0, 0, 1, 2), file("b", 300, 1)), up(0, file("gone", 0, 2, 2)), {Kind: purgex.OpDelBundle, Repo: 0, Pick: 1}},
			Crash:    &cr,
			Mid:      []purgex.Op{up(0, file("m", 0, 1, 1))},
			InFlight: &inflight,
			Post:     []purgex.Op{up(0, file("p", 1, 0))},
		}
		var out outcomeT
		pinnedOut(t, "", "a resumed index build must keep the original index time", c, &out)
		if out.inFlight {
			n++
		}
	}
	if n < 3 {
		t.Fatalf("harness: only %d of the pinned cases had an upload in flight across a resume", n)
	}
	stats.Count("pinned_in_flight_across_resume", n)
}

// An index of more than ten chunks is resumed: chunk keys list as chunk-1, chunk-10, chunk-11, ..., chunk-2
// (lexicographic), so the number of the last chunk is not the number of the last listed chunk. A resumed
// build that continues from a lower number overwrites chunks whose keys are then never indexed again.
func TestRegressResumeManyChunks(t *testing.T) {
	var files []purgex.File
	for i := 0; i < 8; i++ {
		files = append(files, file(fmt.Sprintf("f%d", i), 100+i, i%3))
	}
	// 8 roots + 8 distinct tails + 3 shared leaves = 19 keys, one chunk each
	base := caseT{
		Shape: oneRepo, Chunk: 1, Parallel: 1, ResumeChunk: 1,
		Pre: []purgex.Op{up(0, files[:4]...), up(0, files[4:]...), up(0, file("gone", 7, 2, 2)), {Kind: purgex.OpDelBundle, Repo: 0, Pick: 2}},
		Mid: []purgex.Op{up(0, file("m", 55, 1, 1), file("n", 56, 0))},
	}
	n := 0
	for _, sel := range []int{22, 25, 28, 31, 36, 39} {
		for _, same := range []bool{false, true} {
			c := base
			c.SameDir = same
			c.Crash = &crashT{Sel: sel, Land: true}
			var out outcomeT
			pinnedOut(t, "", "resumed index build over more than ten chunks", c, &out)
			if out.resumed {
				n++
			}
		}
	}
	if n < 6 {
		t.Fatalf("harness: only %d of the pinned cases resumed an index", n)
	}
	stats.Count("pinned_resume_many_chunks", n)
}

// Every metadata read of the scan fails once, one position at a time (bundle descriptors, file lists, listing
// pages): whatever build-reverse-lookup then reports, bundles whose blobs are shared with nobody must survive
// the delete-unused that follows a reported success.
func TestRegressMetadataReadFailures(t *testing.T) {
	n := 0
	for _, f := range []faultT{
		{Store: "meta", Op: memstore.OpGet, Key: "bundle.yaml"},
		{Store: "meta", Op: memstore.OpGet, Key: "bundle-files"},
		{Store: "meta", Op: memstore.OpKeysPrefix, Key: ""},
		{Store: "meta", Op: OpGetShort, Key: "bundle.yaml"},
		{Store: "meta", Op: OpGetShort, Key: "bundle-files"},
	} {
		for nth := 1; nth <= 6; nth++ {
			f := f
			f.Phase, f.Nth, f.Times = "index", nth, 1
			pinned(t, "", "", caseT{
				Shape: purgex.Shape{Repos: []int{2}, Leaves: []uint32{1024}}, Chunk: 4, Parallel: 1 + nth%3,
				Pre:    []purgex.Op{up(0, file("a", 11, 0, 1)), up(1, file("b", 12, 2)), up(0, file("c", 13, 1, 1)), up(1, file("gone", 14, 2, 2)), {Kind: purgex.OpDelBundle, Repo: 1, Pick: 1}},
				Faults: []faultT{f},
			})
			n++
		}
	}
	stats.Count("pinned_metadata_read_failures", n)
}

// An upload made after the index re-uses an orphaned blob while the Touch that refreshes the blob's update time
// fails once: if the upload reports success its bundle must survive delete-unused
func TestRegressTouchFailureOnReuse(t *testing.T) {
	for nth := 1; nth <= 4; nth++ {
		pinned(t, "", "", caseT{
			Shape: oneRepo, Chunk: 4, Parallel: 2,
			Pre:            []purgex.Op{up(0, file("a", 0, 0, 1)), up(0, file("c", 1)), {Kind: purgex.OpDelBundle, Repo: 0, Pick: 0}},
			Post:           []purgex.Op{up(0, file("z", 0, 0, 1)), up(0, file("y", 0, 0, 1, 2))},
			PostTouchFault: nth,
		})
	}
}

// docs/purge.md: indexes of several contexts may be merged by hand - build the index of another context, copy its
// chunk files next to the index of this context and build this one with --chunk-index <last copied chunk>.
// delete-unused over the merged index must keep the blobs of both contexts.
func TestRegressManualChunkMerge(t *testing.T) {
	for _, chunk := range []uint64{1, 2, 5} {
		pw, err := purgex.NewWorld(purgex.Shape{Repos: []int{1, 1}, Leaves: []uint32{1024}})
		if err != nil {
			t.Fatal(err)
		}
		func() {
			defer pw.Close()
			fail := func(format string, a ...interface{}) {
				t.Helper()
				stats.Violation(fmt.Sprintf("manual chunk merge: "+format, a...))
				t.Fatalf("manual chunk merge (chunk size %d): "+format, append([]interface{}{chunk}, a...)...)
			}
			ops := []purgex.Op{
				up(0, file("a", 0, 0, 1), file("b", 300, 2)),
				{Kind: purgex.OpUpload, Ctx: 1, Repo: 0, Leaf: 1024, Files: []purgex.File{file("x", 7, 3, 4), file("y", 9)}},
				up(0, file("gone", 5, 5, 5)), {Kind: purgex.OpDelBundle, Repo: 0, Pick: 1},
			}
			for _, o := range ops {
				if err := pw.Apply(o, "pre"); err != nil {
					fail("harness: %v", err)
				}
			}
			time.Sleep(2 * time.Millisecond)
			// 1. the index of context 1, on its own
			if _, oc := pw.BuildIndex(purgex.Run{Dir: pw.Sc.Dir("kv"), Chunk: chunk, Parallel: 2, Main: 1, Alone: true}); !oc.OK() {
				fail("index of the other context: %s", oc)
			}
			// 2. copied by hand next to context 0's (future) index
			last := 0
			for _, k := range pw.Envs[1].Meta.RawKeys() {
				if !strings.HasPrefix(k, model.ReverseIndexPrefix()) {
					continue
				}
				data, _ := pw.Envs[1].Meta.RawGet(k)
				pw.Envs[0].Meta.RawPut(k, data)
				idx, err := model.ReverseIndexChunk(k)
				if err != nil {
					fail("harness: %v", err)
				}
				if int(idx) > last {
					last = int(idx)
				}
			}
			if last == 0 {
				fail("harness: the other context's index has no chunk")
			}
			// 3. the index of context 0 alone, numbered after the copied chunks
			if _, oc := pw.BuildIndex(purgex.Run{Dir: pw.Sc.Dir("kv"), Chunk: chunk, Parallel: 2, Main: 0, Alone: true, ChunkStart: last}); !oc.OK() {
				fail("index of this context with --chunk-index %d: %s", last, oc)
			}
			// 4. delete-unused, then everything committed must still download
			pb, oc := pw.DeleteUnused(purgex.Run{Dir: pw.Sc.Dir("kv"), Parallel: 2, Main: 0, Alone: true})
			if !oc.OK() {
				fail("delete-unused: %s", oc)
			}
			if err := pw.Verify(); err != nil {
				fail("after delete-unused over the merged index (%d chunks copied, deleted %d blobs): %v", last, pb.DeletedEntries, err)
			}
			stats.Case(fmt.Sprintf("pinned manual chunk merge chunk=%d copied=%d", chunk, last), true, func() interface{} { return ops })
		}()
	}
}
