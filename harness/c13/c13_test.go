package c13

import (
	"fmt"
	"os"
	"path/filepath"
	"sort"
	"strings"
	"sync"
	"sync/atomic"
	"testing"
	"time"

	"pgregory.net/rapid"

	"verifharness/evid"
	"verifharness/hx"
	"verifharness/memstore"
	"verifharness/purgex"
)

var stats = evid.New("C13", "rapid: histories of uploads / bundle deletes / squashes / repo deletes / file deletes over 1-3 repos of a context plus (40%) a second context sharing the blob store; files made of 0-3 leaf-sized blocks from a 3-letter alphabet plus optional tail (shared leaves, distinct roots; re-upload of orphaned content is frequent); then `purge build-reverse-lookup` as the CLI runs it (lock, build, unlock) with chunk size 1..8 keys, optionally (a) killed at its n-th mutating store call (n over lock, every chunk delete/put, unlock; the call lands or not) and resumed with --resume after 0-2 more operations, (b) with 1-2 transient store failures (list page, bundle.yaml / file-list read, root-blob read, index-chunk put/delete), (c) with an upload performed while the scan runs, (d) with the uploader ticking every ms; then 0-3 operations (uploads re-using orphans, deletes); then `purge delete-unused` with 0-2 transient failures (blob attribute read, blob delete, blob list page, chunk list/read). A command that reports failure is rerun without faults (must then succeed). Oracle, only over commands that reported success: every committed bundle of the model (all were committed before the index started or uploaded after it) downloads byte-identical and all its blobs (independent key computation) exist. Non-trivial: delete-unused removed >= 1 blob and a surviving bundle shares a blob with a deleted one; or a resume happened; or an injected fault was hit. Distinct by (contexts, crash class, resumed, fault classes hit, command outcomes, post-index upload re-using an orphan, inline upload, deleted class, shared survivor).")

// ids of the findings this check can be told to steer around (only when listed as known)
const (
	KnownDedupNoTouch    = "C13-dedup-hit-keeps-old-update-time"
	KnownResumeLeaves    = "C13-resume-skips-leaves-of-uploaded-roots"
	KnownChunkPutMarks   = "C13-failed-chunk-put-loses-keys"
	KnownRootGetSkipped  = "C13-failed-root-read-drops-leaves"
	KnownGetAttrIgnored  = "C13-failed-attr-read-deletes-blob"
	KnownResumeNoChunk   = "C13-resume-without-chunk-panics"
	KnownChunkReadBreaks = "C13-broken-chunk-download-taken-as-complete"
)

// pinned cases run with the exclusions of known findings switched off: they are the reproductions
var noExclude bool

func known(id string) bool { return !noExclude && hx.Known(id) }

func TestMain(m *testing.M) {
	code := m.Run()
	stats.Flush()
	ms, _ := filepath.Glob(filepath.Join(hx.ScratchRoot(), fmt.Sprintf("verif-%d-*", os.Getpid())))
	for _, m := range ms {
		_ = os.RemoveAll(m)
	}
	os.Exit(code)
}

// faultT is a transient failure plan on the purge process' views
type faultT struct {
	Phase string `json:"phase"` // index | resume | delete
	Store string `json:"store"` // meta | blob
	Op    string `json:"op"`
	Key   string `json:"key_contains"`
	Nth   int    `json:"nth"`
	Times int    `json:"times"`
}

func (f faultT) class() string { return f.Phase + ":" + f.Store + "." + f.Op + "/" + f.Key }

type crashT struct {
	Sel  int  `json:"sel"` // mapped onto the mutating store calls of the run: 1 + sel % (2*chunks+2)
	Land bool `json:"land"`
}

type inlineT struct {
	At int       `json:"at"` // the purge process' n-th store call of the index build
	Op purgex.Op `json:"op"`
}

type caseT struct {
	Shape       purgex.Shape `json:"shape"`
	Pre         []purgex.Op  `json:"pre"`
	Chunk       uint64       `json:"chunk"`
	Parallel    int          `json:"parallel"`
	Ticker      bool         `json:"ticker"`
	Crash       *crashT      `json:"crash,omitempty"`
	Mid         []purgex.Op  `json:"mid,omitempty"` // between the kill and the resume
	ResumeChunk uint64       `json:"resume_chunk,omitempty"`
	SameDir     bool         `json:"resume_same_dir,omitempty"`
	RerunResume bool         `json:"rerun_with_resume"` // how a failed (not killed) index build is rerun
	Inline      *inlineT     `json:"inline,omitempty"`
	InFlight    *purgex.Op   `json:"in_flight,omitempty"` // upload started between the kill and the resume (all blobs written), committed after the resume
	Post        []purgex.Op  `json:"post"`
	Faults      []faultT     `json:"faults,omitempty"`
	// PostTouchFault: the n-th Touch of the uploaders' blob store fails once while the operations between index
	// and delete-unused run (an upload re-using a blob refreshes its update time with Touch). The upload may
	// fail - then it is no bundle - but a bundle it reports as uploaded must survive delete-unused
	PostTouchFault int `json:"post_touch_fault,omitempty"`
}

var indexFaultMenu = []faultT{
	{Store: "meta", Op: memstore.OpKeysPrefix, Key: ""},
	{Store: "meta", Op: memstore.OpGet, Key: "bundle-files"},
	{Store: "meta", Op: memstore.OpGet, Key: "bundle.yaml"},
	{Store: "blob", Op: memstore.OpGet, Key: ""},
	{Store: "blob", Op: memstore.OpGet, Key: ""},
	{Store: "meta", Op: memstore.OpPut, Key: "reverse-index"},
	{Store: "meta", Op: memstore.OpPut, Key: "reverse-index"},
	{Store: "meta", Op: memstore.OpPut, Key: "reverse-index"},
	{Store: "meta", Op: memstore.OpDelete, Key: "reverse-index"},
	{Store: "meta", Op: OpGetShort, Key: "bundle-files"},
	{Store: "blob", Op: OpGetShort, Key: ""},
	{Store: "meta", Op: OpGetShort, Key: "reverse-index"}, // only matters for --resume (chunks are reloaded)
}

var deleteFaultMenu = []faultT{
	{Store: "blob", Op: memstore.OpGetAttr, Key: ""},
	{Store: "blob", Op: memstore.OpGetAttr, Key: ""},
	{Store: "blob", Op: memstore.OpDelete, Key: ""},
	{Store: "blob", Op: memstore.OpKeysPrefix, Key: ""},
	{Store: "meta", Op: memstore.OpGet, Key: "reverse-index"},
	{Store: "meta", Op: memstore.OpKeysPrefix, Key: "reverse-index"},
	{Store: "meta", Op: OpGetShort, Key: "reverse-index"},
	{Store: "meta", Op: OpGetShort, Key: "reverse-index"},
}

func mix(x uint64) uint64 {
	x ^= x >> 33
	x *= 0xff51afd7ed558ccd
	x ^= x >> 33
	return x
}

func drawFault(t *rapid.T, phase string) faultT {
	menu := indexFaultMenu
	if phase == "delete" {
		menu = deleteFaultMenu
	}
	f := menu[mix(rapid.Uint64().Draw(t, "fault_kind"))%uint64(len(menu))]
	f.Phase = phase
	f.Nth = []int{1, 1, 1, 1, 2, 2, 2, 3, 3, 4, 5, 6}[mix(rapid.Uint64().Draw(t, "fault_nth"))%12]
	f.Times = 1
	if rapid.IntRange(0, 5).Draw(t, "fault_twice") == 3 {
		f.Times = 2
	}
	return f
}

func drawCase(t *rapid.T) caseT {
	c := caseT{}
	c.Shape = purgex.DrawShape(t)
	c.Pre = purgex.DrawHistory(t, c.Shape, "pre")
	c.Chunk = uint64(rapid.IntRange(1, 8).Draw(t, "chunk"))
	c.Parallel = rapid.IntRange(1, 10).Draw(t, "parallel")
	c.Ticker = rapid.IntRange(0, 4).Draw(t, "ticker") == 2
	c.RerunResume = rapid.Bool().Draw(t, "rerun_resume")
	mode := mix(rapid.Uint64().Draw(t, "mode")) % 10
	// 0-3: crash+resume, 4-6: index faults, 7: crash and resume faults, 8-9: plain
	if mode <= 3 || mode == 7 {
		c.Crash = &crashT{Sel: rapid.IntRange(0, 63).Draw(t, "crash_sel"), Land: rapid.Bool().Draw(t, "crash_land")}
		c.Mid = purgex.DrawOps(t, c.Shape, 0, 2, 1, "nmid")
		c.ResumeChunk = uint64(rapid.IntRange(1, 8).Draw(t, "resume_chunk"))
		c.SameDir = rapid.Bool().Draw(t, "same_dir")
		if rapid.IntRange(0, 2).Draw(t, "in_flight") != 1 {
			o := purgex.DrawUpload(t, c.Shape)
			c.InFlight = &o
		}
		if mode == 7 {
			c.Faults = append(c.Faults, drawFault(t, "resume"))
		}
	}
	if mode >= 4 && mode <= 6 {
		c.Faults = append(c.Faults, drawFault(t, "index"))
		if rapid.IntRange(0, 3).Draw(t, "two_index_faults") == 2 {
			c.Faults = append(c.Faults, drawFault(t, "index"))
		}
	}
	if rapid.IntRange(0, 3).Draw(t, "inline") == 2 {
		c.Inline = &inlineT{At: rapid.IntRange(2, 30).Draw(t, "inline_at"), Op: purgex.DrawUpload(t, c.Shape)}
	}
	c.Post = purgex.DrawOps(t, c.Shape, 0, 3, 1, "npost")
	if len(c.Post) > 0 && rapid.IntRange(0, 3).Draw(t, "post_touch_fault") == 0 {
		c.PostTouchFault = rapid.IntRange(1, 4).Draw(t, "post_touch_nth")
	}
	if dm := mix(rapid.Uint64().Draw(t, "delmode")) % 5; dm <= 1 {
		c.Faults = append(c.Faults, drawFault(t, "delete"))
		if dm == 0 && rapid.Bool().Draw(t, "two_delete_faults") {
			c.Faults = append(c.Faults, drawFault(t, "delete"))
		}
	}
	return c
}

// outcomeT records what happened, for the class signature
type outcomeT struct {
	crashAt      string // "", "lock", "chunk-delete", "chunk-put", "unlock", "not-reached"
	crashLanded  bool
	resumed      bool
	indexFailed  bool
	deleteFailed bool
	faultHits    map[string]int
	reuseOrphan  bool
	excluded     int
	inlineDone   bool
	deleted      int
	shared       bool
	midOps       int
	inFlight     bool
}

// OpGetShort is a Get whose stream breaks after half of the object (see purgex.ShortRead)
const OpGetShort = "GetShort"

// installed fault plans of one phase; hits() reports how often each was actually hit
type plansT struct {
	phase  string
	faults []*memstore.Fault
	short  *purgex.ShortRead
}

func (p plansT) collect(into map[string]int) {
	for _, mf := range p.faults {
		into[p.phase+":"+mf.Op+"/"+mf.KeySub] += mf.Hits
	}
	if p.short != nil {
		into[p.phase+":"+OpGetShort+"/"+p.short.KeySub] += p.short.Hits
	}
}

func (w *worldT) install(faults []faultT, phase string) plansT {
	out := plansT{phase: phase}
	for _, f := range faults {
		if f.Phase != phase {
			continue
		}
		if f.Op == OpGetShort {
			out.short = &purgex.ShortRead{Store: f.Store, KeySub: f.Key, Nth: f.Nth, Times: f.Times}
			w.SetShortRead(out.short)
			continue
		}
		for _, p := range w.Purge {
			v := p.Meta
			if f.Store == "blob" {
				v = p.Blob
			}
			mf := &memstore.Fault{Op: f.Op, KeySub: f.Key, Nth: f.Nth, Times: f.Times}
			v.AddFault(mf)
			out.faults = append(out.faults, mf)
			if f.Store == "blob" && f.Op != memstore.OpGet {
				break // delete-unused only uses the primary context's blob view
			}
		}
	}
	return out
}

type worldT struct {
	*purgex.World
}

func (w *worldT) clearHooks() {
	for _, v := range w.PurgeViews() {
		v.ClearHooks()
	}
	w.SetShortRead(nil)
	w.Proc.Reset()
}

func excludedFault(f faultT) (string, bool) {
	switch {
	case f.Store == "blob" && f.Op == memstore.OpGet && known(KnownRootGetSkipped):
		return KnownRootGetSkipped, true
	case f.Store == "meta" && f.Op == memstore.OpPut && known(KnownChunkPutMarks):
		return KnownChunkPutMarks, true
	case f.Store == "blob" && f.Op == memstore.OpGetAttr && known(KnownGetAttrIgnored):
		return KnownGetAttrIgnored, true
	case f.Store == "blob" && f.Op == OpGetShort && known(KnownRootGetSkipped):
		return KnownRootGetSkipped, true
	case f.Key == "reverse-index" && f.Op == OpGetShort && known(KnownChunkReadBreaks):
		return KnownChunkReadBreaks, true
	}
	return "", false
}

func (w *worldT) applyGuarded(o purgex.Op, phase string, out *outcomeT) error {
	if o.Kind == purgex.OpUpload && phase != "pre" {
		reuse, err := w.ReusesOrphan(o)
		if err != nil {
			return err
		}
		if reuse {
			if known(KnownDedupNoTouch) {
				out.excluded++
				stats.Count("excluded_"+KnownDedupNoTouch, 1)
				return nil
			}
			out.reuseOrphan = true
		}
	}
	return w.Apply(o, phase)
}

func runCase(c caseT, out *outcomeT) error {
	out.faultHits = map[string]int{}
	pw, err := purgex.NewWorld(c.Shape)
	if err != nil {
		return err
	}
	w := &worldT{pw}
	defer w.Close()
	for _, o := range c.Pre {
		if err := w.Apply(o, "pre"); err != nil {
			return err
		}
	}
	if err := w.CheckModel(); err != nil {
		return err
	}
	var faults []faultT
	for _, f := range c.Faults {
		if id, ex := excludedFault(f); ex {
			stats.Count("excluded_"+id, 1)
			out.excluded++
			continue
		}
		faults = append(faults, f)
	}
	ref, err := w.Referenced()
	if err != nil {
		return err
	}
	blobsBefore := w.BlobTimes()

	// ------------------------------------------------------------------ build-reverse-lookup
	kvDir := w.Sc.Dir("kv")
	run := purgex.Run{Dir: kvDir, Chunk: c.Chunk, Parallel: c.Parallel}
	if c.Ticker {
		run.Ticker = time.Millisecond
	}
	installed := w.install(faults, "index")
	crash := c.Crash
	if crash != nil && known(KnownResumeLeaves) {
		stats.Count("excluded_"+KnownResumeLeaves, 1)
		out.excluded++
		crash = nil
	}
	crashAt := 0
	if crash != nil {
		nChunks := (len(ref)+int(c.Chunk)-1)/int(c.Chunk) + 1
		crashAt = 1 + crash.Sel%(2*nChunks+2)
		w.Proc.CrashAt(crashAt, crash.Land)
	}
	var inlineErr error
	if c.Inline != nil {
		var calls int64
		var once sync.Once
		for _, v := range w.PurgeViews() {
			v.Before(func(cl *memstore.Call) error {
				if strings.Contains(cl.Key, "purge") || w.Proc.Crashed() {
					return nil // not while taking the lock: the index has not started yet
				}
				if atomic.AddInt64(&calls, 1) >= int64(c.Inline.At) {
					once.Do(func() {
						out.inlineDone = true
						inlineErr = w.applyGuarded(c.Inline.Op, "inline", out)
					})
				}
				return nil
			})
		}
	}
	time.Sleep(time.Millisecond)
	_, oc := w.BuildIndex(run)
	installed.collect(out.faultHits)
	if inlineErr != nil {
		return fmt.Errorf("upload during the index scan: %v", inlineErr)
	}
	killed := crash != nil && w.Proc.Crashed()
	if crash != nil {
		log := w.Proc.MutLog()
		switch {
		case !killed:
			out.crashAt = "not-reached"
		case len(log) == 0:
			out.crashAt = "?"
		default:
			last := log[len(log)-1]
			switch {
			case strings.Contains(last, "Put:purge"):
				out.crashAt = "lock"
			case strings.Contains(last, "Delete:purge"):
				out.crashAt = "unlock"
			case strings.Contains(last, "Delete:reverse-index"):
				out.crashAt = "chunk-delete"
			case strings.Contains(last, "Put:reverse-index"):
				out.crashAt = "chunk-put"
			default:
				out.crashAt = "other"
			}
			out.crashLanded = crash.Land
		}
	}
	w.clearHooks()
	switch {
	case killed:
		// the job died; life goes on, then somebody restarts it with --resume
		for _, o := range c.Mid {
			if err := w.applyGuarded(o, "mid", out); err != nil {
				return err
			}
			out.midOps++
		}
		rr := purgex.Run{Dir: kvDir, Chunk: c.ResumeChunk, Parallel: c.Parallel, Resume: true}
		if !c.SameDir {
			rr.Dir = w.Sc.Dir("kv")
		}
		if chunks, _ := w.ReadIndex(); len(chunks) == 0 && known(KnownResumeNoChunk) {
			// nothing was uploaded before the kill: start over instead of resuming
			stats.Count("excluded_"+KnownResumeNoChunk, 1)
			out.excluded++
			rr.Resume, rr.Force = false, true
		}
		// An upload in flight across the resume: it starts now (after the index was started), writes or re-uses
		// all its blobs, and only commits its metadata once the resumed build is over - so the resumed scan
		// cannot see it. Only when the interrupted run left a chunk, i.e. an index time to resume from:
		// otherwise the "resumed" build is a new index which this upload would be in flight across the start of.
		var held *purgex.HeldUpload
		if c.InFlight != nil && rr.Resume {
			chunks, _ := w.ReadIndex()
			reuse, err := w.ReusesOrphan(*c.InFlight)
			if err != nil {
				return err
			}
			switch {
			case len(chunks) == 0:
			case reuse && known(KnownDedupNoTouch):
				out.excluded++
				stats.Count("excluded_"+KnownDedupNoTouch, 1)
			default:
				if held, err = w.StartHeldUpload(*c.InFlight, "in-flight across the resume"); err != nil {
					return err
				}
				defer func() { _ = held.Finish() }() // never leave the goroutine parked
				out.reuseOrphan = out.reuseOrphan || reuse
				time.Sleep(time.Millisecond)
			}
		}
		installed = w.install(faults, "resume")
		_, oc2 := w.BuildIndex(rr)
		installed.collect(out.faultHits)
		w.clearHooks()
		out.resumed = true
		if !oc2.OK() {
			out.indexFailed = true
			// rerun without faults: must succeed now
			rr.Dir = w.Sc.Dir("kv")
			if _, oc3 := w.BuildIndex(rr); !oc3.OK() {
				return fmt.Errorf("build-reverse-lookup --resume failed (%s) and its rerun without faults failed too: %s", oc2, oc3)
			}
		}
		if held != nil {
			if err := held.Finish(); err != nil {
				return err
			}
			out.inFlight = true
		}
	case !oc.OK():
		out.indexFailed = true
		rr := purgex.Run{Dir: w.Sc.Dir("kv"), Chunk: c.Chunk, Parallel: c.Parallel, Force: true}
		if c.RerunResume && !known(KnownResumeLeaves) {
			if chunks, _ := w.ReadIndex(); len(chunks) > 0 || !known(KnownResumeNoChunk) {
				rr.Resume = true
				out.resumed = true
			}
		}
		if _, oc3 := w.BuildIndex(rr); !oc3.OK() {
			return fmt.Errorf("build-reverse-lookup failed (%s) and its rerun (resume=%v) without faults failed too: %s", oc, rr.Resume, oc3)
		}
	}

	// ------------------------------------------------------------------ life goes on
	time.Sleep(time.Millisecond)
	var touchFaults []*memstore.Fault
	if c.PostTouchFault > 0 {
		for _, u := range w.Users {
			mf := &memstore.Fault{Op: memstore.OpTouch, Nth: c.PostTouchFault, Times: 1}
			u.Blob.AddFault(mf)
			touchFaults = append(touchFaults, mf)
		}
	}
	touchHits := func() int {
		n := 0
		for _, mf := range touchFaults {
			n += mf.Hits
		}
		return n
	}
	for _, o := range c.Post {
		before := touchHits()
		if err := w.applyGuarded(o, "post", out); err != nil {
			if o.Kind == purgex.OpUpload && touchHits() > before {
				stats.Count("post_upload_refused_on_touch_failure", 1)
				continue // refused: not a bundle
			}
			return err
		}
	}
	if c.PostTouchFault > 0 {
		for _, u := range w.Users {
			u.Blob.ClearFaults()
		}
		if touchHits() > 0 {
			out.faultHits["post:Touch/"] += touchHits()
		}
	}
	if err := w.CheckModel(); err != nil {
		return err
	}
	nBefore := w.Blob().Len()

	// ------------------------------------------------------------------ delete-unused
	installed = w.install(faults, "delete")
	del := purgex.Run{Dir: w.Sc.Dir("kv"), Parallel: c.Parallel}
	_, od := w.DeleteUnused(del)
	installed.collect(out.faultHits)
	w.clearHooks()
	if !od.OK() {
		out.deleteFailed = true
		del.Dir = w.Sc.Dir("kv")
		del.Force = true
		if _, od2 := w.DeleteUnused(del); !od2.OK() {
			return fmt.Errorf("delete-unused failed (%s) and its rerun without faults failed too: %s", od, od2)
		}
	}
	out.deleted = nBefore - w.Blob().Len()

	// ------------------------------------------------------------------ the guarantee
	if err := w.Verify(); err != nil {
		return fmt.Errorf("after build-reverse-lookup [%s] and delete-unused [%s]: %v", describeIndexRun(c, out, oc), od, err)
	}
	// classification: does a survivor share a blob with a bundle that is gone?
	if out.deleted > 0 {
		dead := map[string]bool{}
		for _, b := range w.Bundles {
			if !b.Alive {
				ks, _ := b.Keys()
				for k := range ks {
					dead[k] = true
				}
			}
		}
		for _, b := range w.Alive() {
			ks, _ := b.Keys()
			for k := range ks {
				if dead[k] {
					out.shared = true
				}
			}
		}
	}
	_ = blobsBefore
	return nil
}

func describeIndexRun(c caseT, out *outcomeT, oc purgex.Outcome) string {
	s := oc.String()
	if out.crashAt != "" {
		s += fmt.Sprintf("; killed at %s (landed=%v)", out.crashAt, out.crashLanded)
	}
	if out.resumed {
		s += "; resumed"
	}
	if out.indexFailed {
		s += "; failed and rerun"
	}
	return s
}

func describe(c caseT) string {
	var sb strings.Builder
	fmt.Fprintf(&sb, "repos=%v leaves=%v chunk=%d parallel=%d ticker=%v", c.Shape.Repos, c.Shape.Leaves, c.Chunk, c.Parallel, c.Ticker)
	if c.Crash != nil {
		fmt.Fprintf(&sb, " crash=%+v resume_chunk=%d same_dir=%v", *c.Crash, c.ResumeChunk, c.SameDir)
	}
	fmt.Fprintf(&sb, " faults=%+v\n  pre:", c.Faults)
	for _, o := range c.Pre {
		sb.WriteString(" " + o.String())
	}
	if c.Inline != nil {
		fmt.Fprintf(&sb, "\n  during scan (call %d): %s", c.Inline.At, c.Inline.Op)
	}
	if c.InFlight != nil {
		fmt.Fprintf(&sb, "\n  in flight across the resume: %s", c.InFlight)
	}
	if len(c.Mid) > 0 {
		sb.WriteString("\n  mid:")
		for _, o := range c.Mid {
			sb.WriteString(" " + o.String())
		}
	}
	sb.WriteString("\n  post:")
	for _, o := range c.Post {
		sb.WriteString(" " + o.String())
	}
	return sb.String()
}

func cls(n int) string {
	switch {
	case n == 0:
		return "0"
	case n <= 3:
		return "1-3"
	}
	return ">3"
}

func (c caseT) classes(o outcomeT) (string, bool) {
	var hits []string
	anyHit := false
	for k, n := range o.faultHits {
		if n > 0 {
			hits = append(hits, k)
			anyHit = true
		}
	}
	sort.Strings(hits)
	nt := (o.deleted > 0 && o.shared) || o.resumed || anyHit
	sig := fmt.Sprintf("ctx=%d crash=%s/%v resumed=%v hits=%v idxfail=%v delfail=%v reuse=%v inline=%v deleted=%s shared=%v mid=%v inflight=%v",
		len(c.Shape.Repos), o.crashAt, o.crashLanded, o.resumed, hits, o.indexFailed, o.deleteFailed, o.reuseOrphan, o.inlineDone, cls(o.deleted), o.shared, o.midOps > 0, o.inFlight)
	return sig, nt
}

func check(t interface {
	Fatalf(string, ...interface{})
}, c caseT) outcomeT {
	hx.Journal(c)
	var out outcomeT
	err, hung, panicked := hx.Guard(240*time.Second, func() error { return runCase(c, &out) })
	if hung || panicked || err != nil {
		t.Fatalf("%v (hung=%v panicked=%v)\ncase: %s", err, hung, panicked, describe(c))
	}
	return out
}

func record(c caseT, o outcomeT) {
	sig, nt := c.classes(o)
	stats.Case(sig, nt, func() interface{} { return c })
	if o.crashAt != "" {
		stats.Count("crash_"+o.crashAt, 1)
	}
	if o.resumed {
		stats.Count("resumed", 1)
	}
	if o.indexFailed {
		stats.Count("index_command_failed_and_rerun", 1)
	}
	if o.deleteFailed {
		stats.Count("delete_command_failed_and_rerun", 1)
	}
	for k, n := range o.faultHits {
		if n > 0 {
			stats.Count("fault_hit_"+k, 1)
		} else {
			stats.Count("fault_not_reached", 1)
		}
	}
	if o.reuseOrphan {
		stats.Count("post_index_upload_reuses_orphan", 1)
	}
	if o.inlineDone {
		stats.Count("upload_during_scan", 1)
	}
	if o.inFlight {
		stats.Count("upload_in_flight_across_resume", 1)
	}
	if o.deleted > 0 {
		stats.Count("deleted_some", 1)
	}
	if o.shared {
		stats.Count("survivor_shares_blob_with_deleted", 1)
	}
	if len(c.Shape.Repos) > 1 {
		stats.Count("two_contexts", 1)
	}
}

func TestPropPurgeKeepsCommitted(t *testing.T) {
	rapid.Check(t, func(t *rapid.T) {
		c := drawCase(t)
		o := check(t, c)
		record(c, o)
	})
}
