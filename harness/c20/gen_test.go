package c20

import (
	"math"
	"strings"
	"time"
	"unicode"
	"unicode/utf8"

	"github.com/segmentio/ksuid"
	"pgregory.net/rapid"
)

// ---------------------------------------------------------------------------------------------
// rune classes.  The "documented alphabets" (pkg/model/repo.go doc comment of ValidateRepo,
// `datamon repo create` help, pkg/model/label.go + its test "success with Connector punctuation"):
//   repo : letters, digits, hyphen
//   label: letters, digits, hyphen, connector punctuation
// ---------------------------------------------------------------------------------------------

type runeClass string

const (
	rcLower    runeClass = "lower"    // a-z
	rcUpper    runeClass = "upper"    // A-Z
	rcDigit    runeClass = "digit"    // 0-9
	rcMinus    runeClass = "minus"    // '-' U+002D
	rcULetter  runeClass = "uletter"  // non-ASCII letter (Lu, Ll, Lt, Lm, Lo), BMP and beyond
	rcUDigit   runeClass = "udigit"   // non-ASCII Nd
	rcUHyphen  runeClass = "uhyphen"  // non-ASCII rune with the Unicode Hyphen property
	rcDash     runeClass = "dash"     // Pd without the Hyphen property (en dash, em dash, ...)
	rcUnder    runeClass = "under"    // '_'
	rcUPc      runeClass = "upc"      // non-ASCII connector punctuation
	rcMark     runeClass = "mark"     // combining marks Mn, Mc, Me
	rcNumOther runeClass = "numother" // Nl, No (roman numerals, superscripts, fractions)
	rcSpace    runeClass = "space"    // Zs, tab, newline
	rcControl  runeClass = "control"  // Cc, Cf
	rcSlash    runeClass = "slash"    // '/'
	rcDot      runeClass = "dot"      // '.'
	rcPunct    runeClass = "punct"    // other ASCII punctuation and symbols (%, {, \, ...)
	rcSymbol   runeClass = "symbol"   // So, Sm, Sc, Sk: emoji, math, currency
	rcUPunct   runeClass = "upunct"   // non-ASCII punctuation other than Pd, Pc
	rcBadUTF8  runeClass = "badutf8"  // a byte that is not valid UTF-8 (decoded as U+FFFD by range)
)

// tables built once, independent of pkg/model
var (
	tblULetter  = nonASCII(unicode.L)
	tblUDigit   = nonASCII(unicode.Nd)
	tblUHyphen  = nonASCII(unicode.Hyphen)
	tblDash     = minus(unicode.Pd, unicode.Hyphen)
	tblUPc      = nonASCII(unicode.Pc)
	tblMark     = expand(unicode.M)
	tblNumOther = append(expand(unicode.Nl), expand(unicode.No)...)
	tblSpace    = append(expand(unicode.Zs), '\t', '\n', '\r')
	tblControl  = append(expand(unicode.Cc), expand(unicode.Cf)...)
	tblSymbol   = expand(unicode.S)
	tblUPunct   = upunct()
	asciiPunct  = []rune("%{}\\|!@#$^&*()+=[]:;'\"<>,?`~")
)

func expand(t *unicode.RangeTable) []rune {
	var out []rune
	for _, r := range t.R16 {
		for c := uint32(r.Lo); c <= uint32(r.Hi); c += uint32(r.Stride) {
			out = append(out, rune(c))
		}
	}
	for _, r := range t.R32 {
		for c := r.Lo; c <= r.Hi; c += r.Stride {
			out = append(out, rune(c))
		}
	}
	return out
}

func nonASCII(t *unicode.RangeTable) []rune {
	var out []rune
	for _, r := range expand(t) {
		if r >= 0x80 {
			out = append(out, r)
		}
	}
	return out
}

func minus(a, b *unicode.RangeTable) []rune {
	var out []rune
	for _, r := range expand(a) {
		if !unicode.Is(b, r) {
			out = append(out, r)
		}
	}
	return out
}

func upunct() []rune {
	var out []rune
	for _, r := range expand(unicode.P) {
		if r >= 0x80 && !unicode.Is(unicode.Pd, r) && !unicode.Is(unicode.Pc, r) && !unicode.Is(unicode.Hyphen, r) {
			out = append(out, r)
		}
	}
	return out
}

// pick draws one element of a (large) rune slice. Half of the draws come from the first 64
// entries (the low, common code points), the rest uniformly (incl. supplementary planes).
func pick(t *rapid.T, rs []rune, label string) rune {
	if len(rs) > 64 && rapid.Bool().Draw(t, label+"_low") {
		return rs[rapid.IntRange(0, 63).Draw(t, label)]
	}
	return rs[rapid.IntRange(0, len(rs)-1).Draw(t, label)]
}

// drawRune returns the string for one "rune" of the class (a raw invalid byte for rcBadUTF8)
func drawRune(t *rapid.T, c runeClass) string {
	switch c {
	case rcLower:
		return string(rune('a' + rapid.IntRange(0, 25).Draw(t, "lc")))
	case rcUpper:
		return string(rune('A' + rapid.IntRange(0, 25).Draw(t, "uc")))
	case rcDigit:
		return string(rune('0' + rapid.IntRange(0, 9).Draw(t, "dg")))
	case rcMinus:
		return "-"
	case rcULetter:
		return string(pick(t, tblULetter, "uletter"))
	case rcUDigit:
		return string(pick(t, tblUDigit, "udigit"))
	case rcUHyphen:
		return string(pick(t, tblUHyphen, "uhyphen"))
	case rcDash:
		return string(pick(t, tblDash, "dash"))
	case rcUnder:
		return "_"
	case rcUPc:
		return string(pick(t, tblUPc, "upc"))
	case rcMark:
		return string(pick(t, tblMark, "mark"))
	case rcNumOther:
		return string(pick(t, tblNumOther, "numother"))
	case rcSpace:
		return string(pick(t, tblSpace, "space"))
	case rcControl:
		return string(pick(t, tblControl, "control"))
	case rcSlash:
		return "/"
	case rcDot:
		return "."
	case rcPunct:
		return string(pick(t, asciiPunct, "punct"))
	case rcSymbol:
		return string(pick(t, tblSymbol, "symbol"))
	case rcUPunct:
		return string(pick(t, tblUPunct, "upunct"))
	case rcBadUTF8:
		return string([]byte{byte(rapid.SampledFrom([]int{0x80, 0xbf, 0xc0, 0xff, 0xed}).Draw(t, "badbyte"))})
	}
	panic("unknown rune class " + string(c))
}

var (
	repoAlphabet  = []runeClass{rcLower, rcLower, rcUpper, rcDigit, rcMinus, rcULetter, rcULetter, rcUDigit}
	labelAlphabet = append(append([]runeClass{}, repoAlphabet...), rcUnder, rcUnder, rcUPc)
	hostileRunes  = []runeClass{rcMark, rcNumOther, rcSpace, rcControl, rcSlash, rcDot, rcPunct, rcSymbol, rcUPunct, rcBadUTF8}
	ambiguous     = []runeClass{rcUHyphen, rcDash}
)

// genName is a generated name together with the classes of its runes
type genName struct {
	S       string
	Classes []runeClass
}

// nameClass summarises a name for the class signature
func (n genName) nameClass() string {
	seen := map[runeClass]bool{}
	for _, c := range n.Classes {
		seen[c] = true
	}
	var parts []string
	for _, c := range []runeClass{rcLower, rcUpper, rcDigit, rcMinus, rcULetter, rcUDigit, rcUHyphen, rcDash, rcUnder, rcUPc,
		rcMark, rcNumOther, rcSpace, rcControl, rcSlash, rcDot, rcPunct, rcSymbol, rcUPunct, rcBadUTF8} {
		if seen[c] {
			parts = append(parts, string(c))
		}
	}
	l := "len1"
	switch n := len(n.Classes); {
	case n == 0:
		l = "empty"
	case n == 1:
	case n <= 8:
		l = "short"
	case n <= 40:
		l = "mid"
	default:
		l = "long"
	}
	return l + ":" + strings.Join(parts, "+")
}

// reserved-looking but valid names (all within the repo alphabet): they collide with file and
// directory names used in the layout if a separator or a component is lost
var trickyNames = []string{"repo", "repos", "labels", "bundles", "splits", "diamonds", "contexts", "label", "bundle",
	"bundle-files-0", "bundle-files-1", "diamond-done", "split-running", "split-done", "0", "-", "--", "a", "b", "ab", "ba", "a-b", "reverse-index"}

// drawValidName draws a name over the given alphabet (never empty)
func drawValidName(t *rapid.T, alphabet []runeClass, label string) genName {
	switch rapid.IntRange(0, 9).Draw(t, label+"_shape") {
	case 0:
		s := rapid.SampledFrom(trickyNames).Draw(t, label+"_tricky")
		return genName{S: s, Classes: classify(s)}
	case 1: // long
		n := rapid.IntRange(41, 200).Draw(t, label+"_len")
		return drawNameOf(t, alphabet, n, label)
	case 2: // single rune
		return drawNameOf(t, alphabet, 1, label)
	case 3, 4: // plain ascii
		n := rapid.IntRange(1, 12).Draw(t, label+"_len")
		return drawNameOf(t, []runeClass{rcLower, rcLower, rcDigit, rcMinus}, n, label)
	}
	n := rapid.IntRange(1, 16).Draw(t, label+"_len")
	return drawNameOf(t, alphabet, n, label)
}

func drawNameOf(t *rapid.T, alphabet []runeClass, n int, label string) genName {
	var g genName
	var sb strings.Builder
	for i := 0; i < n; i++ {
		c := rapid.SampledFrom(alphabet).Draw(t, label+"_rc")
		sb.WriteString(drawRune(t, c))
	}
	g.S = sb.String()
	g.Classes = classify(g.S) // the classifier is the single source of truth (tables overlap)
	return g
}

// classify computes rune classes of an arbitrary string (used for pinned names and the fuzzers)
func classify(s string) []runeClass {
	var out []runeClass
	for i := 0; i < len(s); {
		r, size := utf8.DecodeRuneInString(s[i:])
		switch {
		case r == utf8.RuneError && size <= 1:
			out = append(out, rcBadUTF8)
		case r >= 'a' && r <= 'z':
			out = append(out, rcLower)
		case r >= 'A' && r <= 'Z':
			out = append(out, rcUpper)
		case r >= '0' && r <= '9':
			out = append(out, rcDigit)
		case r == '-':
			out = append(out, rcMinus)
		case r == '_':
			out = append(out, rcUnder)
		case r == '/':
			out = append(out, rcSlash)
		case r == '.':
			out = append(out, rcDot)
		case unicode.IsLetter(r):
			out = append(out, rcULetter)
		case unicode.Is(unicode.Nd, r):
			out = append(out, rcUDigit)
		case unicode.Is(unicode.Hyphen, r):
			out = append(out, rcUHyphen)
		case unicode.Is(unicode.Pd, r):
			out = append(out, rcDash)
		case unicode.Is(unicode.Pc, r):
			out = append(out, rcUPc)
		case unicode.Is(unicode.M, r):
			out = append(out, rcMark)
		case unicode.Is(unicode.N, r):
			out = append(out, rcNumOther)
		case unicode.IsSpace(r) || unicode.Is(unicode.Z, r):
			out = append(out, rcSpace)
		case unicode.Is(unicode.C, r):
			out = append(out, rcControl)
		case unicode.Is(unicode.S, r):
			if r < 0x80 {
				out = append(out, rcPunct)
			} else {
				out = append(out, rcSymbol)
			}
		case r < 0x80:
			out = append(out, rcPunct)
		default:
			out = append(out, rcUPunct)
		}
		i += size
	}
	return out
}

// ---------------------------------------------------------------------------------------------
// KSUIDs and indexes
// ---------------------------------------------------------------------------------------------

func drawKSUID(t *rapid.T, label string) string {
	var payload [16]byte
	switch rapid.IntRange(0, 5).Draw(t, label+"_pshape") {
	case 0: // all zero
	case 1:
		for i := range payload {
			payload[i] = 0xff
		}
	default:
		hi := rapid.Uint64().Draw(t, label+"_phi")
		lo := rapid.Uint64().Draw(t, label+"_plo")
		for i := 0; i < 8; i++ {
			payload[i] = byte(hi >> (8 * uint(i)))
			payload[8+i] = byte(lo >> (8 * uint(i)))
		}
	}
	// the KSUID timestamp is a uint32 of seconds since 2014-05-13 (epoch 1400000000)
	var ts uint32
	switch rapid.IntRange(0, 5).Draw(t, label+"_tshape") {
	case 0:
		ts = 0
	case 1:
		ts = math.MaxUint32
	default:
		ts = rapid.Uint32().Draw(t, label+"_ts")
	}
	id, err := ksuid.FromParts(time.Unix(1400000000+int64(ts), 0), payload[:])
	if err != nil {
		t.Fatalf("harness: ksuid.FromParts: %v", err)
	}
	return id.String()
}

var indexEdges = []uint64{0, 1, 9, 10, 999, 1000, 1 << 31, 1<<32 - 1, 1 << 32, 1<<63 - 1, 1 << 63, 1<<64 - 1}

func drawIndex(t *rapid.T, label string) uint64 {
	switch rapid.IntRange(0, 4).Draw(t, label+"_shape") {
	case 0:
		return rapid.SampledFrom(indexEdges).Draw(t, label+"_edge")
	case 1:
		return uint64(rapid.IntRange(0, 2000).Draw(t, label+"_small"))
	case 2: // upper half, which rapid.Uint64 (biased to short bit widths) hardly reaches
		return math.MaxUint64 - rapid.Uint64Range(0, 1<<63-1).Draw(t, label+"_high")
	}
	return rapid.Uint64().Draw(t, label)
}

func indexClass(i uint64) string {
	switch {
	case i == 0:
		return "0"
	case i < 10:
		return "1digit"
	case i < 1000:
		return "<1000"
	case i < 1<<31:
		return "<2^31"
	case i < 1<<32:
		return "<2^32"
	case i < 1<<63-1:
		return "<2^63-1"
	case i == 1<<63-1:
		return "2^63-1"
	case i == 1<<63:
		return "2^63"
	case i == math.MaxUint64:
		return "2^64-1"
	}
	return ">2^63"
}
