package c20

import (
	"math"
	"strings"
	"testing"
	"time"

	"github.com/oneconcern/datamon/pkg/model"

	"verifharness/hx"
)

const (
	idA = "1Jbb3SicFGoKB7JQJZdCCwdBQwE"
	idB = "1Jbb3SicFGoKB7JQJZdCCwdBQwF"
)

// TestRegressPaths pins the documented layout (doc comments of the builders, docs of the metadata store)
func TestRegressPaths(t *testing.T) {
	for _, x := range []struct {
		o    obj
		want string
	}{
		{obj{Kind: "repo", Repo: "my-repo"}, "repos/my-repo/repo.yaml"},
		{obj{Kind: "bundle", Repo: "my-repo", Bundle: idA}, "bundles/my-repo/" + idA + "/bundle.yaml"},
		{obj{Kind: "bundlefiles", Repo: "my-repo", Bundle: idA, Index: 0}, "bundles/my-repo/" + idA + "/bundle-files-0.yaml"},
		{obj{Kind: "bundlefiles", Repo: "my-repo", Bundle: idA, Index: math.MaxUint64}, "bundles/my-repo/" + idA + "/bundle-files-18446744073709551615.yaml"},
		{obj{Kind: "label", Repo: "my-repo", Label: "my_label"}, "labels/my-repo/my_label/label.yaml"},
		{obj{Kind: "label", Repo: "日本", Label: "v1.2.3"}, "labels/日本/v1.2.3/label.yaml"},
		{obj{Kind: "context", Context: "dev"}, "contexts/dev/context.yaml"},
		{obj{Kind: "diamond", Repo: "r", Diamond: idA, Variant: 1}, "diamonds/r/" + idA + "/diamond-running.yaml"},
		{obj{Kind: "diamond", Repo: "r", Diamond: idA, Variant: 0}, "diamonds/r/" + idA + "/diamond-running.yaml"},
		{obj{Kind: "diamond", Repo: "r", Diamond: idA, Final: true, Variant: 1}, "diamonds/r/" + idA + "/diamond-done.yaml"},
		{obj{Kind: "diamond", Repo: "r", Diamond: idA, Final: true, Variant: 3}, "diamonds/r/" + idA + "/diamond-done.yaml"},
		{obj{Kind: "diamond", Repo: "r", Diamond: idA, Final: true, Variant: 0}, "diamonds/r/" + idA + "/diamond-done.yaml"},
		{obj{Kind: "split", Repo: "r", Diamond: idA, Split: idB, Variant: 1}, "diamonds/r/" + idA + "/splits/" + idB + "/split-running.yaml"},
		{obj{Kind: "split", Repo: "r", Diamond: idA, Split: "my-split", Final: true, Variant: 1}, "diamonds/r/" + idA + "/splits/my-split/split-done.yaml"},
		{obj{Kind: "split", Repo: "r", Diamond: idA, Split: "my-split", Final: true, Variant: 0}, "diamonds/r/" + idA + "/splits/my-split/split-done.yaml"},
		{obj{Kind: "splitfiles", Repo: "r", Diamond: idA, Split: "s", Gen: idB, Index: 12}, "diamonds/r/" + idA + "/splits/s/" + idB + "/bundle-files-12.yaml"},
	} {
		if got := build(x.o); got != x.want {
			t.Errorf("path of %+v = %q, documented %q", x.o, got, x.want)
		}
		if err := checkRoundTrip(x.o); err != nil {
			t.Errorf("%v", err)
		}
		if err := checkPrefixes(x.o, x.o.Repo+"x"); err != nil {
			t.Errorf("%v", err)
		}
	}
	// lost-separator collisions
	checkPool(t, poolCase{Names: []string{"a", "ab", "b", "ba"}, IDs: []string{idA, idB}, Indexes: []uint64{1, 11, 111}})
	if err := checkReverseIndex(0); err != nil {
		t.Error(err)
	}
	if err := checkReverseIndex(math.MaxUint64); err != nil {
		t.Error(err)
	}
	if got := model.ReverseIndexFile(593); got != "reverse-index/chunk-593.yaml" {
		t.Errorf("ReverseIndexFile(593) = %q", got)
	}
}

// TestRegressConsumable pins the .datamon names and the largest index that works today
func TestRegressConsumable(t *testing.T) {
	if got := model.GetConsumablePathToBundle(idA); got != ".datamon/"+idA+".yaml" {
		t.Errorf("GetConsumablePathToBundle = %q", got)
	}
	if got := model.GetConsumablePathToBundleFileList(idA, 3); got != ".datamon/"+idA+"-bundle-files-3.yaml" {
		t.Errorf("GetConsumablePathToBundleFileList = %q", got)
	}
	for _, i := range []uint64{0, 1, 1000, math.MaxInt32, math.MaxInt64} {
		if err := checkConsumable(consCase{Bundle: idA, Index: i}); err != nil {
			t.Error(err)
		}
	}
	for _, p := range []string{"", "a", ".datamon", ".datamon/", ".datamon/x", ".datamon/.yaml.bak", "x/.datamon/a.yaml", ".datamon/" + idA + "-bundle-files-x.yaml"} {
		var e error
		if err := safely(func() { _, e = model.GetConsumableStorePathMetadata(p) }); err != nil {
			t.Errorf("GetConsumableStorePathMetadata(%q): %v", p, err)
		}
		if e == nil && !strings.HasSuffix(p, ".yaml") {
			t.Errorf("GetConsumableStorePathMetadata(%q) accepted", p)
		}
	}
	if err := checkConflictPaths("my-split", "a/b.txt"); err != nil {
		t.Error(err)
	}
	if err := checkConflictPaths(idA, "/a/b.txt"); err != nil {
		t.Error(err)
	}
}

// TestRegressValidate pins the examples of the documentation and of label_test.go
func TestRegressValidate(t *testing.T) {
	for _, x := range []struct {
		name  string
		label bool
		ok    bool
	}{
		{"repo1", false, true}, {"my-repo", false, true}, {"Ünï-日本-٣", false, true}, {"-", false, true},
		{"", false, false}, {"my_repo", false, false}, {"a b", false, false}, {"a/b", false, false}, {"a.b", false, false}, {"a%", false, false},
		{"x²", false, false}, {"é", false, false}, {"a\n", false, false}, {"🙂", false, false}, {"\xff", false, false},
		{"label1", true, true}, {"label1-", true, true}, {"label1_1-1", true, true}, {"a‿b", true, true},
		// mathematical minus signs are symbols (Sm): neither letters, digits, hyphens nor dash punctuation
		{"a\u2212b", false, false}, {"a\u207bb", false, false}, {"a\u208bb", true, false}, {"2019\u22122020", true, false},
		{"", true, false}, {"label1/asd", true, false}, {"label{", true, false}, {"label with spaces is not supported", true, false}, {"a.b", true, false},
	} {
		c := valCase{Name: x.name, Label: x.label, classes: classify(x.name)}
		if v := refVerdict(c.classes, c.Label); (v == mustAccept) != x.ok || v == either {
			t.Errorf("harness: reference verdict for %q (label=%v) is %s", x.name, x.label, v)
		}
		if err := checkValidate(c); err != nil {
			t.Error(err)
		}
	}
	// the other documented requirements
	if model.ValidateRepo(model.RepoDescriptor{Name: "r"}) == nil {
		t.Error("ValidateRepo accepts an empty description")
	}
	if model.ValidateLabel(model.LabelDescriptor{Name: "l"}) == nil {
		t.Error("ValidateLabel accepts an empty bundle ID")
	}
}

// TestRegressDescriptors pins a few documents
func TestRegressDescriptors(t *testing.T) {
	ts := time.Date(2020, 2, 29, 23, 59, 59, 123456789, time.UTC)
	for typ, d := range map[string]interface{}{
		"repo":    &model.RepoDescriptor{Name: "r", Description: "yes", Timestamp: ts, Contributor: model.Contributor{Name: "null", Email: "~"}},
		"bundle":  &model.BundleDescriptor{LeafSize: math.MaxUint32, ID: idA, Message: "a: b # c\n- d\n", Parents: []string{idB}, Timestamp: ts, BundleEntriesFileCount: math.MaxUint64, Version: 4},
		"entries": &model.BundleEntries{BundleEntries: []model.BundleEntry{{Hash: strings.Repeat("0", 128), NameWithPath: " a/b ", FileMode: 0o777 | 1<<31, Size: math.MaxUint64}, {Hash: "123e4567", NameWithPath: "0x10", Timestamp: ts}}},
		"label":   &model.LabelDescriptor{Name: "v1.0.0", BundleID: idA, Timestamp: ts, Contributors: []model.Contributor{{Name: "n", Email: "e@x"}}},
		"diamond": &model.DiamondDescriptor{DiamondID: idA, StartTime: ts, State: model.DiamondDone, Mode: model.EnableConflicts, HasConflicts: true, Tag: "#tag", BundleID: idB, Splits: []model.SplitDescriptor{{SplitID: "s", StartTime: ts, EndTime: ts, State: model.SplitDone, GenerationID: idB, SplitEntriesFileCount: 1}}},
		"split":   &model.SplitDescriptor{SplitID: idB, StartTime: ts, State: model.SplitRunning, Contributors: []model.Contributor{}, GenerationID: idA},
		"context": &model.Context{Name: "dev", WAL: "w", ReadLog: "r", Blob: "b", Metadata: "m", VMetadata: "v", Version: 1},
		"wal":     &model.Entry{Token: idA, Payload: "{a: b}\n"},
	} {
		if err := checkDescriptor(typ, d); err != nil {
			t.Error(err)
		}
	}
}

// ---------------------------------------------------------------------------------------------
// known findings
// ---------------------------------------------------------------------------------------------

func known(t *testing.T, id, what string, err error) {
	switch {
	case err == nil:
		t.Logf("%s does not reproduce any more", id)
	case hx.Listed(id):
		t.Logf("KNOWN-FINDING %s still reproduces: %v", id, err)
		stats.KnownFinding(id, what)
	default:
		t.Fatalf("%v", err)
	}
}

// TestKnownIndexAboveInt63: GetConsumablePathToBundleFileList panics for every index above 2^63-1
func TestKnownIndexAboveInt63(t *testing.T) {
	var first error
	for _, i := range []uint64{1 << 63, 1<<63 + 1, math.MaxUint64} {
		if err := checkConsumable(consCase{Bundle: idA, Index: i}); err != nil && first == nil {
			first = err
		}
	}
	known(t, knownIndexPanic, "GetConsumablePathToBundleFileList panics for an index above 2^63-1 (inverse function parses the index with strconv.Atoi)", first)
}

// TestKnownDotDotConflicts: "..conflicts" and "..checkpoints" are taken for generated files
func TestKnownDotDotConflicts(t *testing.T) {
	var first error
	for _, p := range []string{"..conflicts", "..checkpoints", "..conflicts/x", "..checkpoints/a/b"} {
		if err := checkGenerated(p); err != nil && first == nil {
			first = err
		}
	}
	known(t, knownDotConflicts, "IsGeneratedFile takes ..conflicts and ..checkpoints (and everything below) for reserved locations: such user files are silently left out of uploads", first)
}

// TestKnownValidatePanics: the error path of ValidateRepo / ValidateLabel indexes []rune(name) with a byte offset
func TestKnownValidatePanics(t *testing.T) {
	var first error
	for _, x := range []valCase{{Name: "é/", Label: false}, {Name: "日本語 ", Label: false}, {Name: "ü.", Label: true}, {Name: "数据_集", Label: false}} {
		x.classes = classify(x.Name)
		if !x.panicClass() {
			t.Fatalf("harness: %q is not in the class of %s", x.Name, knownValidatePanic)
		}
		if err := checkValidate(x); err != nil && first == nil {
			first = err
		}
	}
	known(t, knownValidatePanic, "ValidateRepo and ValidateLabel panic (index out of range) instead of returning an error when the first unsupported character follows multi-byte characters", first)
}
