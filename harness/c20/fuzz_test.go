package c20

import (
	"fmt"
	"strconv"
	"strings"
	"testing"

	"github.com/oneconcern/datamon/pkg/model"
	"pgregory.net/rapid"

	"verifharness/hx"
)

// ---------------------------------------------------------------------------------------------
// GetArchivePathComponents on arbitrary input: never panics, and when the result identifies a known
// kind of object, rebuilding the path from the parsed components and parsing again is a fixed point.
// ---------------------------------------------------------------------------------------------

// identify maps parsed components back to an object when they name one of the documented files.
// Components that cannot be values (empty, "." / ".." for contexts whose builder uses path.Join,
// index beyond uint64) identify nothing: only "no panic" is required then.
func identify(apc model.ArchivePathComponents) (obj, bool) {
	idx := func() (uint64, bool) {
		mid := strings.TrimSuffix(strings.TrimPrefix(apc.ArchiveFileName, "bundle-files-"), ".yaml")
		if len(mid)+len("bundle-files-.yaml") != len(apc.ArchiveFileName) || mid == "" {
			return 0, false
		}
		for _, c := range mid {
			if c < '0' || c > '9' {
				return 0, false
			}
		}
		n, err := strconv.ParseUint(mid, 10, 64)
		return n, err == nil
	}
	switch {
	case apc.Context != "":
		if apc.ArchiveFileName != "context.yaml" || apc.Context == "." || apc.Context == ".." {
			return obj{}, false
		}
		return obj{Kind: "context", Context: apc.Context}, true
	case apc.Repo == "":
		return obj{}, false
	case apc.LabelName != "":
		return obj{Kind: "label", Repo: apc.Repo, Label: apc.LabelName}, apc.ArchiveFileName == "label.yaml"
	case apc.BundleID != "":
		if apc.ArchiveFileName == "bundle.yaml" {
			return obj{Kind: "bundle", Repo: apc.Repo, Bundle: apc.BundleID}, true
		}
		if n, ok := idx(); ok {
			return obj{Kind: "bundlefiles", Repo: apc.Repo, Bundle: apc.BundleID, Index: n}, true
		}
		return obj{}, false
	case apc.DiamondID != "" && apc.SplitID == "":
		switch apc.ArchiveFileName {
		case "diamond-running.yaml":
			return obj{Kind: "diamond", Repo: apc.Repo, Diamond: apc.DiamondID, Variant: 1}, !apc.IsFinalState
		case "diamond-done.yaml":
			return obj{Kind: "diamond", Repo: apc.Repo, Diamond: apc.DiamondID, Final: true, Variant: 1}, apc.IsFinalState
		}
		return obj{}, false
	case apc.DiamondID != "" && apc.GenerationID == "":
		switch apc.ArchiveFileName {
		case "split-running.yaml":
			return obj{Kind: "split", Repo: apc.Repo, Diamond: apc.DiamondID, Split: apc.SplitID, Variant: 1}, !apc.IsFinalState
		case "split-done.yaml":
			return obj{Kind: "split", Repo: apc.Repo, Diamond: apc.DiamondID, Split: apc.SplitID, Final: true, Variant: 1}, apc.IsFinalState
		}
		return obj{}, false
	case apc.DiamondID != "":
		if n, ok := idx(); ok {
			return obj{Kind: "splitfiles", Repo: apc.Repo, Diamond: apc.DiamondID, Split: apc.SplitID, Gen: apc.GenerationID, Index: n}, true
		}
		return obj{}, false
	case apc.ArchiveFileName == "repo.yaml":
		return obj{Kind: "repo", Repo: apc.Repo}, true
	}
	return obj{}, false
}

// checkParseAnything is the semantic oracle shared by the fuzz target and the rapid property.
// It returns the kind identified ("" when none / error).
func checkParseAnything(p string) (string, error) {
	var (
		apc  model.ArchivePathComponents
		perr error
	)
	if err := safely(func() { apc, perr = model.GetArchivePathComponents(p) }); err != nil {
		return "", fmt.Errorf("GetArchivePathComponents(%q): %v", p, err)
	}
	if perr != nil {
		if apc != (model.ArchivePathComponents{}) {
			return "", fmt.Errorf("GetArchivePathComponents(%q) returns an error (%v) together with components %+v", p, perr, apc)
		}
		return "", nil
	}
	o, ok := identify(apc)
	if !ok {
		return "", nil
	}
	// every parsed component came out of a "/"-split, so it is free of slashes: the builders apply
	if err := checkRoundTrip(o); err != nil {
		return o.Kind, fmt.Errorf("parse(%q) = %+v identifies %+v, but rebuilding and parsing again is not a fixed point: %v", p, apc, o, err)
	}
	return o.Kind, nil
}

func FuzzArchivePath(f *testing.F) {
	for _, s := range []string{
		"", "/", "bundles", "bundles/r/1Jbb3SicFGoKB7JQJZdCCwdBQwE/bundle.yaml", "bundles/r/1Jbb3SicFGoKB7JQJZdCCwdBQwE/bundle-files-0.yaml",
		"bundles/r/1Jbb3SicFGoKB7JQJZdCCwdBQwE/bundle-files-007.yaml", "bundles/r/x/bundle-files-99999999999999999999.yaml", "bundles/r/x/",
		"repos/r/repo.yaml", "labels/r/l/label.yaml", "labels/r/l/label.yaml/x", "contexts/c/context.yaml", "contexts/../context.yaml", "contexts//x",
		"diamonds/r/1Jbb3SicFGoKB7JQJZdCCwdBQwE/diamond-done.yaml", "diamonds/r/1Jbb3SicFGoKB7JQJZdCCwdBQwE/diamond-running.yaml",
		"diamonds/r/1Jbb3SicFGoKB7JQJZdCCwdBQwE/", "diamonds/r/1Jbb3SicFGoKB7JQJZdCCwdBQwE/splits/", "diamonds/r/1Jbb3SicFGoKB7JQJZdCCwdBQwE/splits/s/",
		"diamonds/r/1Jbb3SicFGoKB7JQJZdCCwdBQwE/splits/s/split-done.yaml", "diamonds/r/1Jbb3SicFGoKB7JQJZdCCwdBQwE/splits/s/split-running.yaml",
		"diamonds/r/1Jbb3SicFGoKB7JQJZdCCwdBQwE/splits/s/1Jbb3SicFGoKB7JQJZdCCwdBQwE/bundle-files-1.yaml",
		"diamonds/r/1Jbb3SicFGoKB7JQJZdCCwdBQwE/splits/s/1Jbb3SicFGoKB7JQJZdCCwdBQwE/bundle-files-1.yaml/x",
		"diamonds/r/1Jbb3SicFGoKB7JQJZdCCwdBQwE/x/s/split-done.yaml", "diamonds/r/notaksuid/diamond-done.yaml", "diamonds//1Jbb3SicFGoKB7JQJZdCCwdBQwE/diamond-done.yaml",
	} {
		f.Add(s)
	}
	f.Fuzz(func(t *testing.T, p string) {
		if _, err := checkParseAnything(p); err != nil {
			t.Fatalf("%v", err)
		}
	})
}

// TestPropParseAnything: the same oracle on generated valid paths damaged by rune-level mutations,
// on grammar-level recombinations and on raw hostile strings.
func TestPropParseAnything(t *testing.T) {
	tops := []string{"bundles", "repos", "labels", "contexts", "diamonds", "splits", "", "Bundles", "bundle"}
	files := []string{"bundle.yaml", "repo.yaml", "label.yaml", "context.yaml", "diamond-done.yaml", "diamond-running.yaml",
		"split-done.yaml", "split-running.yaml", "bundle-files-0.yaml", "bundle-files-007.yaml", "bundle-files-18446744073709551615.yaml",
		"bundle-files-18446744073709551616.yaml", "bundle-files-.yaml", "bundle-files--1.yaml", "bundle-files-1.yml", "", "splits", "x"}
	rapid.Check(t, func(t *rapid.T) {
		var p, shape string
		switch rapid.IntRange(0, 3).Draw(t, "shape") {
		case 0: // valid path with 1..3 mutations
			shape = "mutated"
			c := drawPathCase(t)
			p = build(c.O)
			for i, n := 0, rapid.IntRange(1, 3).Draw(t, "nmut"); i < n; i++ {
				rs := []rune(p)
				switch rapid.IntRange(0, 3).Draw(t, "mut") {
				case 0: // delete a rune
					if len(rs) > 0 {
						at := rapid.IntRange(0, len(rs)-1).Draw(t, "at")
						p = string(rs[:at]) + string(rs[at+1:])
					}
				case 1: // insert a rune
					at := rapid.IntRange(0, len(rs)).Draw(t, "at")
					cl := rapid.SampledFrom([]runeClass{rcSlash, rcSlash, rcDot, rcDigit, rcLower, rcMinus, rcSpace, rcControl, rcULetter, rcBadUTF8}).Draw(t, "ins")
					p = string(rs[:at]) + drawRune(t, cl) + string(rs[at:])
				case 2: // drop or duplicate a path element
					parts := strings.Split(p, "/")
					at := rapid.IntRange(0, len(parts)-1).Draw(t, "at")
					if rapid.Bool().Draw(t, "dup") {
						parts = append(parts[:at+1], parts[at:]...)
					} else {
						parts = append(parts[:at:at], parts[at+1:]...)
					}
					p = strings.Join(parts, "/")
				case 3: // append something
					p += rapid.SampledFrom([]string{"/", "/x", "x", "/" + files[0], ".bak", "\n"}).Draw(t, "tail")
				}
			}
		case 1: // grammar: a layout template whose elements are individually replaced by odd ones
			shape = "grammar"
			// n = name, i = ksuid, s = "splits", f = file
			tpl := rapid.SampledFrom([]string{"bundles/n/i/f", "bundles/n/n/f", "labels/n/n/f", "repos/n/f", "contexts/n/f",
				"diamonds/n/i/f", "diamonds/n/i/s/n/f", "diamonds/n/i/s/i/f", "diamonds/n/i/s/n/i/f", "diamonds/n/i/s/i/i/f", "diamonds/n/n/f", "diamonds/n/i/s/n/n/f"}).Draw(t, "tpl")
			var parts []string
			for _, el := range strings.Split(tpl, "/") {
				if len(el) > 1 { // top
					if rapid.IntRange(0, 19).Draw(t, "top_odd") == 0 {
						el = rapid.SampledFrom(tops).Draw(t, "top")
					}
					parts = append(parts, el)
					continue
				}
				if rapid.IntRange(0, 9).Draw(t, "odd") == 0 {
					parts = append(parts, rapid.SampledFrom([]string{"", ".", "..", " ", "%2F", "a b", "splits", "x"}).Draw(t, "odd_el"))
					continue
				}
				switch el {
				case "n":
					parts = append(parts, drawValidName(t, labelAlphabet, "el").S)
				case "i":
					parts = append(parts, drawKSUID(t, "id"))
				case "s":
					parts = append(parts, "splits")
				case "f":
					f := rapid.SampledFrom(files).Draw(t, "file")
					if rapid.Bool().Draw(t, "fitting_file") { // a file name that belongs to this template
						switch {
						case strings.HasPrefix(tpl, "bundles"):
							f = rapid.SampledFrom([]string{"bundle.yaml", "bundle-files-0.yaml", "bundle-files-007.yaml", "bundle-files-18446744073709551615.yaml", "bundle-files-18446744073709551616.yaml"}).Draw(t, "bfile")
						case strings.HasPrefix(tpl, "labels"):
							f = "label.yaml"
						case strings.HasPrefix(tpl, "repos"):
							f = "repo.yaml"
						case strings.HasPrefix(tpl, "contexts"):
							f = "context.yaml"
						case strings.Count(tpl, "/") == 3:
							f = rapid.SampledFrom([]string{"diamond-done.yaml", "diamond-running.yaml"}).Draw(t, "dfile")
						case strings.Count(tpl, "/") == 5:
							f = rapid.SampledFrom([]string{"split-done.yaml", "split-running.yaml"}).Draw(t, "sfile")
						default:
							f = rapid.SampledFrom([]string{"bundle-files-0.yaml", "bundle-files-12.yaml", "bundle-files-007.yaml", "bundle-files-18446744073709551616.yaml"}).Draw(t, "sffile")
						}
					}
					parts = append(parts, f)
				}
			}
			if rapid.IntRange(0, 9).Draw(t, "extra") == 0 {
				parts = append(parts, rapid.SampledFrom(files).Draw(t, "extra_file"))
			}
			p = strings.Join(parts, "/")
		case 2: // hostile string
			shape = "hostile"
			all := append(append(append([]runeClass{}, labelAlphabet...), hostileRunes...), rcSlash, rcSlash)
			p = rapid.SampledFrom(tops).Draw(t, "top") + "/" + drawNameOf(t, all, rapid.IntRange(0, 30).Draw(t, "n"), "h").S
		default:
			shape = "raw"
			p = rapid.String().Draw(t, "raw")
		}
		kind, err := checkParseAnything(p)
		if err != nil {
			t.Fatalf("%v", err)
		}
		if kind == "" {
			kind = "none"
		}
		stats.Case("parse shape="+shape+" kind="+kind, kind != "none", func() interface{} { return p })
		stats.Count("parse_"+shape+"_"+kind, 1)
	})
}

// FuzzGeneratedFile: IsGeneratedFile against the reference predicate on arbitrary strings
func FuzzGeneratedFile(f *testing.F) {
	for _, pre := range gfPrefixes {
		for _, name := range gfNames[:4] {
			f.Add(pre + name + "/x")
		}
	}
	f.Fuzz(func(t *testing.T, p string) {
		if isKnownDotDot(p) && hx.Known(knownDotConflicts) {
			t.Skip()
		}
		if err := checkGenerated(p); err != nil {
			t.Fatalf("%v", err)
		}
	})
}

// FuzzValidateName: both validators against the three-valued reference on arbitrary strings
func FuzzValidateName(f *testing.F) {
	for _, s := range []string{"", "repo-1", "my_label", "a b", "a/b", "日本語", "é", "a‐b", "a–b", "\xff", "x²"} {
		f.Add(s, true)
		f.Add(s, false)
	}
	f.Fuzz(func(t *testing.T, name string, label bool) {
		c := valCase{Name: name, Label: label, classes: classify(name)}
		if c.panicClass() && hx.Known(knownValidatePanic) {
			t.Skip()
		}
		if err := checkValidate(c); err != nil {
			t.Fatalf("%v", err)
		}
	})
}
