package c20

import (
	"fmt"
	"math"
	"os"
	"reflect"
	"sort"
	"strings"
	"testing"
	"time"

	"github.com/oneconcern/datamon/pkg/model"
	"gopkg.in/yaml.v2"
	"pgregory.net/rapid"

	"verifharness/hx"
)

// ---------------------------------------------------------------------------------------------
// descriptors: yaml.Unmarshal(yaml.Marshal(d)) == d, with the same calls pkg/core uses
// (gopkg.in/yaml.v2 on the descriptor values; model.MarshalContext / model.MarshalWAL helpers)
// ---------------------------------------------------------------------------------------------

// strings that YAML treats specially when unquoted
var yamlSignificant = []string{
	"~", "null", "Null", "NULL", "yes", "no", "on", "off", "y", "n", "true", "false", "True",
	"0x10", "0o7", "010", "1e3", "1_000", ".inf", "-.inf", ".nan", "1:20", "190:20:30", "12", "-1", "+1", "3.14", "0b11",
	"- a", "-", "--", "---", "...", "? a", ": ", "a: b", "a:b", "a :b", "key: value # comment", "#", "# x", "a #b", "a#b",
	"[a]", "[", "]", "{a: b}", "{", "}", ",", "&a", "*a", "!a", "!!str x", "|", ">", "|-", ">+", "%YAML", "@a", "`a", "'", "\"", "'a'", "\"a\"",
	"a'b", "a\"b", "\\", "\\n", "a\\", "<<", "=", "2001-01-01", "2001-12-14t21:59:43.10-05:00", "2001-12-14 21:59:43.10 -5",
	" a", "a ", "  a  ", " ", "  ", "\ta", "a\t", "a\tb",
	"é", "e\u0301", "日本語", "🙂", "\u00a0", "a\u00a0", "\u2028", "a\u2028b", "\u2029", "\ufeff", "\ufeffa", "\u0085", "a\u0085b", "\ufffd", "\u200b", "\u202e",
}

// strings with line breaks (messages, descriptions and tags are free text)
var multiLine = []string{
	"a\nb", "a\n", "\na", "\n", "a\n\nb", "a\nb\n", "a\n b", " a\nb", "a \nb", "a\n\n", "a\r\nb", "a\rb", "- a\n- b", "a: 1\nb: 2", "a\n# b", "a\n\tb", "\n\n", "a\n...\nb", "a\n---\nb",
}

type strClass string

func drawString(t *rapid.T, label string, classes map[strClass]bool) string {
	pick := func(c strClass) { classes[c] = true }
	switch rapid.IntRange(0, 11).Draw(t, label+"_sc") {
	case 0:
		pick("empty")
		return ""
	case 1, 2:
		pick("yamlsig")
		return rapid.SampledFrom(yamlSignificant).Draw(t, label+"_sig")
	case 3:
		pick("multiline")
		return rapid.SampledFrom(multiLine).Draw(t, label+"_ml")
	case 4:
		pick("unicode")
		return drawNameOf(t, []runeClass{rcULetter, rcULetter, rcLower, rcSpace, rcSymbol, rcMark, rcUPunct, rcUDigit, rcDash, rcPunct}, rapid.IntRange(1, 20).Draw(t, label+"_n"), label).S
	case 5:
		pick("sig+text")
		a := rapid.SampledFrom(yamlSignificant).Draw(t, label+"_sig")
		b := rapid.SampledFrom(yamlSignificant).Draw(t, label+"_sig2")
		return a + rapid.SampledFrom([]string{"", " ", "x", ": ", " #", "\n"}).Draw(t, label+"_glue") + b
	case 6:
		pick("long")
		return strings.Repeat(rapid.SampledFrom([]string{"a", "ab ", "é", "x: y ", "long-word-without-spaces", "w w "}).Draw(t, label+"_unit"), rapid.IntRange(20, 120).Draw(t, label+"_rep"))
	case 7:
		pick("path")
		return drawRelPath(t)
	case 9:
		// file names may hold any byte but NUL and '/'; free text may hold control characters
		pick("control")
		return drawNameOf(t, []runeClass{rcLower, rcLower, rcControl, rcControl, rcBadUTF8, rcSpace, rcULetter}, rapid.IntRange(1, 12).Draw(t, label+"_n"), label).S
	case 8:
		pick("hex")
		return rapid.StringMatching(`[0-9a-f]{16,128}`).Draw(t, label+"_hex")
	}
	pick("plain")
	return rapid.StringMatching(`[a-zA-Z][a-zA-Z0-9 _.@-]{0,20}[a-zA-Z0-9]`).Draw(t, label+"_plain")
}

// drawTime: zero, or a UTC wall-clock time with nanoseconds (GetBundleTimeStamp is time.Now().UTC()),
// or the same instant in a fixed zone (compared as an instant)
func drawTime(t *rapid.T, label string, classes map[strClass]bool) time.Time {
	switch rapid.IntRange(0, 5).Draw(t, label+"_tc") {
	case 0:
		classes["time-zero"] = true
		return time.Time{}
	case 1:
		classes["time-sec"] = true
		return time.Unix(rapid.Int64Range(0, 4102444800).Draw(t, label+"_sec"), 0).UTC()
	case 2:
		classes["time-zone"] = true
		off := rapid.IntRange(-12*60, 14*60).Draw(t, label+"_off") * 60
		return time.Unix(rapid.Int64Range(0, 4102444800).Draw(t, label+"_sec"), int64(rapid.IntRange(0, 999999999).Draw(t, label+"_ns"))).In(time.FixedZone("", off))
	}
	classes["time-ns"] = true
	ns := rapid.SampledFrom([]int{-1, 0, 1, 999999999, 100000000, 123456789, 120000000, 1000}).Draw(t, label+"_nsedge")
	if ns < 0 {
		ns = rapid.IntRange(0, 999999999).Draw(t, label+"_ns")
	}
	return time.Unix(rapid.Int64Range(0, 4102444800).Draw(t, label+"_sec"), int64(ns)).UTC()
}

func drawU64(t *rapid.T, label string) uint64 {
	if rapid.Bool().Draw(t, label+"_edge") {
		return rapid.SampledFrom([]uint64{0, 1, math.MaxInt32, math.MaxUint32, math.MaxInt64, 1 << 63, math.MaxUint64}).Draw(t, label)
	}
	return rapid.Uint64().Draw(t, label)
}

func drawContributor(t *rapid.T, label string, cl map[strClass]bool) model.Contributor {
	return model.Contributor{Name: drawString(t, label+"_name", cl), Email: drawString(t, label+"_email", cl)}
}

func drawContributors(t *rapid.T, label string, cl map[strClass]bool) []model.Contributor {
	switch n := rapid.IntRange(-1, 3).Draw(t, label+"_n"); {
	case n < 0:
		return nil
	case n == 0:
		return []model.Contributor{}
	default:
		out := make([]model.Contributor, n)
		for i := range out {
			out[i] = drawContributor(t, label, cl)
		}
		return out
	}
}

func drawSplitDescriptor(t *rapid.T, cl map[strClass]bool) model.SplitDescriptor {
	return model.SplitDescriptor{
		SplitID:               drawSplitID(t).S,
		StartTime:             drawTime(t, "start", cl),
		EndTime:               drawTime(t, "end", cl),
		State:                 model.SplitState(rapid.SampledFrom([]string{"done", "running", "", "weird state"}).Draw(t, "sstate")),
		Contributors:          drawContributors(t, "contrib", cl),
		GenerationID:          drawKSUID(t, "gen"),
		SplitEntriesFileCount: drawU64(t, "count"),
		Tag:                   drawString(t, "tag", cl),
	}
}

var descTypes = []string{"repo", "bundle", "entries", "label", "diamond", "split", "context", "wal"}

// drawDescriptor returns a pointer to a populated descriptor of the named type
func drawDescriptor(t *rapid.T, typ string, cl map[strClass]bool) interface{} {
	switch typ {
	case "repo":
		return &model.RepoDescriptor{
			Name:        drawValidName(t, repoAlphabet, "name").S,
			Description: drawString(t, "desc", cl),
			Timestamp:   drawTime(t, "ts", cl),
			Contributor: drawContributor(t, "contrib", cl),
		}
	case "bundle":
		var parents []string
		for i, n := 0, rapid.IntRange(0, 3).Draw(t, "nparents"); i < n; i++ {
			parents = append(parents, drawKSUID(t, "parent"))
		}
		return &model.BundleDescriptor{
			LeafSize:               rapid.Uint32().Draw(t, "leaf"),
			ID:                     drawKSUID(t, "id"),
			Message:                drawString(t, "msg", cl),
			Parents:                parents,
			Timestamp:              drawTime(t, "ts", cl),
			Contributors:           drawContributors(t, "contrib", cl),
			BundleEntriesFileCount: drawU64(t, "count"),
			Version:                drawU64(t, "version"),
			Deduplication:          drawString(t, "dedup", cl),
			RunStage:               drawString(t, "stage", cl),
		}
	case "entries":
		n := rapid.IntRange(0, 6).Draw(t, "nentries")
		es := make([]model.BundleEntry, n)
		for i := range es {
			es[i] = model.BundleEntry{
				Hash:         rapid.StringMatching(`[0-9a-f]{128}|[0-9]{128}|[0-9]{3}e[0-9]{4}|0x[0-9a-f]{8}`).Draw(t, "hash"),
				NameWithPath: drawString(t, "file", cl),
				FileMode:     os.FileMode(rapid.Uint32().Draw(t, "mode")),
				Size:         drawU64(t, "size"),
				Timestamp:    drawTime(t, "ts", cl),
			}
		}
		if n == 0 && rapid.Bool().Draw(t, "nil_entries") {
			es = nil
		}
		return &model.BundleEntries{BundleEntries: es}
	case "label":
		return &model.LabelDescriptor{
			Name:         drawLabelName(t).S,
			BundleID:     drawKSUID(t, "id"),
			Timestamp:    drawTime(t, "ts", cl),
			Contributors: drawContributors(t, "contrib", cl),
		}
	case "diamond":
		var splits []model.SplitDescriptor
		for i, n := 0, rapid.IntRange(0, 3).Draw(t, "nsplits"); i < n; i++ {
			splits = append(splits, drawSplitDescriptor(t, cl))
		}
		return &model.DiamondDescriptor{
			DiamondID:      drawKSUID(t, "id"),
			StartTime:      drawTime(t, "start", cl),
			EndTime:        drawTime(t, "end", cl),
			State:          model.DiamondState(rapid.SampledFrom([]string{"initialized", "done", "canceled", ""}).Draw(t, "dstate")),
			Mode:           model.ConflictMode(rapid.SampledFrom([]string{"ignored", "enable-checkpoints", "enable-conflicts", "forbids-conflicts", ""}).Draw(t, "mode")),
			HasConflicts:   rapid.Bool().Draw(t, "hasconf"),
			HasCheckpoints: rapid.Bool().Draw(t, "haschk"),
			Tag:            drawString(t, "tag", cl),
			BundleID:       rapid.SampledFrom([]string{"", "id"}).Draw(t, "hasbundle"),
			Splits:         splits,
		}
	case "split":
		s := drawSplitDescriptor(t, cl)
		return &s
	case "context":
		return &model.Context{
			Name:      drawString(t, "name", cl),
			WAL:       drawString(t, "wal", cl),
			ReadLog:   drawString(t, "readlog", cl),
			Blob:      drawString(t, "blob", cl),
			Metadata:  drawString(t, "meta", cl),
			VMetadata: drawString(t, "vmeta", cl),
			Version:   drawU64(t, "version"),
		}
	case "wal":
		return &model.Entry{Token: drawString(t, "token", cl), Payload: drawString(t, "payload", cl)}
	}
	panic("unknown descriptor type " + typ)
}

// roundTrip marshals and unmarshals the way pkg/core and pkg/context do
func roundTrip(typ string, d interface{}) (back interface{}, doc []byte, err error) {
	perr := safely(func() {
		switch typ {
		case "context":
			doc, err = model.MarshalContext(d.(*model.Context))
			if err != nil {
				return
			}
			back, err = model.UnmarshalContext(doc)
		case "wal":
			doc, err = model.MarshalWAL(d.(*model.Entry))
			if err != nil {
				return
			}
			back, err = model.UnmarshalWAL(doc)
		default:
			// core marshals the value (not the pointer) and unmarshals into a fresh value
			doc, err = yaml.Marshal(reflect.ValueOf(d).Elem().Interface())
			if err != nil {
				return
			}
			fresh := reflect.New(reflect.TypeOf(d).Elem())
			err = yaml.Unmarshal(doc, fresh.Interface())
			back = fresh.Interface()
		}
	})
	if perr != nil {
		return nil, doc, perr
	}
	return back, doc, err
}

var timeType = reflect.TypeOf(time.Time{})

// sameValue compares exported fields recursively: times as instants, nil slice == empty slice
func sameValue(path string, a, b reflect.Value) error {
	if a.Type() != b.Type() {
		return fmt.Errorf("%s: type %s vs %s", path, a.Type(), b.Type())
	}
	if a.Type() == timeType {
		ta, tb := a.Interface().(time.Time), b.Interface().(time.Time)
		if !ta.Equal(tb) {
			return fmt.Errorf("%s: written %s, read %s", path, ta.Format(time.RFC3339Nano), tb.Format(time.RFC3339Nano))
		}
		return nil
	}
	switch a.Kind() {
	case reflect.Ptr:
		if a.IsNil() != b.IsNil() {
			return fmt.Errorf("%s: nil mismatch", path)
		}
		if a.IsNil() {
			return nil
		}
		return sameValue(path, a.Elem(), b.Elem())
	case reflect.Struct:
		for i := 0; i < a.NumField(); i++ {
			f := a.Type().Field(i)
			if f.PkgPath != "" {
				continue
			}
			if err := sameValue(path+"."+f.Name, a.Field(i), b.Field(i)); err != nil {
				return err
			}
		}
		return nil
	case reflect.Slice:
		if a.Len() != b.Len() {
			return fmt.Errorf("%s: written %d elements, read %d", path, a.Len(), b.Len())
		}
		for i := 0; i < a.Len(); i++ {
			if err := sameValue(fmt.Sprintf("%s[%d]", path, i), a.Index(i), b.Index(i)); err != nil {
				return err
			}
		}
		return nil
	case reflect.String:
		if a.String() != b.String() {
			return fmt.Errorf("%s: written %q, read %q", path, a.String(), b.String())
		}
		return nil
	case reflect.Bool:
		if a.Bool() != b.Bool() {
			return fmt.Errorf("%s: written %v, read %v", path, a.Bool(), b.Bool())
		}
		return nil
	case reflect.Uint, reflect.Uint8, reflect.Uint16, reflect.Uint32, reflect.Uint64:
		if a.Uint() != b.Uint() {
			return fmt.Errorf("%s: written %d, read %d", path, a.Uint(), b.Uint())
		}
		return nil
	case reflect.Int, reflect.Int8, reflect.Int16, reflect.Int32, reflect.Int64:
		if a.Int() != b.Int() {
			return fmt.Errorf("%s: written %d, read %d", path, a.Int(), b.Int())
		}
		return nil
	}
	return fmt.Errorf("%s: harness cannot compare kind %s", path, a.Kind())
}

func checkDescriptor(typ string, d interface{}) error {
	back, doc, err := roundTrip(typ, d)
	if err != nil {
		return fmt.Errorf("%s descriptor does not survive yaml: %v\nwritten: %+v\ndocument:\n%s", typ, err, reflect.ValueOf(d).Elem().Interface(), doc)
	}
	if err := sameValue(typ, reflect.ValueOf(d), reflect.ValueOf(back)); err != nil {
		return fmt.Errorf("%s descriptor reads back different: %v\ndocument:\n%s", typ, err, doc)
	}
	return nil
}

func classList(cl map[strClass]bool) string {
	var out []string
	for c := range cl {
		out = append(out, string(c))
	}
	sort.Strings(out)
	return strings.Join(out, ",")
}

func TestPropDescriptors(t *testing.T) {
	rapid.Check(t, func(t *rapid.T) {
		typ := rapid.SampledFrom(descTypes).Draw(t, "type")
		cl := map[strClass]bool{}
		d := drawDescriptor(t, typ, cl)
		hx.Journal(map[string]interface{}{"type": typ, "descriptor": d})
		if err := checkDescriptor(typ, d); err != nil {
			t.Fatalf("%v", err)
		}
		nontrivial := false
		for c := range cl {
			if c != "plain" && c != "empty" && c != "time-zero" {
				nontrivial = true
			}
		}
		stats.Case("desc type="+typ+" classes="+classList(cl), nontrivial, func() interface{} { return map[string]interface{}{"type": typ, "descriptor": d} })
		stats.Count("desc_"+typ, 1)
		for c := range cl {
			stats.Count("desc_str_"+string(c), 1)
		}
	})
}
