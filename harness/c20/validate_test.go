package c20

import (
	"fmt"
	"strings"
	"testing"
	"unicode/utf8"

	"github.com/oneconcern/datamon/pkg/model"
	"pgregory.net/rapid"

	"verifharness/hx"
)

// ---------------------------------------------------------------------------------------------
// ValidateRepo / ValidateLabel: accept exactly the documented alphabets
// ---------------------------------------------------------------------------------------------
//
// Documentation used for the reference (not the implementation):
//   * pkg/model/repo.go: "name and description are required, name only contains letters, digits or '-'"
//   * `datamon repo create --help`: "Allowed characters Unicode characters, digits and hyphen"
//   * pkg/model/label.go + label_test.go ("success with hyphens", "success with Connector punctuation",
//     "failure with /", "Non alphanumeric", "space failure"): letters, digits, hyphen, connector punctuation
//
// The reference is three-valued.  "letters" = Unicode category L, "digits" = Nd, connector punctuation = Pc.
// "hyphen" is certain for U+002D only: for the other runes carrying the Unicode Hyphen property and for the
// rest of the dash punctuation (Pd) the documentation does not settle the answer, so either verdict is allowed
// (the case still has to return without panicking).

type verdict int

const (
	mustAccept verdict = iota
	mustReject
	either
)

func (v verdict) String() string { return [...]string{"accept", "reject", "either"}[v] }

func refVerdict(classes []runeClass, label bool) verdict {
	if len(classes) == 0 {
		return mustReject // "empty field"
	}
	v := mustAccept
	for _, c := range classes {
		switch c {
		case rcLower, rcUpper, rcDigit, rcMinus, rcULetter, rcUDigit:
		case rcUnder, rcUPc:
			if !label {
				return mustReject
			}
		case rcUHyphen, rcDash:
			v = either
		default:
			return mustReject
		}
	}
	return v
}

type valCase struct {
	Name    string      `json:"name"`
	Label   bool        `json:"label"`
	classes []runeClass // of Name
}

// panicClass: the input class of finding knownValidatePanic - some rune that is not certainly accepted
// sits at a byte offset that is >= the number of runes of the name (multi-byte runes precede it)
func (c valCase) panicClass() bool {
	count := utf8.RuneCountInString(c.Name)
	off := 0
	for i, part := range splitRunes(c.Name) {
		if refVerdict(c.classes[i:i+1], c.Label) != mustAccept && off >= count {
			return true
		}
		off += len(part)
	}
	return false
}

// asciify leaves the panic class while keeping the shape of the name: multi-byte runes that are
// accepted (or may be) become single-byte ones, so that the first rejected rune has offset == index
func (c *valCase) asciify() {
	parts := splitRunes(c.Name)
	for i := range parts {
		if len(parts[i]) == 1 {
			continue
		}
		switch refVerdict(c.classes[i:i+1], c.Label) {
		case mustAccept:
			parts[i], c.classes[i] = "a", rcLower
		case either:
			parts[i], c.classes[i] = "-", rcMinus
		}
	}
	c.Name = strings.Join(parts, "")
}

func drawValCase(t *rapid.T) valCase {
	var c valCase
	c.Label = rapid.Bool().Draw(t, "label")
	alphabet := repoAlphabet
	if c.Label {
		alphabet = labelAlphabet
	}
	var g genName
	switch rapid.IntRange(0, 9).Draw(t, "shape") {
	case 0: // valid by construction
		g = drawValidName(t, alphabet, "name")
	case 1: // empty
	case 2: // anything
		n := rapid.IntRange(1, 12).Draw(t, "len")
		all := append(append(append([]runeClass{}, labelAlphabet...), hostileRunes...), ambiguous...)
		g = drawNameOf(t, all, n, "name")
	case 3: // valid plus ambiguous hyphens
		n := rapid.IntRange(1, 12).Draw(t, "len")
		g = drawNameOf(t, append(append([]runeClass{}, alphabet...), ambiguous...), n, "name")
	case 4: // the other alphabet's extras (connector punctuation in a repo name)
		n := rapid.IntRange(1, 12).Draw(t, "len")
		g = drawNameOf(t, labelAlphabet, n, "name")
	default: // valid name with 1..2 hostile runes spliced in
		g = drawValidName(t, alphabet, "name")
		k := rapid.IntRange(1, 2).Draw(t, "nbad")
		for j := 0; j < k; j++ {
			parts := splitRunes(g.S)
			at := rapid.IntRange(0, len(parts)).Draw(t, "at")
			bc := rapid.SampledFrom(hostileRunes).Draw(t, "bad_class")
			bs := drawRune(t, bc)
			// splice at rune position `at`
			g.S = strings.Join(parts[:at], "") + bs + strings.Join(parts[at:], "")
		}
	}
	// classes always come from the classifier (adjacent invalid bytes may combine, tables overlap)
	g.Classes = classify(g.S)
	c.Name, c.classes = g.S, g.Classes
	return c
}

// splitRunes cuts s into the strings of its generated "runes" (invalid bytes count as one)
func splitRunes(s string) []string {
	out := make([]string, 0, len(s))
	for i := 0; i < len(s); {
		_, size := utf8.DecodeRuneInString(s[i:])
		out = append(out, s[i:i+size])
		i += size
	}
	return out
}

func runValidator(c valCase) (accepted bool, err error) {
	var e error
	perr := safely(func() {
		if c.Label {
			e = model.ValidateLabel(model.LabelDescriptor{
				Name:         c.Name,
				BundleID:     hx.KSUID(1, 1),
				Contributors: []model.Contributor{{Name: "verif", Email: "verif@example.com"}},
			})
		} else {
			e = model.ValidateRepo(model.RepoDescriptor{Name: c.Name, Description: "d"})
		}
	})
	if perr != nil {
		return false, perr
	}
	return e == nil, nil
}

func checkValidate(c valCase) error {
	which := "ValidateRepo"
	if c.Label {
		which = "ValidateLabel"
	}
	want := refVerdict(c.classes, c.Label)
	got, err := runValidator(c)
	if err != nil {
		return fmt.Errorf("%s(name=%q): %v (documented verdict: %s)", which, c.Name, err, want)
	}
	switch {
	case want == mustAccept && !got:
		return fmt.Errorf("%s rejects %q although every rune is in the documented alphabet (classes %v)", which, c.Name, c.classes)
	case want == mustReject && got:
		return fmt.Errorf("%s accepts %q although it has runes outside the documented alphabet (classes %v)", which, c.Name, c.classes)
	}
	return nil
}

func TestPropValidate(t *testing.T) {
	rapid.Check(t, func(t *rapid.T) {
		c := drawValCase(t)
		if c.panicClass() && hx.Known(knownValidatePanic) {
			stats.Count("excluded_"+knownValidatePanic, 1)
			c.asciify()
		}
		hx.Journal(c)
		if err := checkValidate(c); err != nil {
			t.Fatalf("%v", err)
		}
		v := refVerdict(c.classes, c.Label)
		sig := fmt.Sprintf("validate label=%v verdict=%s name=%s", c.Label, v, genName{S: c.Name, Classes: c.classes}.nameClass())
		stats.Case(sig, len(c.Name) > 0, func() interface{} {
			return map[string]interface{}{"name": c.Name, "label": c.Label, "verdict": v.String()}
		})
		stats.Count("validate_"+v.String(), 1)
	})
}
