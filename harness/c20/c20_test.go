// Package c20 checks property C20 of oneconcern/datamon: metadata paths and descriptors round-trip.
//
// Sub-properties (one TestProp* each):
//
//	TestPropArchivePath   builder -> GetArchivePathComponents gives back exactly the values; listing prefixes scope by repo
//	TestPropDisjoint      over a small adversarial pool of names, paths of different objects never coincide
//	TestPropConsumable    GetConsumablePathTo* never panic and invert through GetConsumableStorePathMetadata; reverse index names
//	TestPropGeneratedFile IsGeneratedFile == reference predicate
//	TestPropDescriptors   yaml round trip of every descriptor
//	TestPropValidate      ValidateRepo / ValidateLabel accept exactly the documented alphabets
//	TestPropParseAnything GetArchivePathComponents on mutated / hostile paths: no panic, parse(build(parse(p))) == parse(p)
package c20

import (
	"fmt"
	"os"
	"strconv"
	"strings"
	"testing"

	"github.com/oneconcern/datamon/pkg/model"
	"pgregory.net/rapid"

	"verifharness/evid"
	"verifharness/hx"
)

var stats = evid.New("C20", "rapid: names over the documented alphabets drawn rune by rune from unicode tables (ASCII letters/digits/'-', non-ASCII L*, Nd, Hyphen property, Pd, Pc; shapes: tricky reserved-looking, 1 rune, plain ascii, mixed, long 41..200), hostile rune classes for validators/parsers (marks, Nl/No, spaces, controls, '/', '.', ASCII punctuation, symbols/emoji, other punctuation, invalid UTF-8), KSUIDs from timestamp/payload edges, index from edges {0,1,9,10,999,1000,2^31,2^32-1,2^32,2^63-1,2^63,2^64-1} or small or uniform uint64, generated-file candidates from the prefix x name x suffix grammar plus rune mutations, descriptors populated field by field (YAML-significant strings, nanosecond times, extreme integers). Non-trivial: path cases always (each is a full round trip); generated-file cases containing a reserved name or a near miss; validator cases with a non-empty name; descriptor cases with at least one non-plain string or non-zero time. Distinct by sub-property + (kind, name classes, index class) resp. (grammar cell) resp. (validator, verdict, rune classes) resp. (descriptor type, string classes).")

func TestMain(m *testing.M) {
	code := m.Run()
	stats.Flush()
	os.Exit(code)
}

// IDs of the findings this check knows about (see FINDINGS.json / NOTES.md)
const (
	knownIndexPanic    = "C20-filelist-index-above-int63-panics"
	knownDotConflicts  = "C20-dotdot-conflicts-is-generated"
	knownValidatePanic = "C20-validate-multibyte-name-panics"
)

type fataler interface {
	Fatalf(string, ...interface{})
}

// safely runs a pure datamon function and turns a panic into an error
func safely(fn func()) (err error) {
	defer func() {
		if r := recover(); r != nil {
			err = fmt.Errorf("panic: %v", r)
		}
	}()
	fn()
	return nil
}

// ---------------------------------------------------------------------------------------------
// objects and their paths
// ---------------------------------------------------------------------------------------------

type obj struct {
	Kind    string `json:"kind"` // repo bundle bundlefiles label context diamond split splitfiles
	Repo    string `json:"repo,omitempty"`
	Bundle  string `json:"bundle,omitempty"`
	Label   string `json:"label,omitempty"`
	Context string `json:"context,omitempty"`
	Diamond string `json:"diamond,omitempty"`
	Split   string `json:"split,omitempty"`
	Gen     string `json:"generation,omitempty"`
	Index   uint64 `json:"index,omitempty"`
	Final   bool   `json:"final,omitempty"`
	Variant int    `json:"variant,omitempty"` // which of the equivalent builders is used
}

func (o obj) key() string {
	return fmt.Sprintf("%s|%q|%q|%q|%q|%q|%q|%q|%d|%v", o.Kind, o.Repo, o.Bundle, o.Label, o.Context, o.Diamond, o.Split, o.Gen, o.Index, o.Final)
}

var kinds = []string{"repo", "bundle", "bundlefiles", "label", "context", "diamond", "split", "splitfiles"}

// build calls the real builder
func build(o obj) string {
	switch o.Kind {
	case "repo":
		return model.GetArchivePathToRepoDescriptor(o.Repo)
	case "bundle":
		return model.GetArchivePathToBundle(o.Repo, o.Bundle)
	case "bundlefiles":
		return model.GetArchivePathToBundleFileList(o.Repo, o.Bundle, o.Index)
	case "label":
		return model.GetArchivePathToLabel(o.Repo, o.Label)
	case "context":
		return model.GetPathToContext(o.Context)
	case "diamond":
		switch {
		case o.Variant%2 == 0 && o.Final:
			return model.GetArchivePathToFinalDiamond(o.Repo, o.Diamond)
		case o.Variant%2 == 0:
			return model.GetArchivePathToInitialDiamond(o.Repo, o.Diamond)
		case o.Final && o.Variant%4 == 1:
			return model.GetArchivePathToDiamond(o.Repo, o.Diamond, model.DiamondDone)
		case o.Final:
			return model.GetArchivePathToDiamond(o.Repo, o.Diamond, model.DiamondCanceled)
		default:
			return model.GetArchivePathToDiamond(o.Repo, o.Diamond, model.DiamondInitialized)
		}
	case "split":
		switch {
		case o.Variant%2 == 0 && o.Final:
			return model.GetArchivePathToFinalSplit(o.Repo, o.Diamond, o.Split)
		case o.Variant%2 == 0:
			return model.GetArchivePathToInitialSplit(o.Repo, o.Diamond, o.Split)
		case o.Final:
			return model.GetArchivePathToSplit(o.Repo, o.Diamond, o.Split, model.SplitDone)
		default:
			return model.GetArchivePathToSplit(o.Repo, o.Diamond, o.Split, model.SplitRunning)
		}
	case "splitfiles":
		return model.GetArchivePathToSplitFileList(o.Repo, o.Diamond, o.Split, o.Gen, o.Index)
	}
	panic("unknown kind " + o.Kind)
}

// docName is the file name each kind of object is documented to end with (doc comments of the
// builders: "bundles/{repo}/{bundleID}/bundle.yaml", ".../bundle-files-{index}.yaml", ...)
func docName(o obj) string {
	switch o.Kind {
	case "repo":
		return "repo.yaml"
	case "bundle":
		return "bundle.yaml"
	case "bundlefiles", "splitfiles":
		return "bundle-files-" + strconv.FormatUint(o.Index, 10) + ".yaml"
	case "label":
		return "label.yaml"
	case "context":
		return "context.yaml"
	case "diamond":
		if o.Final {
			return "diamond-done.yaml"
		}
		return "diamond-running.yaml"
	case "split":
		if o.Final {
			return "split-done.yaml"
		}
		return "split-running.yaml"
	}
	panic("unknown kind")
}

// checkRoundTrip: the path built for o parses back to exactly the values of o
func checkRoundTrip(o obj) error {
	var p string
	if err := safely(func() { p = build(o) }); err != nil {
		return fmt.Errorf("builder: %v", err)
	}
	var (
		apc  model.ArchivePathComponents
		perr error
	)
	if err := safely(func() { apc, perr = model.GetArchivePathComponents(p) }); err != nil {
		return fmt.Errorf("GetArchivePathComponents(%q): %v", p, err)
	}
	if perr != nil {
		return fmt.Errorf("GetArchivePathComponents(%q) rejects a path the builder produced: %v", p, perr)
	}
	want := model.ArchivePathComponents{
		Repo: o.Repo, BundleID: o.Bundle, LabelName: o.Label, Context: o.Context,
		DiamondID: o.Diamond, SplitID: o.Split, GenerationID: o.Gen,
	}
	got := apc
	// the file name is compared separately; IsFinalState only means something for diamond and split descriptors
	got.ArchiveFileName = ""
	if o.Kind == "diamond" || o.Kind == "split" {
		want.IsFinalState = o.Final
	} else {
		got.IsFinalState = false
	}
	if got != want {
		return fmt.Errorf("path %q parses to %+v, written values were %+v", p, apc, want)
	}
	// file name: last path element, and the documented name
	last := p[strings.LastIndexByte(p, '/')+1:]
	if apc.ArchiveFileName != last {
		return fmt.Errorf("path %q: ArchiveFileName %q is not the last element %q", p, apc.ArchiveFileName, last)
	}
	if apc.ArchiveFileName != docName(o) {
		return fmt.Errorf("path %q: file name %q, documented %q", p, apc.ArchiveFileName, docName(o))
	}
	if o.Kind == "bundlefiles" || o.Kind == "splitfiles" {
		mid := strings.TrimSuffix(strings.TrimPrefix(apc.ArchiveFileName, "bundle-files-"), ".yaml")
		idx, err := strconv.ParseUint(mid, 10, 64)
		if err != nil || idx != o.Index {
			return fmt.Errorf("path %q: index in %q reads back as %d (%v), written %d", p, apc.ArchiveFileName, idx, err, o.Index)
		}
	}
	return nil
}

// listing prefix of the object's kind for a repository (what the listing code iterates under)
func prefixesFor(o obj, repo string) []string {
	switch o.Kind {
	case "bundle", "bundlefiles":
		return []string{model.GetArchivePathPrefixToBundles(repo)}
	case "label":
		return []string{model.GetArchivePathPrefixToLabels(repo)}
	case "diamond":
		return []string{model.GetArchivePathPrefixToDiamonds(repo)}
	case "split", "splitfiles":
		return []string{model.GetArchivePathPrefixToDiamonds(repo), model.GetArchivePathPrefixToSplits(repo, o.Diamond)}
	}
	return nil
}

// checkPrefixes: an object lies under the listing prefix of its own repository and under no other repository's
func checkPrefixes(o obj, otherRepo string) error {
	p := build(o)
	switch o.Kind {
	case "repo":
		if !strings.HasPrefix(p, model.GetArchivePathPrefixToRepos()) {
			return fmt.Errorf("%q is not under the repos prefix %q", p, model.GetArchivePathPrefixToRepos())
		}
		return nil
	case "context":
		if !strings.HasPrefix(p, model.GetArchivePathPrefixToContexts()) {
			return fmt.Errorf("%q is not under the contexts prefix %q", p, model.GetArchivePathPrefixToContexts())
		}
		return nil
	}
	for _, pre := range prefixesFor(o, o.Repo) {
		if !strings.HasPrefix(p, pre) {
			return fmt.Errorf("%q is not under its own listing prefix %q", p, pre)
		}
	}
	if otherRepo != o.Repo && otherRepo != "" {
		for _, pre := range prefixesFor(o, otherRepo) {
			if strings.HasPrefix(p, pre) {
				return fmt.Errorf("%q (repo %q) lies under the listing prefix %q of repo %q", p, o.Repo, pre, otherRepo)
			}
		}
	}
	if o.Kind == "label" {
		// prefix listing of labels: any leading part of the label name
		rs := []rune(o.Label)
		for _, n := range []int{0, 1, len(rs) / 2, len(rs)} {
			pre := model.GetArchivePathPrefixToLabels(o.Repo, string(rs[:n]))
			if !strings.HasPrefix(p, pre) {
				return fmt.Errorf("label path %q is not under the label prefix %q", p, pre)
			}
		}
	}
	return nil
}

type pathCase struct {
	O         obj     `json:"obj"`
	OtherRepo string  `json:"other_repo"`
	repoN     genName // classes only
	nameN     genName
}

func (c pathCase) sig() string {
	s := "path kind=" + c.O.Kind
	if c.O.Kind != "context" {
		s += " repo=" + c.repoN.nameClass()
	}
	switch c.O.Kind {
	case "label", "context", "split", "splitfiles":
		s += " name=" + c.nameN.nameClass()
	}
	switch c.O.Kind {
	case "bundlefiles", "splitfiles":
		s += " idx=" + indexClass(c.O.Index)
	case "diamond", "split":
		s += fmt.Sprintf(" final=%v v=%d", c.O.Final, c.O.Variant%4)
	}
	return s
}

// labels also exist with dots in the wild (semver tags "v1.2.3": core.RepoSquash has a retainSemverTags
// option, paths_test.go has "test.label"); they are generated as an extra class for the path round trip only
func drawLabelName(t *rapid.T) genName {
	if rapid.IntRange(0, 7).Draw(t, "label_semver") == 0 {
		s := fmt.Sprintf("v%d.%d.%d", rapid.IntRange(0, 30).Draw(t, "maj"), rapid.IntRange(0, 30).Draw(t, "min"), rapid.IntRange(0, 300).Draw(t, "pat"))
		return genName{S: s, Classes: classify(s)}
	}
	return drawValidName(t, labelAlphabet, "label")
}

// split IDs are KSUIDs unless the user supplies one (`datamon diamond split add --split`): label alphabet
func drawSplitID(t *rapid.T) genName {
	if rapid.Bool().Draw(t, "split_user") {
		return drawValidName(t, labelAlphabet, "split")
	}
	s := drawKSUID(t, "split")
	return genName{S: s, Classes: []runeClass{"ksuid"}}
}

func drawPathCase(t *rapid.T) pathCase {
	var c pathCase
	c.O.Kind = rapid.SampledFrom(kinds).Draw(t, "kind")
	c.repoN = drawValidName(t, repoAlphabet, "repo")
	if c.O.Kind != "context" {
		c.O.Repo = c.repoN.S
	}
	switch c.O.Kind {
	case "bundle":
		c.O.Bundle = drawKSUID(t, "bundle")
	case "bundlefiles":
		c.O.Bundle = drawKSUID(t, "bundle")
		c.O.Index = drawIndex(t, "index")
	case "label":
		c.nameN = drawLabelName(t)
		c.O.Label = c.nameN.S
	case "context":
		c.nameN = drawValidName(t, repoAlphabet, "context")
		c.O.Context = c.nameN.S
	case "diamond":
		c.O.Diamond = drawKSUID(t, "diamond")
		c.O.Final = rapid.Bool().Draw(t, "final")
		c.O.Variant = rapid.IntRange(0, 3).Draw(t, "variant")
	case "split":
		c.O.Diamond = drawKSUID(t, "diamond")
		c.nameN = drawSplitID(t)
		c.O.Split = c.nameN.S
		c.O.Final = rapid.Bool().Draw(t, "final")
		c.O.Variant = rapid.IntRange(0, 3).Draw(t, "variant")
	case "splitfiles":
		c.O.Diamond = drawKSUID(t, "diamond")
		c.nameN = drawSplitID(t)
		c.O.Split = c.nameN.S
		c.O.Gen = drawKSUID(t, "gen")
		c.O.Index = drawIndex(t, "index")
	}
	// another repository whose name is close to the first one
	switch rapid.IntRange(0, 4).Draw(t, "other_shape") {
	case 0:
		rs := []rune(c.repoN.S)
		c.OtherRepo = string(rs[:rapid.IntRange(0, len(rs)-1).Draw(t, "other_cut")])
	case 1:
		c.OtherRepo = c.repoN.S + drawNameOf(t, repoAlphabet, 1, "other_ext").S
	case 2:
		c.OtherRepo = c.repoN.S + "-"
	default:
		c.OtherRepo = drawValidName(t, repoAlphabet, "other").S
	}
	return c
}

func checkPathCase(t fataler, c pathCase) {
	hx.Journal(c)
	if err := checkRoundTrip(c.O); err != nil {
		t.Fatalf("%v; case=%+v", err, c.O)
	}
	var err error
	if perr := safely(func() { err = checkPrefixes(c.O, c.OtherRepo) }); perr != nil {
		err = perr
	}
	if err != nil {
		t.Fatalf("%v; case=%+v other=%q", err, c.O, c.OtherRepo)
	}
}

func TestPropArchivePath(t *testing.T) {
	rapid.Check(t, func(t *rapid.T) {
		c := drawPathCase(t)
		checkPathCase(t, c)
		stats.Case(c.sig(), true, func() interface{} { return c })
		stats.Count("path_kind_"+c.O.Kind, 1)
		if c.O.Kind == "bundlefiles" || c.O.Kind == "splitfiles" {
			stats.Count("path_idx_"+indexClass(c.O.Index), 1)
		}
	})
}

// ---------------------------------------------------------------------------------------------
// paths of different objects never coincide
// ---------------------------------------------------------------------------------------------

type poolCase struct {
	Names   []string `json:"names"`
	IDs     []string `json:"ids"`
	Indexes []uint64 `json:"indexes"`
}

// tiny alphabets make "lost separator" collisions likely: ("a","bc") vs ("ab","c")
func drawPool(t *rapid.T) poolCase {
	var c poolCase
	small := rapid.StringMatching(`[ab\-]{1,3}`)
	tricky := rapid.SampledFrom(trickyNames)
	n := rapid.IntRange(2, 3).Draw(t, "nnames")
	seen := map[string]bool{}
	for len(c.Names) < n {
		var s string
		switch rapid.IntRange(0, 3).Draw(t, "name_shape") {
		case 0:
			s = tricky.Draw(t, "tricky")
		case 1: // short names over the whole alphabet (long ones are covered by TestPropArchivePath)
			s = drawNameOf(t, repoAlphabet, rapid.IntRange(1, 6).Draw(t, "pool_len"), "pool").S
		default:
			s = small.Draw(t, "small")
		}
		if seen[s] {
			// derive a fresh one deterministically
			s += "a"
			if seen[s] {
				continue
			}
		}
		seen[s] = true
		c.Names = append(c.Names, s)
	}
	c.IDs = []string{drawKSUID(t, "id0")}
	for len(c.IDs) < 2 {
		id := drawKSUID(t, "id1")
		if id != c.IDs[0] {
			c.IDs = append(c.IDs, id)
		} else {
			c.IDs = append(c.IDs, hx.KSUID(len(c.IDs), 7))
		}
	}
	idxPool := []uint64{0, 1, 10, 11, 100, 101, 1<<63 - 1, 1<<64 - 1}
	seenI := map[uint64]bool{}
	for len(c.Indexes) < 2 {
		var i uint64
		if rapid.Bool().Draw(t, "idx_pool") {
			i = rapid.SampledFrom(idxPool).Draw(t, "idx")
		} else {
			i = drawIndex(t, "idxr")
		}
		if seenI[i] {
			i++
			if seenI[i] {
				continue
			}
		}
		seenI[i] = true
		c.Indexes = append(c.Indexes, i)
	}
	return c
}

// objects enumerates every object of every kind over the pool
func (c poolCase) objects() []obj {
	var out []obj
	for _, ctx := range c.Names {
		out = append(out, obj{Kind: "context", Context: ctx})
	}
	for _, r := range c.Names {
		out = append(out, obj{Kind: "repo", Repo: r})
		for _, l := range c.Names {
			out = append(out, obj{Kind: "label", Repo: r, Label: l})
		}
		for _, id := range c.IDs {
			out = append(out, obj{Kind: "bundle", Repo: r, Bundle: id})
			for _, f := range []bool{false, true} {
				out = append(out, obj{Kind: "diamond", Repo: r, Diamond: id, Final: f, Variant: 1})
			}
			for _, i := range c.Indexes {
				out = append(out, obj{Kind: "bundlefiles", Repo: r, Bundle: id, Index: i})
			}
			splits := append([]string{}, c.Names...)
			splits = append(splits, c.IDs...)
			for _, s := range splits {
				for _, f := range []bool{false, true} {
					out = append(out, obj{Kind: "split", Repo: r, Diamond: id, Split: s, Final: f, Variant: 1})
				}
				for _, g := range c.IDs {
					for _, i := range c.Indexes {
						out = append(out, obj{Kind: "splitfiles", Repo: r, Diamond: id, Split: s, Gen: g, Index: i})
					}
				}
			}
		}
	}
	return out
}

func checkPool(t fataler, c poolCase) int {
	hx.Journal(c)
	objs := c.objects()
	seen := make(map[string]int, len(objs))
	for i, o := range objs {
		var p string
		if err := safely(func() { p = build(o) }); err != nil {
			t.Fatalf("builder: %v; obj=%+v", err, o)
		}
		if prev, dup := seen[p]; dup && objs[prev].key() != o.key() {
			t.Fatalf("two different objects share the path %q: %+v and %+v", p, objs[prev], o)
		}
		seen[p] = i
		if err := checkRoundTrip(o); err != nil {
			t.Fatalf("%v; obj=%+v", err, o)
		}
	}
	// names kept outside the repository layout (vmetadata store: reverse index chunks, purge lock)
	extra := map[string]string{}
	var names []string
	if err := safely(func() {
		names = append(names, model.PurgeLock(), model.ReverseIndex())
		extra[model.PurgeLock()] = "purge lock"
		extra[model.ReverseIndex()] = "reverse index"
		for _, i := range c.Indexes {
			p := model.ReverseIndexFile(i)
			names = append(names, p)
			extra[p] = fmt.Sprintf("reverse index chunk %d", i)
		}
	}); err != nil {
		t.Fatalf("reverse index names: %v", err)
	}
	if len(extra) != 2+len(c.Indexes) {
		t.Fatalf("reverse index / purge lock names coincide: %v", names)
	}
	for p, what := range extra {
		if i, dup := seen[p]; dup {
			t.Fatalf("%s shares the path %q with %+v", what, p, objs[i])
		}
	}
	return len(objs)
}

func TestPropDisjoint(t *testing.T) {
	rapid.Check(t, func(t *rapid.T) {
		c := drawPool(t)
		n := checkPool(t, c)
		short := 0
		for _, s := range c.Names {
			if len(s) <= 3 {
				short++
			}
		}
		stats.Case(fmt.Sprintf("pool names=%d short=%d", len(c.Names), short), true, func() interface{} { return c })
		stats.Count("pool_objects", n)
	})
}
