package c20

import (
	"fmt"
	"math"
	"path"
	"strings"
	"testing"

	"github.com/oneconcern/datamon/pkg/model"
	"pgregory.net/rapid"

	"verifharness/hx"
)

// ---------------------------------------------------------------------------------------------
// consumable store metadata paths (.datamon/...) and reverse index chunk names
// ---------------------------------------------------------------------------------------------

type consCase struct {
	Bundle string `json:"bundle"`
	Index  uint64 `json:"index"`
	Chunk  uint64 `json:"chunk"`
	Split  string `json:"split"`
	File   string `json:"file"`
}

// checkConsumable: GetConsumablePathToBundle / GetConsumablePathToBundleFileList never panic and
// invert through GetConsumableStorePathMetadata
func checkConsumable(c consCase) error {
	var pd, pf string
	if err := safely(func() { pd = model.GetConsumablePathToBundle(c.Bundle) }); err != nil {
		return fmt.Errorf("GetConsumablePathToBundle(%q): %v", c.Bundle, err)
	}
	if err := safely(func() { pf = model.GetConsumablePathToBundleFileList(c.Bundle, c.Index) }); err != nil {
		return fmt.Errorf("GetConsumablePathToBundleFileList(%q, %d): %v", c.Bundle, c.Index, err)
	}
	if pd == pf {
		return fmt.Errorf("descriptor and file list %d of bundle %q share the path %q", c.Index, c.Bundle, pd)
	}
	for _, x := range []struct {
		p    string
		want model.ConsumableStorePathMetadata
	}{
		{pd, model.ConsumableStorePathMetadata{Type: model.ConsumableStorePathTypeDescriptor, BundleID: c.Bundle}},
		{pf, model.ConsumableStorePathMetadata{Type: model.ConsumableStorePathTypeFileList, BundleID: c.Bundle, Index: c.Index}},
	} {
		var (
			got model.ConsumableStorePathMetadata
			e   error
		)
		if err := safely(func() { got, e = model.GetConsumableStorePathMetadata(x.p) }); err != nil {
			return fmt.Errorf("GetConsumableStorePathMetadata(%q): %v", x.p, err)
		}
		if e != nil {
			return fmt.Errorf("GetConsumableStorePathMetadata(%q) rejects a path the builder produced: %v", x.p, e)
		}
		if got != x.want {
			return fmt.Errorf("GetConsumableStorePathMetadata(%q) = %+v, written %+v", x.p, got, x.want)
		}
		// they live in the reserved .datamon location
		if !strings.HasPrefix(x.p, ".datamon/") {
			return fmt.Errorf("consumable metadata path %q is not under .datamon/", x.p)
		}
		var gen bool
		if err := safely(func() { gen = model.IsGeneratedFile(x.p) }); err != nil {
			return fmt.Errorf("IsGeneratedFile(%q): %v", x.p, err)
		}
		if !gen {
			return fmt.Errorf("IsGeneratedFile(%q) = false for a .datamon metadata path", x.p)
		}
	}
	return nil
}

// checkReverseIndex: ReverseIndexChunk(ReverseIndexFile(n)) == n, under the listing prefix
func checkReverseIndex(n uint64) error {
	var (
		p   string
		got uint64
		e   error
	)
	if err := safely(func() { p = model.ReverseIndexFile(n); got, e = model.ReverseIndexChunk(p) }); err != nil {
		return fmt.Errorf("reverse index chunk %d: %v", n, err)
	}
	if e != nil || got != n {
		return fmt.Errorf("ReverseIndexChunk(%q) = %d, %v; written %d", p, got, e, n)
	}
	if !strings.HasPrefix(p, model.ReverseIndexPrefix()) {
		return fmt.Errorf("chunk name %q is not under the listing prefix %q", p, model.ReverseIndexPrefix())
	}
	if p == model.ReverseIndex() || p == model.PurgeLock() {
		return fmt.Errorf("chunk name %q coincides with the index or the lock", p)
	}
	return nil
}

// checkConflictPaths: conflict and checkpoint locations of a split are generated files, and keep split and file apart
func checkConflictPaths(split, file string) error {
	for _, x := range []struct {
		fn   func(string, string) string
		root string
	}{{model.GenerateConflictPath, ".conflicts"}, {model.GenerateCheckpointPath, ".checkpoints"}} {
		var (
			p   string
			gen bool
		)
		if err := safely(func() { p = x.fn(split, file); gen = model.IsGeneratedFile(p) }); err != nil {
			return fmt.Errorf("%s path for (%q,%q): %v", x.root, split, file, err)
		}
		want := x.root + "/" + split + "/" + path.Clean("/" + file)[1:]
		if p != want {
			return fmt.Errorf("%s path for (%q,%q) = %q, documented %q", x.root, split, file, p, want)
		}
		if !gen {
			return fmt.Errorf("IsGeneratedFile(%q) = false for a %s path", p, x.root)
		}
	}
	return nil
}

func drawRelPath(t *rapid.T) string {
	n := rapid.IntRange(1, 4).Draw(t, "depth")
	parts := make([]string, n)
	for i := range parts {
		parts[i] = drawValidName(t, labelAlphabet, "seg").S
		if rapid.IntRange(0, 3).Draw(t, "ext") == 0 {
			parts[i] += ".txt"
		}
	}
	p := strings.Join(parts, "/")
	if rapid.IntRange(0, 3).Draw(t, "lead") == 0 {
		p = "/" + p
	}
	return p
}

func TestPropConsumable(t *testing.T) {
	rapid.Check(t, func(t *rapid.T) {
		c := consCase{
			Bundle: drawKSUID(t, "bundle"),
			Index:  drawIndex(t, "index"),
			Chunk:  drawIndex(t, "chunk"),
			Split:  drawSplitID(t).S,
			File:   drawRelPath(t),
		}
		if c.Index > math.MaxInt64 && hx.Known(knownIndexPanic) {
			stats.Count("excluded_"+knownIndexPanic, 1)
			c.Index >>= 1
		}
		hx.Journal(c)
		if err := checkConsumable(c); err != nil {
			t.Fatalf("%v; case=%+v", err, c)
		}
		if err := checkReverseIndex(c.Chunk); err != nil {
			t.Fatalf("%v; case=%+v", err, c)
		}
		if err := checkConflictPaths(c.Split, c.File); err != nil {
			t.Fatalf("%v; case=%+v", err, c)
		}
		stats.Case("cons idx="+indexClass(c.Index)+" chunk="+indexClass(c.Chunk), true, func() interface{} { return c })
		stats.Count("cons_idx_"+indexClass(c.Index), 1)
	})
}

// ---------------------------------------------------------------------------------------------
// IsGeneratedFile
// ---------------------------------------------------------------------------------------------

var reserved = []string{".datamon", ".conflicts", ".checkpoints"}

// refGenerated is the reference predicate: a path on the consumable store is generated iff, after
// stripping ONE leading "./" or "/", its first element is one of the reserved names.
func refGenerated(p string) bool {
	switch {
	case strings.HasPrefix(p, "./"):
		p = p[2:]
	case strings.HasPrefix(p, "/"):
		p = p[1:]
	}
	first := p
	if i := strings.IndexByte(p, '/'); i >= 0 {
		first = p[:i]
	}
	for _, r := range reserved {
		if first == r {
			return true
		}
	}
	return false
}

var (
	gfPrefixes = []string{"", ".", "/", "./", "..", "a/", "//", "../", ".//", "/./"}
	gfNames    = []string{".datamon", ".conflicts", ".checkpoints", ".datamonx", "x.datamon", ".Conflicts", "datamon", ".conflict", ".checkpoint", ".checkpointss", ".DATAMON"}
	gfSuffixes = []string{"", "/", "/x", "x", "/x/y", ".yaml", "/.datamon", " ", "\n", "/\n", "//x", ".bak", "-old/x", "~", " 2020/x", ".json"}
)

// isKnownDotDot: the input class of finding knownDotConflicts: "." glued in front of .conflicts / .checkpoints
func isKnownDotDot(p string) bool {
	for _, r := range []string{"..conflicts", "..checkpoints"} {
		if p == r || strings.HasPrefix(p, r+"/") {
			return true
		}
	}
	return false
}

func checkGenerated(p string) error {
	var got bool
	if err := safely(func() { got = model.IsGeneratedFile(p) }); err != nil {
		return fmt.Errorf("IsGeneratedFile(%q): %v", p, err)
	}
	if want := refGenerated(p); got != want {
		return fmt.Errorf("IsGeneratedFile(%q) = %v, reference %v (reserved locations are exactly .datamon, .conflicts, .checkpoints at the root, optionally after one leading \"/\" or \"./\")", p, got, want)
	}
	return nil
}

// nearMiss: the path mentions (case-insensitively) one of the reserved words
func nearMiss(p string) bool {
	l := strings.ToLower(p)
	return strings.Contains(l, "datamon") || strings.Contains(l, "conflict") || strings.Contains(l, "checkpoint")
}

func TestPropGeneratedFile(t *testing.T) {
	rapid.Check(t, func(t *rapid.T) {
		pi := rapid.IntRange(0, len(gfPrefixes)-1).Draw(t, "prefix")
		ni := rapid.IntRange(0, len(gfNames)-1).Draw(t, "name")
		si := rapid.IntRange(0, len(gfSuffixes)-1).Draw(t, "suffix")
		p := gfPrefixes[pi] + gfNames[ni] + gfSuffixes[si]
		mut := rapid.IntRange(0, 5).Draw(t, "mutation")
		switch mut {
		case 0: // ordinary user file, nothing reserved
			p = drawRelPath(t)
		case 1: // reserved name deeper in the tree
			p = drawRelPath(t) + "/" + gfNames[ni] + gfSuffixes[si]
			p = strings.TrimPrefix(p, "/")
		case 2: // insert one rune somewhere
			rs := []rune(p)
			at := rapid.IntRange(0, len(rs)).Draw(t, "at")
			c := rapid.SampledFrom([]runeClass{rcDot, rcSlash, rcLower, rcSpace, rcULetter, rcControl, rcPunct}).Draw(t, "ins_class")
			p = string(rs[:at]) + drawRune(t, c) + string(rs[at:])
		case 3: // delete one rune
			rs := []rune(p)
			if len(rs) > 0 {
				at := rapid.IntRange(0, len(rs)-1).Draw(t, "at")
				p = string(rs[:at]) + string(rs[at+1:])
			}
		}
		if isKnownDotDot(p) && hx.Known(knownDotConflicts) {
			stats.Count("excluded_"+knownDotConflicts, 1)
			p = p[1:]
		}
		if err := checkGenerated(p); err != nil {
			t.Fatalf("%v", err)
		}
		sig := fmt.Sprintf("genfile mut=%d", mut)
		if mut >= 4 {
			sig = fmt.Sprintf("genfile cell=%d/%d/%d", pi, ni, si)
		} else if mut >= 1 {
			sig = fmt.Sprintf("genfile mut=%d name=%d ref=%v", mut, ni, refGenerated(p))
		}
		stats.Case(sig, nearMiss(p), func() interface{} { return p })
		if refGenerated(p) {
			stats.Count("genfile_true", 1)
		} else {
			stats.Count("genfile_false", 1)
		}
	})
}

// TestRegressGeneratedFileGrammar enumerates the whole prefix x name x suffix grammar
func TestRegressGeneratedFileGrammar(t *testing.T) {
	n := 0
	for _, pre := range gfPrefixes {
		for _, name := range gfNames {
			for _, suf := range gfSuffixes {
				p := pre + name + suf
				if isKnownDotDot(p) && hx.Listed(knownDotConflicts) {
					continue // pinned separately in TestKnownDotDotConflicts
				}
				if err := checkGenerated(p); err != nil {
					t.Errorf("%v", err)
				}
				n++
			}
		}
	}
	stats.Count("genfile_grammar_cells", n)
}
