package c08

import (
	"fmt"
	"runtime"
	"strings"
	"testing"
	"time"
	"unicode/utf8"

	"pgregory.net/rapid"

	"verifharness/hx"
)

// nameCase is the fixed scenario exercising one candidate label name: a neighbour label exists in the
// same repo and the same name is (tried to be) set in a prefix-sharing repo; the name is set, listed with a
// prefix of itself, overwritten, deleted and set again.  "Any label name the API accepts can afterwards be
// listed and resolved": runCase resolves every name and lists every repo after each of these steps, and a
// refused set must leave everything as it was.
func nameCase(name string, k int, crc bool) caseT {
	rs := []rune(name)
	if k > len(rs) {
		k = len(rs)
	}
	if k < 0 {
		k = 0
	}
	prefix := string(rs[:k])
	if i := strings.Index(prefix, "/"); i >= 0 {
		prefix = prefix[:i]
	}
	if !utf8.ValidString(prefix) {
		prefix = ""
	}
	cl := nameClass(name, "hostile")
	q := fmt.Sprintf("%+q", name)
	return caseT{CRC: crc, NB: []int{2, 2, 2}, Ops: []opT{
		{Kind: "set", Repo: 0, Name: "keep", Class: "ascii", Bundle: 0},
		{Kind: "set", Repo: 1, Name: name, NameQ: q, Class: cl, Bundle: 0},
		{Kind: "set", Repo: 0, Name: name, NameQ: q, Class: cl, Bundle: 1},
		{Kind: "get", Repo: 0, Name: name, NameQ: q, Class: cl, CheckRepo: true},
		{Kind: "list", Repo: 0, Prefix: prefix, Batch: 1},
		{Kind: "list", Repo: 0, Prefix: prefix, Apply: true},
		{Kind: "set", Repo: 0, Name: name, NameQ: q, Class: cl, Bundle: 0},
		{Kind: "del", Repo: 0, Name: name, NameQ: q, Class: cl},
		{Kind: "list", Repo: 0, Batch: 1, Conc: 1},
		{Kind: "set", Repo: 0, Name: name, NameQ: q, Class: cl, Bundle: 1},
		{Kind: "del", Repo: 1, Name: name, NameQ: q, Class: cl},
	}}
}

// TestPropName concentrates on the space of names (the history property spends most of its budget on
// the documented alphabet)
func TestPropName(t *testing.T) {
	rapid.Check(t, func(t *rapid.T) {
		var name string
		switch rapid.IntRange(0, 3).Draw(t, "src") {
		case 0:
			name = rapid.SampledFrom(hostile).Draw(t, "name")
		case 1:
			name = rapid.StringOfN(rapid.SampledFrom(hostileRunes), 0, 6, -1).Draw(t, "name")
		case 2:
			name = rapid.String().Draw(t, "name")
			if len(name) > 64 {
				name = name[:64]
			}
		default:
			name, _ = drawName(t, "name")
		}
		name = excludeKnown(name)
		c := nameCase(name, rapid.IntRange(0, 4).Draw(t, "k"), rapid.Bool().Draw(t, "crc"))
		r := check(t, c, 60*time.Second)
		// every executed name case has an overwrite, a delete and two repos when the name is accepted: it is
		// non-trivial when the name is outside the documented alphabet; distinct by name class, verdict,
		// name length class, prefix length and store flavour
		cls := nameClass(name, "hostile")
		sig := fmt.Sprintf("name cls=%s accepted=%v len=%s k=%d crc=%v", cls, r.nSet > 1, bucket(len(name)), len([]rune(c.Ops[4].Prefix)), c.CRC)
		stats.Case(sig, !documented(name), func() interface{} { return c })
		stats.Count("name_cases", 1)
		if r.nSet > 1 {
			stats.Count("name_accepted_"+nameClass(name, "hostile"), 1)
		} else {
			stats.Count("name_rejected_"+nameClass(name, "hostile"), 1)
		}
	})
}

// FuzzLabelName: native fuzzing over the label name with the same semantic oracle (thorough tier)
func FuzzLabelName(f *testing.F) {
	for _, n := range hostile {
		f.Add(n, uint8(1), false)
	}
	for _, n := range uniPool {
		f.Add(n, uint8(2), true)
	}
	for _, n := range yamlPool {
		f.Add(n, uint8(0), false)
	}
	// build the stage (real uploads) outside the per-input time limit of the fuzz worker
	for _, crc := range []bool{false, true} {
		if _, _, err := getBase(crc, []int{2, 2, 2}); err != nil {
			f.Fatalf("%v", err)
		}
	}
	f.Fuzz(func(t *testing.T, name string, k uint8, crc bool) {
		if len(name) > 256 || (strings.Contains(name, "/") && hx.Known(knownSlash)) {
			t.Skip()
		}
		c := nameCase(name, int(k%8), crc)
		hx.Journal(c)
		// the fuzz worker itself gives up on an input after 10 s ("deadlocked!", output discarded): stay below
		err, hung, panicked := hx.Guard(8*time.Second, func() error {
			_, e := runCase(c)
			return e
		})
		if hung {
			// 8 s for ~30 ms of work: either a deadlock inside datamon (every goroutine of the case blocked) or a
			// starved process (the goroutines are runnable; seen with a load average above 100).  Only the
			// former is reported here; busy loops are left to the rapid properties and their 60 s watchdog.
			st, blocked := stacks()
			if !blocked {
				t.Skipf("inconclusive: slow, not blocked\n%s", st)
			}
			t.Fatalf("%v: all goroutines of the case are blocked\n%s", err, st)
		}
		if panicked || err != nil {
			t.Fatalf("%v (hung=%v panicked=%v)", err, hung, panicked)
		}
	})
}

// stacks returns the stacks of the goroutines inside datamon or this package (where a hung case sits) and
// whether all of them are blocked (none running, runnable, sleeping or in a system call)
func stacks() (string, bool) {
	buf := make([]byte, 4<<20)
	buf = buf[:runtime.Stack(buf, true)]
	var keep []string
	blocked := true
	for _, g := range strings.Split(string(buf), "\n\n") {
		if strings.Contains(g, "c08.stacks") {
			continue
		}
		if strings.Contains(g, "oneconcern/datamon") || strings.Contains(g, "verifharness/c08.runCase") {
			keep = append(keep, g)
			head := g
			if i := strings.Index(g, "\n"); i >= 0 {
				head = g[:i]
			}
			for _, live := range []string{"[running", "[runnable", "[sleep", "[syscall", "[IO wait", "[GC "} {
				if strings.Contains(head, live) {
					blocked = false
				}
			}
		}
	}
	out := strings.Join(keep, "\n\n")
	if len(out) > 16000 {
		out = out[:16000] + "\n..."
	}
	return out, blocked && len(keep) > 0
}

// ---------------------------------------------------------------------------------------------
// pinned cases

func op(kind string, repo int, name string, bundle int) opT {
	return opT{Kind: kind, Repo: repo, Name: name, NameQ: fmt.Sprintf("%+q", name), Class: nameClass(name, "hostile"), Bundle: bundle}
}

// TestRegressSlashName: DESIGN.md section 5 row 10.  Before the fix Label.UploadDescriptor accepted "a/b" and
// every later ListLabels of the repo failed ("path is invalid, last element in the path should be label.yaml").
func TestRegressSlashName(t *testing.T) {
	for _, n := range []string{"a/b", "x/label.yaml", "a/", "/a", "/", "../x", "x/../y", "//", "a/b/c/d/e/f/g/h"} {
		c := caseT{NB: []int{2, 2, 2}, Ops: []opT{
			op("set", 0, "keep", 0),
			op("set", 0, n, 1),
			{Kind: "list", Repo: 0},
			op("get", 0, n, 0),
			op("set", 0, "x", 1),
			op("del", 0, n, 0),
			{Kind: "list", Repo: 0, Apply: true},
		}}
		r, err := try(c, 60*time.Second)
		if err != nil {
			if hx.Listed(knownSlash) {
				stats.KnownFinding(knownSlash, "Label.UploadDescriptor accepts a name with '/' and ListLabels then fails for the whole repository")
				return
			}
			stats.Violation(err.Error())
			t.Fatalf("label name %+q: %v", n, err)
		}
		record(c, r)
	}
}

// TestRegressNames: every pinned name through the single-name scenario
func TestRegressNames(t *testing.T) {
	var all []string
	all = append(all, hostile...)
	all = append(all, uniPool...)
	all = append(all, yamlPool...)
	all = append(all, keyPool...)
	all = append(all, asciiPool...)
	for i, n := range all {
		if strings.Contains(n, "/") && hx.Known(knownSlash) {
			continue // TestRegressSlashName reports it
		}
		c := nameCase(n, i%4, i%2 == 0)
		r := check(t, c, 60*time.Second)
		record(c, r)
	}
}

// TestRegressSemverLabel: labels that are semantic versions are a documented use (`datamon repo squash
// --retain-semver-tags`, cmd tests set `--label v1.2.3`) although '.' and '+' are outside the alphabet of
// model.ValidateLabel; a name check added to the upload path must keep accepting them.
func TestRegressSemverLabel(t *testing.T) {
	for _, n := range []string{"v1.2.3", "1.0.0", "1.0.0-rc.1+build.5", "v0.0.1-alpha"} {
		c := nameCase(n, 2, false)
		r := check(t, c, 60*time.Second)
		if r.nSet != 5 {
			t.Fatalf("semver label %q was not accepted by every set (%d of 5 accepted)", n, r.nSet)
		}
		record(c, r)
	}
}

// TestRegressHistory: a fixed history with every ingredient of the non-triviality rule
func TestRegressHistory(t *testing.T) {
	c := caseT{CRC: true, NB: []int{3, 2, 4}, Ops: []opT{
		op("set", 0, "x-a", 0),
		op("set", 1, "-a", 0),
		op("set", 2, "a", 3),
		op("set", 0, "x", 1),
		op("set", 0, "xa", 2),
		op("set", 1, "x", 1),
		{Kind: "list", Repo: 0, Prefix: "x", Batch: 1},
		{Kind: "list", Repo: 0, Prefix: "x-", Batch: 2, Apply: true},
		op("set", 0, "x", 2), // overwrite
		op("del", 0, "x-a", 0),
		op("del", 0, "x-a", 0), // again: missing
		op("get", 0, "x-a", 0),
		op("set", 0, "x-a", 1), // re-create
		op("del", 1, "x", 0),
		{Kind: "list", Repo: 1, Batch: 1, Conc: 7},
		op("set", 3, "x", 0), // repo that does not exist
		{Kind: "list", Repo: 3},
		{Kind: "get", Repo: 3, Name: "x", CheckRepo: true},
		{Kind: "get", Repo: 3, Name: "x", CheckRepo: false},
		op("set", 2, "label", 0),
		op("set", 2, "日本", 1),
		op("set", 2, "null", 2),
		{Kind: "list", Repo: 2, Batch: 3, Apply: true},
	}}
	r := check(t, c, 60*time.Second)
	sig, nt := r.signature()
	if !nt || !r.cross || !r.multiPage || !r.effPrefix || r.nRecreate == 0 || r.nDelMissing == 0 {
		t.Fatalf("harness: the pinned history lost an ingredient: %s", sig)
	}
	record(c, r)
}
