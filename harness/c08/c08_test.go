// Package c08 checks property C08: labels resolve to the bundle most recently assigned to them.
//
// A generated history of set / overwrite / delete / get / list operations over three repositories whose
// names share a prefix is executed against the real pkg/core on memstore-backed context stores and against
// a map model (repo, name) -> bundle ID.  After every mutating step every label of every repository is
// resolved and every repository is listed; the stores are compared generation by generation to make sure
// a set touches nothing but one label object.
package c08

import (
	"context"
	"errors"
	"fmt"
	"os"
	"sort"
	"strings"
	"sync"
	"testing"
	"time"
	"unicode"
	"unicode/utf8"

	context2 "github.com/oneconcern/datamon/pkg/context"
	"github.com/oneconcern/datamon/pkg/core"
	"github.com/oneconcern/datamon/pkg/core/status"
	"github.com/oneconcern/datamon/pkg/model"
	"pgregory.net/rapid"

	"verifharness/evid"
	"verifharness/hx"
	"verifharness/memstore"
)

var stats = evid.New("C08", "rapid: 3 repos {r, rx, r-x} with 2..4 bundles each (real uploads, chosen KSUIDs), CRC or plain stores, a universe of 3..8 label names (documented alphabet: small ascii pool built to collide when path components are glued, unicode letters/digits/hyphens/connectors, YAML-looking words, path words; hostile: slashes, dots, spaces, control characters, YAML indicators, invalid UTF-8, semver), optionally a crowd of 5..12 labels in one repo, then <= 25 ops: set/overwrite, DeleteLabel (live or missing), DownloadDescriptor (with/without repo check), ListLabels / ListLabelsApply with prefix, batch size 1..3 (pagination) and list concurrency.  Oracle: map model; after every mutating op every (repo, name) is resolved and every repo listed; store generations prove a set changes exactly one label object and no bundle.  Non-trivial: history with an overwrite and a delete of a live label and live labels in >= 2 prefix-sharing repos; distinct by (set-count class, overwrite, delete, re-create, same name in 2 repos, >= 5 labels in a repo, multi-page list, effective prefix list, name classes, hostile accepted/rejected).")

func TestMain(m *testing.M) {
	code := m.Run()
	stats.Flush()
	os.Exit(code)
}

var repoNames = []string{"r", "rx", "r-x"}

var nbVectors = [][]int{{2, 2, 2}, {3, 2, 4}, {4, 4, 4}, {2, 4, 3}}

// ghostRepo is never created
const ghostRepo = "rxx"

// ---------------------------------------------------------------------------------------------
// the documented alphabet (pkg/model/label.go ValidateLabel: digits, letters, hyphens, connector
// punctuation; not empty), restated independently of the implementation

func documented(name string) bool {
	if name == "" || !utf8.ValidString(name) {
		return false
	}
	for _, c := range name {
		if !unicode.IsDigit(c) && !unicode.IsLetter(c) && !unicode.Is(unicode.Hyphen, c) && !unicode.Is(unicode.Pc, c) {
			return false
		}
	}
	return true
}

// ---------------------------------------------------------------------------------------------
// case description (journalled as JSON)

type opT struct {
	Kind      string `json:"kind"` // set | del | get | list
	Repo      int    `json:"repo"` // index in repoNames, len(repoNames) = the repo that does not exist
	Name      string `json:"name,omitempty"`
	NameQ     string `json:"name_quoted,omitempty"` // Go-quoted (the JSON form loses invalid UTF-8)
	Class     string `json:"class,omitempty"`
	Bundle    int    `json:"bundle,omitempty"`
	Prefix    string `json:"prefix,omitempty"`
	Batch     int    `json:"batch,omitempty"`
	Conc      int    `json:"conc,omitempty"`
	Apply     bool   `json:"apply,omitempty"`
	CheckRepo bool   `json:"check_repo,omitempty"`
	// FaultNth (get, list): the Nth existence probe (Has) on the label store fails once during the operation. The
	// operation may then fail - but a live label must not be reported as not found, and a listing that reports
	// success must be complete
	FaultNth int `json:"fault_nth,omitempty"`
}

type caseT struct {
	CRC bool  `json:"crc"`
	NB  []int `json:"bundles_per_repo"`
	Ops []opT `json:"ops"`
	// Reuse: one core.Label object per label name serves every set and get of the case, whatever the
	// repository or bundle (a library caller may keep it; the CLI builds a fresh one per command)
	Reuse bool `json:"reuse_label_objects,omitempty"`
}

func repoName(i int) string {
	if i >= len(repoNames) {
		return ghostRepo
	}
	return repoNames[i]
}

// ---------------------------------------------------------------------------------------------
// name generators

var (
	// glued without separator these collide across r / rx / r-x  ("r"+"x-a" == "rx"+"-a" == "r-x"... )
	asciiPool = []string{"x", "-x", "a", "x-a", "-a", "xa", "a-x", "b", "ab", "a1", "1", "_", "a_b", "latest", "v1", "v2", "prod", "x_", "-"}
	// letters, digits (Nd), hyphens (U+2010, soft hyphen U+00AD, U+FF0D) and connector punctuation (U+203F, U+FF3F) beyond ASCII
	uniPool = []string{"\u00e9", "\u65e5\u672c", "\u00f1and\u00fa", "\u03a9", "\u0663", "a\u2010b", "a\u203fb", "\uff58", "\u00df", "\u0130i", "x\u00adx", "\uff3f",
		"\u043d\u0435\u0442", "e\u00e9", "\U0001d518", "\uff0d", "\u0967\u0968"}
	yamlPool = []string{"true", "null", "123", "1e3", "0x1f", "y", "n", "on", "1_000", "-1", "--", "NaN", "2001-01-01", "0o7", "010", "Yes", "NULL", "_1", "---"}
	keyPool  = []string{"label", "labelyaml", "labels", "repos", "bundles", "repo", "r", "rx"}
	hostile  = []string{"a/b", "../x", "a b", ".", "..", "label.yaml", "", "a/", "/a", "/", "x/label.yaml", "a\u2215b", "a\uff0fb",
		"v1.2.3", "1.0.0-rc.1+build", "a#b", "a\nb", "a\tb", " a", "a ", "\xff", "a\xffb", "\xc3", "a:b", "- a", "a: b", "#a", "'a'", "\"a\"", "!!binary", "&a", "*a",
		"[a]", "{a}", "a\x00b", " ", "\ufeff", "\ufeffa", "~", "%41", "a\\b", "?", "*", "a\r", "\u0085", "a\u2028b", "a,b", "|", ">", "@a", "`a", "a #b", "\x7f", "\u200b",
		"x/../y", "//", "e\u0301", "a\u00a0b", "\U0010ffff", "\ufffd"}
	hostileRunes = []rune{'/', '.', ' ', '#', ':', '\n', '\t', '-', 'a', 'b', 'x', '\'', '"', '\\', '\u2215', '\u00e9', '~', '!', '&', '*', '%', '\r', '\u00a0', '\x00', '\x7f', '|', '>', ',', '\u0301', '\ufeff'}
)

// knownSlash is the id under which the '/' defect would be listed if the proposed fix were not applied
// (NOTES.md): names with a '/' are then kept out of the random search and counted
const knownSlash = "C08-slash-in-label-name"

func excludeKnown(name string) string {
	if strings.Contains(name, "/") && hx.Known(knownSlash) {
		stats.Count("excluded_"+knownSlash, 1)
		return strings.ReplaceAll(name, "/", "-")
	}
	return name
}

func drawName(t *rapid.T, label string) (string, string) {
	n, c := drawRawName(t, label)
	return excludeKnown(n), c
}

func drawRawName(t *rapid.T, label string) (string, string) {
	switch w := rapid.IntRange(0, 11).Draw(t, label+"_class"); {
	case w <= 2:
		return rapid.SampledFrom(asciiPool).Draw(t, label), "ascii"
	case w == 3:
		return rapid.StringOfN(rapid.SampledFrom([]rune("abx1-_")), 1, 4, -1).Draw(t, label), "ascii"
	case w <= 5:
		return rapid.SampledFrom(uniPool).Draw(t, label), "unicode"
	case w == 6:
		return rapid.SampledFrom(yamlPool).Draw(t, label), "yamlish"
	case w == 7:
		return rapid.SampledFrom(keyPool).Draw(t, label), "keyish"
	case w <= 9:
		return rapid.SampledFrom(hostile).Draw(t, label), "hostile"
	case w == 10:
		return rapid.StringOfN(rapid.SampledFrom(hostileRunes), 1, 5, -1).Draw(t, label), "hostile"
	default:
		// any string: mostly not in the alphabet
		return rapid.StringN(1, 6, -1).Draw(t, label), "any"
	}
}

func nameClass(name, drawn string) string {
	if documented(name) {
		if drawn == "hostile" || drawn == "any" {
			for _, c := range name {
				if c >= 0x80 {
					return "unicode"
				}
			}
			return "ascii"
		}
		return drawn
	}
	switch {
	case name == "":
		return "h-empty"
	case strings.Contains(name, "/"):
		return "h-slash"
	case !utf8.ValidString(name):
		return "h-badutf8"
	case strings.IndexFunc(name, func(c rune) bool {
		return unicode.IsControl(c) || unicode.Is(unicode.Cf, c) || unicode.Is(unicode.Zl, c)
	}) >= 0:
		return "h-control"
	case strings.ContainsAny(name, "."):
		return "h-dot"
	case strings.ContainsAny(name, " "):
		return "h-space"
	default:
		return "h-other"
	}
}

func drawPrefix(t *rapid.T, universe []string) string {
	switch rapid.IntRange(0, 5).Draw(t, "pfx_kind") {
	case 0:
		return ""
	case 1:
		return rapid.SampledFrom([]string{"a", "x", "-", "v", "l", "la", "1", "\u00e9", "z", "label"}).Draw(t, "pfx")
	default:
		n := rapid.SampledFrom(universe).Draw(t, "pfx_of")
		rs := []rune(n)
		k := rapid.IntRange(0, len(rs)+1).Draw(t, "pfx_len")
		var p string
		if k > len(rs) {
			p = n + "x"
		} else {
			p = string(rs[:k])
		}
		// "List labels starting with a prefix": a prefix is the beginning of a label name, and no accepted
		// name holds a '/'; a prefix with '/' has no documented meaning and is not generated
		if i := strings.Index(p, "/"); i >= 0 {
			p = p[:i]
		}
		if !utf8.ValidString(p) {
			return ""
		}
		return p
	}
}

func drawCase(t *rapid.T) caseT {
	c := caseT{CRC: rapid.Bool().Draw(t, "crc"), Reuse: rapid.IntRange(0, 2).Draw(t, "reuse_labels") == 0}
	// a handful of bundle-count vectors: each (crc, vector) needs its own base environment of real uploads
	c.NB = append([]int{}, rapid.SampledFrom(nbVectors).Draw(t, "nb")...)
	nu := rapid.IntRange(3, 8).Draw(t, "universe")
	var uni, cls []string
	for i := 0; i < nu; i++ {
		n, k := drawName(t, "uname")
		uni, cls = append(uni, n), append(cls, k)
	}
	nops := rapid.IntRange(1, 25).Draw(t, "nops")
	// labels presumably live (every set is presumed accepted): steers deletes and gets towards live labels
	type pk struct {
		repo int
		name string
	}
	var presumed []pk
	// one case in five starts with a crowd: 5..12 labels in one repo (several pages, more keys per batch than
	// list workers)
	if rapid.IntRange(0, 4).Draw(t, "crowd") == 2 {
		repo := rapid.IntRange(0, len(repoNames)-1).Draw(t, "crowd_repo")
		k := rapid.IntRange(5, 12).Draw(t, "crowd_n")
		pool := append(append([]string{}, asciiPool...), uniPool...)
		off := rapid.IntRange(0, len(pool)-1).Draw(t, "crowd_off")
		for j := 0; j < k; j++ {
			n := pool[(off+j)%len(pool)]
			o := opT{Kind: "set", Repo: repo, Name: n, NameQ: fmt.Sprintf("%+q", n), Class: nameClass(n, "hostile"),
				Bundle: rapid.IntRange(0, c.NB[repo]-1).Draw(t, "bundle")}
			c.Ops = append(c.Ops, o)
			presumed = append(presumed, pk{repo, n})
		}
	}
	for i := 0; i < nops; i++ {
		o := opT{}
		o.Repo = rapid.IntRange(0, len(repoNames)-1).Draw(t, "repo")
		if rapid.IntRange(0, 39).Draw(t, "ghost") == 21 {
			o.Repo = len(repoNames)
		}
		pick := func() {
			if rapid.IntRange(0, 9).Draw(t, "fresh") == 5 {
				o.Name, o.Class = drawName(t, "fname")
			} else {
				j := rapid.IntRange(0, len(uni)-1).Draw(t, "uidx")
				o.Name, o.Class = uni[j], cls[j]
			}
			o.Class = nameClass(o.Name, o.Class)
			o.NameQ = fmt.Sprintf("%+q", o.Name)
		}
		pickLive := func() {
			if len(presumed) > 0 && rapid.IntRange(0, 4).Draw(t, "live") != 3 {
				j := rapid.IntRange(0, len(presumed)-1).Draw(t, "lidx")
				o.Repo, o.Name = presumed[j].repo, presumed[j].name
				o.Class = nameClass(o.Name, "hostile")
				o.NameQ = fmt.Sprintf("%+q", o.Name)
				if o.Kind == "del" {
					presumed = append(presumed[:j], presumed[j+1:]...)
				}
				return
			}
			pick()
		}
		switch w := rapid.IntRange(0, 19).Draw(t, "kind"); {
		case w < 9:
			o.Kind = "set"
			if len(presumed) > 0 && rapid.IntRange(0, 3).Draw(t, "overwrite") == 0 {
				pickLive()
			} else {
				pick()
			}
			nb := 4
			if o.Repo < len(c.NB) {
				nb = c.NB[o.Repo]
			}
			o.Bundle = rapid.IntRange(0, nb-1).Draw(t, "bundle")
			dup := false
			for _, p := range presumed {
				dup = dup || p == pk{o.Repo, o.Name}
			}
			if !dup && o.Repo < len(repoNames) {
				presumed = append(presumed, pk{o.Repo, o.Name})
			}
		case w < 13:
			o.Kind = "del"
			pickLive()
		case w < 16:
			o.Kind = "get"
			pickLive()
			o.CheckRepo = rapid.Bool().Draw(t, "check_repo")
			if rapid.IntRange(0, 4).Draw(t, "get_fault") == 0 {
				o.FaultNth = 1
			}
		default:
			o.Kind = "list"
			// mostly list a repo that presumably has labels, with a prefix taken from one of them
			cand := uni
			if len(presumed) > 0 && rapid.IntRange(0, 4).Draw(t, "live") != 3 {
				j := rapid.IntRange(0, len(presumed)-1).Draw(t, "lidx")
				o.Repo = presumed[j].repo
				cand = nil
				for _, p := range presumed {
					if p.repo == o.Repo {
						cand = append(cand, p.name)
					}
				}
			}
			o.Prefix = drawPrefix(t, cand)
			o.Batch = rapid.SampledFrom([]int{0, 1, 1, 2, 3}).Draw(t, "batch")
			o.Conc = rapid.SampledFrom([]int{0, 1, 2, 7}).Draw(t, "conc")
			o.Apply = rapid.Bool().Draw(t, "apply")
			if rapid.IntRange(0, 4).Draw(t, "list_fault") == 0 {
				o.FaultNth = rapid.IntRange(1, 4).Draw(t, "list_fault_nth")
			}
		}
		c.Ops = append(c.Ops, o)
	}
	return c
}

// ---------------------------------------------------------------------------------------------
// base environments: repos and bundles are the stage, not the subject; they are built once per
// (crc, bundle-count vector) with real uploads and deep-copied for each case

type baseT struct {
	env     *hx.Env
	bundles [][]string // per repo, ascending IDs
}

var (
	baseMu sync.Mutex
	bases  = map[string]*baseT{}
)

func bundleID(repo, i int) string {
	// interleave the IDs of the repos in time; the same ID is used in two repos for bundle 0 of r and rx:
	// a bundle ID is only unique within its repository
	if i == 0 && repo <= 1 {
		return hx.KSUID(100, 7)
	}
	return hx.KSUID(100+10*i+repo, uint64(1000*repo+i))
}

func buildBase(crc bool, nb []int) (*baseT, error) {
	sc := hx.NewScratch()
	defer sc.Close()
	env := hx.NewEnv()
	env.CRC = crc
	v := env.Actor("setup")
	b := &baseT{env: env}
	for ri, rn := range repoNames {
		if err := hx.CreateRepo(v.Stores, rn); err != nil {
			return nil, fmt.Errorf("harness: create repo %s: %v", rn, err)
		}
		var ids []string
		for i := 0; i < nb[ri]; i++ {
			id := bundleID(ri, i)
			tree := hx.Tree{
				"f":                     []byte(fmt.Sprintf("content of bundle %d", i)),
				fmt.Sprintf("d/%s", rn): []byte("shared"),
				fmt.Sprintf("d/b%d", i): hx.Expand(uint64(i), 100, 0, 0),
			}
			got, err := hx.UploadTree(sc, v.Stores, rn, tree, 4096, core.BundleID(id))
			if err != nil {
				return nil, fmt.Errorf("harness: upload: %v", err)
			}
			if got != id {
				return nil, fmt.Errorf("harness: bundle id %s, want %s", got, id)
			}
			ids = append(ids, id)
		}
		sort.Strings(ids)
		b.bundles = append(b.bundles, ids)
	}
	return b, nil
}

func getBase(crc bool, nb []int) (*hx.Env, [][]string, error) {
	key := fmt.Sprintf("%v %v", crc, nb)
	baseMu.Lock()
	defer baseMu.Unlock()
	b, ok := bases[key]
	if !ok {
		var err error
		if b, err = buildBase(crc, nb); err != nil {
			return nil, nil, err
		}
		bases[key] = b
	}
	return b.env.Clone(), b.bundles, nil
}

// ---------------------------------------------------------------------------------------------
// the API under test

// handles caches the core.Bundle values naming (repo, bundle): core.NewBundle builds a sampling zap logger
// (about a millisecond of allocation) before options are applied, and the label calls only read the repo
// name, the bundle ID and the stores from it.
type handles struct {
	stores context2.Stores
	m      map[string]*core.Bundle
	reuse  bool
	labels map[string]*core.Label
}

// label returns the core.Label object to use for a name: a fresh one, or in reuse mode the one kept for that name
func (h *handles) label(name string, mk func() *core.Label) *core.Label {
	if !h.reuse {
		return mk()
	}
	if l, ok := h.labels[name]; ok {
		return l
	}
	if h.labels == nil {
		h.labels = map[string]*core.Label{}
	}
	l := mk()
	h.labels[name] = l
	return l
}

func (h *handles) bundle(repo, id string) *core.Bundle {
	k := repo + "\x00" + id
	if b, ok := h.m[k]; ok {
		return b
	}
	opts := []core.BundleOption{core.Repo(repo), core.ContextStores(h.stores), core.Logger(hx.Nop)}
	if id != "" {
		opts = append(opts, core.BundleID(id))
	}
	b := core.NewBundle(opts...)
	if h.m == nil {
		h.m = map[string]*core.Bundle{}
	}
	h.m[k] = b
	return b
}

func (h *handles) setLabel(repo, name, bundle string) error {
	l := h.label(name, func() *core.Label {
		return core.NewLabel(core.LabelDescriptor(model.NewLabelDescriptor(
			model.LabelContributor(model.Contributor{Name: "verif", Email: "verif@example.com"}),
			model.LabelName(name),
		)))
	})
	return l.UploadDescriptor(context.Background(), h.bundle(repo, bundle))
}

func (h *handles) getLabel(repo, name string, checkRepo bool) (model.LabelDescriptor, error) {
	l := h.label(name, func() *core.Label {
		return core.NewLabel(core.LabelDescriptor(model.NewLabelDescriptor(model.LabelName(name))))
	})
	err := l.DownloadDescriptor(context.Background(), h.bundle(repo, ""), checkRepo)
	return l.Descriptor, err
}

type listOpt struct {
	Prefix      string
	Batch, Conc int
	Apply       bool
}

func listLabels(stores context2.Stores, repo string, o listOpt) ([]model.LabelDescriptor, error) {
	var opts []core.Option
	if o.Batch > 0 {
		opts = append(opts, core.BatchSize(o.Batch))
	}
	if o.Conc > 0 {
		opts = append(opts, core.ConcurrentList(o.Conc))
	}
	if o.Prefix != "" {
		opts = append(opts, core.WithLabelPrefix(o.Prefix))
	}
	if o.Apply {
		var out []model.LabelDescriptor
		err := core.ListLabelsApply(repo, stores, func(l model.LabelDescriptor) error {
			out = append(out, l)
			return nil
		}, opts...)
		return out, err
	}
	return core.ListLabels(repo, stores, opts...)
}

// ---------------------------------------------------------------------------------------------
// model and oracle

type lkey struct {
	repo int
	name string
}

type runT struct {
	env     *hx.Env
	view    *hx.Views
	stores  context2.Stores
	h       handles
	bundles [][]string
	live    map[lkey]string // the model
	names   map[string]bool // every name ever used (resolved after each step)
	deleted map[lkey]bool
	// class observations
	nSet, nOverwrite, nDelLive, nDelMissing, nRecreate, nRejected, nHostileAcc int
	cross, multiPage, effPrefix, ghost                                         bool
	maxRepos, turn, maxPerRepo                                                 int
	classes                                                                    map[string]bool
}

func (r *runT) want(repo int, prefix string) map[string]string {
	out := map[string]string{}
	for k, b := range r.live {
		if k.repo == repo && strings.HasPrefix(k.name, prefix) {
			out[k.name] = b
		}
	}
	return out
}

func (r *runT) checkList(repo int, o listOpt) error {
	got, err := listLabels(r.stores, repoName(repo), o)
	if repo >= len(repoNames) {
		if err == nil {
			return fmt.Errorf("listing the labels of repo %q, which does not exist, succeeded with %d labels", repoName(repo), len(got))
		}
		return nil
	}
	if err != nil {
		return fmt.Errorf("ListLabels(%s, %+v) failed: %v; live labels of the repo: %s", repoName(repo), o, err, showMap(r.want(repo, "")))
	}
	want := r.want(repo, o.Prefix)
	seen := map[string]bool{}
	for _, l := range got {
		if seen[l.Name] {
			return fmt.Errorf("ListLabels(%s, %+v) returns label %+q twice", repoName(repo), o, l.Name)
		}
		seen[l.Name] = true
		w, ok := want[l.Name]
		if !ok {
			return fmt.Errorf("ListLabels(%s, %+v) returns label %+q -> %s which is not a live label of that repo with that prefix; want %s", repoName(repo), o, l.Name, l.BundleID, showMap(want))
		}
		if l.BundleID != w {
			return fmt.Errorf("ListLabels(%s, %+v): label %+q -> %s, last set to %s", repoName(repo), o, l.Name, l.BundleID, w)
		}
	}
	for n := range want {
		if !seen[n] {
			return fmt.Errorf("ListLabels(%s, %+v) misses live label %+q -> %s (got %d of %d)", repoName(repo), o, n, want[n], len(got), len(want))
		}
	}
	all := len(r.want(repo, ""))
	if o.Batch > 0 && len(want) > o.Batch {
		r.multiPage = true
	}
	if o.Prefix != "" && len(want) > 0 && len(want) < all {
		r.effPrefix = true
	}
	return nil
}

func (r *runT) checkGet(repo int, name string, checkRepo bool) error {
	d, err := r.h.getLabel(repoName(repo), name, checkRepo)
	if repo >= len(repoNames) {
		if err == nil {
			return fmt.Errorf("resolving label %+q in repo %q, which does not exist, succeeded (-> %s)", name, repoName(repo), d.BundleID)
		}
		return nil
	}
	w, ok := r.live[lkey{repo, name}]
	if !ok {
		if err == nil {
			return fmt.Errorf("label %+q of repo %s resolves to %s but it is not set (deleted: %v)", name, repoName(repo), d.BundleID, r.deleted[lkey{repo, name}])
		}
		if !errors.Is(err, status.ErrNotFound) {
			return fmt.Errorf("label %+q of repo %s is not set: want status.ErrNotFound, got: %v", name, repoName(repo), err)
		}
		return nil
	}
	if err != nil {
		return fmt.Errorf("label %+q of repo %s was last set to %s but cannot be resolved: %v", name, repoName(repo), w, err)
	}
	if d.BundleID != w {
		return fmt.Errorf("label %+q of repo %s resolves to %s, last set to %s", name, repoName(repo), d.BundleID, w)
	}
	if d.Name != name {
		return fmt.Errorf("label %+q of repo %s resolves to a descriptor named %+q", name, repoName(repo), d.Name)
	}
	return nil
}

// checkAll resolves every name ever used in every repo and lists the touched repo plus one other repo in
// turn (all of them when touched < 0): each listed label costs a core.NewBundle inside datamon, which is
// what bounds the number of histories per second
func (r *runT) checkAll(touched int) error {
	r.turn++
	names := make([]string, 0, len(r.names))
	for n := range r.names {
		names = append(names, n)
	}
	sort.Strings(names)
	for ri := range repoNames {
		for _, n := range names {
			if err := r.checkGet(ri, n, false); err != nil {
				return err
			}
		}
		if touched >= 0 && touched < len(repoNames) && ri != touched && ri != (touched+1+r.turn%2)%len(repoNames) {
			continue
		}
		if err := r.checkList(ri, listOpt{}); err != nil {
			return err
		}
	}
	return nil
}

// gens fingerprints every object of a store: write generation, update time (Touch) and size
type gens map[string]string

func snapshot(b *memstore.Backend) gens {
	out := gens{}
	for k, o := range b.Snapshot() {
		out[k] = fmt.Sprintf("%d/%d/%d", o.Gen, o.Updated.UnixNano(), len(o.Data))
	}
	return out
}

// diffGens returns the keys added, rewritten and removed
func diffGens(before, after gens) (added, changed, removed []string) {
	for k, g := range after {
		if bg, ok := before[k]; !ok {
			added = append(added, k)
		} else if bg != g {
			changed = append(changed, k)
		}
	}
	for k := range before {
		if _, ok := after[k]; !ok {
			removed = append(removed, k)
		}
	}
	sort.Strings(added)
	sort.Strings(changed)
	sort.Strings(removed)
	return
}

type snapT struct{ meta, vmeta, blob, wal, rlog gens }

func (r *runT) snap() snapT {
	return snapT{snapshot(r.env.Meta), snapshot(r.env.VMeta), snapshot(r.env.Blob), snapshot(r.env.Wal), snapshot(r.env.ReadLog)}
}

// untouched demands that nothing but at most `budget` label objects was written/removed
func (r *runT) untouched(what string, before snapT, addOrChange, remove int) error {
	after := r.snap()
	for _, p := range []struct {
		n    string
		a, b gens
	}{{"metadata", before.meta, after.meta}, {"blob", before.blob, after.blob}, {"wal", before.wal, after.wal}, {"read-log", before.rlog, after.rlog}} {
		a, c, d := diffGens(p.a, p.b)
		if len(a)+len(c)+len(d) != 0 {
			return fmt.Errorf("%s modified the %s store: added %q rewritten %q removed %q", what, p.n, a, c, d)
		}
	}
	a, c, d := diffGens(before.vmeta, after.vmeta)
	if len(a)+len(c) > addOrChange || len(d) > remove {
		return fmt.Errorf("%s modified more than its own label object: added %q rewritten %q removed %q", what, a, c, d)
	}
	return nil
}

func showMap(m map[string]string) string {
	ks := make([]string, 0, len(m))
	for k := range m {
		ks = append(ks, k)
	}
	sort.Strings(ks)
	var sb strings.Builder
	sb.WriteString("{")
	for i, k := range ks {
		if i > 0 {
			sb.WriteString(", ")
		}
		fmt.Fprintf(&sb, "%+q:%s", k, m[k])
	}
	sb.WriteString("}")
	return sb.String()
}

func (r *runT) reposWithLabels() int {
	seen := map[int]bool{}
	for k := range r.live {
		seen[k.repo] = true
	}
	return len(seen)
}

func (r *runT) step(o opT) error {
	rn := repoName(o.Repo)
	ghost := o.Repo >= len(repoNames)
	if ghost {
		r.ghost = true
	}
	switch o.Kind {
	case "set":
		bid := hx.KSUID(5, 5)
		if !ghost {
			bid = r.bundles[o.Repo][o.Bundle]
		}
		before := r.snap()
		err := r.h.setLabel(rn, o.Name, bid)
		what := fmt.Sprintf("set(%s, %+q, %s)", rn, o.Name, bid)
		r.names[o.Name] = true
		if err != nil {
			// rejecting is fine for the missing repo and for names outside the documented alphabet,
			// but a rejected set must not have any effect
			if !ghost && documented(o.Name) {
				return fmt.Errorf("%s: a label name of the documented alphabet on an existing repo and bundle was refused: %v", what, err)
			}
			r.nRejected++
			if e := r.untouched(what+" (refused: "+err.Error()+")", before, 0, 0); e != nil {
				return e
			}
			return r.checkAll(o.Repo)
		}
		if ghost {
			return fmt.Errorf("%s succeeded although the repo does not exist", what)
		}
		if e := r.untouched(what, before, 1, 0); e != nil {
			return e
		}
		k := lkey{o.Repo, o.Name}
		if _, ok := r.live[k]; ok {
			r.nOverwrite++
		} else if r.deleted[k] {
			r.nRecreate++
		}
		r.live[k] = bid
		r.nSet++
		r.classes[o.Class] = true
		if !documented(o.Name) {
			r.nHostileAcc++
		}
		for ri := range repoNames {
			if _, ok := r.live[lkey{ri, o.Name}]; ok && ri != o.Repo {
				r.cross = true
			}
		}
		if n := r.reposWithLabels(); n > r.maxRepos {
			r.maxRepos = n
		}
		if n := len(r.want(o.Repo, "")); n > r.maxPerRepo {
			r.maxPerRepo = n
		}
		// "Any label name the API accepts can afterwards be listed and resolved" + nothing else changed
		return r.checkAll(o.Repo)
	case "del":
		k := lkey{o.Repo, o.Name}
		_, wasLive := r.live[k]
		before := r.snap()
		err := core.DeleteLabel(rn, r.stores, o.Name)
		what := fmt.Sprintf("DeleteLabel(%s, %+q)", rn, o.Name)
		r.names[o.Name] = true
		switch {
		case wasLive && err != nil:
			return fmt.Errorf("%s of a live label failed: %v", what, err)
		case wasLive:
			delete(r.live, k)
			r.deleted[k] = true
			r.nDelLive++
			if e := r.untouched(what, before, 0, 1); e != nil {
				return e
			}
		default:
			// deleting what is not there: error or not is unspecified; no effect either way
			r.nDelMissing++
			if e := r.untouched(what+" (label not set)", before, 0, 0); e != nil {
				return e
			}
		}
		return r.checkAll(o.Repo)
	case "get":
		r.names[o.Name] = true
		if o.FaultNth > 0 && o.Repo < len(repoNames) {
			mf := &memstore.Fault{Op: memstore.OpHas, KeySub: "labels/", Nth: o.FaultNth, Times: 1}
			r.view.VMeta.AddFault(mf)
			d, err := r.h.getLabel(repoName(o.Repo), o.Name, o.CheckRepo)
			r.view.VMeta.ClearFaults()
			if mf.Hits > 0 {
				stats.Count("get_during_a_failed_existence_probe", 1)
				if w, live := r.live[lkey{o.Repo, o.Name}]; live {
					if err != nil && errors.Is(err, status.ErrNotFound) {
						return fmt.Errorf("label %+q of repo %s is set (-> %s) but a get during which one existence probe failed reports it as not found: %v", o.Name, repoName(o.Repo), w, err)
					}
					if err == nil && d.BundleID != w {
						return fmt.Errorf("label %+q of repo %s resolves to %s, last set to %s", o.Name, repoName(o.Repo), d.BundleID, w)
					}
				} else if err == nil {
					return fmt.Errorf("label %+q of repo %s resolves to %s but it is not set", o.Name, repoName(o.Repo), d.BundleID)
				}
				return nil
			}
		}
		return r.checkGet(o.Repo, o.Name, o.CheckRepo)
	case "list":
		lo := listOpt{Prefix: o.Prefix, Batch: o.Batch, Conc: o.Conc, Apply: o.Apply}
		if o.FaultNth > 0 && o.Repo < len(repoNames) {
			mf := &memstore.Fault{Op: memstore.OpHas, KeySub: "labels/", Nth: o.FaultNth, Times: 1}
			r.view.VMeta.AddFault(mf)
			_, lerr := listLabels(r.stores, repoName(o.Repo), lo)
			hit := mf.Hits > 0
			var cerr error
			if lerr == nil {
				// it reported success: run the comparison on a listing made under the same fault plan
				r.view.VMeta.ClearFaults()
				mf2 := &memstore.Fault{Op: memstore.OpHas, KeySub: "labels/", Nth: o.FaultNth, Times: 1}
				r.view.VMeta.AddFault(mf2)
				cerr = r.checkList(o.Repo, lo)
				if cerr != nil && mf2.Hits > 0 && strings.Contains(cerr.Error(), ") failed: ") {
					cerr = nil // this time the disturbed listing reported the failure: fine
				}
			}
			r.view.VMeta.ClearFaults()
			if hit {
				stats.Count("list_during_a_failed_existence_probe", 1)
			}
			return cerr
		}
		return r.checkList(o.Repo, lo)
	}
	return fmt.Errorf("harness: unknown op %q", o.Kind)
}

func runCase(c caseT) (*runT, error) {
	env, bundles, err := getBase(c.CRC, c.NB)
	if err != nil {
		return nil, err
	}
	view := env.Actor("p")
	stores := view.Stores
	r := &runT{env: env, view: view, stores: stores, h: handles{stores: stores, reuse: c.Reuse}, bundles: bundles, live: map[lkey]string{}, names: map[string]bool{},
		deleted: map[lkey]bool{}, classes: map[string]bool{}}
	meta0 := snapshot(env.Meta)
	if err := r.checkAll(-1); err != nil {
		return r, fmt.Errorf("before any op: %v", err)
	}
	for i, o := range c.Ops {
		if err := r.step(o); err != nil {
			return r, fmt.Errorf("op %d %s: %v", i, o.Kind, err)
		}
	}
	// final: all listing flavours agree with the model, bundles are what they were
	for ri := range repoNames {
		for _, lo := range []listOpt{{Batch: 1, Conc: 1}, {Apply: true, Batch: 2}, {Conc: 1}} {
			if err := r.checkList(ri, lo); err != nil {
				return r, fmt.Errorf("final: %v", err)
			}
		}
		if ri != len(c.Ops)%len(repoNames) {
			continue // the generation comparison below covers all repos; the API view is taken for one of them
		}
		bs, err := core.ListBundles(repoNames[ri], r.stores)
		if err != nil {
			return r, fmt.Errorf("final: ListBundles(%s): %v", repoNames[ri], err)
		}
		var ids []string
		for _, b := range bs {
			ids = append(ids, b.ID)
		}
		sort.Strings(ids)
		if strings.Join(ids, ",") != strings.Join(bundles[ri], ",") {
			return r, fmt.Errorf("final: bundles of %s are %v, were %v", repoNames[ri], ids, bundles[ri])
		}
	}
	if a, ch, d := diffGens(meta0, snapshot(env.Meta)); len(a)+len(ch)+len(d) != 0 {
		return r, fmt.Errorf("final: label operations modified bundle/repo metadata: added %q rewritten %q removed %q", a, ch, d)
	}
	return r, nil
}

func bucket(n int) string {
	switch {
	case n == 0:
		return "0"
	case n <= 3:
		return "1-3"
	case n <= 9:
		return "4-9"
	default:
		return "10+"
	}
}

func (r *runT) signature() (string, bool) {
	var cl []string
	for k := range r.classes {
		cl = append(cl, k)
	}
	sort.Strings(cl)
	h := "none"
	switch {
	case r.nHostileAcc > 0 && r.nRejected > 0:
		h = "both"
	case r.nHostileAcc > 0:
		h = "accepted"
	case r.nRejected > 0:
		h = "rejected"
	}
	nt := r.nOverwrite > 0 && r.nDelLive > 0 && r.maxRepos >= 2
	sig := fmt.Sprintf("set=%s ow=%v del=%v delmiss=%v recreate=%v cross=%v pages=%v prefix=%v repos=%d crowd=%v classes=%s hostile=%s",
		bucket(r.nSet), r.nOverwrite > 0, r.nDelLive > 0, r.nDelMissing > 0, r.nRecreate > 0, r.cross, r.multiPage, r.effPrefix, r.maxRepos, r.maxPerRepo >= 5,
		strings.Join(cl, "+"), h)
	return sig, nt
}

type failer interface {
	Fatalf(string, ...interface{})
}

// try executes one case under the watchdog
func try(c caseT, limit time.Duration) (*runT, error) {
	hx.Journal(c)
	var r *runT
	t0 := time.Now() // statistics only, never an oracle
	defer func() {
		if d := time.Since(t0); d > 2*time.Second {
			stats.Count("cases_slower_than_2s", 1)
		}
	}()
	err, hung, panicked := hx.Guard(limit, func() error {
		var e error
		r, e = runCase(c)
		return e
	})
	if hung || panicked || err != nil {
		return r, fmt.Errorf("%v (hung=%v panicked=%v)", err, hung, panicked)
	}
	return r, nil
}

func check(t failer, c caseT, limit time.Duration) *runT {
	r, err := try(c, limit)
	if err != nil {
		stats.Violation(err.Error())
		t.Fatalf("%v", err)
	}
	return r
}

func record(c caseT, r *runT) {
	sig, nt := r.signature()
	stats.Case(sig, nt, func() interface{} { return c })
	stats.Count("ops", len(c.Ops))
	stats.Count("set_accepted", r.nSet)
	stats.Count("set_rejected", r.nRejected)
	stats.Count("set_hostile_accepted", r.nHostileAcc)
	stats.Count("overwrite", r.nOverwrite)
	stats.Count("delete_live", r.nDelLive)
	stats.Count("delete_missing", r.nDelMissing)
	stats.Count("recreate_after_delete", r.nRecreate)
	for k := range r.classes {
		stats.Count("cases_with_class_"+k, 1)
	}
	b2i := func(b bool) int {
		if b {
			return 1
		}
		return 0
	}
	stats.Count("cases_same_name_two_repos", b2i(r.cross))
	stats.Count("cases_multi_page_list", b2i(r.multiPage))
	stats.Count("cases_effective_prefix_list", b2i(r.effPrefix))
	stats.Count("cases_missing_repo", b2i(r.ghost))
	stats.Count("cases_5_or_more_labels_in_a_repo", b2i(r.maxPerRepo >= 5))
	stats.Count("cases_nontrivial", b2i(nt))
}

// TestPropHistory is the stateful property
func TestPropHistory(t *testing.T) {
	rapid.Check(t, func(t *rapid.T) {
		c := drawCase(t)
		r := check(t, c, 60*time.Second)
		record(c, r)
	})
}
