package c08

import (
	"fmt"
	"os"
	"syscall"
)

func init() {
	if p := os.Getenv("C08_STDERR"); p != "" {
		f, err := os.OpenFile(fmt.Sprintf("%s.%d", p, os.Getpid()), os.O_CREATE|os.O_WRONLY|os.O_APPEND, 0o644)
		if err == nil {
			_ = syscall.Dup2(int(f.Fd()), 2)
		}
	}
}
