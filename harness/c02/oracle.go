package c02

import (
	"bufio"
	"encoding/hex"
	"fmt"
	"io"
	"os"
	"os/exec"
	"path/filepath"
	"runtime"
	"strings"
	"sync"
)

// pyOracle talks to ref/blake2_tree.py (python hashlib), one process per test binary
type pyOracle struct {
	mu  sync.Mutex
	cmd *exec.Cmd
	in  io.WriteCloser
	out *bufio.Reader
}

var oracle pyOracle

func scriptPath() string {
	if r := os.Getenv("VERIF_ROOT"); r != "" {
		p := filepath.Join(r, "harness", "ref", "blake2_tree.py")
		if _, err := os.Stat(p); err == nil {
			return p
		}
	}
	_, file, _, _ := runtime.Caller(0)
	return filepath.Join(filepath.Dir(file), "..", "ref", "blake2_tree.py")
}

func (o *pyOracle) start() error {
	if o.cmd != nil {
		return nil
	}
	cmd := exec.Command("python3", scriptPath())
	in, err := cmd.StdinPipe()
	if err != nil {
		return err
	}
	out, err := cmd.StdoutPipe()
	if err != nil {
		return err
	}
	cmd.Stderr = os.Stderr
	if err := cmd.Start(); err != nil {
		return err
	}
	o.cmd, o.in, o.out = cmd, in, bufio.NewReaderSize(out, 1<<20)
	return nil
}

// Tree returns the root key and leaf keys (hex) for content with the given leaf size
func (o *pyOracle) Tree(leaf uint32, content []byte) (root string, leaves []string, err error) {
	o.mu.Lock()
	defer o.mu.Unlock()
	if err = o.start(); err != nil {
		return "", nil, err
	}
	if _, err = fmt.Fprintf(o.in, "%d %s\n", leaf, hex.EncodeToString(content)); err != nil {
		return "", nil, err
	}
	line, err := o.out.ReadString('\n')
	if err != nil {
		return "", nil, fmt.Errorf("oracle died: %v", err)
	}
	parts := strings.Fields(line)
	if len(parts) == 0 {
		return "", nil, fmt.Errorf("oracle: empty answer")
	}
	return parts[0], parts[1:], nil
}

func (o *pyOracle) stop() {
	o.mu.Lock()
	defer o.mu.Unlock()
	if o.cmd != nil {
		_ = o.in.Close()
		_ = o.cmd.Wait()
		o.cmd = nil
	}
}
