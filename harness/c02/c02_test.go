package c02

import (
	"bytes"
	"context"
	"crypto/sha256"
	"encoding/hex"
	"fmt"
	"io"
	"os"
	"path/filepath"
	"strings"
	"testing"
	"time"

	"github.com/oneconcern/datamon/pkg/cafs"
	"pgregory.net/rapid"

	"verifharness/evid"
	"verifharness/hx"
	"verifharness/memstore"
)

var stats = evid.New("C02", "rapid, two families. (1) differential: content of k*L+d bytes (as C01) stored through 2-4 generated (chunking, flush concurrency, CRC, pre-seeded store) configurations; root and every leaf key compared with the python hashlib BLAKE2b tree-mode oracle, root blob must be leafkeys||root, leaf blobs the raw leaves; non-trivial: >= 2 leaves; distinct by (L, #leaves, d-class, config classes). (2) histories of 8-30 Puts into one shared store from a pool of overlapping contents (identical, shared leading leaves, prefixes, same leaf at other index), with injected empty blobs ('previous upload died'); after every step: key == oracle, Found iff stored before, all earlier objects read back, no existing blob changed; non-trivial: history has a duplicate Put and a shared-leaf Put; distinct by op-class multiset.")

func TestMain(m *testing.M) {
	code := m.Run()
	oracle.stop()
	stats.Flush()
	os.Exit(code)
}

// TestRegressOraclePins pins the oracle convention against the checked-in vectors, so that a
// wrong oracle shows up here and not as a false alarm.
func TestRegressOraclePins(t *testing.T) {
	const leaf = 1572864 // 1.5 MiB, the leaf size the testdata was generated with
	dir := "/repo/testdata"
	files, err := os.ReadDir(filepath.Join(dir, "original"))
	if err != nil || len(files) == 0 {
		t.Fatalf("testdata missing: %v", err)
	}
	for _, f := range files {
		data, err := os.ReadFile(filepath.Join(dir, "original", f.Name()))
		if err != nil {
			t.Fatal(err)
		}
		want, err := os.ReadFile(filepath.Join(dir, "roots", f.Name()))
		if err != nil {
			t.Fatal(err)
		}
		root, _, err := oracle.Tree(leaf, data)
		if err != nil {
			t.Fatal(err)
		}
		if root != strings.TrimSpace(string(want)) {
			t.Fatalf("oracle disagrees with testdata/roots/%s: %s vs %s", f.Name(), root, want)
		}
	}
	root, leaves, err := oracle.Tree(5*1024*1024, []byte("hello s3git\n"))
	if err != nil {
		t.Fatal(err)
	}
	if root != "18e622875a89cede0d7019b2c8afecf8928c21eac18ec51e38a8e6b829b82c3ef306dec34227929fa77b1c7c329b3d4e50ed9e72dc4dc885be0932d3f28d7053" ||
		len(leaves) != 1 || leaves[0] != "46ddd7b91748c4d253e328a9644d78b3e3a298ebbbab462891502f05e956ef7ec03c8e0978e5160a858cc50ca6b37176248b602d50d0c609abe75b462b6dddcc" {
		t.Fatalf("oracle disagrees with docs/blake2.md vector: %s %v", root, leaves)
	}
}

type chunked struct {
	data   []byte
	pos    int
	sizes  []int
	i      int
	eofTog bool // the last bytes are returned together with io.EOF
}

func (c *chunked) Read(p []byte) (int, error) {
	if c.pos >= len(c.data) {
		return 0, io.EOF
	}
	n := c.sizes[c.i%len(c.sizes)]
	c.i++
	if n > len(p) {
		n = len(p)
	}
	if n > len(c.data)-c.pos {
		n = len(c.data) - c.pos
	}
	copy(p, c.data[c.pos:c.pos+n])
	c.pos += n
	if c.eofTog && c.pos == len(c.data) {
		return n, io.EOF
	}
	return n, nil
}

type putCfg struct {
	Chunks  []int  `json:"chunks"` // nil: bytes.Reader (one big write)
	Flushes int    `json:"flushes"`
	CRC     bool   `json:"crc"`
	EOFTog  bool   `json:"eof_with_data"`
	Prefix  string `json:"key_prefix,omitempty"` // cafs.Prefix: every blob of this Fs lives under prefix+key
}

func drawCfg(t *rapid.T, L int, label string) putCfg {
	c := putCfg{Flushes: rapid.IntRange(1, 16).Draw(t, label+"_flushes"), CRC: rapid.Bool().Draw(t, label+"_crc")}
	if rapid.IntRange(0, 3).Draw(t, label+"_one") > 0 {
		c.Chunks = rapid.SliceOfN(rapid.SampledFrom([]int{1, 7, L - 1, L, L + 1, 2 * L, 3*L + 1, 32 * 1024}), 1, 4).Draw(t, label+"_chunks")
		c.EOFTog = rapid.IntRange(0, 2).Draw(t, label+"_eoftog") == 0
	}
	return c
}

func source(content []byte, c putCfg) io.Reader {
	if c.Chunks == nil {
		return bytes.NewReader(content)
	}
	return &chunked{data: content, sizes: c.Chunks, eofTog: c.EOFTog}
}

func newFs(store *memstore.Store, L uint32, c putCfg) (cafs.Fs, error) {
	opts := []cafs.Option{cafs.LeafSize(L), cafs.Logger(hx.Nop), cafs.ConcurrentFlushes(c.Flushes), cafs.CacheSize(4 * int(L))}
	if c.CRC {
		opts = append(opts, cafs.Backend(store.WithCRC()))
	} else {
		opts = append(opts, cafs.Backend(store))
	}
	if c.Prefix != "" {
		opts = append(opts, cafs.Prefix(c.Prefix))
	}
	return cafs.New(opts...)
}

// checkPut verifies one Put result against the oracle and the store layout
func checkPut(be *memstore.Backend, res cafs.PutRes, L uint32, content []byte, prefix ...string) error {
	pfx := strings.Join(prefix, "")
	root, leaves, err := oracle.Tree(L, content)
	if err != nil {
		return fmt.Errorf("oracle: %v", err)
	}
	if res.Key.String() != root {
		return fmt.Errorf("root key %s differs from the BLAKE2b tree oracle %s (L=%d, %d bytes)", res.Key, root, L, len(content))
	}
	if len(res.Keys) != 64*len(leaves) {
		return fmt.Errorf("PutRes.Keys holds %d bytes, want %d leaves", len(res.Keys), len(leaves))
	}
	for i, lk := range leaves {
		got := hex.EncodeToString(res.Keys[64*i : 64*i+64])
		if got != lk {
			return fmt.Errorf("leaf key %d is %s, oracle says %s", i, got, lk)
		}
		blob, ok := be.RawGet(pfx + lk)
		if !ok {
			return fmt.Errorf("leaf blob %d (%s) missing from the store", i, lk)
		}
		end := (i + 1) * int(L)
		if end > len(content) {
			end = len(content)
		}
		if !bytes.Equal(blob, content[i*int(L):end]) {
			return fmt.Errorf("leaf blob %d does not hold the leaf bytes", i)
		}
	}
	rb, ok := be.RawGet(pfx + root)
	if !ok {
		return fmt.Errorf("root blob missing")
	}
	rk, _ := hex.DecodeString(root)
	if !bytes.Equal(rb, append(append([]byte{}, res.Keys...), rk...)) {
		return fmt.Errorf("root blob is not leafkeys||rootkey (%d bytes)", len(rb))
	}
	return nil
}

func TestPropKeyDifferential(t *testing.T) {
	rapid.Check(t, func(t *rapid.T) {
		L := hx.SmallLeaf(t, "L")
		spec := hx.Content(t, L, 6, "content")
		content := spec.Bytes()
		n := rapid.IntRange(2, 4).Draw(t, "nconfigs")
		var cfgs []putCfg
		for i := 0; i < n; i++ {
			cfgs = append(cfgs, drawCfg(t, int(L), fmt.Sprintf("cfg%d", i)))
		}
		preseed := rapid.Bool().Draw(t, "preseed")
		hx.Journal(map[string]interface{}{"content": spec, "cfgs": cfgs, "preseed": preseed})
		var first string
		for i, c := range cfgs {
			be := memstore.NewBackend("blob")
			preseededSame := false
			if preseed && i > 0 {
				// the store already holds unrelated content, and a prefix of this content
				ofs, _ := newFs(be.View("pre"), L, putCfg{Flushes: 2})
				unrelated := hx.Expand(spec.Seed+1, spec.Size, 0, 0)
				_, _ = ofs.Put(context.Background(), bytes.NewReader(unrelated))
				_, _ = ofs.Put(context.Background(), bytes.NewReader(content[:len(content)/2]))
				// tiny contents can coincide with what was pre-seeded: then the content IS present
				preseededSame = bytes.Equal(unrelated, content) || len(content)/2 == len(content)
			}
			fs, err := newFs(be.View("w"), L, c)
			if err != nil {
				t.Fatalf("cafs.New: %v", err)
			}
			var res cafs.PutRes
			err, hung, panicked := hx.Guard(20*time.Second, func() error {
				var e error
				res, e = fs.Put(context.Background(), source(content, c))
				return e
			})
			if hung || panicked || err != nil {
				t.Fatalf("Put (cfg %+v): %v hung=%v", c, err, hung)
			}
			if res.Written != int64(len(content)) {
				t.Fatalf("Written=%d want %d", res.Written, len(content))
			}
			if err := checkPut(be, res, L, content); err != nil {
				t.Fatalf("cfg %+v: %v", c, err)
			}
			if i == 0 {
				first = res.Key.String()
			} else if res.Key.String() != first {
				t.Fatalf("key depends on configuration: %s vs %s", res.Key, first)
			}
			if res.Found && !preseededSame {
				t.Fatalf("Found=true on a store that never held this content (cfg %+v)", c)
			}
		}
		leaves := (spec.Size + int(L) - 1) / int(L)
		cls := ""
		for _, c := range cfgs {
			if c.Chunks == nil {
				cls += "o"
			} else {
				cls += "c"
			}
		}
		stats.Case(fmt.Sprintf("L=%d leaves=%d d=%s cfg=%s pre=%v", L, leaves, spec.DClass(), cls, preseed), leaves >= 2, func() interface{} {
			return map[string]interface{}{"content": spec, "cfgs": cfgs, "preseed": preseed, "key": first}
		})
		stats.Count("diff_d_"+spec.DClass(), 1)
	})
}

// ---- history

type histOp struct {
	Kind    string `json:"kind"` // put | inject_empty_leaf | inject_empty_root
	Content int    `json:"content"`
	Cfg     putCfg `json:"cfg"`
	Leaf    int    `json:"leaf,omitempty"`
	Prefix  string `json:"prefix,omitempty"` // name space (cafs.Prefix) the operation works in
}

func TestPropHistory(t *testing.T) {
	rapid.Check(t, func(t *rapid.T) {
		L := hx.SmallLeaf(t, "L")
		li := int(L)
		// pool of overlapping contents
		base := hx.Expand(rapid.Uint64().Draw(t, "seed"), 5*li, 0, 0)
		other := hx.Expand(rapid.Uint64().Draw(t, "seed2"), 2*li, 0, 0)
		cut := rapid.IntRange(1, 4*li).Draw(t, "cut")
		pool := [][]byte{
			base,        // 0: 5 leaves
			base[:3*li], // 1: prefix at leaf boundary (shares leaves 0..2)
			base[:cut],  // 2: arbitrary prefix
			append(append([]byte{}, base[:2*li]...), other...),      // 3: shares the two leading leaves
			append(append([]byte{}, other[:li]...), base[:2*li]...), // 4: same leaf bytes at another index
			base[:li], // 5: exactly the first leaf
			append(append([]byte{}, base[:li]...), base[:li]...), // 6: the same leaf twice
			{},    // 7: empty
			other, // 8
		}
		// name spaces sharing the blob store: mostly the plain one, sometimes a prefixed one, sometimes both
		prefixes := rapid.SampledFrom([][]string{{""}, {""}, {""}, {"ns-"}, {"", "ns-"}, {"", "ns-"}, {"a/", "a/b-"}}).Draw(t, "prefixes")
		nops := rapid.IntRange(8, 30).Draw(t, "nops")
		var ops []histOp
		for i := 0; i < nops; i++ {
			k := rapid.SampledFrom([]string{"put", "put", "put", "put", "inject_empty_leaf", "inject_empty_root"}).Draw(t, "kind")
			op := histOp{Kind: k, Content: rapid.IntRange(0, len(pool)-1).Draw(t, "content")}
			op.Prefix = prefixes[rapid.IntRange(0, len(prefixes)-1).Draw(t, "prefix")]
			if k == "put" {
				op.Cfg = drawCfg(t, li, "cfg")
				op.Cfg.Prefix = op.Prefix
			} else {
				op.Leaf = rapid.IntRange(0, 4).Draw(t, "leaf")
			}
			ops = append(ops, op)
		}
		hx.Journal(map[string]interface{}{"L": L, "cut": cut, "ops": ops})

		be := memstore.NewBackend("blob")
		type nsContent struct {
			ns string
			ci int
		}
		stored := map[nsContent]string{} // (name space, content index) -> key
		byKey := map[string]string{}     // key -> sha of content
		dirtyRoot := map[string]bool{}
		var sawDup, sawShared bool
		classes := map[string]int{}
		for step, op := range ops {
			content := pool[op.Content]
			root, leaves, err := oracle.Tree(L, content)
			if err != nil {
				t.Fatalf("oracle: %v", err)
			}
			// from here on root and leaves are the store keys within the operation's name space
			root = op.Prefix + root
			for i := range leaves {
				leaves[i] = op.Prefix + leaves[i]
			}
			before := be.Snapshot()
			injected := map[string]bool{}
			switch op.Kind {
			case "inject_empty_leaf":
				if len(leaves) == 0 {
					continue
				}
				k := leaves[op.Leaf%len(leaves)]
				if _, ok := before[k]; ok {
					continue // only a blob that does not exist yet can be a dead upload's left-over
				}
				be.RawPut(k, nil)
				classes["inject_leaf"]++
				continue
			case "inject_empty_root":
				if _, ok := before[root]; ok {
					continue
				}
				be.RawPut(root, nil)
				dirtyRoot[root] = true
				classes["inject_root"]++
				continue
			}
			for k, o := range before {
				if len(o.Data) == 0 {
					injected[k] = true
				}
			}
			fs, err := newFs(be.View(fmt.Sprintf("w%d", step)), L, op.Cfg)
			if err != nil {
				t.Fatalf("cafs.New: %v", err)
			}
			var res cafs.PutRes
			err, hung, panicked := hx.Guard(20*time.Second, func() error {
				var e error
				res, e = fs.Put(context.Background(), source(content, op.Cfg))
				return e
			})
			if hung || panicked || err != nil {
				t.Fatalf("step %d Put: %v hung=%v", step, err, hung)
			}
			if err := checkPut(be, res, L, content, op.Prefix); err != nil {
				t.Fatalf("step %d (content %d): %v", step, op.Content, err)
			}
			_, was := stored[nsContent{op.Prefix, op.Content}]
			// an equal byte string may sit at another pool index
			sum := fmt.Sprintf("%x", sha256.Sum256(content))
			if prev, ok := byKey[op.Prefix+res.Key.String()]; ok {
				if prev != sum {
					t.Fatalf("step %d: two different contents got the same key %s", step, res.Key)
				}
				was = true
			}
			if !dirtyRoot[root] {
				if was && !res.Found {
					t.Fatalf("step %d: content stored before but Found=false", step)
				}
				if !was && res.Found {
					t.Fatalf("step %d: content never stored but Found=true", step)
				}
			}
			delete(dirtyRoot, root)
			if was {
				sawDup = true
				classes["dup"]++
			} else {
				shared := false
				for _, lk := range leaves {
					if o, ok := before[lk]; ok && len(o.Data) > 0 {
						shared = true
					}
				}
				if shared {
					sawShared = true
					classes["shared"]++
				} else {
					classes["fresh"]++
				}
			}
			stored[nsContent{op.Prefix, op.Content}] = res.Key.String()
			byKey[op.Prefix+res.Key.String()] = sum
			if op.Prefix != "" {
				classes["prefixed"]++
			}
			// no pre-existing (non-empty) blob changed
			after := be.Snapshot()
			for k, o := range before {
				if injected[k] {
					continue
				}
				a, ok := after[k]
				if !ok {
					t.Fatalf("step %d: blob %s disappeared", step, k)
				}
				if !bytes.Equal(a.Data, o.Data) {
					t.Fatalf("step %d: existing blob %s changed its bytes", step, k)
				}
			}
			// every object stored so far still reads back
			for nc, key := range stored {
				ci := nc.ci
				rfs, _ := newFs(be.View("r"), L, putCfg{Flushes: 1, Prefix: nc.ns})
				k, _ := cafs.KeyFromString(key)
				var got []byte
				err, hung, panicked := hx.Guard(20*time.Second, func() error {
					r, e := rfs.Get(context.Background(), k)
					if e != nil {
						return e
					}
					defer r.Close()
					got, e = io.ReadAll(struct{ io.Reader }{r})
					return e
				})
				if hung || panicked || err != nil {
					t.Fatalf("step %d: reading back content %d: %v", step, ci, err)
				}
				if !bytes.Equal(got, pool[ci]) {
					t.Fatalf("step %d: content %d reads back differently (%d vs %d bytes)", step, ci, len(got), len(pool[ci]))
				}
			}
		}
		sig := fmt.Sprintf("dup=%d shared=%d fresh=%d il=%d ir=%d ns=%d pfx=%d", min(classes["dup"], 3), min(classes["shared"], 3), min(classes["fresh"], 3), min(classes["inject_leaf"], 2), min(classes["inject_root"], 2), len(prefixes), min(classes["prefixed"], 2))
		stats.Case(sig, sawDup && sawShared, func() interface{} { return map[string]interface{}{"L": L, "cut": cut, "ops": ops} })
		for k, v := range classes {
			stats.Count("hist_"+k, v)
		}
	})
}

// FuzzKey: native fuzzing of the differential (thorough tier)
func FuzzKey(f *testing.F) {
	f.Add([]byte("hello s3git\n"), uint8(0), uint8(0))
	f.Add(bytes.Repeat([]byte{0}, 300), uint8(3), uint8(2))
	f.Add(hx.Expand(7, 64*3, 0, 0), uint8(0), uint8(5))
	f.Add(hx.Expand(9, 64*3+1, 0, 0), uint8(1), uint8(1))
	leafs := []uint32{64, 65, 100, 127, 128, 255, 256, 1000}
	chunks := [][]int{nil, {1}, {7}, {63}, {64}, {65}, {200, 3}, {32768}}
	f.Fuzz(func(t *testing.T, data []byte, leafSel uint8, chunkSel uint8) {
		if len(data) > 4096 {
			data = data[:4096]
		}
		L := leafs[int(leafSel)%len(leafs)]
		c := putCfg{Chunks: chunks[int(chunkSel)%len(chunks)], Flushes: 1 + int(chunkSel)%5}
		be := memstore.NewBackend("blob")
		fs, err := newFs(be.View("w"), L, c)
		if err != nil {
			t.Fatal(err)
		}
		res, err := fs.Put(context.Background(), source(data, c))
		if err != nil {
			t.Fatalf("Put: %v", err)
		}
		if err := checkPut(be, res, L, data); err != nil {
			t.Fatal(err)
		}
	})
}

// TestRegressLeafCounts: leaf counts around powers of two and multiples of 64 (any internal batching of the leaf
// keys when the root key is computed must not show), full last leaf and partial last leaf, against the oracle;
// two different contents of the same leaf count never share a key
func TestRegressLeafCounts(t *testing.T) {
	for _, L := range []uint32{64, 100} {
		keys := map[string]int{}
		for _, n := range []int{15, 16, 17, 31, 32, 33, 63, 64, 65, 127, 128, 129, 191, 192, 193, 255, 256, 257, 511, 512, 513} {
			for _, tail := range []int{0, 1, int(L) - 1} {
				for variant := uint64(0); variant < 2; variant++ {
					size := n*int(L) + tail
					if tail == 0 && variant == 1 && n%64 != 0 {
						continue
					}
					content := hx.Expand(uint64(n)*31+variant, size, 0, 0)
					be := memstore.NewBackend("blob")
					c := putCfg{Flushes: 1 + n%5}
					if n%2 == 0 {
						c.Chunks = []int{int(L) * 3, 7}
					}
					fs, err := newFs(be.View("w"), L, c)
					if err != nil {
						t.Fatal(err)
					}
					res, err := fs.Put(context.Background(), source(content, c))
					if err != nil {
						t.Fatalf("Put of %d leaves + %d bytes at L=%d: %v", n, tail, L, err)
					}
					if err := checkPut(be, res, L, content); err != nil {
						t.Fatalf("%d leaves + %d bytes at L=%d: %v", n, tail, L, err)
					}
					if prev, dup := keys[res.Key.String()]; dup {
						t.Fatalf("contents of %d and %d bytes share the key %s", prev, size, res.Key)
					}
					keys[res.Key.String()] = size
					stats.Case(fmt.Sprintf("pinned leaf count L=%d n=%d tail=%d", L, n, tail), true, func() interface{} { return size })
				}
			}
		}
	}
}
