module verifharness

go 1.23

require (
	github.com/cockroachdb/pebble v0.0.0-20230104192001-3d9c6101a3a1
	github.com/jacobsa/fuse v0.0.0-20220531202254-21122235c77a
	github.com/oneconcern/datamon v0.0.0
	github.com/segmentio/ksuid v1.0.4
	github.com/spf13/afero v1.9.3
	go.uber.org/zap v1.24.0
	gopkg.in/yaml.v2 v2.4.0
	pgregory.net/rapid v1.3.0
)

require (
	github.com/DataDog/zstd v1.5.2 // indirect
	github.com/beorn7/perks v1.0.1 // indirect
	github.com/blang/semver v3.5.1+incompatible // indirect
	github.com/cenkalti/backoff/v4 v4.2.0 // indirect
	github.com/cespare/xxhash v1.1.0 // indirect
	github.com/cespare/xxhash/v2 v2.2.0 // indirect
	github.com/cockroachdb/errors v1.9.0 // indirect
	github.com/cockroachdb/logtags v0.0.0-20211118104740-dabe8e521a4f // indirect
	github.com/cockroachdb/redact v1.1.3 // indirect
	github.com/dgraph-io/badger/v3 v3.2103.5 // indirect
	github.com/dgraph-io/ristretto v0.1.1 // indirect
	github.com/docker/go-units v0.5.0 // indirect
	github.com/dustin/go-humanize v1.0.0 // indirect
	github.com/getsentry/sentry-go v0.16.0 // indirect
	github.com/gogo/protobuf v1.3.2 // indirect
	github.com/golang/glog v0.0.0-20160126235308-23def4e6c14b // indirect
	github.com/golang/groupcache v0.0.0-20210331224755-41bb18bfe9da // indirect
	github.com/golang/protobuf v1.5.2 // indirect
	github.com/golang/snappy v0.0.4 // indirect
	github.com/google/flatbuffers v22.9.30-0.20221019131441-5792623df42e+incompatible // indirect
	github.com/hashicorp/go-immutable-radix v1.3.1 // indirect
	github.com/hashicorp/golang-lru v0.6.0 // indirect
	github.com/influxdata/influxdb v1.11.0 // indirect
	github.com/klauspost/compress v1.15.14 // indirect
	github.com/kr/pretty v0.3.1 // indirect
	github.com/kr/text v0.2.0 // indirect
	github.com/matttproud/golang_protobuf_extensions v1.0.4 // indirect
	github.com/minio/blake2b-simd v0.0.0-20160723061019-3f5f724cb5b1 // indirect
	github.com/opentracing/opentracing-go v1.2.0 // indirect
	github.com/pkg/errors v0.9.1 // indirect
	github.com/prometheus/client_golang v1.14.0 // indirect
	github.com/prometheus/client_model v0.3.0 // indirect
	github.com/prometheus/common v0.39.0 // indirect
	github.com/prometheus/procfs v0.9.0 // indirect
	github.com/rogpeppe/go-internal v1.9.0 // indirect
	go.opencensus.io v0.24.0 // indirect
	go.uber.org/atomic v1.10.0 // indirect
	go.uber.org/multierr v1.8.0 // indirect
	golang.org/x/exp v0.0.0-20230105000112-eab7a2c85304 // indirect
	golang.org/x/net v0.4.0 // indirect
	golang.org/x/sync v0.1.0 // indirect
	golang.org/x/sys v0.4.0 // indirect
	golang.org/x/text v0.6.0 // indirect
	google.golang.org/protobuf v1.28.1 // indirect
)

replace github.com/oneconcern/datamon => /repo

replace github.com/spf13/pflag => github.com/fredbi/pflag v1.0.6-0.20201106154427-e6824c13371a
