#!/usr/bin/env python3
"""Independent BLAKE2b unlimited-fanout tree-mode oracle for datamon/s3git keys (python hashlib).

Convention (pinned by testdata/roots/* and docs/blake2.md): leaves of `leaf` bytes, digest 64,
fanout=0, depth=2, inner_size=64, leaf_size=leaf. A full leaf with 0-based index i is hashed with
node_depth=0, node_offset=i+1; a trailing partial leaf with node_offset=i and last_node=True. The
root is node_depth=1, node_offset=0, last_node=True over the concatenated leaf digests.

Line protocol on stdin/stdout:  "<leaf> <hex content>"  ->  "<root hex> <leaf hex> <leaf hex> ..."
File mode: blake2_tree.py --file <leaf> <path>   prints the root.
"""
import hashlib, sys


def leaf_hash(data, leaf, offset, last):
    return hashlib.blake2b(data, digest_size=64, fanout=0, depth=2, leaf_size=leaf, node_offset=offset,
                           node_depth=0, inner_size=64, last_node=last).digest()


def tree(data, leaf):
    leaves = []
    n = len(data)
    i = 0
    idx = 0
    while i < n:
        chunk = data[i:i + leaf]
        if len(chunk) == leaf:
            leaves.append(leaf_hash(chunk, leaf, idx + 1, False))
        else:
            leaves.append(leaf_hash(chunk, leaf, idx, True))
        i += leaf
        idx += 1
    root = hashlib.blake2b(b"".join(leaves), digest_size=64, fanout=0, depth=2, leaf_size=leaf, node_offset=0,
                           node_depth=1, inner_size=64, last_node=True).digest()
    return root, leaves


def main():
    if len(sys.argv) > 1 and sys.argv[1] == "--file":
        leaf = int(sys.argv[2])
        root, _ = tree(open(sys.argv[3], "rb").read(), leaf)
        print(root.hex())
        return
    for line in sys.stdin:
        parts = line.split()
        if not parts:
            continue
        leaf = int(parts[0])
        data = bytes.fromhex(parts[1]) if len(parts) > 1 else b""
        root, leaves = tree(data, leaf)
        sys.stdout.write(" ".join([root.hex()] + [l.hex() for l in leaves]) + "\n")
        sys.stdout.flush()


if __name__ == "__main__":
    main()
