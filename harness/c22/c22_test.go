// Package c22 checks property C22: "After any sequence of writes to a tracked file, the tracker
// reports every offset that some write covered as modified and every other offset as coming from
// the base file, and the contiguous range it returns from an offset never crosses a boundary
// between modified and unmodified data."
//
// Code under test: pkg/filetracker (TFile.trackWrite / TFile.getRangeToRead), reached through the
// add-only hook pkg/filetracker/export_verif.go (build tag verif).
//
// Oracle (independent of the implementation): the definition itself.  covered(o) := some write
// (off,len) of the history has off <= o < off+len.  For every probed (offset o, request length n>=1)
// after every prefix of the history:
//
//	(1) fromMutable == covered(o)
//	(2) 1 <= contiguous <= n
//	(3) covered(x) == covered(o) for every x in [o, o+contiguous)
//
// Maximality of the contiguous range is NOT demanded (the property does not state it); it is only
// counted.  In the small domain (3) is evaluated offset by offset on a bitmap; in the wide domain
// (offsets up to 2^40) it is evaluated on the finite set of points where covered() can change (the
// starts and ends of the writes), which is equivalent.
package c22

import (
	"encoding/json"
	"fmt"
	"os"
	"sort"
	"strings"
	"testing"
	"time"

	"github.com/oneconcern/datamon/pkg/filetracker"
	"pgregory.net/rapid"

	"verifharness/evid"
	"verifharness/hx"
)

var stats = evid.New("C22", "rapid: histories of 1..8 writes; small domain offset 0..12, length 1..8 (zero-length writes as a separate class, offset 0..12), wide domain offsets built around byte-carry points (255/256, 65535/65536, 2^24, 2^32, 2^40) and around the ends of earlier writes, lengths 1..300 or up to 70000; after EVERY write every offset 0..max+2 (small) / every start, end, start-1, end-1, end+1 and drawn offsets (wide) is probed with request lengths 1, 2, 3, a drawn one and one reaching past the last write. Exhaustive sub-run: every sequence of <=3 writes with offset,length in 0..6 (thorough: <=4 writes in 0..5, <=3 in 0..8). Non-trivial: >=2 writes of which at least one pair overlaps, touches (end==start), nests or is identical; distinct by the normalised interval pattern (rank-compressed starts/ends in order of the writes, zero-length writes marked) plus domain.")

const idZeroLen = "C22-zero-length-write-marks-prefix-modified"

func TestMain(m *testing.M) {
	code := m.Run()
	stats.Flush()
	os.Exit(code)
}

// ---- case

type write struct {
	Off int64 `json:"off"`
	Len int64 `json:"len"`
}

type caseT struct {
	Domain string  `json:"domain"` // small | wide
	Writes []write `json:"writes"`
	// extra probe request lengths / offsets (in addition to the systematic ones)
	ReqLens []int64 `json:"req_lens,omitempty"`
	Probes  []int64 `json:"probes,omitempty"`
}

func (c caseT) String() string {
	b, _ := json.Marshal(c)
	return string(b)
}

// ---- reference model: the definition

func covered(ws []write, o int64) bool {
	for _, w := range ws {
		if w.Off <= o && o < w.Off+w.Len {
			return true
		}
	}
	return false
}

// changePoints returns the sorted offsets p at which covered(p) != covered(p-1) can possibly hold
// (covered() is piecewise constant between consecutive starts/ends of writes).
func changePoints(ws []write) []int64 {
	var ps []int64
	for _, w := range ws {
		if w.Len > 0 {
			ps = append(ps, w.Off, w.Off+w.Len)
		}
	}
	sort.Slice(ps, func(i, j int) bool { return ps[i] < ps[j] })
	return ps
}

// uniformOn tells whether covered() is constant on [o, o+c), c >= 1, and (if not) the first offset that differs
func uniformOn(ws []write, cps []int64, o, c int64) (bool, int64) {
	want := covered(ws, o)
	for _, p := range cps {
		if p > o && p < o+c && covered(ws, p) != want {
			return false, p
		}
	}
	return true, 0
}

// maxRun returns the length of the maximal uniform run starting at o, capped by n
func maxRun(ws []write, cps []int64, o, n int64) int64 {
	want := covered(ws, o)
	for _, p := range cps {
		if p > o && p < o+n && covered(ws, p) != want {
			return p - o
		}
	}
	return n
}

// ---- the check of one probe

type viol struct {
	msg string
}

func probe(tf *filetracker.TFile, ws []write, cps []int64, bitmap []bool, o, n int64, nonMax *int) error {
	c, mut := tf.VerifRangeToRead(o, n)
	want := covered(ws, o)
	if bitmap != nil && o < int64(len(bitmap)) && bitmap[o] != want {
		return fmt.Errorf("harness self-check: bitmap and definition disagree at %d", o)
	}
	if mut != want {
		return fmt.Errorf("offset %d (request len %d): tracker says fromMutable=%v contiguous=%d, but covered-by-some-write=%v", o, n, mut, c, want)
	}
	if c < 1 || c > n {
		return fmt.Errorf("offset %d (request len %d): contiguous=%d outside [1,%d] (fromMutable=%v)", o, n, c, n, mut)
	}
	if ok, p := uniformOn(ws, cps, o, c); !ok {
		return fmt.Errorf("offset %d (request len %d): contiguous=%d crosses the modified/unmodified boundary at %d (offset %d modified=%v, offset %d modified=%v)", o, n, c, p, o, want, p, !want)
	}
	if bitmap != nil {
		for x := o; x < o+c; x++ {
			b := false
			if x < int64(len(bitmap)) {
				b = bitmap[x]
			}
			if b != want {
				return fmt.Errorf("offset %d (request len %d): contiguous=%d crosses a boundary: bitmap[%d]=%v but bitmap[%d]=%v", o, n, c, o, want, x, b)
			}
		}
	}
	if c < maxRun(ws, cps, o, n) {
		*nonMax++
	}
	return nil
}

// ---- running a case

type outcome struct {
	probes   int
	nonMax   int
	maxKeys  int
	finalMrk string
}

func sortedUnique(xs []int64) []int64 {
	sort.Slice(xs, func(i, j int) bool { return xs[i] < xs[j] })
	out := xs[:0]
	for i, x := range xs {
		if x < 0 {
			continue
		}
		if i > 0 && len(out) > 0 && out[len(out)-1] == x {
			continue
		}
		out = append(out, x)
	}
	return out
}

// checkState probes the tracker after the writes ws have been applied
func checkState(tf *filetracker.TFile, c caseT, ws []write, out *outcome) error {
	cps := changePoints(ws)
	var maxEnd int64
	for _, w := range ws {
		if e := w.Off + w.Len; e > maxEnd {
			maxEnd = e
		}
	}
	var offsets []int64
	var bitmap []bool
	if c.Domain == "small" {
		bitmap = make([]bool, maxEnd+3)
		for _, w := range ws {
			for x := w.Off; x < w.Off+w.Len; x++ {
				bitmap[x] = true
			}
		}
		for o := int64(0); o <= maxEnd+2; o++ {
			offsets = append(offsets, o)
		}
	} else {
		offsets = append(offsets, 0, 1)
		for _, w := range ws {
			e := w.Off + w.Len
			offsets = append(offsets, w.Off-1, w.Off, w.Off+1, e-1, e, e+1, w.Off+w.Len/2)
		}
		offsets = append(offsets, c.Probes...)
		offsets = sortedUnique(offsets)
	}
	lens := []int64{1, 2, 3, maxEnd + 5}
	lens = append(lens, c.ReqLens...)
	for _, o := range offsets {
		for _, n := range lens {
			if n < 1 {
				continue
			}
			out.probes++
			if err := probe(tf, ws, cps, bitmap, o, n, &out.nonMax); err != nil {
				return err
			}
		}
	}
	return nil
}

func runCase(c caseT) (outcome, error) {
	var out outcome
	tf := filetracker.VerifNewTFile()
	// the empty history: everything comes from the base file
	if err := checkState(tf, c, nil, &out); err != nil {
		return out, fmt.Errorf("before any write: %v", err)
	}
	for i, w := range c.Writes {
		before := tf.VerifMarkers()
		tf.VerifTrackWrite(w.Off, w.Len)
		after := tf.VerifMarkers()
		if k := strings.Count(after, ":"); k > out.maxKeys {
			out.maxKeys = k
		}
		if err := checkState(tf, c, c.Writes[:i+1], &out); err != nil {
			return out, fmt.Errorf("after write #%d %+v of %v: %v; markers before the write [%s], after [%s]", i+1, w, c.Writes[:i+1], err, before, after)
		}
		out.finalMrk = after
	}
	return out, nil
}

// ---- classification of a history (non-triviality and signature)

type relation struct {
	overlap, touch, nest, same, zero, disjointOnly bool
}

func relations(ws []write) relation {
	var r relation
	for _, w := range ws {
		if w.Len == 0 {
			r.zero = true
		}
	}
	for i := 0; i < len(ws); i++ {
		for j := i + 1; j < len(ws); j++ {
			a, b := ws[i], ws[j]
			if a.Len == 0 || b.Len == 0 {
				continue
			}
			as, ae, bs, be := a.Off, a.Off+a.Len, b.Off, b.Off+b.Len
			switch {
			case as == bs && ae == be:
				r.same = true
			case (as <= bs && be <= ae) || (bs <= as && ae <= be):
				r.nest = true
			case ae == bs || be == as:
				r.touch = true
			case as < be && bs < ae:
				r.overlap = true
			}
		}
	}
	return r
}

func (r relation) nonTrivial() bool { return r.overlap || r.touch || r.nest || r.same }

// pattern is the normalised interval pattern: starts and ends replaced by their rank among all
// distinct boundary values, in the order of the writes
func pattern(ws []write) string {
	var vals []int64
	for _, w := range ws {
		vals = append(vals, w.Off, w.Off+w.Len)
	}
	vals = sortedUnique(vals)
	rank := map[int64]int{}
	for i, v := range vals {
		rank[v] = i
	}
	var sb strings.Builder
	for _, w := range ws {
		fmt.Fprintf(&sb, "%d-%d;", rank[w.Off], rank[w.Off+w.Len])
	}
	return sb.String()
}

func (c caseT) sig() string { return c.Domain + ":" + pattern(c.Writes) }

func record(c caseT, out outcome) {
	r := relations(c.Writes)
	stats.Case(c.sig(), len(c.Writes) >= 2 && r.nonTrivial(), func() interface{} { return c })
	stats.Count("domain_"+c.Domain, 1)
	stats.Count(fmt.Sprintf("writes_%d", len(c.Writes)), 1)
	stats.Count("probes", out.probes)
	stats.Count("probes_nonmaximal_range", out.nonMax)
	stats.Count(fmt.Sprintf("max_markers_%02d", out.maxKeys), 1)
	for name, b := range map[string]bool{"rel_overlap": r.overlap, "rel_touch": r.touch, "rel_nest": r.nest, "rel_same": r.same, "has_zero_length": r.zero} {
		if b {
			stats.Count(name, 1)
		}
	}
}

// ---- generators

func drawSmall(t *rapid.T) caseT {
	c := caseT{Domain: "small"}
	n := rapid.IntRange(1, 8).Draw(t, "nwrites")
	zeroOK := !hx.Known(idZeroLen)
	for i := 0; i < n; i++ {
		w := write{Off: rapid.Int64Range(0, 12).Draw(t, "off")}
		if rapid.IntRange(0, 9).Draw(t, "zero") == 0 {
			if zeroOK {
				w.Len = 0
			} else {
				stats.Count("excluded_"+idZeroLen, 1)
				w.Len = rapid.Int64Range(1, 8).Draw(t, "len")
			}
		} else {
			w.Len = rapid.Int64Range(1, 8).Draw(t, "len")
		}
		c.Writes = append(c.Writes, w)
	}
	c.ReqLens = []int64{rapid.Int64Range(1, 24).Draw(t, "reqlen")}
	return c
}

var carryPoints = []int64{0, 255, 256, 65535, 65536, 1 << 24, 1 << 32, 1 << 40}

func drawWide(t *rapid.T) caseT {
	c := caseT{Domain: "wide"}
	n := rapid.IntRange(1, 8).Draw(t, "nwrites")
	maxOff := int64(1000000)
	for i := 0; i < n; i++ {
		var w write
		switch sel := rapid.IntRange(0, 9).Draw(t, "offsel"); {
		case sel <= 2 && i > 0: // relative to an earlier write's start or end
			p := c.Writes[rapid.IntRange(0, i-1).Draw(t, "rel")]
			base := p.Off
			if rapid.Bool().Draw(t, "relend") {
				base = p.Off + p.Len
			}
			w.Off = base + rapid.Int64Range(-300, 300).Draw(t, "reld")
		case sel <= 4: // around a point where the big-endian key carries into the next byte
			w.Off = rapid.SampledFrom(carryPoints).Draw(t, "carry") + rapid.Int64Range(-300, 10).Draw(t, "carryd")
		default:
			w.Off = rapid.Int64Range(0, maxOff).Draw(t, "off")
		}
		if w.Off < 0 {
			w.Off = 0
		}
		if rapid.IntRange(0, 5).Draw(t, "biglen") == 0 {
			w.Len = rapid.Int64Range(1, 70000).Draw(t, "len")
		} else {
			w.Len = rapid.Int64Range(1, 300).Draw(t, "len")
		}
		c.Writes = append(c.Writes, w)
	}
	c.ReqLens = []int64{rapid.Int64Range(1, 100000).Draw(t, "reqlen")}
	c.Probes = rapid.SliceOfN(rapid.Int64Range(0, maxOff+70000), 0, 4).Draw(t, "probes")
	return c
}

type fataler interface {
	Fatalf(string, ...interface{})
}

func check(t fataler, c caseT) outcome {
	hx.Journal(c)
	var out outcome
	err, hung, panicked := hx.Guard(20*time.Second, func() error {
		var e error
		out, e = runCase(c)
		return e
	})
	switch {
	case hung:
		t.Fatalf("HANG: %v; case=%v", err, c)
	case panicked:
		t.Fatalf("PANIC: %v; case=%v", err, c)
	case err != nil:
		t.Fatalf("%v; case=%v", err, c)
	}
	return out
}

// TestPropSmall: the quantifier of the property (<= 8 writes, offsets and lengths in a small range)
func TestPropSmall(t *testing.T) {
	rapid.Check(t, func(t *rapid.T) {
		c := drawSmall(t)
		out := check(t, c)
		record(c, out)
	})
}

// TestPropWide: "random beyond": large offsets, multi-byte radix keys
func TestPropWide(t *testing.T) {
	rapid.Check(t, func(t *rapid.T) {
		c := drawWide(t)
		out := check(t, c)
		record(c, out)
	})
}
