// Package c22 checks property C22: "After any sequence of writes to a tracked file, the tracker
// reports every offset that some write covered as modified and every other offset as coming from
// the base file, and the contiguous range it returns from an offset never crosses a boundary
// between modified and unmodified data."
//
// Code under test: pkg/filetracker (TFile.trackWrite / TFile.getRangeToRead), reached through the
// add-only hook pkg/filetracker/export_verif.go (build tag verif).
//
// Oracle (independent of the implementation): the definition itself.  covered(o) := some write
// (off,len) of the history has off <= o < off+len.  For every probed (offset o, request length n>=1)
// after every prefix of the history:
//
//	(1) fromMutable == covered(o)
//	(2) 1 <= contiguous <= n
//	(3) covered(x) == covered(o) for every x in [o, o+contiguous)
//
// Maximality of the contiguous range is NOT demanded (the property does not state it); it is only
// counted.  In the small domain (3) is evaluated offset by offset on a bitmap; in the wide domain
// (offsets up to 2^40) it is evaluated on the finite set of points where covered() can change (the
// starts and ends of the writes), which is equivalent.
package c22

import (
	"encoding/json"
	"fmt"
	"os"
	"sort"
	"strings"
	"testing"
	"time"

	"github.com/oneconcern/datamon/pkg/filetracker"
	"pgregory.net/rapid"

	"verifharness/evid"
	"verifharness/hx"
)

var stats = evid.New("C22", "rapid: histories of 1..8 writes; small domain, shape dense: offset 0..12, length 1..8, shape sparse (1 history in 3): offset 0..30, length 1..3, 1 write in 5 of length 1..30 (zero-length writes as a separate class, 1 write in 10), wide domain offsets built around byte-carry points (255/256, 65535/65536, 2^24, 2^32, 2^40) and around the ends of earlier writes, lengths 1..300 or up to 70000; after EVERY write every offset 0..max+2 (small) / every start, end, start-1, end-1, end+1 and drawn offsets (wide) is probed with request lengths 1, 2, 3, a drawn one and one reaching past the last write. Exhaustive sub-run: every sequence of <=3 writes with offset,length in 0..6 (thorough: also every sequence of <=4 writes whose starts and ends lie in 0..7, which realises every order pattern of 4 writes). Non-trivial: >=2 writes of which at least one pair overlaps, touches (end==start), nests or is identical; distinct by the normalised interval pattern (rank-compressed starts/ends in order of the writes, zero-length writes marked) plus domain.")

const idZeroLen = "C22-zero-length-write-marks-prefix-modified"

func TestMain(m *testing.M) {
	code := m.Run()
	stats.Flush()
	os.Exit(code)
}

// ---- case

type write struct {
	Off int64 `json:"off"`
	Len int64 `json:"len"`
}

type caseT struct {
	Domain string  `json:"domain"` // small | wide
	Writes []write `json:"writes"`
	// extra probe request lengths / offsets (in addition to the systematic ones)
	ReqLens []int64 `json:"req_lens,omitempty"`
	Probes  []int64 `json:"probes,omitempty"`
}

func (c caseT) String() string {
	b, _ := json.Marshal(c)
	return string(b)
}

// ---- reference model: the definition

func covered(ws []write, o int64) bool {
	for _, w := range ws {
		if w.Off <= o && o < w.Off+w.Len {
			return true
		}
	}
	return false
}

// changePoints returns the sorted offsets p at which covered(p) != covered(p-1) can possibly hold
// (covered() is piecewise constant between consecutive starts/ends of writes).
func changePoints(ws []write) []int64 {
	var ps []int64
	for _, w := range ws {
		if w.Len > 0 {
			ps = append(ps, w.Off, w.Off+w.Len)
		}
	}
	sort.Slice(ps, func(i, j int) bool { return ps[i] < ps[j] })
	return ps
}

// uniformOn tells whether covered() is constant on [o, o+c), c >= 1, and (if not) the first offset that differs
func uniformOn(ws []write, cps []int64, o, c int64) (bool, int64) {
	want := covered(ws, o)
	for _, p := range cps {
		if p > o && p < o+c && covered(ws, p) != want {
			return false, p
		}
	}
	return true, 0
}

// maxRun returns the length of the maximal uniform run starting at o, capped by n
func maxRun(ws []write, cps []int64, o, n int64) int64 {
	want := covered(ws, o)
	for _, p := range cps {
		if p > o && p < o+n && covered(ws, p) != want {
			return p - o
		}
	}
	return n
}

// ---- the check of one probe

func probe(tf *filetracker.TFile, ws []write, cps []int64, bitmap []bool, o, n int64, nonMax *int) error {
	c, mut := tf.VerifRangeToRead(o, n)
	want := covered(ws, o)
	if bitmap != nil && o < int64(len(bitmap)) && bitmap[o] != want {
		return fmt.Errorf("harness self-check: bitmap and definition disagree at %d", o)
	}
	if mut != want {
		return fmt.Errorf("offset %d (request len %d): tracker says fromMutable=%v contiguous=%d, but covered-by-some-write=%v", o, n, mut, c, want)
	}
	if c < 1 || c > n {
		return fmt.Errorf("offset %d (request len %d): contiguous=%d outside [1,%d] (fromMutable=%v)", o, n, c, n, mut)
	}
	if ok, p := uniformOn(ws, cps, o, c); !ok {
		return fmt.Errorf("offset %d (request len %d): contiguous=%d crosses the modified/unmodified boundary at %d (offset %d modified=%v, offset %d modified=%v)", o, n, c, p, o, want, p, !want)
	}
	if bitmap != nil {
		for x := o; x < o+c; x++ {
			b := false
			if x < int64(len(bitmap)) {
				b = bitmap[x]
			}
			if b != want {
				return fmt.Errorf("offset %d (request len %d): contiguous=%d crosses a boundary: bitmap[%d]=%v but bitmap[%d]=%v", o, n, c, o, want, x, b)
			}
		}
	}
	if c < maxRun(ws, cps, o, n) {
		*nonMax++
	}
	return nil
}

// ---- running a case

type outcome struct {
	probes  int
	nonMax  int
	maxKeys int
}

func sortedUnique(xs []int64) []int64 {
	sort.Slice(xs, func(i, j int) bool { return xs[i] < xs[j] })
	out := xs[:0]
	for i, x := range xs {
		if x < 0 {
			continue
		}
		if i > 0 && len(out) > 0 && out[len(out)-1] == x {
			continue
		}
		out = append(out, x)
	}
	return out
}

// checkState probes the tracker after the writes ws have been applied
func checkState(tf *filetracker.TFile, c caseT, ws []write, out *outcome) error {
	cps := changePoints(ws)
	var maxEnd int64
	for _, w := range ws {
		if e := w.Off + w.Len; e > maxEnd {
			maxEnd = e
		}
	}
	var offsets []int64
	var bitmap []bool
	if c.Domain == "small" {
		bitmap = make([]bool, maxEnd+3)
		for _, w := range ws {
			for x := w.Off; x < w.Off+w.Len; x++ {
				bitmap[x] = true
			}
		}
		for o := int64(0); o <= maxEnd+2; o++ {
			offsets = append(offsets, o)
		}
	} else {
		offsets = append(offsets, 0, 1)
		for _, w := range ws {
			e := w.Off + w.Len
			offsets = append(offsets, w.Off-1, w.Off, w.Off+1, e-1, e, e+1, w.Off+w.Len/2)
		}
		offsets = append(offsets, c.Probes...)
		offsets = sortedUnique(offsets)
	}
	lens := []int64{1, 2, 3, maxEnd + 5}
	lens = append(lens, c.ReqLens...)
	for _, o := range offsets {
		for _, n := range lens {
			if n < 1 {
				continue
			}
			out.probes++
			if err := probe(tf, ws, cps, bitmap, o, n, &out.nonMax); err != nil {
				return err
			}
		}
	}
	return nil
}

func runCase(c caseT) (outcome, error) { return runCaseOpt(c, false) }

// runCaseOpt applies the history; with onlyFinal the tracker is probed only after the last write
// (used by the exhaustive enumeration, which visits every prefix as a sequence of its own)
func runCaseOpt(c caseT, onlyFinal bool) (outcome, error) {
	var out outcome
	tf := filetracker.VerifNewTFile()
	// the empty history: everything comes from the base file
	if !onlyFinal || len(c.Writes) == 0 {
		if err := checkState(tf, c, nil, &out); err != nil {
			return out, fmt.Errorf("before any write: %v", err)
		}
	}
	for i, w := range c.Writes {
		before := tf.VerifMarkers()
		tf.VerifTrackWrite(w.Off, w.Len)
		after := tf.VerifMarkers()
		if k := strings.Count(after, ":"); k > out.maxKeys {
			out.maxKeys = k
		}
		if onlyFinal && i+1 < len(c.Writes) {
			continue
		}
		if err := checkState(tf, c, c.Writes[:i+1], &out); err != nil {
			return out, fmt.Errorf("after write #%d %+v of %v: %v; markers before the write [%s], after [%s]", i+1, w, c.Writes[:i+1], err, before, after)
		}
	}
	return out, nil
}

// ---- classification of a history (non-triviality and signature)

type relation struct {
	overlap, touch, nest, same, zero, disjointOnly bool
}

func relations(ws []write) relation {
	var r relation
	for _, w := range ws {
		if w.Len == 0 {
			r.zero = true
		}
	}
	for i := 0; i < len(ws); i++ {
		for j := i + 1; j < len(ws); j++ {
			a, b := ws[i], ws[j]
			if a.Len == 0 || b.Len == 0 {
				continue
			}
			as, ae, bs, be := a.Off, a.Off+a.Len, b.Off, b.Off+b.Len
			switch {
			case as == bs && ae == be:
				r.same = true
			case (as <= bs && be <= ae) || (bs <= as && ae <= be):
				r.nest = true
			case ae == bs || be == as:
				r.touch = true
			case as < be && bs < ae:
				r.overlap = true
			}
		}
	}
	return r
}

func (r relation) nonTrivial() bool { return r.overlap || r.touch || r.nest || r.same }

// pattern is the normalised interval pattern: starts and ends replaced by their rank among all
// distinct boundary values, in the order of the writes
func pattern(ws []write) string {
	var vals []int64
	for _, w := range ws {
		vals = append(vals, w.Off, w.Off+w.Len)
	}
	vals = sortedUnique(vals)
	rank := map[int64]int{}
	for i, v := range vals {
		rank[v] = i
	}
	var sb strings.Builder
	for _, w := range ws {
		fmt.Fprintf(&sb, "%d-%d;", rank[w.Off], rank[w.Off+w.Len])
	}
	return sb.String()
}

func (c caseT) sig() string { return c.Domain + ":" + pattern(c.Writes) }

func record(c caseT, out outcome) {
	r := relations(c.Writes)
	stats.Case(c.sig(), len(c.Writes) >= 2 && r.nonTrivial(), func() interface{} { return c })
	stats.Count("domain_"+c.Domain, 1)
	stats.Count(fmt.Sprintf("writes_%d", len(c.Writes)), 1)
	stats.Count("probes", out.probes)
	stats.Count("probes_nonmaximal_range", out.nonMax)
	stats.Count(fmt.Sprintf("%s_max_markers_%02d", c.Domain, out.maxKeys), 1)
	for name, b := range map[string]bool{"rel_overlap": r.overlap, "rel_touch": r.touch, "rel_nest": r.nest, "rel_same": r.same, "has_zero_length": r.zero} {
		if b {
			stats.Count(name, 1)
		}
	}
}

// ---- generators

// All writes are drawn as slice elements (rapid.SliceOfN) so that the shrinker can drop any write
// of a failing history, not only the last ones.

func genSmallWrite(maxOff, maxLen, longLen int64, zeroOK bool) *rapid.Generator[write] {
	return rapid.Custom(func(t *rapid.T) write {
		w := write{Off: rapid.Int64Range(0, maxOff).Draw(t, "off")}
		if rapid.IntRange(0, 9).Draw(t, "zero") == 0 {
			if zeroOK {
				return w // zero-length class
			}
			stats.Count("excluded_"+idZeroLen, 1)
		}
		if longLen > 0 && rapid.IntRange(0, 4).Draw(t, "long") == 0 {
			w.Len = rapid.Int64Range(1, longLen).Draw(t, "len") // a write that can swallow several regions
			return w
		}
		w.Len = rapid.Int64Range(1, maxLen).Draw(t, "len")
		return w
	})
}

// drawMinWrites: single-write histories are trivial (and enumerated exhaustively), so only one
// history in ten may have fewer than two writes; the draw shrinks towards allowing one write
func drawMinWrites(t *rapid.T) int {
	if rapid.IntRange(0, 9).Draw(t, "single_ok") == 0 {
		return 1
	}
	return 2
}

func drawSmall(t *rapid.T) caseT {
	c := caseT{Domain: "small"}
	maxOff, maxLen, longLen := int64(12), int64(8), int64(0) // dense: regions merge quickly
	if rapid.IntRange(0, 2).Draw(t, "sparse") == 0 {
		maxOff, maxLen, longLen = 30, 3, 30 // sparse: several regions coexist; 1 write in 5 is long
	}
	c.Writes = rapid.SliceOfN(genSmallWrite(maxOff, maxLen, longLen, !hx.Known(idZeroLen)), drawMinWrites(t), 8).Draw(t, "writes")
	c.ReqLens = []int64{rapid.Int64Range(1, 40).Draw(t, "reqlen")}
	return c
}

var carryPoints = []int64{0, 255, 256, 65535, 65536, 1 << 24, 1 << 32, 1 << 40}

const wideMaxOff = int64(1000000)

// wideSpec is a write of the wide domain before it is resolved against the earlier writes
type wideSpec struct {
	sel, rel   int
	relEnd     bool
	delta, off int64
	length     int64
}

func genWideSpec() *rapid.Generator[wideSpec] {
	return rapid.Custom(func(t *rapid.T) wideSpec {
		sp := wideSpec{sel: rapid.IntRange(0, 9).Draw(t, "offsel")}
		switch {
		case sp.sel <= 2: // relative to an earlier write's start or end (first write: absolute)
			sp.rel = rapid.IntRange(0, 7).Draw(t, "rel")
			sp.relEnd = rapid.Bool().Draw(t, "relend")
			sp.delta = rapid.Int64Range(-300, 300).Draw(t, "reld")
			sp.off = rapid.Int64Range(0, wideMaxOff).Draw(t, "off")
		case sp.sel <= 4: // around a point where the big-endian key carries into the next byte
			sp.off = rapid.SampledFrom(carryPoints).Draw(t, "carry") + rapid.Int64Range(-300, 10).Draw(t, "carryd")
		default:
			sp.off = rapid.Int64Range(0, wideMaxOff).Draw(t, "off")
		}
		if rapid.IntRange(0, 5).Draw(t, "biglen") == 0 {
			sp.length = rapid.Int64Range(1, 70000).Draw(t, "len")
		} else {
			sp.length = rapid.Int64Range(1, 300).Draw(t, "len")
		}
		return sp
	})
}

func drawWide(t *rapid.T) caseT {
	c := caseT{Domain: "wide"}
	specs := rapid.SliceOfN(genWideSpec(), drawMinWrites(t), 8).Draw(t, "writes")
	for i, sp := range specs {
		w := write{Off: sp.off, Len: sp.length}
		if sp.sel <= 2 && i > 0 {
			p := c.Writes[sp.rel%i]
			w.Off = p.Off + sp.delta
			if sp.relEnd {
				w.Off += p.Len
			}
		}
		if w.Off < 0 {
			w.Off = 0
		}
		c.Writes = append(c.Writes, w)
	}
	c.ReqLens = []int64{rapid.Int64Range(1, 100000).Draw(t, "reqlen")}
	c.Probes = rapid.SliceOfN(rapid.Int64Range(0, wideMaxOff+70000), 0, 4).Draw(t, "probes")
	return c
}

type fataler interface {
	Fatalf(string, ...interface{})
}

// check executes one case under the watchdog.  hx.Journal is deliberately not called per case: the
// tracker is pure computation over an immutable radix tree behind one Lock/defer-Unlock pair, panics
// are recovered by hx.Guard, so there is no process-killing failure mode to leave a journal for, and
// a journal write per case (a file create+write on disk) tripled the run time (measured 27 s -> 82 s
// for 150 000 cases).
func check(t fataler, c caseT) outcome {
	var out outcome
	err, hung, panicked := hx.Guard(20*time.Second, func() error {
		var e error
		out, e = runCase(c)
		return e
	})
	switch {
	case hung:
		t.Fatalf("HANG: %v; case=%v", err, c)
	case panicked:
		t.Fatalf("PANIC: %v; case=%v", err, c)
	case err != nil:
		t.Fatalf("%v; case=%v", err, c)
	}
	return out
}

// TestPropSmall: the quantifier of the property (<= 8 writes, offsets and lengths in a small range)
func TestPropSmall(t *testing.T) {
	rapid.Check(t, func(t *rapid.T) {
		c := drawSmall(t)
		out := check(t, c)
		record(c, out)
	})
}

// TestPropWide: "random beyond": large offsets, multi-byte radix keys
func TestPropWide(t *testing.T) {
	rapid.Check(t, func(t *rapid.T) {
		c := drawWide(t)
		out := check(t, c)
		record(c, out)
	})
}

// ---- exhaustive enumeration for tiny bounds

// enumerate calls fn for every sequence of exactly k writes (k = 1..maxWrites) drawn from the
// candidate list, restricted to this shard (sequence index modulo shards).
func enumerate(cands []write, maxWrites int, shard, shards int, fn func(ws []write) bool) {
	idx := 0
	for k := 1; k <= maxWrites; k++ {
		pos := make([]int, k)
		ws := make([]write, k)
		for {
			if idx%shards == shard {
				for i, p := range pos {
					ws[i] = cands[p]
				}
				if !fn(ws) {
					return
				}
			}
			idx++
			i := k - 1
			for i >= 0 {
				pos[i]++
				if pos[i] < len(cands) {
					break
				}
				pos[i] = 0
				i--
			}
			if i < 0 {
				break
			}
		}
	}
}

// safeRun is runCaseOpt with panics turned into errors (no watchdog goroutine: the enumeration
// runs millions of cases; the tracker has no loop other than the walk over a finite tree)
func safeRun(c caseT, onlyFinal bool) (out outcome, err error) {
	defer func() {
		if r := recover(); r != nil {
			err = fmt.Errorf("PANIC: %v", r)
		}
	}()
	return runCaseOpt(c, onlyFinal)
}

func runExhaustive(t *testing.T, label string, cands []write, maxWrites int) {
	shard, shards := hx.EnvInt("VERIF_SHARD", 0), hx.EnvInt("VERIF_SHARDS", 1)
	if shards < 1 || shard < 0 || shard >= shards {
		shard, shards = 0, 1
	}
	if hx.Known(idZeroLen) {
		var keep []write
		for _, w := range cands {
			if w.Len == 0 {
				stats.Count("excluded_"+idZeroLen, 1)
				continue
			}
			keep = append(keep, w)
		}
		cands = keep
	}
	n := 0
	enumerate(cands, maxWrites, shard, shards, func(ws []write) bool {
		c := caseT{Domain: "small", Writes: append([]write(nil), ws...)}
		out, err := safeRun(c, true)
		if err != nil {
			t.Errorf("%s: %v; case=%v", label, err, c)
			return false
		}
		record(c, out)
		n++
		return true
	})
	stats.Count("exhaustive_"+label+"_sequences", n)
	if !t.Failed() {
		stats.SetExhaustive(true)
		stats.Note("exhaustive_"+label, fmt.Sprintf("every sequence of 1..%d writes over %d candidate writes (shard %d of %d: %d sequences), probed after the last write (every prefix is a sequence of its own)", maxWrites, len(cands), shard, shards, n))
	}
}

// TestExhaustiveTiny: every sequence of <= 3 writes with offset and length in 0..6 (DESIGN G)
func TestExhaustiveTiny(t *testing.T) {
	var cands []write
	for o := int64(0); o <= 6; o++ {
		for l := int64(0); l <= 6; l++ {
			cands = append(cands, write{o, l})
		}
	}
	runExhaustive(t, "tiny3", cands, 3)
}

// TestExhaustiveDeep (thorough tier): every sequence of <= 4 writes whose starts and ends lie in
// 0..7.  Only the relative order of the 2k starts/ends of k writes can matter to a comparison-based
// tracker, and 8 values realise every order pattern of 4 writes, zero-length ones included.
func TestExhaustiveDeep(t *testing.T) {
	if !hx.Thorough() {
		t.Skip("thorough tier only")
	}
	var cands []write
	for s := int64(0); s <= 7; s++ {
		for e := s; e <= 7; e++ {
			cands = append(cands, write{s, e - s})
		}
	}
	runExhaustive(t, "deep4", cands, 4)
}

// ---- pinned regression cases (plain Go, no library)

var regress = []struct {
	name string
	c    caseT
}{
	// the five ways a write can begin before an existing region, and the touching write
	{"touch_after", caseT{Domain: "small", Writes: []write{{0, 1}, {1, 1}}}},
	{"disjoint_before", caseT{Domain: "small", Writes: []write{{2, 1}, {0, 1}}}},
	{"touch_before", caseT{Domain: "small", Writes: []write{{2, 1}, {1, 1}}}},
	{"overlap_left_same_end", caseT{Domain: "small", Writes: []write{{2, 1}, {1, 2}}}},
	{"cover", caseT{Domain: "small", Writes: []write{{2, 1}, {1, 3}}}},
	{"overlap_left", caseT{Domain: "small", Writes: []write{{2, 2}, {1, 2}}}},
	{"bridge_two_regions_exactly", caseT{Domain: "small", Writes: []write{{0, 2}, {4, 2}, {2, 2}}}},
	{"bridge_three_regions", caseT{Domain: "small", Writes: []write{{0, 1}, {2, 1}, {4, 1}, {1, 3}}}},
	// states with two end markers in a row (reachable only through a wrong merge) must not survive
	{"touch_chain", caseT{Domain: "small", Writes: []write{{0, 1}, {1, 1}, {2, 1}}}},
	{"touch_before_then_after", caseT{Domain: "small", Writes: []write{{1, 1}, {0, 1}, {2, 1}}}},
	{"shrink_inside_then_touch", caseT{Domain: "small", Writes: []write{{0, 2}, {0, 1}, {2, 1}}}},
	{"write_between", caseT{Domain: "small", Writes: []write{{0, 1}, {6, 1}, {3, 1}}}},
	{"multi_byte_keys", caseT{Domain: "wide", Writes: []write{{256, 10}, {255, 1}, {65535, 2}, {0, 3}}, ReqLens: []int64{70000}}},
	// the sequence of datamon's own TestTrackWrite
	{"upstream_sequence", caseT{Domain: "small", Writes: []write{{0, 1}, {0, 10}, {13, 10}, {0, 22}}, ReqLens: []int64{100}}},
}

func TestRegress(t *testing.T) {
	for _, r := range regress {
		r := r
		t.Run(r.name, func(t *testing.T) {
			out := check(t, r.c)
			record(r.c, out)
		})
	}
}

// TestRegressZeroLength: a write of no bytes covers no offset.  Pinned apart from TestRegress so
// that it can be told from TestKnownZeroLength, which handles the same input when it is listed.
func TestRegressZeroLength(t *testing.T) {
	if hx.Listed(idZeroLen) {
		t.Skip("listed as known: see TestKnownZeroLength")
	}
	for _, c := range zeroLenCases {
		out := check(t, c)
		record(c, out)
	}
}

var zeroLenCases = []caseT{
	{Domain: "small", Writes: []write{{1, 0}}},
	{Domain: "small", Writes: []write{{0, 1}, {2, 0}}},
	{Domain: "small", Writes: []write{{2, 2}, {0, 0}, {2, 0}, {3, 0}, {4, 0}, {6, 0}}},
}

// TestKnownZeroLength: pinned case of the finding C22-zero-length-write-marks-prefix-modified
func TestKnownZeroLength(t *testing.T) {
	c := zeroLenCases[0]
	_, err := runCase(c)
	if err == nil {
		return // does not reproduce (repaired)
	}
	what := fmt.Sprintf("trackWrite(offset, 0) on a spot outside every written region leaves a lone end marker, so every offset before it is reported as modified: %v", err)
	if hx.Listed(idZeroLen) {
		stats.KnownFinding(idZeroLen, what)
		return
	}
	t.Fatalf("%s", what)
}

// TestReplayJournal re-executes one case given as a JSON document (the caseT printed in every failure
// message) in the file named by $VERIF_REPLAY_JOURNAL
func TestReplayJournal(t *testing.T) {
	p := os.Getenv("VERIF_REPLAY_JOURNAL")
	if p == "" {
		t.Skip("no journal given")
	}
	b, err := os.ReadFile(p)
	if err != nil {
		t.Fatalf("%v", err)
	}
	var c caseT
	if err := json.Unmarshal(b, &c); err != nil {
		t.Fatalf("journal %s: %v", p, err)
	}
	if c.Domain == "" {
		c.Domain = "small"
	}
	check(t, c)
}

// ---- native fuzz target (thorough tier only): bytes -> history, same oracle

func decodeFuzz(data []byte) caseT {
	c := caseT{Domain: "wide"}
	if len(data) > 0 && data[0]&1 == 0 {
		c.Domain = "small"
	}
	for i := 1; i+1 < len(data) && len(c.Writes) < 8; i += 2 {
		var w write
		if c.Domain == "small" {
			w = write{int64(data[i] % 31), int64(data[i+1] % 9)}
		} else {
			// offset = 2^(hi nibble * 3) - 1 + lo nibble .. spreads over the byte-carry points
			w = write{(int64(1) << (3 * uint(data[i]>>4))) - 1 + int64(data[i]&15), int64(data[i+1]) * int64(1+data[i+1]%3*100)}
		}
		c.Writes = append(c.Writes, w)
	}
	return c
}

func FuzzHistory(f *testing.F) {
	f.Add([]byte{0, 0, 1, 1, 1})
	f.Add([]byte{0, 2, 1, 0, 1})
	f.Add([]byte{0, 2, 1, 1, 3, 5, 0})
	f.Add([]byte{1, 0x30, 10, 0x2f, 1, 0x50, 2})
	for _, r := range regress {
		if r.c.Domain != "small" {
			continue
		}
		b := []byte{0}
		for _, w := range r.c.Writes {
			b = append(b, byte(w.Off), byte(w.Len))
		}
		f.Add(b)
	}
	f.Fuzz(func(t *testing.T, data []byte) {
		c := decodeFuzz(data)
		if hx.Known(idZeroLen) {
			for _, w := range c.Writes {
				if w.Len == 0 {
					return
				}
			}
		}
		if len(c.Writes) == 0 {
			return
		}
		check(t, c) // no statistics: the driver reports the fuzzer's own exec count
	})
}
