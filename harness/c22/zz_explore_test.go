package c22

import (
	"fmt"
	"testing"
)

func TestZZExplore(t *testing.T) {
	classes := map[string]int{}
	first := map[string]string{}
	total, bad := 0, 0
	for o1 := int64(0); o1 <= 6; o1++ {
		for l1 := int64(1); l1 <= 4; l1++ {
			for o2 := int64(0); o2 <= 8; o2++ {
				for l2 := int64(0); l2 <= 8; l2++ {
					c := caseT{Domain: "small", Writes: []write{{o1, l1}, {o2, l2}}}
					total++
					_, err := runCase(c)
					if err != nil {
						bad++
						s1, e1, s2, e2 := o1, o1+l1, o2, o2+l2
						cmp := func(a, b int64) string {
							switch {
							case a < b:
								return "<"
							case a == b:
								return "="
							}
							return ">"
						}
						k := fmt.Sprintf("s2%ss1 s2%se1 e2%ss1 e2%se1 zero=%v", cmp(s2, s1), cmp(s2, e1), cmp(e2, s1), cmp(e2, e1), l2 == 0)
						classes[k]++
						if first[k] == "" {
							first[k] = err.Error()
						}
					}
				}
			}
		}
	}
	fmt.Printf("total %d bad %d\n", total, bad)
	for k, n := range classes {
		fmt.Printf("%s: %d  e.g. %s\n\n", k, n, first[k])
	}
}
