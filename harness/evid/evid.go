// Package evid collects what a check run actually covered: executed cases, the set of distinct
// non-trivial case signatures, samples, counters, violations and known-finding reproductions.
// The test binary writes it as JSON to the file named by $VERIF_STATS; the python driver wraps
// it into /verif/evidence/<ID>.json without inventing numbers.
package evid

import (
	"encoding/json"
	"hash/fnv"
	"os"
	"sort"
	"sync"
)

// Stats is the per-process statistics collector
type Stats struct {
	mu          sync.Mutex
	Property    string          `json:"property"`
	Evaluations int             `json:"evaluations"`
	Discarded   int             `json:"discarded"`
	sigs        map[uint64]bool // distinct non-trivial signatures
	Sigs        []uint64        `json:"nontrivial_sigs"`
	Counters    map[string]int  `json:"counters"`
	Samples     []interface{}   `json:"samples"`
	sampleEvery int
	ntSeen      int
	Violations  []string          `json:"violations"`
	Known       []KnownHit        `json:"known"`
	Rule        string            `json:"rule"`
	Notes       map[string]string `json:"notes,omitempty"`
	Exhaustive  bool              `json:"exhaustive,omitempty"`
}

// KnownHit records a known finding that still reproduces
type KnownHit struct {
	ID   string `json:"id"`
	What string `json:"what"`
}

// New creates the collector for a property; rule describes generation and non-triviality
func New(property, rule string) *Stats {
	return &Stats{Property: property, Rule: rule, sigs: map[uint64]bool{}, Counters: map[string]int{}, Notes: map[string]string{}}
}

func h(s string) uint64 {
	f := fnv.New64a()
	_, _ = f.Write([]byte(s))
	return f.Sum64()
}

// Case records one executed case: its canonical signature, whether it is non-trivial by the
// property's rule and (lazily) a printable sample.
func (s *Stats) Case(sig string, nontrivial bool, sample func() interface{}) {
	s.mu.Lock()
	defer s.mu.Unlock()
	s.Evaluations++
	if !nontrivial {
		return
	}
	k := h(sig)
	fresh := !s.sigs[k]
	s.sigs[k] = true
	s.ntSeen++
	// keep: the first 2 non-trivial cases, then a thinning reservoir of at most 6
	if sample != nil && fresh {
		n := len(s.sigs)
		if n <= 2 || (len(s.Samples) < 6 && n%97 == 0) || n == 1000 {
			s.Samples = append(s.Samples, sample())
		}
	}
}

// Discard counts a generated case that was rejected before execution
func (s *Stats) Discard() {
	s.mu.Lock()
	s.Discarded++
	s.mu.Unlock()
}

// Count adds to a named counter (class distribution)
func (s *Stats) Count(name string, n int) {
	s.mu.Lock()
	s.Counters[name] += n
	s.mu.Unlock()
}

// Note stores a free text note
func (s *Stats) Note(k, v string) {
	s.mu.Lock()
	s.Notes[k] = v
	s.mu.Unlock()
}

// Violation records a violation (the test also fails)
func (s *Stats) Violation(what string) {
	s.mu.Lock()
	s.Violations = append(s.Violations, what)
	s.mu.Unlock()
}

// KnownFinding records that a listed finding still reproduces
func (s *Stats) KnownFinding(id, what string) {
	s.mu.Lock()
	defer s.mu.Unlock()
	for _, k := range s.Known {
		if k.ID == id {
			return
		}
	}
	s.Known = append(s.Known, KnownHit{ID: id, What: what})
}

// SetExhaustive flags that a finite space was enumerated completely
func (s *Stats) SetExhaustive(b bool) {
	s.mu.Lock()
	s.Exhaustive = b
	s.mu.Unlock()
}

// Flush writes the statistics to $VERIF_STATS (no-op when unset)
func (s *Stats) Flush() {
	path := os.Getenv("VERIF_STATS")
	if path == "" {
		return
	}
	s.mu.Lock()
	defer s.mu.Unlock()
	s.Sigs = s.Sigs[:0]
	for k := range s.sigs {
		s.Sigs = append(s.Sigs, k)
	}
	sort.Slice(s.Sigs, func(i, j int) bool { return s.Sigs[i] < s.Sigs[j] })
	if s.Samples == nil {
		s.Samples = []interface{}{}
	}
	if s.Violations == nil {
		s.Violations = []string{}
	}
	if s.Known == nil {
		s.Known = []KnownHit{}
	}
	b, err := json.Marshal(s)
	if err != nil {
		return
	}
	tmp := path + ".tmp"
	if err := os.WriteFile(tmp, b, 0o644); err == nil {
		_ = os.Rename(tmp, path)
	}
}
