// Package c19 checks property C19: "the write-ahead log returns what was appended, in token order".
//
// Everything runs the REAL pkg/wal code on two memstore backends (token generator store with a
// logical clock, WAL entry store whose listing honours a start key).  Oracles are a reference
// model kept by the harness: the list of (token, payload) pairs whose Put landed, ordered by
// token, filtered by the documented 20 minute look-back window.
package c19

import (
	"context"
	"encoding/json"
	"fmt"
	"os"
	"runtime"
	"sort"
	"strings"
	"sync"
	"sync/atomic"
	"testing"
	"time"

	"github.com/oneconcern/datamon/pkg/model"
	"github.com/oneconcern/datamon/pkg/storage"
	"github.com/oneconcern/datamon/pkg/wal"
	"github.com/segmentio/ksuid"
	"pgregory.net/rapid"

	"verifharness/evid"
	"verifharness/hx"
	"verifharness/memstore"
)

var stats = evid.New("C19", "rapid: 1-8 appender processes (own wal.New each) with 1-60 appends in total, every store call of every actor a scheduler yield point (interleaving drawn by rapid), logical clock advanced before each append by a drawn amount (0 / sub-second / 1-3 s / rarely 10-60 min so that the look-back window cuts the log); payload classes empty / line / multi-line / >1KiB (to 8 KiB) / 1 KiB edges / YAML-looking / non-ASCII / binary; 0-2 concurrent lister processes plus 3-8 quiescent listings from issued tokens and synthetic KSUIDs (relative offsets incl. +-1200 s +-1, before, after; zero/max/random payload), max in {1,2,5,N-1,N,N+1,1000,1001,uniform}.  Extra properties: log of 990-1040 entries (1000 clamp), free-running goroutines (race variant).  Non-trivial: >= 2 appends issued in one clock second AND a payload that is multi-line or > 1 KiB; distinct by (appenders, appends bucket, same-second class, payload class set, max class set, window/truncation/partial flags).")

func TestMain(m *testing.M) {
	code := m.Run()
	// ListEntries leaves two goroutines behind whenever it has nothing to return (observation
	// outside the property, see NOTES.md): report how many are parked at exit
	stats.Note("goroutines_at_exit", fmt.Sprint(runtime.NumGoroutine()))
	stats.Flush()
	os.Exit(code)
}

// lookBackSec is the documented look-back window of wal.ListTokens: twice the expiration
// duration of 10 minutes ("Go back in time to include the keys that might have been written
// before the token was generated").
const lookBackSec = 1200

// maxPerList is the documented cap on one listing (wal.maxEntriesPerList).
const maxPerList = 1000

var ctx = context.Background()

// ---------------------------------------------------------------------------------------------
// payloads

type payloadSpec struct {
	Class string `json:"class"`
	Seed  uint64 `json:"seed"`
	Size  int    `json:"size,omitempty"`
}

var yamlLooking = []string{
	"token: x\npayload: y",
	"token: x\npayload: y\n",
	"payload: only",
	"token: 1VlnyKsNjfa2t4JUvAgHsTMeTWo",
	"- a",
	"- a\n- b\n",
	": ",
	":",
	"a: b\na: c",
	"---\n",
	"--- |\n  x\n...\n",
	"{a: b}",
	"[1, 2",
	"~",
	"null",
	"!!binary AA==",
	"key: 'unterminated",
	"\t- tab",
	"# comment only",
	"&a *a",
	"%YAML 1.2",
	"payload: |\n  line1\n  line2\n",
	"token: \"\"\npayload: \"\"\n",
	"? complex\n: value",
	" leading space",
	"trailing space ",
	"'single'",
	"\"double\"",
}

const nonASCII = "h\u00e9llo w\u00f6rld \u2713 \u65e5\u672c\u8a9e \U0001F642 \u2028 \u0085 \ufeff \u0105\u0119\u015b \u038f"

func textOf(seed uint64, n int, newlines bool) string {
	raw := hx.Expand(seed, n, 0, 0)
	const alpha = "abcdefghijklmnopqrstuvwxyzABCDEFGHIJKLMNOPQRSTUVWXYZ0123456789 :-#{}[],&*!|>'\"%@`"
	out := make([]byte, n)
	for i, b := range raw {
		out[i] = alpha[int(b)%len(alpha)]
		if newlines && b%23 == 0 {
			out[i] = '\n'
		}
		if newlines && b == 7 {
			out[i] = '\r'
		}
	}
	return string(out)
}

// String materialises the payload (a pure function of the spec)
func (p payloadSpec) String() string {
	switch p.Class {
	case "empty":
		return ""
	case "line":
		return textOf(p.Seed, p.Size, false)
	case "multiline":
		s := textOf(p.Seed, p.Size, true)
		// guarantee at least one line break
		return s[:len(s)/2] + "\n" + s[len(s)/2:]
	case "big", "edge1k":
		return textOf(p.Seed, p.Size, p.Seed%2 == 0)
	case "yaml":
		return yamlLooking[int(p.Seed%uint64(len(yamlLooking)))]
	case "bigyaml":
		var b strings.Builder
		b.WriteString("token: 0000000000000000000000000000\npayload: |\n")
		for b.Len() < p.Size {
			b.WriteString("  - " + textOf(p.Seed+uint64(b.Len()), 40, false) + "\n")
		}
		return b.String()
	case "nonascii":
		n := int(p.Seed % 5)
		return strings.Repeat(nonASCII, n+1)
	case "binary":
		return string(hx.Expand(p.Seed, p.Size, 0, 0))
	}
	panic("unknown payload class " + p.Class)
}

func (p payloadSpec) multiOrBig() bool {
	s := p.String()
	return len(s) > 1024 || strings.Contains(s, "\n")
}

func drawPayload(t *rapid.T, label string) payloadSpec {
	cls := rapid.SampledFrom([]string{"empty", "line", "line", "multiline", "multiline", "big", "big", "edge1k", "yaml", "yaml", "bigyaml", "nonascii", "binary"}).Draw(t, label+"_class")
	p := payloadSpec{Class: cls, Seed: rapid.Uint64().Draw(t, label+"_seed")}
	switch cls {
	case "line":
		p.Size = rapid.IntRange(1, 80).Draw(t, label+"_size")
	case "multiline":
		p.Size = rapid.IntRange(2, 400).Draw(t, label+"_size")
	case "big", "bigyaml":
		p.Size = rapid.IntRange(1025, 8192).Draw(t, label+"_size")
	case "edge1k":
		p.Size = rapid.SampledFrom([]int{1023, 1024, 1025, 2047, 2048, 2049, 3072, 4096, 8192}).Draw(t, label+"_size")
	case "binary":
		p.Size = rapid.IntRange(1, 2000).Draw(t, label+"_size")
	}
	return p
}

// ---------------------------------------------------------------------------------------------
// listings

type listSpec struct {
	Kind  string `json:"kind"` // issued | rel | before | after
	Ref   int    `json:"ref"`  // index into the tokens issued so far (modulo)
	DSec  int    `json:"dsec,omitempty"`
	Pay   string `json:"pay,omitempty"` // payload of a synthetic token: zero | max | rand
	PSeed uint64 `json:"pseed,omitempty"`
	Max   int    `json:"max"`
}

func drawMax(t *rapid.T, total int, label string) int {
	m := rapid.SampledFrom([]int{1, 2, 5, total - 1, total, total + 1, 1000, 1001, 0, 0}).Draw(t, label+"_max")
	if m == 0 {
		m = rapid.IntRange(1, total+2).Draw(t, label+"_maxu")
	}
	if m < 1 {
		m = 1
	}
	return m
}

func drawList(t *rapid.T, total int, label string) listSpec {
	l := listSpec{
		Kind: rapid.SampledFrom([]string{"issued", "issued", "issued", "rel", "rel", "rel", "before", "after"}).Draw(t, label+"_kind"),
		Ref:  rapid.IntRange(0, 63).Draw(t, label+"_ref"),
		Max:  drawMax(t, total, label),
	}
	if l.Kind != "issued" {
		l.Pay = rapid.SampledFrom([]string{"zero", "max", "rand"}).Draw(t, label+"_pay")
		if l.Pay == "rand" {
			l.PSeed = rapid.Uint64().Draw(t, label+"_pseed")
		}
	}
	switch l.Kind {
	case "rel":
		l.DSec = rapid.SampledFrom([]int{-1201, -1200, -1199, -2, -1, 0, 0, 1, 2, 3, 1198, 1199, 1200, 1201, 1202, 2400, 3600, 1 << 20}).Draw(t, label+"_dsec")
		if l.DSec == 1<<20 {
			l.DSec = rapid.IntRange(-1500, 1500).Draw(t, label+"_dsecu")
		}
	case "before":
		l.DSec = rapid.SampledFrom([]int{1, 2, 60, 1199, 1200, 1201, 3600}).Draw(t, label+"_dsec")
	case "after":
		l.DSec = rapid.SampledFrom([]int{0, 0, 1, 2, 60, 600, 1199, 1199, 1200, 1200, 1201, 3600}).Draw(t, label+"_dsec")
	}
	return l
}

func synth(at time.Time, pay string, seed uint64) string {
	p := make([]byte, 16)
	switch pay {
	case "max":
		for i := range p {
			p[i] = 0xff
		}
	case "rand":
		copy(p, hx.Expand(seed, 16, 0, 0))
	}
	k, err := ksuid.FromParts(at, p)
	if err != nil {
		panic(err)
	}
	return k.String()
}

func tokSec(tok string) (int64, error) {
	k, err := ksuid.Parse(tok)
	if err != nil {
		return 0, err
	}
	return k.Time().Unix(), nil
}

// resolve turns a listing spec into a from-token given the tokens issued so far (any order)
// and the current store time (used when nothing was issued yet).
func (l listSpec) resolve(issued []string, now time.Time) string {
	if len(issued) == 0 {
		d := l.DSec
		if l.Kind == "before" {
			d = -d
		}
		return synth(now.Add(time.Duration(d)*time.Second), l.Pay, l.PSeed)
	}
	sorted := append([]string(nil), issued...)
	sort.Strings(sorted)
	ref := issued[l.Ref%len(issued)]
	at := func(tok string) time.Time {
		s, err := tokSec(tok)
		if err != nil {
			return now
		}
		return time.Unix(s, 0)
	}
	switch l.Kind {
	case "issued":
		return ref
	case "rel":
		return synth(at(ref).Add(time.Duration(l.DSec)*time.Second), l.Pay, l.PSeed)
	case "before":
		return synth(at(sorted[0]).Add(-time.Duration(l.DSec)*time.Second), l.Pay, l.PSeed)
	case "after":
		return synth(at(sorted[len(sorted)-1]).Add(time.Duration(l.DSec)*time.Second), l.Pay, l.PSeed)
	}
	panic("unknown list kind " + l.Kind)
}

func maxClass(m, total int) string {
	switch {
	case m >= 1000:
		return "cap"
	case m == 1:
		return "one"
	case m >= total:
		return "ge_n"
	case m == total-1:
		return "n-1"
	}
	return "small"
}

// ---------------------------------------------------------------------------------------------
// reference model

type entry struct {
	Token   string
	Payload string
}

type listObs struct {
	what     string
	from     string
	max      int
	visible  []entry // the log at the listing's linearisation point (any order)
	got      []model.Entry
	next     string
	err      error
	excluded int // model entries older than the window (evidence)
	trunc    bool
	partial  bool // a concurrent listing that saw a log still growing afterwards
	skipped  bool // a concurrent listing not executed because the log was still empty

	tokensOnly bool // observed through ListTokens (known finding mode): payloads not compared
}

// expected computes the reference answer
func expected(visible []entry, from string, max int) (exp []entry, next string, excluded int, err error) {
	fs, err := tokSec(from)
	if err != nil {
		return nil, "", 0, err
	}
	cut := fs - lookBackSec
	var in []entry
	for _, e := range visible {
		s, err := tokSec(e.Token)
		if err != nil {
			return nil, "", 0, fmt.Errorf("model holds an unparsable token %q: %v", e.Token, err)
		}
		if s >= cut {
			in = append(in, e)
		} else {
			excluded++
		}
	}
	sort.Slice(in, func(i, j int) bool { return in[i].Token < in[j].Token })
	lim := max
	if lim > maxPerList {
		lim = maxPerList
	}
	if len(in) > lim {
		return in[:lim], in[lim].Token, excluded, nil
	}
	return in, "", excluded, nil
}

func short(s string) string {
	if len(s) > 60 {
		return fmt.Sprintf("%q...(%d bytes)", s[:60], len(s))
	}
	return fmt.Sprintf("%q", s)
}

// verifyExact compares a quiescent (or linearised) listing with the reference answer
func (o *listObs) verifyExact() error {
	if o.err != nil {
		return fmt.Errorf("%s: ListEntries(from=%s,max=%d) failed: %v", o.what, o.from, o.max, o.err)
	}
	exp, next, excluded, err := expected(o.visible, o.from, o.max)
	if err != nil {
		return fmt.Errorf("%s: %v", o.what, err)
	}
	o.excluded = excluded
	o.trunc = next != ""
	if len(o.got) != len(exp) {
		return fmt.Errorf("%s: ListEntries(from=%s,max=%d) returned %d entries, want %d (log has %d, %d older than the look-back window); got tokens %v want %v",
			o.what, o.from, o.max, len(o.got), len(exp), len(o.visible), excluded, gotTokens(o.got), modelTokens(exp))
	}
	for i := range exp {
		if o.got[i].Token != exp[i].Token {
			return fmt.Errorf("%s: ListEntries(from=%s,max=%d) entry %d has token %q, want %q (token order / no duplicates); got %v want %v",
				o.what, o.from, o.max, i, o.got[i].Token, exp[i].Token, gotTokens(o.got), modelTokens(exp))
		}
		if !o.tokensOnly && o.got[i].Payload != exp[i].Payload {
			return fmt.Errorf("%s: ListEntries(from=%s,max=%d) entry %d (token %s) payload changed: got %s want %s",
				o.what, o.from, o.max, i, exp[i].Token, short(o.got[i].Payload), short(exp[i].Payload))
		}
	}
	// next: documented as the way to learn that more can be listed. Over a start-key store a
	// continuation must not skip anything: last returned < next <= first entry not returned.
	if next == "" && o.next != "" {
		return fmt.Errorf("%s: ListEntries(from=%s,max=%d) returned everything but next=%q", o.what, o.from, o.max, o.next)
	}
	if next != "" {
		if o.next == "" {
			return fmt.Errorf("%s: ListEntries(from=%s,max=%d) stopped at the maximum with %s still to list but next is empty", o.what, o.from, o.max, next)
		}
		if o.next > next || (len(exp) > 0 && o.next <= exp[len(exp)-1].Token) {
			return fmt.Errorf("%s: ListEntries(from=%s,max=%d) next=%q would skip or repeat: last returned %q, first not returned %q", o.what, o.from, o.max, o.next, exp[len(exp)-1].Token, next)
		}
	}
	return nil
}

func gotTokens(es []model.Entry) []string {
	out := make([]string, len(es))
	for i, e := range es {
		out[i] = e.Token
	}
	return out
}

func modelTokens(es []entry) []string {
	out := make([]string, len(es))
	for i, e := range es {
		out[i] = e.Token
	}
	return out
}

// ---------------------------------------------------------------------------------------------
// append records and their oracle

type addRec struct {
	actor   string
	payload string
	token   string
	err     error
	lo, hi  time.Time // store time when the append began (or, tighter, the generator's update time right after its own Touch) / generator update time at its own GetAttr (or store time when the append returned)
	ok      bool      // lo/hi were observed
}

// verifyAdds: every append succeeded, tokens are valid KSUIDs, pairwise distinct, issued in a
// second between the append's own touch of the generator and its read of the update time, and a
// token issued in second s sorts before every token issued in a later second.
func verifyAdds(adds []*addRec) error {
	seen := map[string]int{}
	secs := make([]int64, len(adds))
	for i, a := range adds {
		if a.err != nil {
			return fmt.Errorf("Add #%d by %s (payload %s) failed: %v", i, a.actor, short(a.payload), a.err)
		}
		s, err := tokSec(a.token)
		if err != nil {
			return fmt.Errorf("Add #%d by %s returned token %q which is not a KSUID: %v", i, a.actor, a.token, err)
		}
		if j, dup := seen[a.token]; dup {
			return fmt.Errorf("Add #%d and Add #%d got the same token %s", j, i, a.token)
		}
		seen[a.token] = i
		secs[i] = s
		if a.ok && (s < a.lo.Unix() || s > a.hi.Unix()) {
			return fmt.Errorf("Add #%d by %s: token %s carries second %d, but the append began / touched the generator in second %d and read its update time / returned in second %d",
				i, a.actor, a.token, s, a.lo.Unix(), a.hi.Unix())
		}
	}
	for i := range adds {
		for j := range adds {
			if secs[i] < secs[j] && !(adds[i].token < adds[j].token) {
				return fmt.Errorf("token %s issued in second %d does not sort before token %s issued in second %d", adds[i].token, secs[i], adds[j].token, secs[j])
			}
			// black-box form: append i read the generator in a second before append j touched it
			if adds[i].ok && adds[j].ok && adds[i].hi.Unix() < adds[j].lo.Unix() && !(adds[i].token < adds[j].token) {
				return fmt.Errorf("append by %s finished reading the generator in second %d, append by %s touched it in second %d, but token %s does not sort before %s",
					adds[i].actor, adds[i].hi.Unix(), adds[j].actor, adds[j].lo.Unix(), adds[i].token, adds[j].token)
			}
		}
	}
	return nil
}

func sameSecondMax(adds []*addRec) int {
	n := map[int64]int{}
	best := 0
	for _, a := range adds {
		if s, err := tokSec(a.token); err == nil {
			n[s]++
			if n[s] > best {
				best = n[s]
			}
		}
	}
	return best
}

// ---------------------------------------------------------------------------------------------
// canary: one append, one listing.  The unchanged tree fails here with an ordinary error; a
// listing of two entries would kill the process (panic in a goroutine of ListEntries).

var (
	canaryOnce sync.Once
	canaryErr  error
)

func canary() error {
	canaryOnce.Do(func() {
		err, hung, panicked := hx.Guard(20*time.Second, func() error {
			gen := memstore.NewBackend("gen")
			ws := memstore.NewBackend("wal")
			w := wal.New(gen.View("canary"), ws.View("canary"), wal.Logger(hx.Nop))
			tok, err := w.Add(ctx, "hello")
			if err != nil {
				return fmt.Errorf("Add: %v", err)
			}
			got, next, err := w.ListEntries(ctx, tok, 10)
			o := &listObs{what: "canary (one Add(\"hello\"), ListEntries from its token)", from: tok, max: 10, visible: []entry{{tok, "hello"}}, got: got, next: next, err: err}
			return o.verifyExact()
		})
		switch {
		case hung:
			canaryErr = fmt.Errorf("HANG: %v", err)
		case panicked:
			canaryErr = fmt.Errorf("PANIC: %v", err)
		default:
			canaryErr = err
		}
	})
	return canaryErr
}

type fataler interface {
	Fatalf(string, ...interface{})
}

// knownRead is the id under which the defect of the unchanged tree (DESIGN §5 row 23: ListEntries
// cannot read back what Add wrote) may be listed as a known finding.  While it is listed AND still
// reproduces, listings are observed through wal.ListTokens (tokens, order, window, max, next are
// still checked; payloads are the excluded input class).  Once the canary passes, nothing is excluded.
const knownRead = "C19-listentries-read"

func degraded() bool {
	return canary() != nil && hx.Known(knownRead)
}

func needCanary(t fataler) {
	if err := canary(); err != nil && !hx.Known(knownRead) {
		stats.Violation(err.Error())
		t.Fatalf("%v", err)
	}
}

// list performs the listing of o through the WAL under test
func list(w *wal.WAL, o *listObs) {
	if degraded() {
		stats.Count("excluded_"+knownRead, 1)
		var toks []string
		toks, o.next, o.err = w.ListTokens(ctx, o.from, o.max)
		o.tokensOnly = true
		o.got = nil
		for _, t := range toks {
			o.got = append(o.got, model.Entry{Token: t})
		}
		return
	}
	o.got, o.next, o.err = w.ListEntries(ctx, o.from, o.max)
}

// ---------------------------------------------------------------------------------------------
// scheduled histories

type appenderSpec struct {
	Name string        `json:"name"`
	Adds []payloadSpec `json:"adds"`
}

type listerSpec struct {
	Name  string     `json:"name"`
	Lists []listSpec `json:"lists"`
}

type caseT struct {
	Appenders []appenderSpec `json:"appenders"`
	Listers   []listerSpec   `json:"listers,omitempty"`
	Advances  []int          `json:"advances_ms"` // clock advance before the i-th append begins (cyclic)
	Choices   []int          `json:"choices"`     // scheduler choices
	Final     []listSpec     `json:"final"`
}

func (c caseT) total() int {
	n := 0
	for _, a := range c.Appenders {
		n += len(a.Adds)
	}
	return n
}

// drawAdvance draws the clock advance (ms) before one Touch. mode: "dense" (mostly the same
// second), "mixed", "sparse" (every append in its own second)
func drawAdvance(t *rapid.T, mode string) int {
	classes := []int{0, 0, 0, 1, 1, 2, 2, 3, 3, 4}
	switch mode {
	case "dense":
		classes = []int{0, 0, 0, 0, 0, 0, 1, 1, 2, 4}
	case "sparse":
		classes = []int{2, 2, 3, 3, 3, 4}
	}
	switch rapid.SampledFrom(classes).Draw(t, "adv_class") {
	case 0:
		return 0
	case 1:
		return rapid.IntRange(1, 999).Draw(t, "adv_ms")
	case 2:
		return rapid.SampledFrom([]int{1000, 1000, 2000, 3000}).Draw(t, "adv_s")
	case 3:
		return rapid.IntRange(1001, 3000).Draw(t, "adv_ms2")
	}
	return rapid.SampledFrom([]int{600_000, 1_198_000, 1_199_000, 1_200_000, 1_201_000, 1_800_000, 3_600_000}).Draw(t, "adv_big")
}

func drawMode(t *rapid.T) string {
	return rapid.SampledFrom([]string{"dense", "mixed", "mixed", "sparse"}).Draw(t, "clock_mode")
}

func drawCase(t *rapid.T) caseT {
	var c caseT
	nApp := rapid.SampledFrom([]int{1, 2, 2, 3, 3, 4, 5, 6, 8}).Draw(t, "appenders")
	total := 0
	small := rapid.Bool().Draw(t, "small_history")
	for i := 0; i < nApp; i++ {
		hi := (60 - total) - (nApp - 1 - i) // leave one for each remaining appender
		if hi > 20 {
			hi = 20
		}
		if small && hi > 3 {
			hi = 3
		}
		n := rapid.IntRange(1, hi).Draw(t, fmt.Sprintf("nadds%d", i))
		a := appenderSpec{Name: fmt.Sprintf("app%d", i)}
		for j := 0; j < n; j++ {
			a.Adds = append(a.Adds, drawPayload(t, fmt.Sprintf("p%d_%d", i, j)))
		}
		total += n
		c.Appenders = append(c.Appenders, a)
	}
	nAdv := total
	if nAdv > 24 {
		nAdv = 24
	}
	mode := drawMode(t)
	for i := 0; i < nAdv; i++ {
		c.Advances = append(c.Advances, drawAdvance(t, mode))
	}
	nLis := rapid.SampledFrom([]int{0, 1, 1, 2}).Draw(t, "listers")
	for i := 0; i < nLis; i++ {
		l := listerSpec{Name: fmt.Sprintf("lis%d", i)}
		n := rapid.IntRange(1, 3).Draw(t, fmt.Sprintf("nlists%d", i))
		for j := 0; j < n; j++ {
			l.Lists = append(l.Lists, drawList(t, total, fmt.Sprintf("l%d_%d", i, j)))
		}
		c.Listers = append(c.Listers, l)
	}
	// enough explicit choices to cover the appenders' calls (3 per append + 1 per wal.New);
	// when they run out the scheduler always picks the first parked actor
	c.Choices = rapid.SliceOfN(rapid.IntRange(0, 9), 3*total+nApp, 4*total+16).Draw(t, "choices")
	nFin := rapid.IntRange(3, 8).Draw(t, "nfinal")
	for j := 0; j < nFin; j++ {
		c.Final = append(c.Final, drawList(t, total, fmt.Sprintf("f%d", j)))
	}
	return c
}

// splitStore is the WAL store of a lister process: the listing call is a scheduler yield point
// (that is the listing's linearisation point), the parallel entry reads are not.
type splitStore struct {
	storage.Store                 // unscheduled view
	list          *memstore.Store // scheduled view
}

func (s splitStore) KeysPrefix(ctx context.Context, token, prefix, delim string, count int) ([]string, string, error) {
	return s.list.KeysPrefix(ctx, token, prefix, delim, count)
}

type runInfo struct {
	adds       []*addRec
	lists      []*listObs
	interleave int // appends whose touch..read span contains another actor's touch
}

type world struct {
	mu       sync.Mutex
	landed   []entry // in landing order
	touches  int     // under genMu
	nadds    int     // under mu
	advances []int
	gen, ws  *memstore.Backend
	genMu    sync.Mutex // held across every scheduled call on the generator store
	wsMu     sync.Mutex // held across every scheduled call on the WAL store
}

func (w *world) nextAdvance() time.Duration {
	w.mu.Lock()
	defer w.mu.Unlock()
	d := 0
	if len(w.advances) > 0 {
		d = w.advances[w.nadds%len(w.advances)]
	}
	w.nadds++
	return time.Duration(d) * time.Millisecond
}

func (w *world) snapshot() []entry {
	w.mu.Lock()
	defer w.mu.Unlock()
	return append([]entry(nil), w.landed...)
}

func tokensOf(es []entry) []string {
	out := make([]string, len(es))
	for i, e := range es {
		out[i] = e.Token
	}
	return out
}

func genUpdated(gen *memstore.Backend) time.Time {
	o, _ := gen.RawObject(model.TokenGeneratorPath)
	return o.Updated
}

func safely(what string, f func()) (err error) {
	defer func() {
		if r := recover(); r != nil {
			err = fmt.Errorf("PANIC in %s: %v", what, r)
		}
	}()
	f()
	return nil
}

func runCase(c caseT) (*runInfo, error) {
	wd := &world{gen: memstore.NewBackend("gen"), ws: memstore.NewBackend("wal"), advances: c.Advances}
	sched := memstore.NewSched()
	info := &runInfo{}
	var actorErrs []error
	var emu sync.Mutex
	fail := func(err error) {
		emu.Lock()
		actorErrs = append(actorErrs, err)
		emu.Unlock()
	}
	touchSeq := map[string]int{} // actor -> world touch counter at own touch (under wd.genMu)

	for _, as := range c.Appenders {
		as := as
		gv, wv := wd.gen.View(as.Name), wd.ws.View(as.Name)
		sched.Attach(gv)
		sched.Attach(wv)
		recs := make([]*addRec, len(as.Adds))
		for i, p := range as.Adds {
			recs[i] = &addRec{actor: as.Name, payload: p.String()}
		}
		info.adds = append(info.adds, recs...)
		cur := -1
		// Hooks registered after Attach run once the scheduler released the call.  genMu/wsMu make
		// "store call + observation" one critical section, so the observations stay exact even if
		// the scheduler (under load) lets two actors run at once.
		gv.Before(func(call *memstore.Call) error {
			wd.genMu.Lock()
			if call.Op == memstore.OpTouch {
				wd.touches++
				touchSeq[as.Name] = wd.touches
			}
			return nil
		})
		gv.After(func(call *memstore.Call) {
			defer wd.genMu.Unlock()
			if cur < 0 || call.Err != nil {
				return
			}
			switch call.Op {
			case memstore.OpTouch:
				recs[cur].lo = genUpdated(wd.gen)
			case memstore.OpGetAttr:
				recs[cur].hi = genUpdated(wd.gen)
				if wd.touches != touchSeq[as.Name] {
					info.interleave++
				}
			}
		})
		wv.Before(func(call *memstore.Call) error {
			wd.wsMu.Lock()
			return nil
		})
		wv.After(func(call *memstore.Call) {
			defer wd.wsMu.Unlock()
			if call.Op == memstore.OpPut && call.Landed && call.Err == nil && cur >= 0 {
				wd.mu.Lock()
				wd.landed = append(wd.landed, entry{Token: call.Key, Payload: recs[cur].payload})
				wd.mu.Unlock()
			}
		})
		sched.Go(as.Name, func() {
			if err := safely(as.Name, func() {
				w := wal.New(gv, wv, wal.Logger(hx.Nop))
				for i := range recs {
					cur = i
					// between two store calls an actor runs alone: advance the clock by the next
					// drawn amount and note the store time at which this append begins
					wd.gen.Advance(wd.nextAdvance())
					recs[i].lo = wd.gen.Now()
					recs[i].token, recs[i].err = w.Add(ctx, recs[i].payload)
					if recs[i].hi.IsZero() {
						recs[i].hi = wd.gen.Now()
					}
					recs[i].ok = true
				}
			}); err != nil {
				fail(err)
			}
		})
	}

	for _, ls := range c.Listers {
		ls := ls
		gv := wd.gen.View(ls.Name)
		lv := wd.ws.View(ls.Name)
		sched.Attach(gv)
		sched.Attach(lv)
		var curObs *listObs
		gv.Before(func(call *memstore.Call) error {
			wd.genMu.Lock()
			return nil
		})
		gv.After(func(call *memstore.Call) { wd.genMu.Unlock() })
		lv.Before(func(call *memstore.Call) error {
			wd.wsMu.Lock()
			return nil
		})
		lv.After(func(call *memstore.Call) {
			defer wd.wsMu.Unlock()
			if call.Op == memstore.OpKeysPrefix && curObs != nil {
				// the log exactly as it was when the listing took place
				curObs.visible = append([]entry{}, wd.snapshot()...)
			}
		})
		obs := make([]*listObs, len(ls.Lists))
		for i := range obs {
			obs[i] = &listObs{}
		}
		info.lists = append(info.lists, obs...)
		sched.Go(ls.Name, func() {
			if err := safely(ls.Name, func() {
				// readers are built with different read-concurrency settings: a listing returns up to the requested
				// maximum whatever that option says
				wopts := []wal.Option{wal.Logger(hx.Nop)}
				if mc := []int{0, 1, 3, 8}[len(ls.Lists)%4]; mc > 0 {
					wopts = append(wopts, wal.MaxConcurrency(mc))
				}
				w := wal.New(gv, splitStore{Store: wd.ws.View(ls.Name + "-reads"), list: lv}, wopts...)
				for i, l := range ls.Lists {
					o := obs[i]
					snap := tokensOf(wd.snapshot())
					if len(snap) == 0 && l.Ref%4 != 0 {
						// nothing appended yet: mostly skip (an empty log is listed only now and then)
						o.skipped = true
						continue
					}
					o.from = l.resolve(snap, wd.gen.Now())
					o.max = l.Max
					o.what = fmt.Sprintf("concurrent listing %s#%d %+v", ls.Name, i, l)
					curObs = o
					list(w, o)
					curObs = nil
				}
			}); err != nil {
				fail(err)
			}
		})
	}

	if err := sched.Run(c.Choices, 30*time.Second); err != nil {
		sched.Free()
		return info, fmt.Errorf("HANG: %v; released so far: %v", err, tail(sched.History, 12))
	}
	if len(actorErrs) > 0 {
		return info, actorErrs[0]
	}

	// appends
	if err := verifyAdds(info.adds); err != nil {
		return info, err
	}
	all := wd.snapshot()
	if len(all) != len(info.adds) {
		return info, fmt.Errorf("%d appends succeeded but %d entry objects landed in the WAL store", len(info.adds), len(all))
	}
	byTok := map[string]string{}
	for _, e := range all {
		byTok[e.Token] = e.Payload
	}
	for i, a := range info.adds {
		if p, ok := byTok[a.token]; !ok || p != a.payload {
			return info, fmt.Errorf("Add #%d by %s returned token %s but no entry was written under that token for its payload", i, a.actor, a.token)
		}
	}
	want := tokensOf(all)
	sort.Strings(want)
	if have := wd.ws.RawKeys(); !equalStrings(have, want) {
		return info, fmt.Errorf("WAL store keys %v differ from the issued tokens %v", have, want)
	}

	// concurrent listings against the log at their linearisation point
	for _, o := range info.lists {
		if o.skipped {
			continue
		}
		if o.visible == nil && o.err == nil && len(o.got) > 0 {
			return info, fmt.Errorf("%s: returned entries without listing the store", o.what)
		}
		if err := o.verifyExact(); err != nil {
			return info, err
		}
		o.partial = len(o.visible) < len(all)
	}

	// quiescent listings by a fresh process
	fw := wal.New(wd.gen.View("final"), wd.ws.View("final"), wal.Logger(hx.Nop), wal.MaxConcurrency(2))
	for i, l := range c.Final {
		o := &listObs{what: fmt.Sprintf("final listing #%d %+v", i, l), from: l.resolve(tokensOf(all), wd.gen.Now()), max: l.Max, visible: all}
		err, hung, panicked := hx.Guard(20*time.Second, func() error {
			list(fw, o)
			return nil
		})
		if hung || panicked {
			return info, fmt.Errorf("%s: %v", o.what, err)
		}
		info.lists = append(info.lists, o)
		if err := o.verifyExact(); err != nil {
			return info, err
		}
	}
	return info, nil
}

func tail(s []string, n int) []string {
	if len(s) > n {
		return s[len(s)-n:]
	}
	return s
}

func equalStrings(a, b []string) bool {
	if len(a) != len(b) {
		return false
	}
	for i := range a {
		if a[i] != b[i] {
			return false
		}
	}
	return true
}

func bucket(n int) string {
	switch {
	case n <= 1:
		return "1"
	case n <= 5:
		return "2-5"
	case n <= 20:
		return "6-20"
	}
	return "21+"
}

func setString(m map[string]bool) string {
	ks := make([]string, 0, len(m))
	for k := range m {
		ks = append(ks, k)
	}
	sort.Strings(ks)
	return strings.Join(ks, ",")
}

// record derives the class signature from the EXECUTED case
func record(prop string, nApp int, payloads []payloadSpec, info *runInfo, sample func() interface{}) {
	total := len(payloads)
	pcs, mcs := map[string]bool{}, map[string]bool{}
	multiBig := false
	for _, p := range payloads {
		pcs[p.Class] = true
		stats.Count("payload_"+p.Class, 1)
		if p.multiOrBig() {
			multiBig = true
		}
	}
	same := sameSecondMax(info.adds)
	sameClass := "none"
	switch {
	case same >= 3:
		sameClass = "3+"
	case same == 2:
		sameClass = "pair"
	}
	flags := map[string]bool{}
	for _, o := range info.lists {
		if o.skipped {
			stats.Count("list_skipped_empty_log", 1)
			continue
		}
		mc := maxClass(o.max, total)
		mcs[mc] = true
		stats.Count("list_max_"+mc, 1)
		stats.Count("listings", 1)
		if len(o.got) == 0 {
			stats.Count("list_empty_result", 1)
		}
		if o.excluded > 0 {
			flags["window"] = true
			stats.Count("list_window_cut", 1)
		}
		if o.trunc {
			flags["trunc"] = true
			stats.Count("list_truncated", 1)
		}
		if o.partial {
			flags["partial"] = true
			stats.Count("list_concurrent_partial", 1)
		}
	}
	stats.Count("appends", total)
	stats.Count("appenders_"+fmt.Sprint(nApp), 1)
	stats.Count("same_second_"+sameClass, 1)
	stats.Count("interleaved_token_draws", info.interleave)
	nt := same >= 2 && multiBig
	sig := fmt.Sprintf("%s app=%d adds=%s same=%s pay=%s max=%s flags=%s", prop, nApp, bucket(total), sameClass, setString(pcs), setString(mcs), setString(flags))
	stats.Case(sig, nt, sample)
}

func checkCase(t fataler, c caseT) {
	hx.Journal(journalDoc{Kind: "sched", Sched: &c})
	var info *runInfo
	err, hung, panicked := hx.Guard(120*time.Second, func() error {
		var e error
		info, e = runCase(c)
		return e
	})
	if err != nil {
		b, _ := json.Marshal(journalDoc{Kind: "sched", Sched: &c})
		pre := ""
		if hung {
			pre = "HANG: "
		} else if panicked {
			pre = "PANIC: "
		}
		stats.Violation(pre + err.Error())
		t.Fatalf("%s%v\ncase=%s", pre, err, b)
	}
	var ps []payloadSpec
	for _, a := range c.Appenders {
		ps = append(ps, a.Adds...)
	}
	record("sched", len(c.Appenders), ps, info, func() interface{} { return c })
}

// journalDoc is what is journalled before a case runs and printed when it fails; it is also the
// input of TestReplayJournal
type journalDoc struct {
	Kind  string    `json:"kind"`
	Sched *caseT    `json:"sched,omitempty"`
	Big   *bigCase  `json:"big,omitempty"`
	Free  *freeCase `json:"free,omitempty"`
}

// TestReplayJournal re-executes one case given as a JSON document (the "case=" part of a failure
// message, or the journal left behind by a dead process) in the file named by $VERIF_REPLAY_JOURNAL
func TestReplayJournal(t *testing.T) {
	p := os.Getenv("VERIF_REPLAY_JOURNAL")
	if p == "" {
		t.Skip("no journal given")
	}
	b, err := os.ReadFile(p)
	if err != nil {
		t.Fatalf("%v", err)
	}
	var d journalDoc
	if err := json.Unmarshal(b, &d); err != nil {
		t.Fatalf("journal %s: %v", p, err)
	}
	needCanary(t)
	switch {
	case d.Kind == "sched" && d.Sched != nil:
		checkCase(t, *d.Sched)
	case d.Kind == "big" && d.Big != nil:
		checkBig(t, *d.Big)
	case d.Kind == "free" && d.Free != nil:
		checkFree(t, *d.Free)
	default:
		t.Fatalf("journal %s: unknown kind %q (pinned and fuzz cases are replayed by their own test)", p, d.Kind)
	}
}

// TestPropSched: scheduler-owned interleavings of appender and lister processes
func TestPropSched(t *testing.T) {
	needCanary(t)
	rapid.Check(t, func(t *rapid.T) {
		checkCase(t, drawCase(t))
	})
}

// ---------------------------------------------------------------------------------------------
// long log: the 1000 entries cap and listings of ~1000 entries read in parallel

type bigCase struct {
	N        int        `json:"n"`
	Writers  int        `json:"writers"`
	Seed     uint64     `json:"seed"`
	BigEvery int        `json:"big_every"`
	AdvEvery int        `json:"adv_every"`
	AdvMs    int        `json:"adv_ms"`
	Lists    []listSpec `json:"lists"`
}

func (c bigCase) payload(i int) payloadSpec {
	if c.BigEvery > 0 && i%c.BigEvery == 0 {
		return payloadSpec{Class: "big", Seed: c.Seed + uint64(i), Size: 1025 + int((c.Seed+uint64(i))%3000)}
	}
	switch i % 4 {
	case 0:
		return payloadSpec{Class: "yaml", Seed: c.Seed + uint64(i)}
	case 1:
		return payloadSpec{Class: "empty"}
	case 2:
		return payloadSpec{Class: "multiline", Seed: c.Seed + uint64(i), Size: 30}
	}
	return payloadSpec{Class: "line", Seed: c.Seed + uint64(i), Size: 20}
}

func runBig(c bigCase) (*runInfo, []payloadSpec, error) {
	gen, ws := memstore.NewBackend("gen"), memstore.NewBackend("wal")
	info := &runInfo{}
	ws2 := make([]*wal.WAL, c.Writers)
	for i := range ws2 {
		ws2[i] = wal.New(gen.View(fmt.Sprintf("w%d", i)), ws.View(fmt.Sprintf("w%d", i)), wal.Logger(hx.Nop))
	}
	var all []entry
	var ps []payloadSpec
	for i := 0; i < c.N; i++ {
		if c.AdvEvery > 0 && i%c.AdvEvery == 0 {
			gen.Advance(time.Duration(c.AdvMs) * time.Millisecond)
		}
		p := c.payload(i)
		ps = append(ps, p)
		a := &addRec{actor: fmt.Sprintf("w%d", i%c.Writers), payload: p.String(), lo: gen.Now(), ok: true}
		a.token, a.err = ws2[i%c.Writers].Add(ctx, a.payload)
		a.hi = gen.Now()
		info.adds = append(info.adds, a)
		all = append(all, entry{a.token, a.payload})
	}
	if err := verifyAdds(info.adds); err != nil {
		return info, ps, err
	}
	for i, l := range c.Lists {
		o := &listObs{what: fmt.Sprintf("listing #%d %+v over %d entries", i, l, c.N), from: l.resolve(tokensOf(all), gen.Now()), max: l.Max, visible: all}
		err, hung, panicked := hx.Guard(60*time.Second, func() error {
			list(ws2[0], o)
			return nil
		})
		if hung || panicked {
			return info, ps, fmt.Errorf("%s: %v", o.what, err)
		}
		info.lists = append(info.lists, o)
		if err := o.verifyExact(); err != nil {
			return info, ps, err
		}
	}
	return info, ps, nil
}

func drawBig(t *rapid.T) bigCase {
	c := bigCase{
		N:        rapid.SampledFrom([]int{990, 999, 1000, 1001, 1002, 1024, 1025, 1040}).Draw(t, "n"),
		Writers:  rapid.IntRange(1, 3).Draw(t, "writers"),
		Seed:     rapid.Uint64().Draw(t, "seed"),
		BigEvery: rapid.SampledFrom([]int{0, 7, 50}).Draw(t, "big_every"),
		AdvEvery: rapid.SampledFrom([]int{1, 3, 10, 100}).Draw(t, "adv_every"),
		AdvMs:    rapid.SampledFrom([]int{0, 300, 1000, 2500}).Draw(t, "adv_ms"),
	}
	n := rapid.IntRange(2, 4).Draw(t, "nlists")
	for i := 0; i < n; i++ {
		l := drawList(t, c.N, fmt.Sprintf("l%d", i))
		l.Max = rapid.SampledFrom([]int{999, 1000, 1000, 1001, 1001, 2000, 1 << 30, c.N, 1, 500}).Draw(t, fmt.Sprintf("l%d_bigmax", i))
		if rapid.Bool().Draw(t, fmt.Sprintf("l%d_first", i)) {
			l.Kind, l.Ref, l.Pay, l.DSec = "issued", 0, "", 0 // from the very first token: everything is in the window
		}
		c.Lists = append(c.Lists, l)
	}
	return c
}

func checkBig(t fataler, c bigCase) {
	hx.Journal(journalDoc{Kind: "big", Big: &c})
	var info *runInfo
	var ps []payloadSpec
	err, hung, panicked := hx.Guard(180*time.Second, func() error {
		var e error
		info, ps, e = runBig(c)
		return e
	})
	if err != nil {
		b, _ := json.Marshal(journalDoc{Kind: "big", Big: &c})
		pre := ""
		if hung {
			pre = "HANG: "
		} else if panicked {
			pre = "PANIC: "
		}
		stats.Violation(pre + err.Error())
		t.Fatalf("%s%v\ncase=%s", pre, err, b)
	}
	for _, o := range info.lists {
		if len(o.got) == maxPerList && o.max > maxPerList {
			stats.Count("list_clamped_to_1000", 1)
		}
	}
	record("big", c.Writers, ps, info, func() interface{} { return c })
}

// TestPropBigLog: logs of about 1000 entries
func TestPropBigLog(t *testing.T) {
	needCanary(t)
	rapid.Check(t, func(t *rapid.T) {
		checkBig(t, drawBig(t))
	})
}

// ---------------------------------------------------------------------------------------------
// free-running goroutines (no scheduler): the race-detector variant.  The interleaving is not
// owned by the harness, so the oracle for concurrent operations is relational (sound for every
// interleaving); quiescent listings afterwards are compared exactly.

type freeAdd struct {
	P     payloadSpec `json:"p"`
	AdvMs int         `json:"adv_ms"`
}

type freeCase struct {
	Shared    bool         `json:"shared_wal"` // all goroutines use ONE *wal.WAL (one process, many goroutines) instead of one each
	Appenders [][]freeAdd  `json:"appenders"`
	Listers   [][]listSpec `json:"listers,omitempty"`
	Final     []listSpec   `json:"final"`
}

type freeAddRec struct {
	addRec
	startEv, endEv int64
}

type freeListRec struct {
	listObs
	startEv, endEv int64
}

func drawFree(t *rapid.T) freeCase {
	var c freeCase
	c.Shared = rapid.Bool().Draw(t, "shared_wal")
	nApp := rapid.IntRange(2, 8).Draw(t, "appenders")
	mode := drawMode(t)
	total := 0
	for i := 0; i < nApp; i++ {
		n := rapid.IntRange(1, 7).Draw(t, fmt.Sprintf("n%d", i))
		var as []freeAdd
		for j := 0; j < n; j++ {
			as = append(as, freeAdd{P: drawPayload(t, fmt.Sprintf("p%d_%d", i, j)), AdvMs: drawAdvance(t, mode)})
		}
		total += n
		c.Appenders = append(c.Appenders, as)
	}
	nLis := rapid.IntRange(0, 3).Draw(t, "listers")
	for i := 0; i < nLis; i++ {
		n := rapid.IntRange(1, 4).Draw(t, fmt.Sprintf("nl%d", i))
		var ls []listSpec
		for j := 0; j < n; j++ {
			ls = append(ls, drawList(t, total, fmt.Sprintf("l%d_%d", i, j)))
		}
		c.Listers = append(c.Listers, ls)
	}
	n := rapid.IntRange(2, 5).Draw(t, "nfinal")
	for j := 0; j < n; j++ {
		c.Final = append(c.Final, drawList(t, total, fmt.Sprintf("f%d", j)))
	}
	return c
}

func runFree(c freeCase) (*runInfo, error) {
	gen, ws := memstore.NewBackend("gen"), memstore.NewBackend("wal")
	// the generator object exists before anybody starts (as in a deployed context)
	shared := wal.New(gen.View("init"), ws.View("init"), wal.Logger(hx.Nop))
	newWAL := func(name string) *wal.WAL {
		if c.Shared {
			return shared
		}
		return wal.New(gen.View(name), ws.View(name), wal.Logger(hx.Nop))
	}
	var ev int64
	var mu sync.Mutex
	var done []entry // completed appends
	var adds []*freeAddRec
	var lists []*freeListRec
	var errs []error
	fail := func(err error) {
		mu.Lock()
		errs = append(errs, err)
		mu.Unlock()
	}
	var wg sync.WaitGroup
	for i, as := range c.Appenders {
		name := fmt.Sprintf("app%d", i)
		recs := make([]*freeAddRec, len(as))
		for j, a := range as {
			recs[j] = &freeAddRec{addRec: addRec{actor: name, payload: a.P.String(), ok: true}}
		}
		adds = append(adds, recs...)
		as := as
		wg.Add(1)
		go func() {
			defer wg.Done()
			if err := safely(name, func() {
				w := newWAL(name)
				for j, r := range recs {
					gen.Advance(time.Duration(as[j].AdvMs) * time.Millisecond)
					r.startEv = atomic.AddInt64(&ev, 1)
					r.lo = gen.Now()
					r.token, r.err = w.Add(ctx, r.payload)
					r.hi = gen.Now()
					mu.Lock()
					if r.err == nil {
						done = append(done, entry{r.token, r.payload})
					}
					mu.Unlock()
					r.endEv = atomic.AddInt64(&ev, 1)
				}
			}); err != nil {
				fail(err)
			}
		}()
	}
	for i, ls := range c.Listers {
		name := fmt.Sprintf("lis%d", i)
		recs := make([]*freeListRec, len(ls))
		for j := range recs {
			recs[j] = &freeListRec{}
		}
		lists = append(lists, recs...)
		ls := ls
		wg.Add(1)
		go func() {
			defer wg.Done()
			if err := safely(name, func() {
				w := newWAL(name)
				for j, l := range ls {
					r := recs[j]
					mu.Lock()
					snap := tokensOf(done)
					mu.Unlock()
					if len(snap) == 0 && l.Ref%4 != 0 {
						r.skipped = true
						continue
					}
					r.from, r.max = l.resolve(snap, gen.Now()), l.Max
					r.what = fmt.Sprintf("concurrent listing %s#%d %+v", name, j, l)
					r.startEv = atomic.AddInt64(&ev, 1)
					list(w, &r.listObs)
					r.endEv = atomic.AddInt64(&ev, 1)
				}
			}); err != nil {
				fail(err)
			}
		}()
	}
	wg.Wait()
	info := &runInfo{}
	if len(errs) > 0 {
		return info, errs[0]
	}
	for _, a := range adds {
		info.adds = append(info.adds, &a.addRec)
	}
	if err := verifyAdds(info.adds); err != nil {
		return info, err
	}
	byTok := map[string]*freeAddRec{}
	var all []entry
	for _, a := range adds {
		byTok[a.token] = a
		all = append(all, entry{a.token, a.payload})
	}
	want := tokensOf(all)
	sort.Strings(want)
	if have := ws.RawKeys(); !equalStrings(have, want) {
		return info, fmt.Errorf("WAL store keys %v differ from the issued tokens %v", have, want)
	}
	for _, r := range lists {
		if r.skipped {
			info.lists = append(info.lists, &r.listObs)
			continue
		}
		if err := verifyRelational(r, adds, byTok); err != nil {
			return info, err
		}
		r.partial = true
		info.lists = append(info.lists, &r.listObs)
	}
	fw := newWAL("final")
	for i, l := range c.Final {
		o := &listObs{what: fmt.Sprintf("final listing #%d %+v", i, l), from: l.resolve(tokensOf(all), gen.Now()), max: l.Max, visible: all}
		list(fw, o)
		info.lists = append(info.lists, o)
		if err := o.verifyExact(); err != nil {
			return info, err
		}
	}
	return info, nil
}

// verifyRelational: what must hold for a listing that ran while appends were in flight.
func verifyRelational(r *freeListRec, adds []*freeAddRec, byTok map[string]*freeAddRec) error {
	if r.err != nil {
		return fmt.Errorf("%s: ListEntries(from=%s,max=%d) failed: %v", r.what, r.from, r.max, r.err)
	}
	fs, err := tokSec(r.from)
	if err != nil {
		return err
	}
	cut := fs - lookBackSec
	lim := r.max
	if lim > maxPerList {
		lim = maxPerList
	}
	if len(r.got) > lim {
		return fmt.Errorf("%s: returned %d entries for max=%d", r.what, len(r.got), r.max)
	}
	in := map[string]bool{}
	for i, g := range r.got {
		a, ok := byTok[g.Token]
		if !ok {
			return fmt.Errorf("%s: returned token %q which was never issued", r.what, g.Token)
		}
		if !r.tokensOnly && a.payload != g.Payload {
			return fmt.Errorf("%s: entry %s payload changed: got %s want %s", r.what, g.Token, short(g.Payload), short(a.payload))
		}
		if i > 0 && !(r.got[i-1].Token < g.Token) {
			return fmt.Errorf("%s: entries not in strict token order at %d: %v", r.what, i, gotTokens(r.got))
		}
		if s, _ := tokSec(g.Token); s < cut {
			// not forbidden by the property text, but the store contract (start key) makes it impossible
			return fmt.Errorf("%s: returned token %s older than the start of the look-back window", r.what, g.Token)
		}
		if a.startEv > r.endEv {
			return fmt.Errorf("%s: returned token %s whose append started after the listing returned", r.what, g.Token)
		}
		in[g.Token] = true
	}
	last := ""
	if len(r.got) > 0 {
		last = r.got[len(r.got)-1].Token
	}
	for _, a := range adds {
		s, _ := tokSec(a.token)
		if a.endEv < r.startEv && s >= cut && !in[a.token] {
			if len(r.got) == lim && a.token > last {
				continue // beyond the requested maximum
			}
			return fmt.Errorf("%s: misses token %s (append completed before the listing started, inside the look-back window); got %v", r.what, a.token, gotTokens(r.got))
		}
	}
	return nil
}

func checkFree(t fataler, c freeCase) {
	hx.Journal(journalDoc{Kind: "free", Free: &c})
	var info *runInfo
	err, hung, panicked := hx.Guard(120*time.Second, func() error {
		var e error
		info, e = runFree(c)
		return e
	})
	if err != nil {
		b, _ := json.Marshal(journalDoc{Kind: "free", Free: &c})
		pre := ""
		if hung {
			pre = "HANG: "
		} else if panicked {
			pre = "PANIC: "
		}
		stats.Violation(pre + err.Error())
		t.Fatalf("%s%v\ncase=%s", pre, err, b)
	}
	var ps []payloadSpec
	for _, as := range c.Appenders {
		for _, a := range as {
			ps = append(ps, a.P)
		}
	}
	if c.Shared {
		stats.Count("free_shared_wal", 1)
	}
	record("free", len(c.Appenders), ps, info, func() interface{} { return c })
}

// TestPropFree: free-running appenders and listers (run with -race in the thorough tier)
func TestPropFree(t *testing.T) {
	needCanary(t)
	rapid.Check(t, func(t *rapid.T) {
		checkFree(t, drawFree(t))
	})
}

// ---------------------------------------------------------------------------------------------
// native fuzz target (thorough tier): two arbitrary payloads, same or different second

func FuzzRoundTrip(f *testing.F) {
	f.Add("hello", "token: x\npayload: y", uint16(0), uint16(3))
	f.Add("", "", uint16(0), uint16(1))
	f.Add(strings.Repeat("x", 1024), strings.Repeat("y\n", 700), uint16(1500), uint16(1000))
	f.Add("\xff\xfe\x00", nonASCII, uint16(999), uint16(2))
	f.Fuzz(func(t *testing.T, p1, p2 string, advMs uint16, max uint16) {
		needCanary(t)
		hx.Journal(map[string]interface{}{"p1": p1, "p2": p2, "adv_ms": advMs, "max": max})
		err, hung, panicked := hx.Guard(30*time.Second, func() error {
			gen, ws := memstore.NewBackend("gen"), memstore.NewBackend("wal")
			w := wal.New(gen.View("f"), ws.View("f"), wal.Logger(hx.Nop))
			var adds []*addRec
			var all []entry
			for i, p := range []string{p1, p2} {
				if i == 1 {
					gen.Advance(time.Duration(advMs) * time.Millisecond)
				}
				a := &addRec{actor: "f", payload: p, lo: gen.Now(), ok: true}
				a.token, a.err = w.Add(ctx, p)
				a.hi = gen.Now()
				adds = append(adds, a)
				all = append(all, entry{a.token, p})
			}
			if err := verifyAdds(adds); err != nil {
				return err
			}
			m := int(max)%1002 + 1
			for _, from := range []string{adds[0].token, adds[1].token} {
				o := &listObs{what: "fuzz listing", from: from, max: m, visible: all}
				list(w, o)
				if err := o.verifyExact(); err != nil {
					return err
				}
			}
			return nil
		})
		if err != nil {
			t.Fatalf("hung=%v panicked=%v: %v", hung, panicked, err)
		}
	})
}
