package c19

import (
	"fmt"
	"strings"
	"testing"
	"time"

	"github.com/oneconcern/datamon/pkg/wal"

	"verifharness/hx"
	"verifharness/memstore"
)

// pinned plain-Go cases (no library).  Each one goes through the canary first, so that on a tree
// where ListEntries cannot even return one entry they fail with an ordinary message instead of
// killing the process.

type step struct {
	advMs   int
	payload string
}

// pinnedLog appends the steps with one WAL and returns the model
func pinnedLog(t *testing.T, steps []step) (*wal.WAL, *memstore.Backend, []*addRec, []entry) {
	t.Helper()
	gen, ws := memstore.NewBackend("gen"), memstore.NewBackend("wal")
	w := wal.New(gen.View("p"), ws.View("p"), wal.Logger(hx.Nop))
	var adds []*addRec
	var all []entry
	for _, s := range steps {
		gen.Advance(time.Duration(s.advMs) * time.Millisecond)
		a := &addRec{actor: "p", payload: s.payload, lo: gen.Now(), ok: true}
		a.token, a.err = w.Add(ctx, s.payload)
		a.hi = gen.Now()
		adds = append(adds, a)
		all = append(all, entry{a.token, s.payload})
	}
	if err := verifyAdds(adds); err != nil {
		t.Fatalf("%v", err)
	}
	return w, gen, adds, all
}

func pinnedList(t *testing.T, w *wal.WAL, what, from string, max int, visible []entry) *listObs {
	t.Helper()
	o := &listObs{what: what, from: from, max: max, visible: visible}
	hx.Journal(map[string]interface{}{"pinned": what, "from": from, "max": max})
	err, hung, panicked := hx.Guard(30*time.Second, func() error {
		list(w, o)
		return nil
	})
	if hung || panicked {
		t.Fatalf("%s: %v", what, err)
	}
	if err := o.verifyExact(); err != nil {
		t.Fatalf("%v", err)
	}
	return o
}

// DESIGN §5 row 23: the shortest failing history on the unchanged tree (one append, one listing).
// Pinned case of the finding that may be listed as known: while listed it is reported, otherwise it fails.
func TestKnownListEntriesRead(t *testing.T) {
	err := canary()
	if err == nil {
		return
	}
	what := "wal.ListEntries cannot read back what wal.Add wrote (token and payload lost; two entries kill the process): " + err.Error()
	if hx.Listed(knownRead) {
		stats.KnownFinding(knownRead, what)
		t.Logf("KNOWN-FINDING: property=C19 %s", what)
		return
	}
	stats.Violation(what)
	t.Fatalf("%s", what)
}

// DESIGN §5 row 23: two appends then a listing killed the process
// ("panic: Received more than one response for token:  string: ")
func TestRegressTwoAdds(t *testing.T) {
	needCanary(t)
	w, _, adds, all := pinnedLog(t, []step{{0, "hello"}, {2000, "world"}})
	o := pinnedList(t, w, "two adds", adds[0].token, 10, all)
	if len(o.got) != 2 {
		t.Fatalf("want both entries, got %v", o.got)
	}
}

func TestRegressPayloadSizes(t *testing.T) {
	needCanary(t)
	var steps []step
	for _, n := range []int{0, 1, 1023, 1024, 1025, 2047, 2048, 2049, 8192, 65536} {
		steps = append(steps, step{500, strings.Repeat("x", n)})
		steps = append(steps, step{0, textOf(uint64(n), n, true)})
	}
	w, _, adds, all := pinnedLog(t, steps)
	pinnedList(t, w, "payload sizes", adds[len(adds)-1].token, 1000, all)
}

func TestRegressYAMLLooking(t *testing.T) {
	needCanary(t)
	var steps []step
	for _, y := range yamlLooking {
		steps = append(steps, step{0, y})
	}
	steps = append(steps, step{0, nonASCII}, step{0, "\xff\xfe\x00\x01"}, step{0, "\r\n\r\n"}, step{0, "\n"})
	w, _, adds, all := pinnedLog(t, steps)
	pinnedList(t, w, "yaml looking", adds[0].token, 1000, all)
}

// several tokens in one clock second come back once each, in token order
func TestRegressSameSecond(t *testing.T) {
	needCanary(t)
	var steps []step
	for i := 0; i < 12; i++ {
		steps = append(steps, step{1, fmt.Sprintf("entry %d\nsecond line", i)})
	}
	w, _, adds, all := pinnedLog(t, steps)
	if sameSecondMax(adds) != 12 {
		t.Fatalf("harness: expected 12 tokens in one second, got %d", sameSecondMax(adds))
	}
	for _, a := range adds {
		pinnedList(t, w, "same second", a.token, 1000, all)
	}
	pinnedList(t, w, "same second max 5", adds[3].token, 5, all)
}

// the look-back window: 20 minutes before the token, inclusive at second granularity
func TestRegressLookBack(t *testing.T) {
	needCanary(t)
	w, _, adds, all := pinnedLog(t, []step{
		{0, "t0"},
		{1000, "t0+1s"},
		{1_199_000, "t0+1200s"},
		{1000, "t0+1201s"},
		{1000, "t0+1202s"},
	})
	s0, _ := tokSec(adds[0].token)
	for i, want := range map[int]int{0: 5, 1: 5, 2: 5, 3: 4, 4: 3} {
		si, _ := tokSec(adds[i].token)
		o := pinnedList(t, w, fmt.Sprintf("look-back from entry %d (second +%d)", i, si-s0), adds[i].token, 1000, all)
		if len(o.got) != want {
			t.Fatalf("harness: pinned look-back case expected %d entries from entry %d (+%ds), model gave %d", want, i, si-s0, len(o.got))
		}
	}
	// synthetic tokens around the boundary of the first entry
	for d, want := range map[int]int{1199: 5, 1200: 5, 1201: 4, 2401: 2, 2402: 1, 2403: 0} {
		o := pinnedList(t, w, fmt.Sprintf("look-back synthetic +%d", d), synth(time.Unix(s0+int64(d), 0), "zero", 0), 1000, all)
		if len(o.got) != want {
			t.Fatalf("harness: pinned synthetic look-back +%d expected %d entries, model gave %d", d, want, len(o.got))
		}
	}
}

// max: fewer than available, the documented cap of 1000, and the documented rejection of max <= 0
func TestRegressMax(t *testing.T) {
	needCanary(t)
	var steps []step
	for i := 0; i < 1003; i++ {
		steps = append(steps, step{2, fmt.Sprint(i)})
	}
	w, _, adds, all := pinnedLog(t, steps)
	for _, m := range []int{1, 2, 999, 1000, 1001, 5000} {
		o := pinnedList(t, w, fmt.Sprintf("max %d of 1003", m), adds[0].token, m, all)
		want := m
		if want > 1000 {
			want = 1000
		}
		if len(o.got) != want || o.next == "" {
			t.Fatalf("max %d: got %d entries next=%q", m, len(o.got), o.next)
		}
	}
	for _, m := range []int{0, -1} {
		m := m
		err, hung, panicked := hx.Guard(20*time.Second, func() error {
			_, _, err := w.ListEntries(ctx, adds[0].token, m)
			return err
		})
		if hung || panicked || err == nil {
			t.Fatalf("ListEntries(max=%d) must be rejected with an error (documented: max count needs to be greater than 0); hung=%v panicked=%v err=%v", m, hung, panicked, err)
		}
	}
}

// pinned instances of the three generated properties (fixed cases, no library)
func TestRegressPinnedSched(t *testing.T) {
	needCanary(t)
	big := payloadSpec{Class: "big", Seed: 2, Size: 3000}
	ml := payloadSpec{Class: "multiline", Seed: 5, Size: 50}
	y := payloadSpec{Class: "yaml", Seed: 0}
	c := caseT{
		Appenders: []appenderSpec{
			{Name: "app0", Adds: []payloadSpec{big, y, {Class: "empty"}}},
			{Name: "app1", Adds: []payloadSpec{ml, big}},
			{Name: "app2", Adds: []payloadSpec{y, ml, {Class: "edge1k", Seed: 1, Size: 1024}}},
		},
		Listers:  []listerSpec{{Name: "lis0", Lists: []listSpec{{Kind: "issued", Ref: 0, Max: 3}, {Kind: "rel", Ref: 1, DSec: 1200, Pay: "zero", Max: 1000}}}},
		Advances: []int{0, 0, 700, 1000, 0, 1_200_000, 0, 300},
		Choices:  []int{0, 1, 2, 3, 2, 1, 0, 3, 1, 1, 2, 0, 0, 3, 2, 1, 0, 2, 2, 1, 3, 0, 1, 2},
		Final: []listSpec{
			{Kind: "issued", Ref: 0, Max: 1000}, {Kind: "issued", Ref: 7, Max: 2}, {Kind: "rel", Ref: 2, DSec: 1201, Pay: "max", Max: 1001},
			{Kind: "after", DSec: 1200, Pay: "zero", Max: 8}, {Kind: "before", DSec: 1201, Pay: "rand", PSeed: 9, Max: 5},
		},
	}
	checkCase(t, c)
}

func TestRegressPinnedFree(t *testing.T) {
	needCanary(t)
	p := func(c string, seed uint64, size int) payloadSpec {
		return payloadSpec{Class: c, Seed: seed, Size: size}
	}
	c := freeCase{
		Appenders: [][]freeAdd{
			{{p("big", 1, 2000), 0}, {p("yaml", 3, 0), 0}, {p("empty", 0, 0), 1000}},
			{{p("multiline", 2, 100), 0}, {p("binary", 4, 1500), 400}},
			{{p("line", 6, 10), 0}, {p("bigyaml", 7, 1200), 1_200_000}},
		},
		Listers: [][]listSpec{{{Kind: "issued", Ref: 0, Max: 2}, {Kind: "after", DSec: 0, Pay: "max", Max: 1000}}},
		Final:   []listSpec{{Kind: "issued", Ref: 0, Max: 1000}, {Kind: "rel", Ref: 3, DSec: -1, Pay: "zero", Max: 3}},
	}
	checkFree(t, c)
	c.Shared = true
	checkFree(t, c)
}
