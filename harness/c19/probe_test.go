package c19

import (
	"context"
	"fmt"
	"os"
	"testing"
	"time"

	"github.com/oneconcern/datamon/pkg/wal"

	"verifharness/hx"
	"verifharness/memstore"
)

func TestProbe(t *testing.T) {
	gen := memstore.NewBackend("gen")
	ws := memstore.NewBackend("wal")
	w := wal.New(gen.View("a"), ws.View("a"), wal.Logger(hx.Nop))
	ctx := context.Background()
	payloads := []string{os.Getenv("P1"), os.Getenv("P2")}
	for _, p := range payloads {
		tok, err := w.Add(ctx, p)
		fmt.Println("add", tok, err)
		gen.Advance(2 * time.Second)
	}
	keys := ws.RawKeys()
	err, hung, pan := hx.Guard(3*time.Second, func() error {
		es, next, err := w.ListEntries(ctx, keys[0], 10)
		fmt.Printf("entries=%+v next=%q err=%v\n", es, next, err)
		return err
	})
	fmt.Println(err, hung, pan)
}
