package c03

import (
	"bytes"
	"context"
	"encoding/json"
	"fmt"
	"io"
	"os"
	"path/filepath"
	"sync"
	"testing"
	"time"

	"github.com/oneconcern/datamon/pkg/core"
	"github.com/oneconcern/datamon/pkg/storage"
	"pgregory.net/rapid"

	"verifharness/hx"
)

// The bundle-download arm: a bundle holding the object under test (one file) and 1..3 healthy files is
// uploaded through core.Upload, ONE blob of the target file is corrupted in the blob store, and the bundle
// (core.Publish) or the file (core.PublishFile) is downloaded into a fresh localfs directory by a fresh Bundle.

type dlFile struct {
	Name string `json:"name"`
	Obj  objT   `json:"obj"`
}

type dlCase struct {
	Target dlFile   `json:"target"`
	Others []dlFile `json:"others"` // Others[0] supplies the replacement blobs
	Corr   corrT    `json:"corruption"`
	Styles []string `json:"styles"` // publish | publishfile
	Conc   int      `json:"concurrent_file_downloads"`
}

// trackStore counts the Puts reaching the consumable store, so the harness can wait for the downloads that
// core.Publish leaves running in the background when it returns early with an error
type trackStore struct {
	storage.Store
	mu       sync.Mutex
	started  int
	finished int
	done     map[string]bool
}

func (t *trackStore) Put(ctx context.Context, key string, r io.Reader, excl bool) error {
	t.mu.Lock()
	t.started++
	t.mu.Unlock()
	err := t.Store.Put(ctx, key, r, excl)
	t.mu.Lock()
	t.finished++
	t.done[key] = true
	t.mu.Unlock()
	return err
}

// settle waits (bounded; clean-up only, never an oracle) until every healthy file has been put and no Put is in flight
func (t *trackStore) settle(healthy []string, limit time.Duration) bool {
	deadline := time.Now().Add(limit)
	for {
		t.mu.Lock()
		ok := t.started == t.finished
		for _, h := range healthy {
			ok = ok && t.done[h]
		}
		t.mu.Unlock()
		if ok {
			return true
		}
		if time.Now().After(deadline) {
			return false
		}
		time.Sleep(500 * time.Microsecond)
	}
}

func allZero(b []byte) bool {
	for _, x := range b {
		if x != 0 {
			return false
		}
	}
	return true
}

// judgeDest checks the downloaded copy of the target file after a FAILED download: "must not write altered
// bytes into the destination". Leaf-aligned blocks are either the stored bytes (possibly a prefix of them),
// or a hole (all zero: never written), or absent.
func judgeDest(path string, orig []byte, L int) error {
	got, err := os.ReadFile(path)
	if os.IsNotExist(err) {
		stats.Count("dl_failed_dest_absent", 1)
		return nil
	}
	if err != nil {
		return fmt.Errorf("harness: reading destination: %v", err)
	}
	if len(got) == 0 {
		stats.Count("dl_failed_dest_empty", 1)
		return nil
	}
	stats.Count("dl_failed_dest_partial", 1)
	for lo := 0; lo < len(got); lo += L {
		hi := min(lo+L, len(got))
		blk := got[lo:hi]
		if allZero(blk) {
			continue
		}
		if hi <= len(orig) && bytes.Equal(blk, orig[lo:hi]) {
			continue
		}
		return fmt.Errorf("download failed with an error but left altered bytes in the destination file: block [%d,%d) of %d destination bytes differs from the stored content (%d bytes) at %d",
			lo, hi, len(got), len(orig), lo+firstDiff(blk, orig[min(lo, len(orig)):min(hi, len(orig))]))
	}
	return nil
}

// sharedLeaf finds two files holding the same bytes in the same leaf position (=> the same leaf blob);
// it returns (-1,-1) when there is none, else the index of the later file in Others as second result
// (the first is -1 for the target or an index in Others)
func sharedLeaf(c dlCase) (int, int) {
	L := int(c.Target.Obj.Leaf)
	seen := map[string]int{}
	files := append([]dlFile{c.Target}, c.Others...)
	for fi, f := range files {
		data := f.Obj.bytes()
		for lo := 0; lo < len(data); lo += L {
			k := fmt.Sprintf("%d/%x", lo, data[lo:min(lo+L, len(data))])
			if prev, dup := seen[k]; dup && prev != fi {
				return prev - 1, fi - 1
			}
			seen[k] = fi
		}
	}
	return -1, -1
}

func (c dlCase) tree() hx.Tree {
	t := hx.Tree{c.Target.Name: c.Target.Obj.bytes()}
	for _, f := range c.Others {
		t[f.Name] = f.Obj.bytes()
	}
	return t
}

func dlSig(c dlCase, style string) string {
	nl := "n1"
	switch {
	case c.Target.Obj.N == 2:
		nl = "n2"
	case c.Target.Obj.N == 3:
		nl = "n3"
	case c.Target.Obj.N > 3:
		nl = "n4+"
	}
	return fmt.Sprintf("%s|%s|%s|%s", c.Corr.kindClass(), posClass(c.Target.Obj, c.Corr.Target), style, nl)
}

func runDownload(c dlCase, record bool) error {
	sc := hx.NewScratch()
	defer sc.Close()
	env := hx.NewEnv()
	v := env.Actor("up")
	if err := hx.CreateRepo(v.Stores, "repo"); err != nil {
		return fmt.Errorf("harness: create repo: %v", err)
	}
	L := c.Target.Obj.Leaf
	tree := c.tree()
	if len(tree) != 1+len(c.Others) {
		return fmt.Errorf("harness: duplicate file names")
	}
	id, err := hx.UploadTree(sc, v.Stores, "repo", tree, L)
	if err != nil {
		return fmt.Errorf("harness: upload: %v", err)
	}
	root, err := hx.CafsKey(c.Target.Obj.bytes(), L)
	if err != nil {
		return fmt.Errorf("harness: %v", err)
	}
	st, err := locate(env.Blob, c.Target.Obj, root)
	if err != nil {
		return err
	}
	oroot, err := hx.CafsKey(c.Others[0].Obj.bytes(), L)
	if err != nil {
		return fmt.Errorf("harness: %v", err)
	}
	ost, err := locate(env.Blob, c.Others[0].Obj, oroot)
	if err != nil {
		return err
	}
	// the files of the bundle must not share blobs, so exactly one file is affected
	if a, b := sharedLeaf(c); b >= 0 {
		return fmt.Errorf("harness: files %d and %d share a leaf", a+1, b+1)
	}
	d, err := apply(c.Corr, st, ost)
	if err != nil {
		return err
	}
	var healthy []string
	for _, f := range c.Others {
		healthy = append(healthy, f.Name)
	}
	for _, style := range c.Styles {
		if id := excludedObs(c.Corr, style); id != "" {
			stats.Count("excluded_"+id, 1)
			continue
		}
		dst := sc.Dir("dst")
		ts := &trackStore{Store: hx.Local(dst), done: map[string]bool{}}
		rd := env.Actor("down-" + style)
		b := hx.NewBundle("repo", rd.Stores, ts, 0, core.BundleID(id), core.ConcurrentFileDownloads(c.Conc))
		var derr error
		gerr, hung, panicked := hx.Guard(60*time.Second, func() error {
			switch style {
			case "publish":
				derr = core.Publish(context.Background(), b)
			case "publishfile":
				derr = core.PublishFile(context.Background(), b, c.Target.Name)
			default:
				return fmt.Errorf("harness: unknown style %q", style)
			}
			return nil
		})
		switch {
		case hung:
			return fmt.Errorf("HANG in %s: %v", style, gerr)
		case panicked:
			return fmt.Errorf("PANIC in %s: %v", style, gerr)
		case gerr != nil:
			return gerr
		}
		target := filepath.Join(dst, filepath.FromSlash(c.Target.Name))
		switch {
		case !d.Effective:
			// control arm: the download succeeds and reproduces the stored bytes
			if derr != nil {
				return fmt.Errorf("healthy store (no effective damage) but %s failed: %v", style, derr)
			}
			got, err := hx.ReadTree(dst)
			if err != nil {
				return fmt.Errorf("harness: %v", err)
			}
			got = got.WithoutMeta()
			want := tree
			if style == "publishfile" {
				want = hx.Tree{c.Target.Name: tree[c.Target.Name]}
			}
			if len(got) != len(want) {
				return fmt.Errorf("healthy store: %s produced %d files, expected %d", style, len(got), len(want))
			}
			for name, data := range want {
				if !bytes.Equal(got[name], data) {
					return fmt.Errorf("healthy store: %s produced %q with %d bytes differing from the %d stored ones at %d", style, name, len(got[name]), len(data), firstDiff(got[name], data))
				}
			}
		case derr == nil:
			got, _ := os.ReadFile(target)
			return fmt.Errorf("damaged blob served as valid: %s reported success; destination file has %d bytes (stored %d), first difference at %d",
				style, len(got), len(st.orig), firstDiff(got, st.orig))
		default:
			// failed as required; whatever reached the destination file must not be altered bytes
			if style == "publish" && !ts.settle(healthy, 10*time.Second) {
				stats.Count("dl_background_not_settled", 1)
			}
			if err := judgeDest(target, st.orig, int(L)); err != nil {
				return fmt.Errorf("%s: %v (reported error: %v)", style, err, derr)
			}
		}
		if record {
			cc, ss := c, style
			stats.Case(dlSig(c, style), d.Effective, func() interface{} {
				cc.Styles = []string{ss}
				return cc
			})
			stats.Count("kind_"+c.Corr.kindClass(), 1)
			stats.Count("style_"+style, 1)
			stats.Count("target_"+posClass(c.Target.Obj, c.Corr.Target), 1)
			if d.Effective {
				stats.Count("arm_error_demanded", 1)
			} else {
				stats.Count("arm_control_or_identical", 1)
			}
		}
	}
	return nil
}

func checkDownload(t failer, c dlCase) {
	hx.Journal(c)
	if err := runDownload(c, true); err != nil {
		b, _ := json.Marshal(c)
		stats.Violation(err.Error())
		t.Fatalf("%v\ncase=%s", err, b)
	}
}

func drawDlCase(t *rapid.T) dlCase {
	// core flows cannot set the cafs cache size (free list of 50 MiB / leaf slots per cafs.New): keep leaves >= 1 KiB
	L := rapid.SampledFrom([]uint32{1024, 2048, 4096, 4096, 4096, 8192, 8192, 16384, 65536}).Draw(t, "L")
	maxN := 6
	if L > 16384 {
		maxN = 3
	}
	c := dlCase{}
	c.Target.Obj = drawObj(t, L, maxN, "obj")
	c.Target.Name = rapid.SampledFrom([]string{"0first", "mid/target.bin", "zz/last"}).Draw(t, "tname")
	seeds := map[uint64]bool{c.Target.Obj.Seed: true}
	n := rapid.IntRange(1, 3).Draw(t, "nothers")
	for i := 0; i < n; i++ {
		o := drawObj(t, L, 3, fmt.Sprintf("other%d", i))
		o.Kind, o.Period = 0, 0
		for seeds[o.Seed] {
			o.Seed++
		}
		seeds[o.Seed] = true
		c.Others = append(c.Others, dlFile{Name: []string{"a/f0", "n/f1", "q q/f2"}[i], Obj: o})
	}
	// exactly one file may be affected by the corruption: no two files may share a leaf blob (tiny last
	// leaves of random bytes do collide); bump the seed of the later file until they do not
	for tries := 0; tries < 200; tries++ {
		_, b := sharedLeaf(c)
		if b < 0 {
			break
		}
		c.Others[b].Obj.Seed += 0x9E3779B97F4A7C15
	}
	c.Corr = drawCorr(t, c.Target.Obj, c.Others[0].Obj, true)
	c.Styles = rapid.SampledFrom([][]string{{"publish"}, {"publishfile"}, {"publish", "publishfile"}}).Draw(t, "styles")
	c.Conc = rapid.SampledFrom([]int{1, 2, 3, 10, 20}).Draw(t, "conc")
	return c
}

// TestPropDownload samples (bundle, corruption, download style) triples through pkg/core
func TestPropDownload(t *testing.T) {
	rapid.Check(t, func(t *rapid.T) {
		checkDownload(t, drawDlCase(t))
	})
}
