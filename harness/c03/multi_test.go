package c03

import (
	"bytes"
	"context"
	"encoding/hex"
	"fmt"
	"io"
	"testing"
	"time"

	"github.com/oneconcern/datamon/pkg/cafs"

	"verifharness/hx"
	"verifharness/memstore"
)

// TestRegressSeveralDamagedLeaves: two or more leaves of one object are damaged at once (deleted, flipped or
// emptied). Every read style that covers the whole object must end with an error - within the time limit: the error
// of the second damaged leaf must not block the first one's - and none may hand out wrong bytes as valid.
func TestRegressSeveralDamagedLeaves(t *testing.T) {
	const L = 1024
	styles := []string{"read", "readall", "readat", "writeto", "writetoat"}
	n := 0
	for _, leaves := range []int{2, 3, 5} {
		for _, kind := range []string{"delete", "flip", "empty"} {
			for _, which := range [][]int{{0, 1}, {0, leaves - 1}, nil} { // nil: every leaf
				for _, rcw := range []int{1, 4} {
					content := hx.Expand(uint64(1000+leaves), leaves*L-17, 0, 0)
					be := memstore.NewBackend("blob")
					wfs, err := cafs.New(cafs.LeafSize(L), cafs.Backend(be.View("w")), cafs.Logger(hx.Nop), cafs.CacheSize(4*L))
					if err != nil {
						t.Fatal(err)
					}
					res, err := wfs.Put(context.Background(), bytes.NewReader(content))
					if err != nil {
						t.Fatal(err)
					}
					targets := which
					if targets == nil {
						for i := 0; i < leaves; i++ {
							targets = append(targets, i)
						}
					}
					for _, i := range targets {
						k := hex.EncodeToString(res.Keys[64*i : 64*i+64])
						data, ok := be.RawGet(k)
						if !ok {
							t.Fatalf("harness: leaf blob %d not in the store", i)
						}
						switch kind {
						case "delete":
							be.RawDelete(k)
						case "flip":
							d := append([]byte{}, data...)
							d[len(d)/2] ^= 0x10
							be.RawPut(k, d)
						case "empty":
							be.RawPut(k, nil)
						}
					}
					for _, style := range styles {
						what := fmt.Sprintf("%d leaves, %s of leaves %v, %s, %d concurrent chunk writes", leaves, kind, targets, style, rcw)
						var got []byte
						var rerr error
						err, hung, panicked := hx.Guard(30*time.Second, func() error {
							rfs, err := cafs.New(cafs.LeafSize(L), cafs.Backend(be.View("r")), cafs.Logger(hx.Nop), cafs.CacheSize(2*L), cafs.ReaderConcurrentChunkWrites(rcw))
							if err != nil {
								return err
							}
							switch style {
							case "readat":
								ra, e := rfs.GetAt(context.Background(), res.Key)
								if e != nil {
									rerr = e
									return nil
								}
								buf := make([]byte, len(content))
								m, e := ra.ReadAt(buf, 0)
								got, rerr = buf[:m], e
								if e == io.EOF && m == len(content) {
									rerr = nil
								}
								return nil
							}
							r, e := rfs.Get(context.Background(), res.Key)
							if e != nil {
								rerr = e
								return nil
							}
							defer r.Close()
							switch style {
							case "read":
								buf := make([]byte, 300)
								for {
									m, e := r.Read(buf)
									got = append(got, buf[:m]...)
									if e == io.EOF {
										break
									}
									if e != nil {
										rerr = e
										break
									}
								}
							case "readall":
								got, rerr = io.ReadAll(struct{ io.Reader }{r})
							case "writeto":
								w := &plainWriter{}
								_, rerr = r.(io.WriterTo).WriteTo(w)
								got = w.b.Bytes()
							case "writetoat":
								w := &sliceWriterAt{max: len(content)}
								_, rerr = r.(io.WriterTo).WriteTo(w)
								got = w.buf
							}
							return nil
						})
						n++
						if hung || panicked || err != nil {
							stats.Violation(what)
							t.Fatalf("%s: %v (hung=%v panicked=%v)", what, err, hung, panicked)
						}
						if rerr == nil {
							stats.Violation(what)
							t.Fatalf("%s: the read reported no error (%d bytes, equal to the stored content: %v)", what, len(got), bytes.Equal(got, content))
						}
					}
					stats.Case(fmt.Sprintf("pinned several damaged leaves n=%d %s %v rcw=%d", leaves, kind, which, rcw), true, func() interface{} { return targets })
				}
			}
		}
	}
	stats.Count("several_damaged_leaves_observations", n)
}
