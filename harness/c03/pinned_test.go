package c03

import (
	"encoding/json"
	"os"
	"strings"
	"testing"

	"verifharness/hx"
)

// ---- pinned cases

func pinObs(styles ...string) []obsT {
	var out []obsT
	for _, s := range styles {
		o := obsT{Style: s, CacheL: 4, RCW: 2}
		if s == "read" {
			o.Bufs = []int{7}
		}
		if s == "readat" {
			o.Shape, o.Off, o.Len = "whole", 0, 4096
		}
		out = append(out, o)
	}
	return out
}

var (
	pinObj   = objT{Leaf: 64, N: 3, Last: 17, Seed: 1}
	pinOther = objT{Leaf: 64, N: 2, Last: 33, Seed: 2}
	allCafs  = []string{"read", "readall", "readat", "writeto", "writetoat"}
)

// TestRegressControl: the healthy store reads back through every style, and replacements by identical bytes are no damage
func TestRegressControl(t *testing.T) {
	for _, c := range []caseT{
		{Obj: pinObj, Other: pinOther, Rel: "random", Corr: corrT{Kind: "none", Target: 0}, Obs: pinObs(allCafs...)},
		{Obj: objT{Leaf: 64, N: 1, Last: 1, Seed: 3}, Other: pinOther, Rel: "random", Corr: corrT{Kind: "none", Target: -1}, Obs: pinObs(allCafs...)},
		// all-zero object: leaf 0 replaced by leaf 1 holds the same bytes
		{Obj: objT{Leaf: 64, N: 3, Last: 64, Seed: 4, Kind: 2}, Other: pinOther, Rel: "random", Corr: corrT{Kind: "ownleaf", Target: 0, Src: 1}, Obs: pinObs(allCafs...)},
		// sibling differing in the last byte: its leaf 0 is the very same blob
		{Obj: pinObj, Other: pinObj, Rel: "sibling", SibAt: pinObj.size() - 1, Corr: corrT{Kind: "otherleaf", Target: 0, Src: 0}, Obs: pinObs(allCafs...)},
	} {
		check(t, c)
	}
}

// TestRegressLeafDamage: each kind of leaf damage through the verified styles
func TestRegressLeafDamage(t *testing.T) {
	styles := []string{"read", "readall", "readat", "writeto"}
	if !hx.Known(knownWriterAt) {
		styles = allCafs
	}
	for _, corr := range []corrT{
		{Kind: "flip", Target: 0, Pos: 0, Bit: 0},
		{Kind: "flip", Target: 1, Pos: 63, Bit: 7},
		{Kind: "flip", Target: 2, Pos: 16, Bit: 3},
		{Kind: "trunc", Target: 1, Len: 63},
		{Kind: "trunc", Target: 2, Len: 0},
		{Kind: "trunc", Target: 0, Len: 0},
		{Kind: "delete", Target: 1},
		{Kind: "append", Target: 2, Len: 1, Fill: 0},
		{Kind: "append", Target: 2, Len: 47, Fill: 0}, // the short last leaf grows to a full leaf
		{Kind: "append", Target: 0, Len: 64, Fill: 'x'},
		{Kind: "ownleaf", Target: 0, Src: 1},
		{Kind: "ownleaf", Target: 2, Src: 0},
		{Kind: "otherleaf", Target: 0, Src: 0},
		{Kind: "otherleaf", Target: 1, Src: 1},
		{Kind: "ownroot", Target: 1},
		{Kind: "otherroot", Target: 0},
	} {
		check(t, caseT{Obj: pinObj, Other: pinOther, Rel: "random", Corr: corr, Obs: pinObs(styles...)})
	}
}

// TestRegressRootDamage: damaged root blobs (other than the swap with another valid root blob, pinned below)
func TestRegressRootDamage(t *testing.T) {
	for _, corr := range []corrT{
		{Kind: "flip", Target: -1, Pos: 0, Bit: 0},
		{Kind: "flip", Target: -1, Pos: 255, Bit: 7}, // inside the trailing root key
		{Kind: "trunc", Target: -1, Len: 0},
		{Kind: "trunc", Target: -1, Len: 64},
		{Kind: "trunc", Target: -1, Len: 192}, // drops the trailing key: the last leaf key becomes the "root"
		{Kind: "trunc", Target: -1, Len: 255},
		{Kind: "delete", Target: -1},
		{Kind: "append", Target: -1, Len: 64, Fill: 0},
		{Kind: "append", Target: -1, Len: 1, Fill: 0},
		{Kind: "ownleaf", Target: -1, Src: 0},
		{Kind: "otherleaf", Target: -1, Src: 1},
	} {
		check(t, caseT{Obj: pinObj, Other: pinOther, Rel: "random", Corr: corr, Obs: pinObs(allCafs...)})
	}
}

// TestRegressDownload: control and damaged downloads through core
func TestRegressDownload(t *testing.T) {
	tgt := dlFile{Name: "mid/target.bin", Obj: objT{Leaf: 4096, N: 3, Last: 100, Seed: 11}}
	others := []dlFile{{Name: "a/f0", Obj: objT{Leaf: 4096, N: 2, Last: 4096, Seed: 12}}, {Name: "q/f1", Obj: objT{Leaf: 4096, N: 1, Last: 9, Seed: 13}}}
	both := []string{"publish", "publishfile"}
	corrs := []corrT{
		{Kind: "none", Target: 0},
		{Kind: "flip", Target: -1, Pos: 5, Bit: 1},
		{Kind: "delete", Target: -1},
	}
	if !hx.Known(knownWriterAt) && !hx.Known(knownPutErr) {
		corrs = append(corrs,
			corrT{Kind: "flip", Target: 1, Pos: 4095, Bit: 0},
			corrT{Kind: "trunc", Target: 2, Len: 0},
			corrT{Kind: "delete", Target: 0},
			corrT{Kind: "ownleaf", Target: 0, Src: 1},
			corrT{Kind: "otherleaf", Target: 1, Src: 1},
			corrT{Kind: "append", Target: 2, Len: 1, Fill: 0xff},
		)
	}
	for _, corr := range corrs {
		checkDownload(t, dlCase{Target: tgt, Others: others, Corr: corr, Styles: both, Conc: 3})
	}
}

// ---- known-finding pins: each runs the minimal failing input; when the defect still reproduces it is
// reported as a known finding if listed, and as a failure otherwise

func knownPin(t *testing.T, id, what string, run func() error) {
	err := run()
	if err == nil {
		return // does not reproduce (fixed)
	}
	if strings.Contains(err.Error(), "harness:") {
		t.Fatalf("harness trouble in the pinned case of %s: %v", id, err)
	}
	if hx.Listed(id) {
		stats.KnownFinding(id, what)
		t.Logf("KNOWN-FINDING %s still reproduces: %v", id, err)
		return
	}
	t.Fatalf("%s (not listed as known): %v", what, err)
}

func withoutExclusions(fn func() error) error {
	old, had := os.LookupEnv("VERIF_NO_EXCLUDE")
	os.Setenv("VERIF_NO_EXCLUDE", "1")
	defer func() {
		if had {
			os.Setenv("VERIF_NO_EXCLUDE", old)
		} else {
			os.Unsetenv("VERIF_NO_EXCLUDE")
		}
	}()
	return fn()
}

// TestKnownWriterAtUnverified: WriteTo into an io.WriterAt copies a bit-flipped leaf without verification
func TestKnownWriterAtUnverified(t *testing.T) {
	knownPin(t, knownWriterAt, "cafs chunkReader.WriteTo (io.WriterAt branch, used by every bundle download) copies leaf blobs without hash verification: a damaged leaf is written to the destination and no error is returned", func() error {
		return withoutExclusions(func() error {
			return runCase(caseT{Obj: pinObj, Other: pinOther, Rel: "random", Corr: corrT{Kind: "flip", Target: 1, Pos: 0, Bit: 0}, Obs: pinObs("writetoat")}, false)
		})
	})
}

// TestKnownPutDropsError: a download whose copy fails (missing leaf blob) reports success
func TestKnownPutDropsError(t *testing.T) {
	knownPin(t, knownPutErr, "localfs.Put overwrites the error of the copy (WriteTo / PipeIO) with the result of Close: a bundle download that failed on a missing or damaged leaf reports success and leaves a partial file", func() error {
		return withoutExclusions(func() error {
			return runDownload(dlCase{
				Target: dlFile{Name: "t", Obj: objT{Leaf: 4096, N: 2, Last: 10, Seed: 21}},
				Others: []dlFile{{Name: "o", Obj: objT{Leaf: 4096, N: 1, Last: 10, Seed: 22}}},
				Corr:   corrT{Kind: "delete", Target: 0}, Styles: []string{"publishfile", "publish"}, Conc: 1}, false)
		})
	})
}

// TestKnownRootSwap: the root blob replaced by the (valid) root blob of another object is accepted
func TestKnownRootSwap(t *testing.T) {
	knownPin(t, knownRootSwap, "cafs leavesForHash never compares the key stored at the end of a root blob with the requested root key: a root blob replaced by another object's valid root blob is accepted and the other object's bytes are returned by every read style and by downloads", func() error {
		return withoutExclusions(func() error {
			return runCase(caseT{Obj: pinObj, Other: pinOther, Rel: "random", Corr: corrT{Kind: "otherroot", Target: -1}, Obs: pinObs(allCafs...)}, false)
		})
	})
}

// TestKnownReadStreams: a sequential Read hands out the bytes of a damaged leaf before it verifies the leaf
func TestKnownReadStreams(t *testing.T) {
	knownPin(t, knownStream, "cafs chunkReader.Read verifies a leaf only once it has been read to its end: with a buffer smaller than the leaf (always the case for io.Copy's 32 KiB buffer and production leaf sizes) the altered bytes of a damaged leaf are returned with a nil error, and WriteTo(io.Writer) writes them to the destination, before the terminal 'hash verification failed'", func() error {
		return withoutExclusions(func() error {
			return runCase(caseT{Obj: pinObj, Other: pinOther, Rel: "random", Corr: corrT{Kind: "flip", Target: 1, Pos: 0, Bit: 0}, Obs: pinObs("read", "readall", "writeto")}, false)
		})
	})
}

// TestReplayJournal re-executes the case left in $VERIF_REPLAY_JOURNAL by a run that died or failed
func TestReplayJournal(t *testing.T) {
	p := os.Getenv("VERIF_REPLAY_JOURNAL")
	if p == "" {
		t.Skip("no journal to replay")
	}
	b, err := os.ReadFile(p)
	if err != nil {
		t.Fatalf("harness: %v", err)
	}
	var probe map[string]json.RawMessage
	if err := json.Unmarshal(b, &probe); err != nil {
		t.Fatalf("harness: journal is not a JSON object: %v", err)
	}
	switch {
	case probe["enumerating"] != nil:
		t.Logf("the journal names an enumeration group; re-running the whole enumeration")
		TestEnumCafs(t)
	case probe["styles"] != nil:
		var c dlCase
		if err := json.Unmarshal(b, &c); err != nil {
			t.Fatalf("harness: %v", err)
		}
		checkDownload(t, c)
	default:
		var c caseT
		if err := json.Unmarshal(b, &c); err != nil {
			t.Fatalf("harness: %v", err)
		}
		check(t, c)
	}
}
