// Package c03 checks property C03: with hash verification enabled (the default) a damaged stored
// blob never comes back from a read (Read, ReadAt, WriteTo) or from a bundle download as if it were valid.
//
// Files: c03_test.go (model of a stored object, corruptions, read styles, the cafs-level oracle, the
// rapid property and the exhaustive enumeration), download_test.go (core.Publish / core.PublishFile arm),
// pinned_test.go (regressions, known-finding pins, journal replay).
package c03

import (
	"bytes"
	"context"
	"encoding/hex"
	"encoding/json"
	"fmt"
	"io"
	"os"
	"sync"
	"testing"
	"time"

	"github.com/oneconcern/datamon/pkg/cafs"
	"pgregory.net/rapid"

	"verifharness/evid"
	"verifharness/hx"
	"verifharness/memstore"
)

var stats = evid.New("C03", "one stored object of 1..6 leaves (leaf 64..4096 via cafs directly, 1 KiB..64 KiB via core), ONE corruption of ONE of its blobs "+
	"(flip bit / truncate to n incl. 0 / delete / append / replace by another leaf of the same object / by a leaf or the root blob of another object / by its own root blob; "+
	"target = any leaf blob or the root blob), then one observation on a FRESH cafs.Fs or Bundle (verification left at its default): Read with a buffer program, ReadAll, "+
	"ReadAt (ranges hitting / missing the damaged leaf, prefetch on/off), WriteTo(io.Writer), WriteTo(io.WriterAt), core.Publish and core.PublishFile into a localfs directory. "+
	"Thorough tier additionally ENUMERATES every bit flip, every truncation length, delete, appends and every replacement of every blob of objects of 1..3 leaves of 64/80 bytes "+
	"against every read style (TestEnumCafs, exhaustive_subrun). One evaluation = one (object, corruption, observation) triple. "+
	"Non-trivial: the corruption changed the stored bytes AND the observation covers the damaged range (the oracle demanded an error); "+
	"distinct by (corruption kind, target position class only/first/middle/last/root, read style incl. hit-shape for ReadAt, leaf-count class).")

func TestMain(m *testing.M) {
	code := m.Run()
	stats.Flush()
	os.Exit(code)
}

// identifiers of the findings this check knows how to exclude (see NOTES.md; none is listed when the proposed fixes are applied)
const (
	knownWriterAt = "C03-writeto-writerat-unverified"   // leaf damage x {WriteTo(io.WriterAt), download}
	knownPutErr   = "C03-localfs-put-drops-error"       // leaf damage x download: error of the copy is dropped
	knownRootSwap = "C03-root-blob-swap-accepted"       // root blob replaced by another object's valid root blob x every style
	knownStream   = "C03-read-streams-unverified-bytes" // leaf damage x {Read, ReadAll, WriteTo(io.Writer)}: altered bytes handed out before the terminal error
)

// ---------------------------------------------------------------------------------------------
// objects

// objT describes a stored object of N leaves: N-1 full leaves and a last leaf of Last bytes (1..Leaf)
type objT struct {
	Leaf   uint32 `json:"leaf"`
	N      int    `json:"n"`
	Last   int    `json:"last"`
	Seed   uint64 `json:"seed"`
	Kind   int    `json:"kind"` // hx.Expand kind: 0 random, 1 periodic, 2 zeros
	Period int    `json:"period,omitempty"`
}

func (o objT) size() int     { return (o.N-1)*int(o.Leaf) + o.Last }
func (o objT) bytes() []byte { return hx.Expand(o.Seed, o.size(), o.Kind, o.Period) }

// leafRange is the byte range of leaf i in the object
func (o objT) leafRange(i int) (int, int) {
	lo := i * int(o.Leaf)
	hi := lo + int(o.Leaf)
	if hi > o.size() {
		hi = o.size()
	}
	return lo, hi
}

// blobLen is the length of the stored blob: target -1 is the root blob (leaf keys followed by the root key)
func (o objT) blobLen(target int) int {
	if target < 0 {
		return 64 * (o.N + 1)
	}
	lo, hi := o.leafRange(target)
	return hi - lo
}

// ---------------------------------------------------------------------------------------------
// corruptions

type corrT struct {
	Kind   string `json:"kind"`   // none flip trunc delete append ownleaf otherleaf ownroot otherroot
	Target int    `json:"target"` // leaf index, -1 = root blob
	Pos    int    `json:"pos,omitempty"`
	Bit    int    `json:"bit,omitempty"`
	Len    int    `json:"len,omitempty"` // trunc: new length; append: number of bytes
	Src    int    `json:"src,omitempty"` // ownleaf / otherleaf: source leaf index
	Fill   byte   `json:"fill,omitempty"`
}

// kindClass is the corruption kind used in signatures ("empty" = truncation to 0)
func (c corrT) kindClass() string {
	if c.Kind == "trunc" && c.Len == 0 {
		return "empty"
	}
	return c.Kind
}

func posClass(o objT, target int) string {
	switch {
	case target < 0:
		return "root"
	case o.N == 1:
		return "only"
	case target == 0:
		return "first"
	case target == o.N-1:
		return "last"
	}
	return "middle"
}

// stored is what the harness knows about an object in the blob store. The blob names are derived from
// the documented layout of the root blob (concatenated 64-byte leaf keys followed by the root key, all
// blobs named by the hex key), not from datamon internals.
type stored struct {
	be     *memstore.Backend
	obj    objT
	orig   []byte
	root   string
	leaves []string
}

func locate(be *memstore.Backend, o objT, rootHex string) (*stored, error) {
	rb, ok := be.RawGet(rootHex)
	if !ok {
		return nil, fmt.Errorf("harness: root blob %s not in the blob store", rootHex[:16])
	}
	if len(rb) != 64*(o.N+1) {
		return nil, fmt.Errorf("harness: root blob has %d bytes, expected %d for %d leaves", len(rb), 64*(o.N+1), o.N)
	}
	st := &stored{be: be, obj: o, orig: o.bytes(), root: rootHex}
	for i := 0; i < o.N; i++ {
		k := hex.EncodeToString(rb[64*i : 64*i+64])
		lb, ok := be.RawGet(k)
		if !ok {
			return nil, fmt.Errorf("harness: leaf blob %d not in the blob store", i)
		}
		lo, hi := o.leafRange(i)
		if !bytes.Equal(lb, st.orig[lo:hi]) {
			return nil, fmt.Errorf("harness: leaf blob %d does not hold bytes [%d,%d) of the object", i, lo, hi)
		}
		st.leaves = append(st.leaves, k)
	}
	if hex.EncodeToString(rb[64*o.N:]) != rootHex {
		return nil, fmt.Errorf("harness: root blob does not end with its own key")
	}
	return st, nil
}

func (st *stored) key(target int) string {
	if target < 0 {
		return st.root
	}
	return st.leaves[target]
}

// damageT is the effect of an applied corruption
type damageT struct {
	Effective bool // the stored state of the target blob changed
	Root      bool
	Lo, Hi    int // affected byte range of the object (whole object for the root blob)
}

// apply performs the corruption on the blob store; other supplies replacement blobs
func apply(c corrT, st, other *stored) (damageT, error) {
	d := damageT{Root: c.Target < 0}
	if c.Target >= st.obj.N {
		return d, fmt.Errorf("harness: target %d out of range", c.Target)
	}
	if d.Root {
		d.Lo, d.Hi = 0, st.obj.size()
	} else {
		d.Lo, d.Hi = st.obj.leafRange(c.Target)
	}
	if c.Kind == "none" {
		return d, nil
	}
	key := st.key(c.Target)
	old, ok := st.be.RawGet(key)
	if !ok {
		return d, fmt.Errorf("harness: target blob missing before corruption")
	}
	var nb []byte
	get := func(s *stored, idx int) ([]byte, error) {
		if s == nil {
			return nil, fmt.Errorf("harness: no other object")
		}
		if idx >= s.obj.N {
			return nil, fmt.Errorf("harness: source leaf %d out of range", idx)
		}
		b, ok := s.be.RawGet(s.key(idx))
		if !ok {
			return nil, fmt.Errorf("harness: source blob missing")
		}
		return b, nil
	}
	var err error
	switch c.Kind {
	case "flip":
		if c.Pos >= len(old) {
			return d, fmt.Errorf("harness: flip position %d beyond blob of %d", c.Pos, len(old))
		}
		nb = append([]byte{}, old...)
		nb[c.Pos] ^= 1 << uint(c.Bit&7)
	case "trunc":
		if c.Len >= len(old) {
			return d, fmt.Errorf("harness: truncation to %d of a blob of %d", c.Len, len(old))
		}
		nb = append([]byte{}, old[:c.Len]...)
	case "delete":
		st.be.RawDelete(key)
		d.Effective = true
		return d, nil
	case "append":
		nb = append(append([]byte{}, old...), bytes.Repeat([]byte{c.Fill}, c.Len)...)
	case "ownleaf":
		nb, err = get(st, c.Src)
	case "otherleaf":
		nb, err = get(other, c.Src)
	case "ownroot":
		nb, err = get(st, -1)
	case "otherroot":
		nb, err = get(other, -1)
	default:
		return d, fmt.Errorf("harness: unknown corruption %q", c.Kind)
	}
	if err != nil {
		return d, err
	}
	st.be.RawPut(key, append([]byte{}, nb...))
	d.Effective = !bytes.Equal(old, nb)
	return d, nil
}

// ---------------------------------------------------------------------------------------------
// observations

type obsT struct {
	Style    string `json:"style"` // read readall readat writeto writetoat
	Bufs     []int  `json:"bufs,omitempty"`
	Off      int64  `json:"off,omitempty"`
	Len      int    `json:"len,omitempty"`
	Shape    string `json:"shape,omitempty"` // readat: how the range was chosen
	Warm     bool   `json:"warm,omitempty"`  // readat: first read one byte at WarmOff (the leaf before the damaged one) on the same reader and let its prefetcher fetch the damaged leaf
	WarmOff  int64  `json:"warm_off,omitempty"`
	Prefetch int    `json:"prefetch"`
	CacheL   int    `json:"cache_leaves"`
	RCW      int    `json:"rcw"`
}

type resT struct {
	warmErr  error  // warm-up read: error, or
	warmByte []byte // the byte it returned as valid
	openErr  error
	err      error // terminal error of the read (nil: clean completion)
	data     []byte
	n        int64
	mask     []bool // writetoat: which offsets were written
}

type sliceWriterAt struct {
	mu   sync.Mutex
	buf  []byte
	mask []bool
	max  int
}

func (s *sliceWriterAt) WriteAt(p []byte, off int64) (int, error) {
	s.mu.Lock()
	defer s.mu.Unlock()
	end := int(off) + len(p)
	if off < 0 || end > s.max {
		return 0, fmt.Errorf("harness writer: write [%d,%d) outside the %d bytes accepted", off, end, s.max)
	}
	if end > len(s.buf) {
		nb := make([]byte, end)
		copy(nb, s.buf)
		s.buf = nb
		nm := make([]bool, end)
		copy(nm, s.mask)
		s.mask = nm
	}
	copy(s.buf[off:], p)
	for i := int(off); i < end; i++ {
		s.mask[i] = true
	}
	return len(p), nil
}
func (s *sliceWriterAt) Write(p []byte) (int, error) {
	return 0, fmt.Errorf("harness writer: Write must not be used on a WriterAt destination")
}

type plainWriter struct{ b bytes.Buffer }

func (p *plainWriter) Write(b []byte) (int, error) { return p.b.Write(b) }

// newFs builds a fresh cafs on the (possibly damaged) store: hash verification is left at its default
func newFs(view *memstore.Store, L uint32, o obsT) (cafs.Fs, error) {
	cl := o.CacheL
	if cl < 1 {
		cl = 1
	}
	return cafs.New(cafs.LeafSize(L), cafs.Backend(view), cafs.Logger(hx.Nop),
		cafs.CacheSize(cl*int(L)), cafs.Prefetch(o.Prefetch), cafs.ReaderConcurrentChunkWrites(o.RCW))
}

// fsPool hands out the cafs.Fs of an observation: always created AFTER the corruption; a fresh one per
// observation, or (shared mode) one per option set, reused by the later observations of the same case
type fsPool struct {
	shared bool
	m      map[string]cafs.Fs
	mu     sync.Mutex
	gets   map[string]int // Get calls per blob key issued by the reader side (used to wait for a prefetcher)
}

func (p *fsPool) getsOf(key string) int {
	p.mu.Lock()
	defer p.mu.Unlock()
	return p.gets[key]
}

func (p *fsPool) get(st *stored, o obsT) (cafs.Fs, error) {
	k := fmt.Sprintf("%d/%d/%d", o.Prefetch, o.CacheL, o.RCW)
	if p.shared {
		if fs, ok := p.m[k]; ok {
			return fs, nil
		}
	}
	view := st.be.View("reader")
	view.After(func(c *memstore.Call) {
		if c.Op == memstore.OpGet {
			p.mu.Lock()
			if p.gets == nil {
				p.gets = map[string]int{}
			}
			p.gets[c.Key]++
			p.mu.Unlock()
		}
	})
	fs, err := newFs(view, st.obj.Leaf, o)
	if err != nil {
		return nil, fmt.Errorf("harness: cafs.New: %v", err)
	}
	if p.shared {
		if p.m == nil {
			p.m = map[string]cafs.Fs{}
		}
		p.m[k] = fs
	}
	return fs, nil
}

func observe(st *stored, o obsT, pool *fsPool, watchKey string) (resT, error) {
	var res resT
	fs, err := pool.get(st, o)
	if err != nil {
		return res, err
	}
	kb, err := hex.DecodeString(st.root)
	if err != nil {
		return res, err
	}
	key, err := cafs.NewKey(kb)
	if err != nil {
		return res, fmt.Errorf("harness: %v", err)
	}
	ctx := context.Background()
	size := len(st.orig)
	limit := 2*size + 4*int(st.obj.Leaf) + 64
	switch o.Style {
	case "read":
		r, err := fs.Get(ctx, key)
		if err != nil {
			res.openErr = err
			return res, nil
		}
		defer r.Close()
		for i := 0; ; i++ {
			buf := make([]byte, o.Bufs[i%len(o.Bufs)])
			n, err := r.Read(buf)
			if n < 0 || n > len(buf) {
				return res, fmt.Errorf("Read returned n=%d for a buffer of %d", n, len(buf))
			}
			res.data = append(res.data, buf[:n]...)
			if err == io.EOF {
				break
			}
			if err != nil {
				res.err = err
				break
			}
			if len(res.data) > limit || i > 4*limit {
				return res, fmt.Errorf("Read does not terminate: %d bytes after %d calls", len(res.data), i)
			}
		}
	case "readall":
		r, err := fs.Get(ctx, key)
		if err != nil {
			res.openErr = err
			return res, nil
		}
		defer r.Close()
		res.data, res.err = io.ReadAll(io.LimitReader(struct{ io.Reader }{r}, int64(limit)))
	case "readat":
		r, err := fs.GetAt(ctx, key)
		if err != nil {
			res.openErr = err
			return res, nil
		}
		if o.Warm {
			before := pool.getsOf(watchKey)
			wb := make([]byte, 1)
			wn, werr := r.ReadAt(wb, o.WarmOff)
			if werr != nil && werr != io.EOF {
				res.warmErr = werr
			} else {
				res.warmByte = wb[:wn]
			}
			// give the prefetcher started by the warm-up read the time to fetch the damaged leaf and to
			// put it in the cache (scenario shaping only: nothing is concluded from the timing)
			for i := 0; i < 300 && watchKey != "" && pool.getsOf(watchKey) == before; i++ {
				time.Sleep(100 * time.Microsecond)
			}
			time.Sleep(200 * time.Microsecond)
		}
		buf := make([]byte, o.Len)
		n, err := r.ReadAt(buf, o.Off)
		if n < 0 || n > len(buf) {
			return res, fmt.Errorf("ReadAt returned n=%d for a buffer of %d", n, len(buf))
		}
		res.data, res.n = buf[:n], int64(n)
		if err != io.EOF {
			res.err = err
		}
	case "writeto":
		r, err := fs.Get(ctx, key)
		if err != nil {
			res.openErr = err
			return res, nil
		}
		defer r.Close()
		wt, ok := r.(io.WriterTo)
		if !ok {
			return res, fmt.Errorf("harness: reader is not an io.WriterTo")
		}
		var w plainWriter
		res.n, res.err = wt.WriteTo(&w)
		res.data = w.b.Bytes()
	case "writetoat":
		r, err := fs.Get(ctx, key)
		if err != nil {
			res.openErr = err
			return res, nil
		}
		defer r.Close()
		wt, ok := r.(io.WriterTo)
		if !ok {
			return res, fmt.Errorf("harness: reader is not an io.WriterTo")
		}
		w := &sliceWriterAt{max: limit}
		res.n, res.err = wt.WriteTo(w)
		res.data, res.mask = w.buf, w.mask
	default:
		return res, fmt.Errorf("harness: unknown style %q", o.Style)
	}
	return res, nil
}

// covers tells whether the observation's byte range intersects the damaged range
func covers(o obsT, d damageT, size int) bool {
	if d.Root {
		return true
	}
	if o.Style != "readat" {
		return true // a complete sequential read or copy visits every leaf
	}
	if o.Len == 0 {
		return false
	}
	return o.Off < int64(d.Hi) && o.Off+int64(o.Len) > int64(d.Lo)
}

func firstDiff(a, b []byte) int {
	for i := 0; i < len(a) && i < len(b); i++ {
		if a[i] != b[i] {
			return i
		}
	}
	if len(a) != len(b) {
		return min(len(a), len(b))
	}
	return -1
}

// judge is the oracle of the cafs-level styles.
//
//   - no effective damage (control arm, or a replacement by identical bytes): the read succeeds and returns
//     exactly the stored bytes;
//   - effective damage and the observation covers the damaged range: the read must FAIL (opening the object
//     or the read itself returns an error other than io.EOF). A clean completion is a violation, whatever
//     bytes came back;
//   - in every case, bytes handed out (returned by Read/ReadAt with a nil/EOF status, or written to the
//     destination of WriteTo) must equal the stored bytes at those offsets, also when the read fails later.
func judge(st *stored, d damageT, o obsT, r resT) error {
	orig := st.orig
	size := len(orig)
	must := d.Effective && covers(o, d, size)
	failed := r.openErr != nil || r.err != nil
	what := func() string {
		if r.openErr != nil {
			return fmt.Sprintf("open error: %v", r.openErr)
		}
		return fmt.Sprintf("read error: %v", r.err)
	}
	if !d.Effective && failed {
		return fmt.Errorf("healthy store (no effective damage) but %s failed: %s", o.Style, what())
	}
	if must && !failed {
		return fmt.Errorf("damaged blob served as valid: %s completed without error and returned %d bytes (object has %d; first difference at %d)",
			o.Style, len(r.data), size, firstDiff(r.data, orig))
	}
	switch o.Style {
	case "readat":
		if r.openErr != nil {
			return nil
		}
		if o.Warm {
			warmCovers := d.Root || (o.WarmOff >= int64(d.Lo) && o.WarmOff < int64(d.Hi))
			switch {
			case r.warmErr != nil && !d.Effective:
				return fmt.Errorf("healthy store: warm-up ReadAt(off=%d,len=1) failed: %v", o.WarmOff, r.warmErr)
			case r.warmErr == nil && len(r.warmByte) == 1 && r.warmByte[0] != orig[o.WarmOff]:
				return fmt.Errorf("warm-up ReadAt(off=%d,len=1) returned an altered byte without error", o.WarmOff)
			case r.warmErr == nil && d.Effective && warmCovers:
				return fmt.Errorf("damaged blob served as valid: warm-up ReadAt(off=%d,len=1) completed without error", o.WarmOff)
			}
		}
		var want []byte
		if o.Off < int64(size) {
			end := o.Off + int64(o.Len)
			if end > int64(size) {
				end = int64(size)
			}
			want = orig[o.Off:end]
		}
		if r.err == nil {
			// returned as valid: must be the stored bytes
			if len(r.data) > len(want) || !bytes.Equal(r.data, want[:len(r.data)]) {
				return fmt.Errorf("ReadAt(off=%d,len=%d) returned %d bytes differing from the stored ones at %d without error", o.Off, o.Len, len(r.data), firstDiff(r.data, want))
			}
			if !d.Effective && len(r.data) != len(want) {
				return fmt.Errorf("healthy store: ReadAt(off=%d,len=%d) returned %d bytes, expected %d", o.Off, o.Len, len(r.data), len(want))
			}
		} else if !must {
			stats.Count("readat_miss_but_error", 1)
		}
	case "read", "readall", "writeto":
		if !failed {
			if !bytes.Equal(r.data, orig) {
				return fmt.Errorf("%s completed without error but returned %d bytes differing from the %d stored ones at %d", o.Style, len(r.data), size, firstDiff(r.data, orig))
			}
			return nil
		}
		// the read failed: whatever it delivered before failing must be stored bytes, too ("fail with an error
		// RATHER THAN return bytes that differ"; "must not write altered bytes into the destination")
		if len(r.data) > size || !bytes.Equal(r.data, orig[:len(r.data)]) {
			at := firstDiff(r.data, orig)
			if at >= d.Lo && hx.Known(knownStream) {
				stats.Count("excluded_"+knownStream, 1)
				return nil
			}
			return fmt.Errorf("%s failed (%s) but had already delivered %d bytes, altered from offset %d on (damaged range [%d,%d))", o.Style, what(), len(r.data), at, d.Lo, d.Hi)
		}
		if len(r.data) > 0 {
			stats.Count("stream_healthy_prefix_before_error", 1)
		}
	case "writetoat":
		if !failed {
			if r.n != int64(size) || !bytes.Equal(r.data, orig) {
				return fmt.Errorf("WriteTo(WriterAt) completed without error: n=%d, wrote %d bytes differing from the %d stored ones at %d", r.n, len(r.data), size, firstDiff(r.data, orig))
			}
			for i, m := range r.mask {
				if !m {
					return fmt.Errorf("WriteTo(WriterAt) completed without error but never wrote offset %d", i)
				}
			}
			return nil
		}
		// failed: no altered byte may have reached the destination
		for i := range r.data {
			if r.mask[i] && (i >= size || r.data[i] != orig[i]) {
				return fmt.Errorf("WriteTo(WriterAt) failed (%s) but had already written altered bytes at offset %d (damaged range [%d,%d))", what(), i, d.Lo, d.Hi)
			}
		}
	}
	return nil
}

// ---------------------------------------------------------------------------------------------
// a cafs-level case: object + other object + one corruption + observations (each on a fresh Fs;
// the corruption is applied once, observations do not modify the store)

type caseT struct {
	Obj      objT   `json:"obj"`
	Other    objT   `json:"other"`
	Rel      string `json:"other_relation"` // random | sibling (same bytes, one byte at SibAt changed)
	SibAt    int    `json:"sibling_byte,omitempty"`
	Corr     corrT  `json:"corruption"`
	SharedFs bool   `json:"shared_fs,omitempty"` // observations with equal options reuse one (post-corruption) Fs
	Obs      []obsT `json:"observations"`
}

func (c caseT) otherBytes() []byte {
	if c.Rel == "sibling" {
		b := c.Obj.bytes()
		b[c.SibAt%len(b)] ^= 0x5a
		return b
	}
	return c.Other.bytes()
}

func (c caseT) otherObj() objT {
	if c.Rel == "sibling" {
		return c.Obj
	}
	return c.Other
}

// putObject stores content with the writer-side cafs and returns the hex root key
func putObject(fs cafs.Fs, content []byte) (string, error) {
	res, err := fs.Put(context.Background(), bytes.NewReader(content))
	if err != nil {
		return "", fmt.Errorf("harness: Put: %v", err)
	}
	if res.Written != int64(len(content)) {
		return "", fmt.Errorf("harness: Put wrote %d of %d", res.Written, len(content))
	}
	return res.Key.String(), nil
}

// setup stores both objects in a fresh backend
func setup(c caseT) (*stored, *stored, error) {
	be := memstore.NewBackend("blob")
	L := c.Obj.Leaf
	wfs, err := cafs.New(cafs.LeafSize(L), cafs.Backend(be.View("writer")), cafs.Logger(hx.Nop), cafs.CacheSize(4*int(L)))
	if err != nil {
		return nil, nil, fmt.Errorf("harness: cafs.New: %v", err)
	}
	root, err := putObject(wfs, c.Obj.bytes())
	if err != nil {
		return nil, nil, err
	}
	oo := c.otherObj()
	ob := c.otherBytes()
	oroot, err := putObject(wfs, ob)
	if err != nil {
		return nil, nil, err
	}
	st, err := locate(be, c.Obj, root)
	if err != nil {
		return nil, nil, err
	}
	// the other object: locate() compares with objT.bytes(), so build it by hand for siblings
	ost := &stored{be: be, obj: oo, orig: ob, root: oroot}
	rb, ok := be.RawGet(oroot)
	if !ok || len(rb) != 64*(oo.N+1) {
		return nil, nil, fmt.Errorf("harness: other root blob unusable")
	}
	for i := 0; i < oo.N; i++ {
		ost.leaves = append(ost.leaves, hex.EncodeToString(rb[64*i:64*i+64]))
	}
	if root == oroot {
		return nil, nil, fmt.Errorf("harness: other object has the same key")
	}
	return st, ost, nil
}

type failer interface {
	Fatalf(string, ...interface{})
}

func sig(o objT, c corrT, ob obsT) string {
	style := ob.Style
	if ob.Style == "readat" {
		style += ":" + ob.Shape + fmt.Sprintf(":pf%d", min(ob.Prefetch, 1))
		if ob.Warm {
			style += ":warm"
		}
	}
	if ob.Style == "read" {
		style += ":" + bufClass(ob.Bufs, int(o.Leaf))
	}
	nl := "n1"
	switch {
	case o.N == 2:
		nl = "n2"
	case o.N == 3:
		nl = "n3"
	case o.N > 3:
		nl = "n4+"
	}
	return fmt.Sprintf("%s|%s|%s|%s", c.kindClass(), posClass(o, c.Target), style, nl)
}

func bufClass(bufs []int, L int) string {
	if len(bufs) != 1 {
		return "mixed"
	}
	switch b := bufs[0]; {
	case b < L:
		return "small"
	case b == L:
		return "leaf"
	}
	return "big"
}

// excludedObs tells whether an observation of this corruption falls in the class of a listed known finding
func excludedObs(c corrT, style string) string {
	if c.Kind == "none" {
		return ""
	}
	if c.Kind == "otherroot" && c.Target < 0 && hx.Known(knownRootSwap) {
		return knownRootSwap
	}
	if c.Target >= 0 {
		switch style {
		case "writetoat":
			if hx.Known(knownWriterAt) {
				return knownWriterAt
			}
		case "publish", "publishfile":
			if hx.Known(knownWriterAt) {
				return knownWriterAt
			}
			if hx.Known(knownPutErr) {
				return knownPutErr
			}
		}
	}
	return ""
}

// onClone re-points a stored object at a copy of the blob store
func (st *stored) onClone(be *memstore.Backend) *stored {
	cp := *st
	cp.be = be
	return &cp
}

// runCase executes a cafs-level case and returns the first violation
func runCase(c caseT, record bool) error {
	st, ost, err := setup(c)
	if err != nil {
		return err
	}
	return runPrepared(c, record, st, ost)
}

// runPrepared corrupts the (private) store of st and runs the observations
func runPrepared(c caseT, record bool, st, ost *stored) error {
	pool := &fsPool{shared: c.SharedFs}
	d, err := apply(c.Corr, st, ost)
	if err != nil {
		return err
	}
	for i, o := range c.Obs {
		if id := excludedObs(c.Corr, o.Style); id != "" {
			stats.Count("excluded_"+id, 1)
			continue
		}
		var res resT
		gerr, hung, panicked := hx.Guard(30*time.Second, func() error {
			var e error
			watch := ""
			if c.Corr.Target >= 0 {
				watch = st.key(c.Corr.Target)
			}
			res, e = observe(st, o, pool, watch)
			return e
		})
		switch {
		case hung:
			return fmt.Errorf("HANG in observation %d %+v: %v", i, o, gerr)
		case panicked:
			return fmt.Errorf("PANIC in observation %d %+v: %v", i, o, gerr)
		case gerr != nil:
			return fmt.Errorf("observation %d %+v: %v", i, o, gerr)
		}
		if err := judge(st, d, o, res); err != nil {
			return fmt.Errorf("observation %d %+v: %v", i, o, err)
		}
		if record {
			nt := d.Effective && covers(o, d, len(st.orig))
			cc, oo := c, o
			stats.Case(sig(c.Obj, c.Corr, o), nt, func() interface{} {
				cc.Obs = []obsT{oo}
				return cc
			})
			stats.Count("kind_"+c.Corr.kindClass(), 1)
			stats.Count("style_"+o.Style, 1)
			stats.Count("target_"+posClass(c.Obj, c.Corr.Target), 1)
			if c.SharedFs && i > 0 {
				stats.Count("obs_on_reused_fs", 1)
			}
			switch {
			case !d.Effective:
				stats.Count("arm_control_or_identical", 1)
			case nt:
				stats.Count("arm_error_demanded", 1)
				if res.openErr != nil {
					stats.Count("failed_at_open", 1)
				} else {
					stats.Count("failed_in_read", 1)
				}
			default:
				stats.Count("arm_damage_not_covered", 1)
			}
		}
	}
	return nil
}

func check(t failer, c caseT) {
	hx.Journal(c)
	if err := runCase(c, true); err != nil {
		b, _ := json.Marshal(c)
		stats.Violation(err.Error())
		t.Fatalf("%v\ncase=%s", err, b)
	}
}

// ---------------------------------------------------------------------------------------------
// generators

func drawObj(t *rapid.T, L uint32, maxN int, label string) objT {
	o := objT{Leaf: L}
	o.N = rapid.IntRange(1, maxN).Draw(t, label+"_n")
	switch rapid.IntRange(0, 3).Draw(t, label+"_lastsel") {
	case 0:
		o.Last = int(L)
	case 1:
		o.Last = 1
	case 2:
		o.Last = int(L) - 1
	default:
		o.Last = rapid.IntRange(1, int(L)).Draw(t, label+"_last")
	}
	o.Seed = rapid.Uint64().Draw(t, label+"_seed")
	o.Kind = rapid.SampledFrom([]int{0, 0, 0, 0, 1, 1, 2}).Draw(t, label+"_kind")
	if o.Kind == 1 {
		o.Period = rapid.SampledFrom([]int{1, 7, int(L) / 2, int(L), int(L) + 1}).Draw(t, label+"_period")
	}
	return o
}

// drawCorr draws one corruption of one blob of obj; other is the second stored object
func drawCorr(t *rapid.T, obj, other objT, allowNone bool) corrT {
	c := corrT{}
	// target: root blob with probability ~1/4, else a leaf with first/last over-represented
	switch sel := rapid.IntRange(0, 7).Draw(t, "targetsel"); {
	case sel < 2:
		c.Target = -1
	case sel == 2:
		c.Target = 0
	case sel == 3:
		c.Target = obj.N - 1
	default:
		c.Target = rapid.IntRange(0, obj.N-1).Draw(t, "target")
	}
	kinds := []string{"flip", "flip", "flip", "trunc", "trunc", "empty", "delete", "append", "otherleaf", "otherroot"}
	if obj.N > 1 || c.Target < 0 {
		kinds = append(kinds, "ownleaf", "ownleaf")
	}
	if c.Target >= 0 {
		kinds = append(kinds, "ownroot")
	}
	if allowNone {
		kinds = append(kinds, "none")
	}
	k := rapid.SampledFrom(kinds).Draw(t, "kind")
	bl := obj.blobLen(c.Target)
	c.Kind = k
	switch k {
	case "flip":
		switch rapid.IntRange(0, 3).Draw(t, "possel") {
		case 0:
			c.Pos = 0
		case 1:
			c.Pos = bl - 1
		default:
			c.Pos = rapid.IntRange(0, bl-1).Draw(t, "pos")
		}
		c.Bit = rapid.IntRange(0, 7).Draw(t, "bit")
	case "empty":
		c.Kind, c.Len = "trunc", 0
	case "trunc":
		switch rapid.IntRange(0, 3).Draw(t, "truncsel") {
		case 0:
			c.Len = bl - 1
		case 1:
			c.Len = (bl / 64) * 64 // key aligned (root blobs)
			if c.Len >= bl {
				c.Len = bl - 64
			}
			if c.Len < 0 {
				c.Len = 0
			}
		default:
			c.Len = rapid.IntRange(0, bl-1).Draw(t, "trunclen")
		}
	case "append":
		c.Len = rapid.SampledFrom([]int{1, 1, 63, 64, 65, int(obj.Leaf)}).Draw(t, "applen")
		c.Fill = rapid.SampledFrom([]byte{0, 0xff, 'a'}).Draw(t, "fill")
	case "ownleaf":
		if c.Target < 0 {
			c.Src = rapid.IntRange(0, obj.N-1).Draw(t, "src")
		} else {
			c.Src = rapid.IntRange(0, obj.N-2).Draw(t, "src")
			if c.Src >= c.Target {
				c.Src++
			}
		}
	case "otherleaf":
		switch rapid.IntRange(0, 2).Draw(t, "srcsel") {
		case 0: // same index when it exists (same node offset in the leaf hash)
			c.Src = c.Target
			if c.Src < 0 || c.Src >= other.N {
				c.Src = other.N - 1
			}
		default:
			c.Src = rapid.IntRange(0, other.N-1).Draw(t, "src")
		}
	}
	return c
}

var readBufs = func(L int) []int { return []int{1, 2, 7, 63, 64, L - 1, L, L + 1, 2*L + 3, 32 * 1024} }

func drawObs(t *rapid.T, obj objT, c corrT) obsT {
	L := int(obj.Leaf)
	size := obj.size()
	o := obsT{Style: rapid.SampledFrom([]string{"read", "read", "readall", "readat", "readat", "readat", "writeto", "writetoat", "writetoat"}).Draw(t, "style")}
	if o.Style == "readat" { // prefetching only exists on the ReadAt path (and every prefetching reader costs a goroutine)
		// rare: datamon never releases a reader created with prefetching on (see prefetchSubset)
		o.Prefetch = rapid.SampledFrom([]int{0, 0, 0, 0, 0, 0, 0, 1, 1, 2}).Draw(t, "prefetch")
	}
	o.CacheL = rapid.IntRange(1, 8).Draw(t, "cache")
	o.RCW = rapid.IntRange(1, 4).Draw(t, "rcw")
	lo, hi := 0, size
	if c.Target >= 0 {
		lo, hi = obj.leafRange(c.Target)
	}
	switch o.Style {
	case "read":
		if rapid.Bool().Draw(t, "onebuf") {
			o.Bufs = []int{rapid.SampledFrom(readBufs(L)).Draw(t, "buf")}
		} else {
			o.Bufs = rapid.SliceOfN(rapid.IntRange(1, 2*L), 2, 5).Draw(t, "bufs")
		}
		if o.Bufs[0] < 8 && size > 8192 {
			o.Bufs[0] = 509
		}
	case "readat":
		o.Shape = rapid.SampledFrom([]string{"whole", "leaf", "leaf", "into", "outof", "inside", "before", "after", "any"}).Draw(t, "shape")
		switch o.Shape {
		case "whole":
			o.Off, o.Len = 0, size
		case "leaf": // exactly the damaged leaf
			o.Off, o.Len = int64(lo), hi-lo
		case "into": // starts before the damaged range and ends inside it
			st := max(0, lo-rapid.IntRange(1, L).Draw(t, "lead"))
			o.Off, o.Len = int64(st), lo-st+rapid.IntRange(1, hi-lo).Draw(t, "in")
		case "outof": // starts inside the damaged range and runs beyond it
			st := rapid.IntRange(lo, hi-1).Draw(t, "start")
			o.Off, o.Len = int64(st), hi-st+rapid.IntRange(0, L).Draw(t, "beyond")
		case "inside":
			st := rapid.IntRange(lo, hi-1).Draw(t, "start")
			o.Off, o.Len = int64(st), rapid.IntRange(1, hi-st).Draw(t, "len")
		case "before": // ends exactly where the damaged leaf starts
			o.Off, o.Len = 0, lo
			if lo > 0 {
				st := rapid.IntRange(0, lo-1).Draw(t, "start")
				o.Off, o.Len = int64(st), lo-st
			}
		case "after": // starts exactly where the damaged leaf ends
			o.Off, o.Len = int64(hi), rapid.IntRange(0, L+1).Draw(t, "len")
		default:
			o.Off = int64(rapid.IntRange(0, size+L).Draw(t, "off"))
			o.Len = rapid.IntRange(0, 3*L).Draw(t, "len")
		}
		if o.Prefetch > 0 && c.Target > 0 && rapid.Bool().Draw(t, "warm") {
			o.Warm = true
			o.WarmOff = int64((c.Target-1)*L + rapid.IntRange(0, L-1).Draw(t, "warmoff"))
		}
	}
	return o
}

func drawCase(t *rapid.T) caseT {
	var L uint32
	if rapid.IntRange(0, 3).Draw(t, "Lsel") == 0 {
		L = rapid.SampledFrom([]uint32{64, 80, 100, 128, 256, 1000, 4096}).Draw(t, "L")
	} else {
		L = rapid.Uint32Range(64, 600).Draw(t, "L")
	}
	c := caseT{}
	c.Obj = drawObj(t, L, 6, "obj")
	c.Rel = rapid.SampledFrom([]string{"random", "random", "sibling"}).Draw(t, "rel")
	if c.Rel == "sibling" {
		c.SibAt = rapid.IntRange(0, c.Obj.size()-1).Draw(t, "sibat")
		c.Other = c.Obj
	} else {
		c.Other = drawObj(t, L, 6, "other")
		c.Other.Kind = 0
		for tries := 0; tries < 200 && bytes.Equal(c.Other.bytes(), c.Obj.bytes()); tries++ {
			c.Other.Seed += 0x9E3779B97F4A7C15 // one-byte objects do collide
		}
	}
	c.Corr = drawCorr(t, c.Obj, c.otherObj(), true)
	c.SharedFs = rapid.Bool().Draw(t, "sharedfs")
	n := rapid.IntRange(1, 4).Draw(t, "nobs")
	for i := 0; i < n; i++ {
		o := drawObs(t, c.Obj, c.Corr)
		if c.SharedFs && i > 0 && rapid.Bool().Draw(t, "sameopts") {
			// same option set as the first observation: really the same Fs (leaf cache, keys cache)
			o.CacheL, o.RCW, o.Prefetch = c.Obs[0].CacheL, c.Obs[0].RCW, c.Obs[0].Prefetch
			if o.Prefetch == 0 {
				o.Warm = false
			}
		}
		c.Obs = append(c.Obs, o)
	}
	return c
}

// TestProp samples (object, corruption, observation) triples at the cafs level
func TestProp(t *testing.T) {
	rapid.Check(t, func(t *rapid.T) {
		check(t, drawCase(t))
	})
}

// ---------------------------------------------------------------------------------------------
// exhaustive enumeration (thorough tier; a one-shape subset runs in the quick tier)

type shapeT struct {
	L       uint32
	N, Last int
	Kind    int
}

func enumShapes(full bool) []shapeT {
	if !full {
		return []shapeT{{64, 2, 17, 0}}
	}
	var out []shapeT
	for _, L := range []uint32{64, 80} {
		for n := 1; n <= 3; n++ {
			for _, last := range []int{int(L), 1, 37} {
				out = append(out, shapeT{L, n, last, 0})
			}
		}
	}
	// identical leaves: replacements by identical bytes must NOT fail (soundness of the oracle)
	out = append(out, shapeT{64, 3, 64, 2}, shapeT{80, 3, 80, 1})
	return out
}

// enumCorruptions lists every single-blob corruption of obj
func enumCorruptions(obj, other objT, allBits bool) []corrT {
	var out []corrT
	for target := -1; target < obj.N; target++ {
		bl := obj.blobLen(target)
		for pos := 0; pos < bl; pos++ {
			for bit := 0; bit < 8; bit++ {
				if allBits || bit == pos%8 {
					out = append(out, corrT{Kind: "flip", Target: target, Pos: pos, Bit: bit})
				}
			}
		}
		for n := 0; n < bl; n++ {
			out = append(out, corrT{Kind: "trunc", Target: target, Len: n})
		}
		out = append(out, corrT{Kind: "delete", Target: target})
		for _, ap := range []corrT{{Len: 1, Fill: 0}, {Len: 1, Fill: 0xff}, {Len: 64, Fill: 'k'}, {Len: int(obj.Leaf), Fill: 0}} {
			ap.Kind, ap.Target = "append", target
			out = append(out, ap)
		}
		for j := 0; j < obj.N; j++ {
			if j != target {
				out = append(out, corrT{Kind: "ownleaf", Target: target, Src: j})
			}
		}
		for j := 0; j < other.N; j++ {
			out = append(out, corrT{Kind: "otherleaf", Target: target, Src: j})
		}
		if target >= 0 {
			out = append(out, corrT{Kind: "ownroot", Target: target})
		}
		out = append(out, corrT{Kind: "otherroot", Target: target})
	}
	return out
}

// prefetchSubset selects the corruptions that are ALSO observed through a prefetching Fs (prefetching is off by
// default in cafs). Every reader created with prefetching on is never released by datamon (its watchPrefetched
// goroutine keeps the reader, the Fs and the cached 1 MiB leaf buffers reachable, so the finalizer that should
// stop it never runs): enumerating all bit flips twice would need tens of GB.
func prefetchSubset(obj objT, c corrT) bool {
	bl := obj.blobLen(c.Target)
	switch c.Kind {
	case "flip":
		return c.Bit == c.Pos%8 && (c.Pos == 0 || c.Pos == bl-1 || c.Pos == bl/2)
	case "trunc":
		return c.Len == 0 || c.Len == bl-1 || c.Len == bl/2
	}
	return true
}

// enumObs lists every read style for a corruption of the given target
func enumObs(obj objT, c corrT, bothPrefetch bool) []obsT {
	L := int(obj.Leaf)
	size := obj.size()
	var out []obsT
	base := obsT{CacheL: 4, RCW: 2}
	for _, bufs := range [][]int{{1}, {7}, {L}, {L + 1}, {4 * L}, {5, 64, 3}} {
		o := base
		o.Style, o.Bufs = "read", bufs
		out = append(out, o)
	}
	for _, s := range []string{"readall", "writeto", "writetoat"} {
		o := base
		o.Style = s
		out = append(out, o)
	}
	lo, hi := 0, size
	if c.Target >= 0 {
		lo, hi = obj.leafRange(c.Target)
	}
	type rg struct {
		shape    string
		off, len int
	}
	var rgs []rg
	if lo > 0 {
		rgs = append(rgs, rg{"before", 0, lo}, rg{"into", lo - 1, 2})
	}
	rgs = append(rgs, rg{"after", hi, L}, rg{"inside", hi - 1, 1}, rg{"leaf", lo, hi - lo})
	if hi < size {
		rgs = append(rgs, rg{"outof", hi - 1, 2})
	}
	rgs = append(rgs, rg{"whole", 0, size})
	// each option set (prefetch off / on) has its own Fs in the enumeration; within one Fs the ranges missing
	// the damage come first (they warm the leaf cache with healthy leaves only)
	pfs := []int{0} // the default
	if bothPrefetch {
		pfs = []int{0, 1}
	}
	for _, pf := range pfs {
		for _, r := range rgs {
			o := base
			o.Style, o.Shape, o.Off, o.Len, o.Prefetch = "readat", r.shape, int64(r.off), r.len, pf
			out = append(out, o)
		}
	}
	if bothPrefetch && c.Target > 0 {
		// the damaged leaf reaches the reader through the prefetcher started by a read of the leaf before it;
		// own option set (cache size 5), so a fresh Fs
		o := base
		o.Style, o.Shape, o.Off, o.Len, o.Prefetch, o.CacheL = "readat", "leaf", int64(lo), hi-lo, 1, 5
		o.Warm, o.WarmOff = true, int64(lo-L)
		out = append(out, o)
	}
	return out
}

func enumerate(t *testing.T, full bool, shard, shards int) (corruptions, triples int) {
	shapes := enumShapes(full)
	idx := 0
	for si, sh := range shapes {
		obj := objT{Leaf: sh.L, N: sh.N, Last: sh.Last, Seed: 0xC03 + uint64(si), Kind: sh.Kind, Period: int(sh.L)}
		other := objT{Leaf: sh.L, N: 2, Last: 33, Seed: 0xBEEF + uint64(si), Kind: 0}
		for _, rel := range []string{"random", "sibling"} {
			base := caseT{Obj: obj, Other: other, Rel: rel}
			if rel == "sibling" {
				base.Other = obj
				base.SibAt = obj.size() - 1 // the sibling differs in the last leaf only: all other leaves are shared blobs
			}
			corrs := enumCorruptions(obj, base.otherObj(), full) // quick tier: one bit of every byte (bit = position mod 8)
			if rel == "sibling" {
				// the sibling only adds new replacement sources: keep the replacement corruptions
				var keep []corrT
				for _, c := range corrs {
					if c.Kind == "otherleaf" || c.Kind == "otherroot" {
						keep = append(keep, c)
					}
				}
				corrs = keep
			}
			hx.Journal(map[string]interface{}{"enumerating": base})
			st0, ost0, err := setup(base)
			if err != nil {
				t.Fatalf("%v", err)
			}
			for _, c := range corrs {
				idx++
				if idx%shards != shard {
					continue
				}
				cs := base
				cs.Corr = c
				cs.SharedFs = true // cafs.New costs ~2 ms (it clears a 1 MiB buffer and builds loggers): one Fs per option set and corruption
				cs.Obs = enumObs(obj, c, full && prefetchSubset(obj, c))
				be := st0.be.Clone()
				if err := runPrepared(cs, true, st0.onClone(be), ost0.onClone(be)); err != nil {
					b, _ := json.Marshal(cs)
					hx.Journal(cs)
					stats.Violation(err.Error())
					t.Fatalf("%v\ncase=%s", err, b)
				}
				corruptions++
				triples += len(cs.Obs)
			}
		}
	}
	return
}

// TestEnumCafs enumerates EVERY single-blob corruption of small objects against every read style.
// Quick tier: one 2-leaf shape, one bit of every byte, default prefetch setting only (not flagged exhaustive).
// Thorough tier: all shapes, all bits, prefetch off and on, split over VERIF_SHARDS processes.
func TestEnumCafs(t *testing.T) {
	full := hx.Thorough()
	shard, shards := hx.EnvInt("VERIF_SHARD", 0), hx.EnvInt("VERIF_SHARDS", 1)
	if shards < 1 || shard < 0 || shard >= shards {
		shard, shards = 0, 1
	}
	nc, nt := enumerate(t, full, shard, shards)
	// control: the healthy store reads back through every style
	for _, sh := range enumShapes(full) {
		obj := objT{Leaf: sh.L, N: sh.N, Last: sh.Last, Seed: 77, Kind: sh.Kind, Period: int(sh.L)}
		cs := caseT{Obj: obj, Other: objT{Leaf: sh.L, N: 1, Last: 5, Seed: 78}, Rel: "random", Corr: corrT{Kind: "none", Target: 0}}
		cs.Obs = enumObs(obj, cs.Corr, true)
		if err := runCase(cs, true); err != nil {
			t.Fatalf("control arm: %v", err)
		}
	}
	if full {
		stats.SetExhaustive(true)
		stats.Note("enumeration", "every bit flip, truncation length (0..len-1), delete, 4 appends, every own-leaf / other-leaf / own-root / other-root replacement of every leaf blob and of the root blob of objects with L in {64,80}, 1..3 leaves, last leaf in {L,1,37} (plus two identical-leaf shapes), each against 6 Read buffer programs, ReadAll, WriteTo(Writer), WriteTo(WriterAt) and 4..7 ReadAt ranges on a default (non-prefetching) Fs; a subset (3 flips and 3 truncations per blob, all other corruptions) is repeated on a prefetching Fs incl. a warm-up read")
	}
	stats.Count("enum_corruptions", nc)
	stats.Count("enum_triples", nt)
	t.Logf("enumerated %d corruptions, %d (corruption, style) pairs (shard %d/%d, full=%v)", nc, nt, shard, shards, full)
}
