package c14

import (
	"fmt"
	"os"
	"path/filepath"
	"strings"
	"testing"
	"time"

	"github.com/oneconcern/datamon/pkg/core"
	"pgregory.net/rapid"

	"verifharness/evid"
	"verifharness/hx"
	"verifharness/purgex"
)

var stats = evid.New("C14", "rapid: histories of 1-12 uploads / bundle deletes / squashes / repo deletes / file deletes over 1-3 repos of a context plus (40%) a second context with 1-2 repos sharing the blob store (always scanned through the extra-contexts option); file contents are 0-3 leaf-sized blocks from a 3-letter alphabet plus an optional tail, so files share leaf blobs while having different root blobs; leaf 1024/2048/4096 (sometimes two leaf sizes); index chunk size 1..N+1 keys; scan parallelism 1..10; optionally the index uploader ticking every millisecond (verif hook) so chunks are written while the scan runs; 0-3 more operations between index and delete-unused; optional dry run first; optional second purge cycle (more operations, index rebuilt over the previous one, delete-unused again). No faults. Oracle: model of committed bundles (cross-checked with ListBundles) + independent key computation through a scratch cafs store: union of chunk key lines == keys of all committed bundles of all scanned contexts, every chunk starts with the same RFC3339Nano time lying between the harness' clock readings around the command, chunks hold at most chunk-size keys; blob store after delete-unused == {blob before : referenced at index time or updated after the index time} (update times read from the store, not assumed). Lock: 2-4 purge jobs (lock [force on/off] ; unlock-if-acquired) under the store-call scheduler; results must equal those of a sequential lock model replayed in schedule order. Non-trivial (purge): delete-unused removed >= 1 blob and the index has >= 2 key-carrying chunks; distinct by (contexts, chunk-count class, deleted class, kept-newer class, survivor shares a leaf with a deleted bundle, between-ops, cycle2, ticker).")

func TestMain(m *testing.M) {
	code := m.Run()
	stats.Flush()
	sweep()
	os.Exit(code)
}

// sweep removes per-case scratch directories that leaked goroutines may have re-created
func sweep() {
	ms, _ := filepath.Glob(filepath.Join(hx.ScratchRoot(), fmt.Sprintf("verif-%d-*", os.Getpid())))
	for _, m := range ms {
		_ = os.RemoveAll(m)
	}
}

type cycleT struct {
	Ops   []purgex.Op `json:"ops"`
	Chunk uint64      `json:"chunk"`
	Drop  bool        `json:"drop_index_first"` // `datamon purge delete-reverse-lookup` before rebuilding (docs/purge.md step 4)
}

// pinned cases run with the exclusions of known findings switched off: they are the reproductions
var noExclude bool

func known(id string) bool { return !noExclude && hx.Known(id) }

type caseT struct {
	Shape    purgex.Shape `json:"shape"`
	Pre      []purgex.Op  `json:"pre"`
	Chunk    uint64       `json:"chunk"` // 0: N+1 (everything in one chunk)
	Parallel int          `json:"parallel"`
	Ticker   bool         `json:"ticker"`
	Between  []purgex.Op  `json:"between"`
	DryRun   bool         `json:"dry_run_first"`
	Cycle2   *cycleT      `json:"cycle2,omitempty"`
	SameDir  bool         `json:"same_work_dir,omitempty"` // every purge command uses one local work dir (the CLI default)
	// index-time boundary: after the index was built (time T), unreferenced junk blobs are planted with update
	// time T+offset (ns); BoundaryReal re-stamps the non-indexed blobs written by the between-uploads to T+BoundaryReal
	Boundary     []int64 `json:"boundary_offsets_ns,omitempty"`
	BoundaryReal int64   `json:"boundary_real_ns,omitempty"`
	Junk         int     `json:"junk_orphans,omitempty"` // unreferenced blobs written by an outside party before the index (> 1024: the blob listing of delete-unused needs several pages)
}

func drawCase(t *rapid.T) caseT {
	c := caseT{}
	c.Shape = purgex.DrawShape(t)
	c.Pre = purgex.DrawHistory(t, c.Shape, "pre")
	c.Chunk = uint64(rapid.IntRange(0, 9).Draw(t, "chunk"))
	if c.Chunk == 9 {
		c.Chunk = 40
	}
	c.Parallel = rapid.IntRange(1, 10).Draw(t, "parallel")
	c.Ticker = rapid.IntRange(0, 3).Draw(t, "ticker") == 2
	c.Between = purgex.DrawOps(t, c.Shape, 0, 3, 1, "nbetween")
	c.DryRun = rapid.IntRange(0, 4).Draw(t, "dry") == 2
	offsets := []int64{1, 1000, 999_000, 999_999, 1_000_000, -1, -1000, -1_000_000, 0, 1, -1}
	if rapid.IntRange(0, 2).Draw(t, "boundary") == 1 {
		n := rapid.IntRange(1, 5).Draw(t, "nboundary")
		for i := 0; i < n; i++ {
			c.Boundary = append(c.Boundary, offsets[rapid.IntRange(0, len(offsets)-1).Draw(t, "offset")])
		}
	}
	if len(c.Between) > 0 && rapid.IntRange(0, 3).Draw(t, "boundary_real") == 2 {
		c.BoundaryReal = []int64{1, 1000, 500_000}[rapid.IntRange(0, 2).Draw(t, "real_offset")]
	}
	switch rapid.IntRange(0, 11).Draw(t, "junk") {
	case 3:
		c.Junk = rapid.IntRange(1020, 1100).Draw(t, "njunk")
	case 7:
		c.Junk = rapid.IntRange(1, 5).Draw(t, "njunk")
	}
	c.SameDir = rapid.Bool().Draw(t, "same_dir")
	if rapid.IntRange(0, 3).Draw(t, "cycle2") == 2 {
		c.Cycle2 = &cycleT{Ops: purgex.DrawOps(t, c.Shape, 1, 4, 2, "ncycle2"), Chunk: uint64(rapid.IntRange(1, 9).Draw(t, "chunk2")), Drop: rapid.IntRange(0, 3).Draw(t, "drop") == 1}
	}
	return c
}

// outcome collects what the executed case did, for the class signature
type outcomeT struct {
	chunks, keyChunks int
	deleted, newer    int
	sharedSurvivor    bool
	dups              int
	cycle2Deleted     int
	skipped           int
	damaged           bool
	dropped           bool
	boundary          int
}

// purgeCycle runs build-reverse-lookup + (between ops) + delete-unused once and applies the oracle
func purgeCycle(w *purgex.World, c caseT, chunk uint64, between []purgex.Op, dry bool, phase string, out *outcomeT, boundary []int64, boundaryReal int64) error {
	ref, err := w.Referenced()
	if err != nil {
		return err
	}
	if chunk == 0 {
		chunk = uint64(len(ref) + 1)
	}
	run := purgex.Run{Dir: w.WorkDir(c.SameDir), Chunk: chunk, Parallel: c.Parallel}
	if c.Ticker {
		run.Ticker = time.Millisecond
	}
	time.Sleep(time.Millisecond)
	t0 := time.Now()
	desc, oc := w.BuildIndex(run)
	t1 := time.Now()
	if !oc.OK() {
		return fmt.Errorf("build-reverse-lookup failed without any fault: %s", oc)
	}
	if _, ok := w.Envs[0].Meta.RawGet(purgex.LockKey()); ok {
		return fmt.Errorf("the purge lock is still there after a successful build-reverse-lookup")
	}
	// ---- index == exactly the referenced keys
	chunks, err := w.ReadIndex()
	if err != nil {
		return err
	}
	if len(chunks) == 0 {
		return fmt.Errorf("build-reverse-lookup reported success but wrote no index chunk")
	}
	T := chunks[0].Time
	keyChunks := 0
	for _, ch := range chunks {
		if !ch.Time.Equal(T) {
			return fmt.Errorf("index chunks carry different index times: %s has %s, %s has %s (a chunk of a previous index left behind?)", chunks[0].Name, T.Format(time.RFC3339Nano), ch.Name, ch.Time.Format(time.RFC3339Nano))
		}
		if uint64(len(ch.Keys)) > chunk {
			return fmt.Errorf("index chunk %s holds %d keys, chunk size is %d", ch.Name, len(ch.Keys), chunk)
		}
		if len(ch.Keys) > 0 {
			keyChunks++
		}
	}
	if T.Before(t0.Add(-time.Millisecond)) || T.After(t1) {
		return fmt.Errorf("index time %s is not within the run of the command [%s, %s]", T, t0, t1)
	}
	if !desc.IndexTime.Equal(T) {
		return fmt.Errorf("build-reverse-lookup reports index time %s, chunks carry %s", desc.IndexTime, T)
	}
	got := map[string]bool{}
	for k, n := range purgex.IndexKeySet(chunks) {
		got[k] = true
		if n > 1 {
			out.dups++
		}
	}
	if d := purgex.DiffSets(got, ref, "index", "referenced-by-committed-bundles"); d != "" {
		return fmt.Errorf("reverse-lookup index (%d chunks of <= %d keys, %d keys) differs from the keys referenced by the %d committed bundles (%d keys): %s", len(chunks), chunk, len(got), len(w.Alive()), len(ref), d)
	}
	if phase == "c1" {
		out.chunks, out.keyChunks = len(chunks), keyChunks
	}
	// ---- operations between index and delete
	time.Sleep(time.Millisecond)
	for _, o := range between {
		if err := w.Apply(o, "between"); err != nil {
			return err
		}
	}
	// ---- blobs right at the index time: the harness cannot steer time.Now() inside the index build, but it can
	// (as an outside party) set update times relative to the index time the build reported
	if boundaryReal != 0 {
		for k, upd := range w.BlobTimes() {
			if !ref[k] && upd.After(T) {
				ts := T.Add(time.Duration(boundaryReal))
				w.Blob().RawSetTimes(k, ts, ts)
				out.boundary++
			}
		}
	}
	for i, d := range boundary {
		key := fmt.Sprintf("b0%014x%0112x", i, uint64(d))
		w.Blob().RawPut(key, []byte("boundary"))
		ts := T.Add(time.Duration(d))
		w.Blob().RawSetTimes(key, ts, ts)
		out.boundary++
	}
	before := w.BlobTimes()
	if dry {
		dr := run
		dr.Dir = w.WorkDir(c.SameDir)
		dr.DryRun = true
		if _, oc := w.DeleteUnused(dr); !oc.OK() {
			return fmt.Errorf("delete-unused --dry-run failed without any fault: %s", oc)
		}
		after := w.BlobTimes()
		if len(after) != len(before) {
			return fmt.Errorf("delete-unused --dry-run changed the blob store: %d blobs before, %d after", len(before), len(after))
		}
	}
	del := run
	del.Dir = w.WorkDir(c.SameDir)
	pb, oc := w.DeleteUnused(del)
	if !oc.OK() {
		return fmt.Errorf("delete-unused failed without any fault: %s", oc)
	}
	after := map[string]bool{}
	for k := range w.BlobTimes() {
		after[k] = true
	}
	want := map[string]bool{}
	newer := 0
	for k, upd := range before {
		switch {
		case ref[k]:
			want[k] = true
		case upd.After(T):
			want[k] = true
			newer++
		}
	}
	if d := purgex.DiffSets(after, want, "blob-store-after-delete-unused", "referenced-or-newer-than-index"); d != "" {
		return fmt.Errorf("delete-unused (index time %s, %d blobs before, %d referenced at index time, %d unreferenced but newer): %s", T.Format(time.RFC3339Nano), len(before), len(ref), newer, d)
	}
	deleted := len(before) - len(after)
	_ = pb
	if phase == "c1" {
		out.deleted, out.newer = deleted, newer
		// does a surviving bundle share a leaf with a bundle that is gone?
		gone := map[string]bool{}
		for k := range before {
			if !after[k] {
				gone[k] = true
			}
		}
		if len(gone) > 0 {
			deadKeys := map[string]bool{}
			for _, b := range w.Bundles {
				if !b.Alive {
					ks, _ := b.Keys()
					for k := range ks {
						deadKeys[k] = true
					}
				}
			}
			for _, b := range w.Alive() {
				ks, _ := b.Keys()
				for k := range ks {
					if deadKeys[k] {
						out.sharedSurvivor = true
					}
				}
			}
		}
	} else {
		out.cycle2Deleted = deleted
	}
	if _, ok := w.Envs[0].Meta.RawGet(purgex.LockKey()); ok {
		return fmt.Errorf("the purge lock is still there after a successful delete-unused")
	}
	// A between-upload that re-used an orphaned blob (older than the index, unreferenced at index time)
	// has just lost it: by C14's text the blob had to go; that the bundle is now damaged is C13's
	// finding (dedup hit does not refresh the update time). Such a world is not purged a second time.
	now, err := w.Referenced()
	if err != nil {
		return err
	}
	for k := range now {
		if !after[k] {
			out.damaged = true
		}
	}
	return nil
}

func runCase(c caseT, out *outcomeT) error {
	w, err := purgex.NewWorld(c.Shape)
	if err != nil {
		return err
	}
	defer w.Close()
	for _, o := range c.Pre {
		if err := w.Apply(o, "pre"); err != nil {
			return err
		}
	}
	if err := w.CheckModel(); err != nil {
		return err
	}
	for i := 0; i < c.Junk; i++ {
		// looks like a blob key (128 hex digits), spread over the key space
		w.Blob().RawPut(fmt.Sprintf("%016x%0112x", uint64(i+1)*0x9E3779B97F4A7C15, i), []byte("junk"))
	}
	if err := purgeCycle(w, c, c.Chunk, c.Between, c.DryRun, "c1", out, c.Boundary, c.BoundaryReal); err != nil {
		return err
	}
	if c.Cycle2 != nil && !out.damaged {
		for _, o := range c.Cycle2.Ops {
			if err := w.Apply(o, "cycle2"); err != nil {
				return err
			}
		}
		drop := c.Cycle2.Drop
		if !drop && known(KnownStaleChunks) {
			stats.Count("excluded_"+KnownStaleChunks, 1)
			drop = true
		}
		if drop {
			if err := core.PurgeDropReverseIndex(w.Purge[0].Stores, core.WithPurgeLogger(hx.Nop)); err != nil {
				return fmt.Errorf("delete-reverse-lookup failed without any fault: %v", err)
			}
			if chunks, _ := w.ReadIndex(); len(chunks) != 0 {
				return fmt.Errorf("delete-reverse-lookup left %d index chunks behind", len(chunks))
			}
			out.dropped = true
		}
		if err := purgeCycle(w, c, c.Cycle2.Chunk, nil, false, "c2", out, nil, 0); err != nil {
			return fmt.Errorf("second purge cycle (index rebuilt over the previous one): %v", err)
		}
	}
	if err := w.CheckModel(); err != nil {
		return err
	}
	if !out.damaged {
		// the C13 guarantee, as a by-product: everything committed still downloads
		if err := w.Verify(); err != nil {
			return err
		}
	}
	out.skipped = w.Skipped
	return nil
}

func cls(n int) string {
	switch {
	case n == 0:
		return "0"
	case n == 1:
		return "1"
	case n <= 4:
		return "2-4"
	}
	return ">4"
}

func (c caseT) classes(o outcomeT) (string, bool) {
	nt := o.deleted >= 1 && o.keyChunks >= 2
	sig := fmt.Sprintf("ctx=%d chunks=%s deleted=%s newer=%s shared=%v between=%v cycle2=%v/%s/drop=%v ticker=%v dry=%v junk=%s boundary=%v",
		len(c.Shape.Repos), cls(o.keyChunks), cls(o.deleted), cls(o.newer), o.sharedSurvivor, len(c.Between) > 0, c.Cycle2 != nil, cls(o.cycle2Deleted), o.dropped, c.Ticker, c.DryRun, map[bool]string{true: "pages", false: "no"}[c.Junk > 1000], o.boundary > 0)
	return sig, nt
}

func check(t interface {
	Fatalf(string, ...interface{})
}, c caseT) outcomeT {
	hx.Journal(c)
	var out outcomeT
	err, hung, panicked := hx.Guard(120*time.Second, func() error { return runCase(c, &out) })
	if hung || panicked || err != nil {
		t.Fatalf("%v (hung=%v panicked=%v)\ncase: %s", err, hung, panicked, describe(c))
	}
	return out
}

func describe(c caseT) string {
	var sb strings.Builder
	fmt.Fprintf(&sb, "repos=%v leaves=%v chunk=%d parallel=%d ticker=%v dry=%v junk=%d boundary=%v real=%d\n  pre:", c.Shape.Repos, c.Shape.Leaves, c.Chunk, c.Parallel, c.Ticker, c.DryRun, c.Junk, c.Boundary, c.BoundaryReal)
	for _, o := range c.Pre {
		sb.WriteString(" " + o.String())
	}
	sb.WriteString("\n  between:")
	for _, o := range c.Between {
		sb.WriteString(" " + o.String())
	}
	if c.Cycle2 != nil {
		fmt.Fprintf(&sb, "\n  cycle2 (chunk %d):", c.Cycle2.Chunk)
		for _, o := range c.Cycle2.Ops {
			sb.WriteString(" " + o.String())
		}
	}
	return sb.String()
}

func record(c caseT, o outcomeT) {
	sig, nt := c.classes(o)
	stats.Case(sig, nt, func() interface{} { return c })
	stats.Count("purge_cases", 1)
	if o.deleted > 0 {
		stats.Count("purge_deleted_some", 1)
	}
	if o.keyChunks >= 2 {
		stats.Count("purge_multi_chunk", 1)
	}
	if o.sharedSurvivor {
		stats.Count("purge_survivor_shares_leaf_with_deleted", 1)
	}
	if o.newer > 0 {
		stats.Count("purge_kept_newer_unreferenced", 1)
	}
	if c.Cycle2 != nil {
		stats.Count("purge_cycle2", 1)
		if o.cycle2Deleted > 0 {
			stats.Count("purge_cycle2_deleted_some", 1)
		}
	}
	if len(c.Shape.Repos) > 1 {
		stats.Count("purge_two_contexts", 1)
	}
	if c.Ticker {
		stats.Count("purge_ticker", 1)
	}
	if c.Junk > 1000 {
		stats.Count("purge_blob_listing_paginated", 1)
	}
	if o.boundary > 0 {
		stats.Count("purge_blobs_at_index_time_boundary", 1)
	}
	if o.damaged {
		stats.Count("purge_between_upload_lost_reused_orphan", 1)
	}
	stats.Count("purge_duplicate_index_keys", o.dups)
	stats.Count("purge_ops_without_effect", o.skipped)
}

func TestPropPurgeExact(t *testing.T) {
	rapid.Check(t, func(t *rapid.T) {
		c := drawCase(t)
		o := check(t, c)
		record(c, o)
	})
}
