package c14

import (
	"fmt"
	"testing"
	"time"

	"verifharness/hx"
	"verifharness/purgex"
)

// KnownStaleChunks: id under which the "chunks of the previous index are left behind" defect would be listed
const KnownStaleChunks = "C14-rebuilt-index-keeps-chunks-of-previous-index"

func up(repo int, files ...purgex.File) purgex.Op {
	return purgex.Op{Kind: purgex.OpUpload, Repo: repo, Leaf: 1024, Files: files}
}

func file(path string, tail int, blocks ...int) purgex.File {
	return purgex.File{Path: path, C: purgex.Content{Blocks: blocks, Tail: tail}}
}

func pinned(t *testing.T, id, what string, c caseT) {
	t.Helper()
	hx.Journal(c)
	var out outcomeT
	noExclude = true
	defer func() { noExclude = false }()
	err, hung, panicked := hx.Guard(120*time.Second, func() error { return runCase(c, &out) })
	if err == nil && !hung && !panicked {
		sig, _ := c.classes(out)
		stats.Case("pinned "+sig, true, func() interface{} { return c })
		return
	}
	if id != "" && hx.Listed(id) {
		stats.KnownFinding(id, what)
		t.Logf("KNOWN-FINDING %s still reproduces: %v", id, err)
		return
	}
	stats.Violation(fmt.Sprintf("%s: %v", id, err))
	t.Fatalf("%s: %v (hung=%v panicked=%v)\ncase: %s", id, err, hung, panicked, describe(c))
}

// Second purge cycle: the rebuilt index has fewer chunks than the first one. docs/purge.md: "running
// again the command will scratch the existing index and create an updated version".
func TestRegressRebuildSmallerIndex(t *testing.T) {
	pinned(t, KnownStaleChunks, "build-reverse-lookup run again over a previous index only overwrites the chunks it writes: higher-numbered chunks of the previous index stay, delete-unused loads them too (old keys kept in use, index time picked at random among the two)", caseT{
		Shape: purgex.Shape{Repos: []int{2}, Leaves: []uint32{1024}},
		Pre:   []purgex.Op{up(0, file("a", 0, 0, 1, 2), file("b", 300, 1)), up(1, file("c", 1, 2, 1))},
		Chunk: 1, Parallel: 2,
		Cycle2: &cycleT{Ops: []purgex.Op{{Kind: purgex.OpDelRepo, Repo: 0}}, Chunk: 2},
	})
}

// The plain documented flow on a two-context world with shared leaves, every chunk size
func TestRegressChunkSizes(t *testing.T) {
	for chunk := uint64(0); chunk <= 12; chunk++ {
		pinned(t, "", "", caseT{
			Shape: purgex.Shape{Repos: []int{2, 1}, Leaves: []uint32{1024}},
			Pre: []purgex.Op{
				up(0, file("a", 0, 0, 1, 2), file("b", 300, 1)),
				{Kind: purgex.OpUpload, Ctx: 1, Repo: 0, Leaf: 1024, Files: []purgex.File{file("x", 1, 0, 1), file("e", 0)}},
				up(1, file("c", 1, 0, 1, 1), file("d/e", 0, 2)),
				up(1, file("c", 0, 0, 1)),
				{Kind: purgex.OpSquash, Repo: 1, Keep: 1},
			},
			Chunk: chunk, Parallel: 1 + int(chunk)%4,
			Between: []purgex.Op{up(0, file("n", 7, 2, 2))},
			DryRun:  chunk%2 == 0,
		})
	}
}

// More blobs than one listing page (1024): delete-unused must walk all pages
func TestRegressBlobListingPages(t *testing.T) {
	for _, junk := range []int{1023, 1024, 1025, 2100} {
		pinned(t, "", "", caseT{
			Shape: purgex.Shape{Repos: []int{1}, Leaves: []uint32{1024}},
			Pre:   []purgex.Op{up(0, file("a", 0, 0, 1, 2), file("b", 300, 1)), up(0, file("c", 1, 0, 1)), {Kind: purgex.OpDelBundle, Repo: 0, Pick: 0}},
			Chunk: 3, Parallel: 4, Junk: junk,
			Between: []purgex.Op{up(0, file("n", 7, 2, 2))},
		})
	}
}

// More index chunks than one listing page (1024 chunk objects): thorough tier only
func TestRegressChunkListingPages(t *testing.T) {
	if !hx.Thorough() {
		t.Skip("thorough tier only")
	}
	var ops []purgex.Op
	for i := 0; i < 130; i++ {
		// 4 distinct single-leaf files per bundle => 8 keys per upload
		ops = append(ops, up(i%2,
			purgex.File{Path: "a", C: purgex.Content{Tail: 10, TSeed: 4 * i}},
			purgex.File{Path: "b", C: purgex.Content{Tail: 10, TSeed: 4*i + 1}},
			purgex.File{Path: "d/c", C: purgex.Content{Tail: 10, TSeed: 4*i + 2}},
			purgex.File{Path: "d/e", C: purgex.Content{Tail: 10, TSeed: 4*i + 3}}))
	}
	ops = append(ops, purgex.Op{Kind: purgex.OpSquash, Repo: 1, Keep: 64})
	pinned(t, "", "", caseT{
		Shape: purgex.Shape{Repos: []int{2}, Leaves: []uint32{1024}},
		Pre:   ops, Chunk: 1, Parallel: 8,
	})
}

// Blobs right at the index time T (set by the harness as an outside party after the build returned T):
// unreferenced blobs updated at T+1ns, T+1us, T+999us, T+1ms must be kept, those at T, T-1ns, T-1ms must go;
// and the blobs of an upload made after the index, re-stamped to T+1ns / T+500us, must be kept.
func TestRegressIndexTimeBoundary(t *testing.T) {
	for _, real := range []int64{0, 1, 500_000} {
		pinned(t, "", "", caseT{
			Shape: purgex.Shape{Repos: []int{1}, Leaves: []uint32{1024}},
			Pre:   []purgex.Op{up(0, file("a", 0, 0, 1, 2), file("b", 300, 1)), up(0, file("c", 1, 0, 1)), {Kind: purgex.OpDelBundle, Repo: 0, Pick: 0}},
			Chunk: 3, Parallel: 2,
			Between:      []purgex.Op{up(0, file("n", 7, 2, 2), file("o", 1))},
			Boundary:     []int64{1, 1000, 999_000, 999_999, 1_000_000, 0, -1, -1000, -1_000_000},
			BoundaryReal: real,
			DryRun:       real == 1,
		})
	}
}

// The CLI's default local work dir (./.datamon-index) is the same for every purge command. docs/purge.md:
// "running again the command will scratch the existing index and create an updated version". With an index of
// some ten thousand keys part of the local KV of an earlier command has reached the disk (the KV runs without
// write-ahead log, so smaller ones vanish when it is closed): the next build must still start from an empty KV,
// or it takes the old keys for already indexed and leaves them out of the new index.
func TestRegressReusedWorkDirBigIndex(t *testing.T) {
	blocks := func(from, n int) []int {
		out := make([]int, n)
		for i := range out {
			out[i] = from + i
		}
		return out
	}
	big := func(repo int, from int) purgex.Op {
		return purgex.Op{Kind: purgex.OpUpload, Repo: repo, Leaf: 128, Files: []purgex.File{
			{Path: "big", C: purgex.Content{Blocks: blocks(from, 20000), Tail: 5, TSeed: from}},
			{Path: "small", C: purgex.Content{Blocks: []int{from, from + 1}}},
		}}
	}
	// 2 x 20000 distinct leaves: 40000+ keys. Then a small bundle goes away, another arrives, and the index is rebuilt
	ops := []purgex.Op{big(0, 100), big(1, 50000), {Kind: purgex.OpUpload, Repo: 1, Leaf: 128, Files: []purgex.File{file("gone", 9, 1)}}}
	// in the second cycle one of the big bundles goes away as well: whichever key was the greatest one of the
	// first local KV then belongs (in one of the two runs) to blobs that must be deleted
	for i, drop := range []bool{false, true} {
		pinned(t, "", "", caseT{
			Shape: purgex.Shape{Repos: []int{2}, Leaves: []uint32{128}},
			Pre:   ops, Chunk: 7000, Parallel: 4, SameDir: true,
			Between: []purgex.Op{{Kind: purgex.OpDelBundle, Repo: 1, Pick: 1}},
			Cycle2: &cycleT{Ops: []purgex.Op{{Kind: purgex.OpUpload, Repo: 1, Leaf: 128, Files: []purgex.File{file("late", 9, 1)}},
				{Kind: purgex.OpDelBundle, Repo: i, Pick: 0}}, Chunk: 9000, Drop: drop},
		})
	}
}
