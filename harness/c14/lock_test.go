package c14

import (
	"fmt"
	"os"
	"sort"
	"strings"
	"testing"
	"time"

	"github.com/oneconcern/datamon/pkg/core"
	"pgregory.net/rapid"

	"verifharness/hx"
	"verifharness/memstore"
	"verifharness/purgex"
)

// A purge job as far as the lock is concerned
const (
	jobPlain  = "job"    // lock ; if acquired: unlock
	jobForced = "forced" // lock --force ; unlock
	jobStale  = "stale"  // lock ; never unlocks (a job that died holding the lock)
)

type lockCase struct {
	Kinds   []string `json:"jobs"`
	Choices []int    `json:"choices"`
	PreLock bool     `json:"lock_left_behind"` // a lock object left by an earlier dead job
}

type lockResult struct {
	lockErr   error
	unlockErr error
	unlocked  bool
}

// step is one executed store call, in execution order (calls are serialised by a harness mutex)
type step struct {
	actor int
	op    string
	excl  bool
}

func step_(actor int, c *memstore.Call) step {
	return step{actor: actor, op: c.Op, excl: c.Excl}
}

func (s step) String() string {
	x := ""
	if s.op == memstore.OpPut && !s.excl {
		x = "!"
	}
	return fmt.Sprintf("%d%s%s", s.actor, map[string]string{memstore.OpPut: "L", memstore.OpDelete: "U"}[s.op], x)
}

// runLock executes the jobs under the store-call scheduler. It returns the executed call order,
// the branching observed at each step and the oracle's verdict.
func runLock(c lockCase) (log []step, branch, chosen []int, err error) {
	env := hx.NewEnv()
	if c.PreLock {
		env.Meta.RawPut(purgex.LockKey(), []byte("locked_at: \"long ago\"\n"))
	}
	n := len(c.Kinds)
	views := make([]*hx.Views, n)
	res := make([]lockResult, n)
	// A deterministic store-call scheduler (no timing involved): a job parks at every store call and
	// tells the controller; the controller only decides once every job is parked or finished, releases
	// exactly one call and waits again. So one call executes at a time and the executed order is a
	// pure function of the choice sequence, however loaded the machine is.
	type event struct {
		actor   int
		done    bool
		release chan struct{}
		call    *memstore.Call
	}
	events := make(chan event)
	for i := 0; i < n; i++ {
		i := i
		views[i] = env.Actor(fmt.Sprintf("p%d", i))
		for _, v := range views[i].All() {
			v.Before(func(cl *memstore.Call) error {
				rel := make(chan struct{})
				events <- event{actor: i, release: rel, call: cl}
				<-rel
				return nil
			})
		}
	}
	for i := 0; i < n; i++ {
		i := i
		go func() {
			defer func() { events <- event{actor: i, done: true} }()
			// --force is only passed by the job that asks for it: the others rely on the default
			opts := []core.PurgeOption{core.WithPurgeLogger(hx.Nop)}
			if c.Kinds[i] == jobForced {
				opts = append(opts, core.WithPurgeForce(true))
			}
			res[i].lockErr = core.PurgeLock(views[i].Stores, opts...)
			if res[i].lockErr == nil && c.Kinds[i] != jobStale {
				res[i].unlocked = true
				res[i].unlockErr = core.PurgeUnlock(views[i].Stores, opts...)
			}
		}()
	}
	running, finished := n, 0
	parked := map[int]event{}
	for step := 0; finished < n; {
		for running > 0 {
			ev := <-events
			running--
			if ev.done {
				finished++
			} else {
				parked[ev.actor] = ev
			}
		}
		if len(parked) == 0 {
			break
		}
		var cont []int
		for a := range parked {
			cont = append(cont, a)
		}
		sort.Ints(cont)
		ch := 0
		if step < len(c.Choices) {
			ch = c.Choices[step]
		}
		ch %= len(cont)
		branch = append(branch, len(cont))
		chosen = append(chosen, ch)
		ev := parked[cont[ch]]
		delete(parked, cont[ch])
		log = append(log, step_(ev.actor, ev.call))
		running++
		step++
		close(ev.release)
	}
	// ---- oracle: a sequential lock replayed in execution order
	locked := c.PreLock
	holders := 0 // non-forced jobs between their successful lock and their unlock
	anyForce := false
	for _, k := range c.Kinds {
		if k == jobForced {
			anyForce = true
		}
	}
	seenLock := make([]bool, n)
	for _, s := range log {
		switch s.op {
		case memstore.OpPut:
			if seenLock[s.actor] {
				return log, branch, chosen, fmt.Errorf("harness: job %d made two lock calls", s.actor)
			}
			seenLock[s.actor] = true
			forced := c.Kinds[s.actor] == jobForced
			if forced == s.excl {
				return log, branch, chosen, fmt.Errorf("job %d (%s) wrote the lock with create-if-absent=%v", s.actor, c.Kinds[s.actor], s.excl)
			}
			wantOK := forced || !locked
			gotOK := res[s.actor].lockErr == nil
			if gotOK != wantOK {
				return log, branch, chosen, fmt.Errorf("schedule %v: PurgeLock of job %d (%s) returned %v although the lock was %s", log, s.actor, c.Kinds[s.actor], res[s.actor].lockErr, map[bool]string{true: "held", false: "free"}[locked])
			}
			if gotOK {
				locked = true
				holders++
				if !anyForce && holders > 1 {
					return log, branch, chosen, fmt.Errorf("schedule %v: %d jobs hold the purge lock at the same time, nobody forced it", log, holders)
				}
			}
		case memstore.OpDelete:
			wantOK := locked
			gotOK := res[s.actor].unlockErr == nil
			if gotOK != wantOK {
				return log, branch, chosen, fmt.Errorf("schedule %v: PurgeUnlock of job %d returned %v although the lock object was %s", log, s.actor, res[s.actor].unlockErr, map[bool]string{true: "there", false: "gone"}[locked])
			}
			locked = false
			holders--
		default:
			return log, branch, chosen, fmt.Errorf("harness: unexpected store call %s by job %d", s.op, s.actor)
		}
	}
	for i := range res {
		if !seenLock[i] {
			return log, branch, chosen, fmt.Errorf("harness: job %d never called the store", i)
		}
	}
	_, there := env.Meta.RawGet(purgex.LockKey())
	if there != locked {
		return log, branch, chosen, fmt.Errorf("schedule %v: lock object present=%v at the end, the model says %v", log, there, locked)
	}
	return log, branch, chosen, nil
}

func checkLock(t interface {
	Fatalf(string, ...interface{})
}, c lockCase) ([]step, []int, []int) {
	hx.Journal(c)
	var log []step
	var br, ch []int
	err, hung, panicked := hx.Guard(60*time.Second, func() error {
		var e error
		log, br, ch, e = runLock(c)
		return e
	})
	if hung || panicked || err != nil {
		t.Fatalf("%v (hung=%v panicked=%v) jobs=%v pre-existing lock=%v", err, hung, panicked, c.Kinds, c.PreLock)
	}
	return log, br, ch
}

func recordLock(c lockCase, log []step) {
	var sb strings.Builder
	for _, s := range log {
		sb.WriteString(s.String())
	}
	// non-trivial: at least two jobs' calls interleave (some job's lock falls between another's lock and unlock)
	nt := false
	open := map[int]bool{}
	for _, s := range log {
		if s.op == memstore.OpPut {
			if len(open) > 0 {
				nt = true
			}
			open[s.actor] = true
		} else {
			delete(open, s.actor)
		}
	}
	stats.Count("lock_schedules", 1)
	stats.Case(fmt.Sprintf("lock jobs=%v pre=%v order=%s", c.Kinds, c.PreLock, sb.String()), nt || c.PreLock, func() interface{} { return c })
}

// enumerate runs every schedule of the jobs' store calls (depth-first over the scheduler's choice
// tree by re-execution) and returns the number of distinct executed orders
func enumerate(t *testing.T, kinds []string, pre bool) (int, bool) {
	distinct := map[string]bool{}
	complete := true
	var prefix []int
	for runs := 0; ; runs++ {
		if runs > 20000 {
			t.Fatalf("harness: schedule enumeration of %v does not terminate", kinds)
		}
		c := lockCase{Kinds: kinds, Choices: append([]int{}, prefix...), PreLock: pre}
		log, br, ch := checkLock(t, c)
		key := fmt.Sprint(log)
		if !distinct[key] {
			distinct[key] = true
			recordLock(c, log)
		}
		// the executed choice vector must extend the requested prefix, else the machine was too slow
		// for all contenders to be parked in time: the enumeration is then not guaranteed complete
		for i := range prefix {
			if i >= len(ch) || ch[i] != prefix[i] {
				complete = false
				if os.Getenv("C14_DEBUG") != "" {
					fmt.Printf("DEBUG prefix=%v chosen=%v branch=%v log=%v\n", prefix, ch, br, log)
				}
			}
		}
		// next: deepest position with an untried alternative
		i := len(ch) - 1
		for ; i >= 0; i-- {
			if ch[i]+1 < br[i] {
				break
			}
		}
		if i < 0 {
			break
		}
		prefix = append(append([]int{}, ch[:i]...), ch[i]+1)
	}
	return len(distinct), complete
}

func multinomial(calls []int) int {
	tot, r := 0, 1
	for _, c := range calls {
		for k := 1; k <= c; k++ {
			tot++
			r = r * tot / k
		}
	}
	return r
}

// TestRegressLockAllInterleavings enumerates all interleavings of the store calls for every
// combination of two and three job kinds (with and without a lock left behind) and for selected
// (thorough tier: all) combinations of four jobs
func TestRegressLockAllInterleavings(t *testing.T) {
	kinds := []string{jobPlain, jobForced, jobStale}
	total := 0
	complete := true
	var combos [][]string
	for _, a := range kinds {
		for _, b := range kinds {
			combos = append(combos, []string{a, b})
		}
	}
	for _, a := range kinds {
		for _, b := range kinds {
			for _, c := range kinds {
				combos = append(combos, []string{a, b, c})
			}
		}
	}
	if hx.Thorough() {
		for _, a := range kinds {
			for _, b := range kinds {
				for _, c := range kinds {
					for _, d := range kinds {
						combos = append(combos, []string{a, b, c, d})
					}
				}
			}
		}
	} else {
		combos = append(combos, []string{jobPlain, jobPlain, jobPlain, jobPlain}, []string{jobPlain, jobForced, jobPlain, jobStale})
	}
	for _, k := range combos {
		for _, pre := range []bool{false, true} {
			if pre && len(k) > 3 {
				continue
			}
			n, ok := enumerate(t, k, pre)
			total += n
			if !ok {
				complete = false
			}
			// sanity of the enumeration itself when nobody can fail to acquire: every job makes 2 calls
			allForced := true
			for _, x := range k {
				if x != jobForced {
					allForced = false
				}
			}
			if allForced && ok {
				calls := make([]int, len(k))
				for i := range calls {
					calls[i] = 2
				}
				if want := multinomial(calls); n != want {
					t.Fatalf("harness: %d schedules enumerated for %v, want %d", n, k, want)
				}
			}
		}
	}
	stats.Count("lock_schedules_enumerated", total)
	if complete {
		stats.Note("lock_interleavings", fmt.Sprintf("all %d interleavings of the store calls of %d job combinations enumerated", total, len(combos)))
	} else {
		stats.Note("lock_interleavings", fmt.Sprintf("%d interleavings executed (enumeration possibly incomplete: loaded machine)", total))
	}
}

// TestPropLock draws 2-4 jobs of random kinds and a random schedule
func TestPropLock(t *testing.T) {
	rapid.Check(t, func(t *rapid.T) {
		n := rapid.IntRange(2, 4).Draw(t, "jobs")
		c := lockCase{PreLock: rapid.IntRange(0, 3).Draw(t, "pre") == 2}
		for i := 0; i < n; i++ {
			c.Kinds = append(c.Kinds, []string{jobPlain, jobPlain, jobForced, jobStale}[rapid.IntRange(0, 3).Draw(t, "kind")])
		}
		c.Choices = rapid.SliceOfN(rapid.IntRange(0, 3), 0, 8).Draw(t, "choices")
		log, _, _ := checkLock(t, c)
		recordLock(c, log)
	})
}
