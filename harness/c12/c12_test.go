package c12

import (
	"context"
	"errors"
	"fmt"
	"os"
	"sort"
	"strings"
	"sync"
	"testing"
	"time"

	"github.com/oneconcern/datamon/pkg/core"
	corestatus "github.com/oneconcern/datamon/pkg/core/status"
	"github.com/oneconcern/datamon/pkg/model"
	"gopkg.in/yaml.v2"
	"pgregory.net/rapid"

	"verifharness/evid"
	"verifharness/hx"
	"verifharness/memstore"
)

var stats = evid.New("C12", "rapid: one diamond, 2-5 concurrent actors drawn from {split A run 1, split A run 2 (same split ID), split B, empty split E, commit, second commit, cancel}, each a goroutine running the real CLI flow whose metadata/vmetadata store calls are yield points of a harness-owned scheduler (a generated choice sequence decides which parked actor proceeds; one call executes at a time), optionally one actor crashing at its n-th store write (before/after it lands); then a sequential phase (retry of the crashed operation, late commit, late split of a done split, late new split, late empty split, cancel), each of these optionally with one transient failure of its n-th read of a diamond/split descriptor (the operation may fail, but a terminated diamond must still refuse it and no second bundle may appear). History invariants on the store trace and final state: at most one bundle; successful commit <=> exactly its bundle + diamond-done(done, that bundle); operations started after the terminal descriptor landed are refused; a done split cannot be rerun and at most one run writes split-done; the bundle holds exactly the files of the run recorded in split-done for every split done before the commit started, nothing of splits done after the commit began writing. Thorough additionally enumerates schedules of two-actor cases by re-execution (depth-first over the choice tree). Non-trivial: the trace shows a switch between actors inside an actor's call sequence, or a crash landed inside a commit; distinct by (actor multiset, crash class, phase-2 ops, interleaving shape hash class).")

const (
	repo              = "repo"
	knownDoubleCommit = "C12-overlapping-or-retried-commit-two-bundles"
)

func TestMain(m *testing.M) {
	code := m.Run()
	stats.Flush()
	os.Exit(code)
}

type crashT struct {
	Actor int  `json:"actor"`
	Sel   int  `json:"sel"`
	Land  bool `json:"land"`
}

type caseT struct {
	Actors  []string `json:"actors"` // splitA1 | splitA2 | splitB | commit | commit2 | cancel
	Crash   *crashT  `json:"crash,omitempty"`
	Choices []int    `json:"choices"`
	Phase2  []string `json:"phase2"` // retry | commit | resplitA | splitC | cancel
	Batch   int      `json:"batch"`  // listing page size used by commits (0: default)
	// P2Faults[i] (when set) makes one metadata read of the i-th phase-2 operation fail transiently
	P2Faults []*faultT `json:"phase2_faults,omitempty"`
}

// faultT is one transient read failure: the Nth Get on a vmetadata key containing Key (or, with List, the Nth
// listing page under a prefix containing Key) fails once
type faultT struct {
	Key  string `json:"key"`
	Nth  int    `json:"nth"`
	List bool   `json:"list,omitempty"`
}

var trees = map[string]hx.Tree{
	"splitA1": {"A/run1-only": []byte("a-run1"), "A/common": []byte("a-common-run1")},
	"splitA2": {"A/run2-only": []byte("a-run2"), "A/common": []byte("a-common-run2")},
	"splitB":  {"B/file": []byte("b"), "B/other": []byte("b2")},
	"splitC":  {"C/file": []byte("c")},
	"splitE":  {}, // a split that contributes no file at all
}

func splitIDOf(kind string) string {
	switch kind {
	case "splitA1", "splitA2", "resplitA":
		return "split-A"
	case "splitB":
		return "split-B"
	case "splitE":
		return "split-E"
	}
	return "split-C"
}

func drawCase(t *rapid.T) caseT {
	c := caseT{}
	n := rapid.IntRange(2, 5).Draw(t, "nactors")
	pool := []string{"splitA1", "splitA2", "splitB", "commit", "commit2", "cancel", "splitE"}
	used := map[string]bool{}
	for len(c.Actors) < n {
		k := rapid.SampledFrom(pool).Draw(t, "actor")
		if used[k] {
			continue
		}
		if k == "commit2" && !used["commit"] {
			k = "commit"
		}
		if k == "commit2" && hx.Known(knownDoubleCommit) {
			stats.Count("excluded_"+knownDoubleCommit, 1)
			continue
		}
		used[k] = true
		c.Actors = append(c.Actors, k)
	}
	if rapid.IntRange(0, 2).Draw(t, "docrash") == 0 {
		c.Crash = &crashT{Actor: rapid.IntRange(0, len(c.Actors)-1).Draw(t, "crashactor"), Sel: rapid.IntRange(0, 999).Draw(t, "crashsel"), Land: rapid.Bool().Draw(t, "land")}
	}
	c.Choices = rapid.SliceOfN(rapid.IntRange(0, 5), 0, 120).Draw(t, "choices")
	c.Batch = rapid.SampledFrom([]int{0, 0, 1, 2, 3, 4, 5, 8}).Draw(t, "batch")
	np := rapid.IntRange(0, 3).Draw(t, "nphase2")
	for i := 0; i < np; i++ {
		c.Phase2 = append(c.Phase2, rapid.SampledFrom([]string{"retry", "commit", "commit", "resplitA", "splitC", "cancel", "splitE"}).Draw(t, "p2"))
		var f *faultT
		if rapid.IntRange(0, 3).Draw(t, "p2fault") == 0 {
			f = &faultT{Key: rapid.SampledFrom([]string{"diamond-done", "diamond-done", "diamond-running", "split-done", "split-running", "diamond-"}).Draw(t, "p2faultkey"), Nth: rapid.IntRange(1, 3).Draw(t, "p2faultnth")}
			if rapid.IntRange(0, 3).Draw(t, "p2faultlist") == 0 {
				f.Key, f.List = "/splits/", true
			}
		}
		c.P2Faults = append(c.P2Faults, f)
	}
	return c
}

type result struct {
	err      error
	bundleID string
	crashed  bool
}

type world struct {
	batch     int
	sc        *hx.Scratch
	env       *hx.Env
	diamondID string
	mu        sync.Mutex
	results   map[string]*result
	order     []string // actor instance names in start order
}

func (w *world) run(kind string, v *hx.Views) *result {
	r := &result{}
	switch kind {
	case "splitA1", "splitA2", "splitB", "splitC", "splitE":
		dir := w.sc.Dir(kind)
		if err := trees[kind].Write(dir); err != nil {
			r.err = fmt.Errorf("harness: %v", err)
			return r
		}
		_, r.err = hx.SplitAdd(v.Stores, repo, w.diamondID, splitIDOf(kind), dir, core.SplitConcurrentFileUploads(1))
	case "resplitA":
		dir := w.sc.Dir(kind)
		_ = trees["splitA1"].Write(dir)
		_, r.err = hx.SplitAdd(v.Stores, repo, w.diamondID, "split-A", dir, core.SplitConcurrentFileUploads(1))
	case "commit", "commit2":
		var copts []core.Option
		if w.batch > 0 {
			copts = append(copts, core.BatchSize(w.batch))
		}
		d, err := hx.CommitWith(v.Stores, repo, w.diamondID, model.EnableConflicts, copts)
		r.err = err
		if d != nil {
			r.bundleID = d.BundleID
		}
	case "cancel":
		r.err = hx.Cancel(v.Stores, repo, w.diamondID)
	}
	r.crashed = v.Proc.Crashed()
	return r
}

type event struct {
	memstore.Call
}

func (w *world) events() []memstore.Call {
	all := append(w.env.Meta.Trace(), w.env.VMeta.Trace()...)
	sort.Slice(all, func(i, j int) bool { return all[i].Done < all[j].Done })
	return all
}

type runOutcome struct {
	sig        string
	nontrivial bool
	branch     []int
	chosen     []int
}

func runCase(c caseT, forced []int) (runOutcome, error) {
	var out runOutcome
	sc := hx.NewScratch()
	defer sc.Close()
	w := &world{sc: sc, env: hx.NewEnv(), results: map[string]*result{}, batch: c.Batch}
	prep := w.env.Actor("prep")
	if err := hx.CreateRepo(prep.Stores, repo); err != nil {
		return out, err
	}
	d, err := hx.CreateDiamond(prep.Stores, repo)
	if err != nil {
		return out, fmt.Errorf("create diamond: %v", err)
	}
	w.diamondID = d.DiamondID
	w.env.Meta.EnableTrace(true)
	w.env.VMeta.EnableTrace(true)

	// dry run of the crashing actor alone on a clone to size the crash index
	crashN := 0
	if c.Crash != nil {
		kind := c.Actors[c.Crash.Actor]
		dw := &world{sc: sc, env: w.env.Clone(), diamondID: w.diamondID, results: map[string]*result{}, batch: c.Batch}
		dv := dw.env.Actor("dry")
		if strings.HasPrefix(kind, "commit") {
			// a commit needs a done split to get anywhere
			pv := dw.env.Actor("dryprep")
			dw.run("splitB", pv)
		}
		dw.run(kind, dv)
		if W := dv.Proc.MutCount(); W > 0 {
			crashN = 1 + c.Crash.Sel%W
		}
	}

	sched := memstore.NewSched()
	views := map[string]*hx.Views{}
	for i, kind := range c.Actors {
		name := fmt.Sprintf("%d-%s", i, kind)
		v := w.env.Actor(name)
		sched.Attach(v.Meta)
		sched.Attach(v.VMeta)
		if c.Crash != nil && c.Crash.Actor == i && crashN > 0 {
			v.Proc.CrashAt(crashN, c.Crash.Land)
		}
		views[name] = v
		w.order = append(w.order, name)
	}
	for i, kind := range c.Actors {
		name := fmt.Sprintf("%d-%s", i, kind)
		kind := kind
		sched.Go(name, func() {
			r := w.run(kind, views[name])
			w.mu.Lock()
			w.results[name] = r
			w.mu.Unlock()
		})
	}
	choices := c.Choices
	if forced != nil {
		choices = forced
	}
	if err := sched.Run(choices, 20*time.Second); err != nil {
		sched.Free()
		return out, fmt.Errorf("scheduler: %v; history %v", err, sched.History)
	}
	out.branch, out.chosen = sched.Branch, sched.Chosen

	// ---- phase 2: sequential operations by fresh processes
	type p2res struct {
		kind    string
		name    string
		res     *result
		faulted bool
		// state when it started
		terminalBefore string // "", "done", "canceled"
		splitADone     bool
	}
	var p2 []p2res
	terminal := func() string {
		raw, ok := w.env.VMeta.RawGet(model.GetArchivePathToFinalDiamond(repo, w.diamondID))
		if !ok {
			return ""
		}
		var dd model.DiamondDescriptor
		_ = yaml.Unmarshal(raw, &dd)
		return string(dd.State)
	}
	splitDone := func(id string) bool {
		_, ok := w.env.VMeta.RawGet(model.GetArchivePathToFinalSplit(repo, w.diamondID, id))
		return ok
	}
	bundlesNow := func() []string {
		var ids []string
		for _, k := range w.env.Meta.RawKeys() {
			if strings.HasPrefix(k, "bundles/"+repo+"/") && strings.HasSuffix(k, "/bundle.yaml") {
				ids = append(ids, strings.Split(k, "/")[2])
			}
		}
		return ids
	}
	crashedKind := ""
	faultsHit := 0
	crashLandedInCommitWindow := false
	if c.Crash != nil {
		name := fmt.Sprintf("%d-%s", c.Crash.Actor, c.Actors[c.Crash.Actor])
		if r := w.results[name]; r != nil && r.crashed {
			crashedKind = c.Actors[c.Crash.Actor]
			if strings.HasPrefix(crashedKind, "commit") && len(bundlesNow()) > 0 && terminal() == "" {
				crashLandedInCommitWindow = true
			}
		}
	}
	for i, op := range c.Phase2 {
		kind := op
		if op == "retry" {
			if crashedKind == "" {
				continue
			}
			kind = crashedKind
		}
		if strings.HasPrefix(kind, "commit") && len(bundlesNow()) > 0 && terminal() == "" && hx.Known(knownDoubleCommit) {
			// a commit after an interrupted commit whose bundle landed: the listed finding (second bundle)
			stats.Count("excluded_"+knownDoubleCommit, 1)
			continue
		}
		name := fmt.Sprintf("p2-%d-%s", i, kind)
		v := w.env.Actor(name)
		var mf *memstore.Fault
		if i < len(c.P2Faults) && c.P2Faults[i] != nil {
			mf = &memstore.Fault{Op: memstore.OpGet, KeySub: c.P2Faults[i].Key, Nth: c.P2Faults[i].Nth, Times: 1}
			if c.P2Faults[i].List {
				mf.Op = memstore.OpKeysPrefix
			}
			v.VMeta.AddFault(mf)
		}
		pr := p2res{kind: kind, name: name, terminalBefore: terminal(), splitADone: splitDone("split-A")}
		anyDone := splitDone("split-A") || splitDone("split-B") || splitDone("split-C") || splitDone("split-E")
		noBundle := len(bundlesNow()) == 0
		pr.res = w.run(kind, v)
		faulted := mf != nil && mf.Hits > 0
		pr.faulted = faulted
		if faulted {
			faultsHit++
		}
		// control arm: an undisturbed commit of a ready diamond with a completed split must succeed
		if strings.HasPrefix(kind, "commit") && pr.terminalBefore == "" && anyDone && noBundle && !faulted && pr.res.err != nil {
			return out, fmt.Errorf("I6: an undisturbed commit of a ready diamond with completed splits failed: %v", pr.res.err)
		}
		w.results[name] = pr.res
		p2 = append(p2, pr)
	}

	// ---- invariants
	evs := w.events()
	landedAt := func(suffix string) int64 {
		for _, e := range evs {
			if e.Op == memstore.OpPut && e.Landed && strings.HasSuffix(e.Key, suffix) {
				return e.Done
			}
		}
		return 0
	}
	firstCall := func(actor string) int64 {
		for _, e := range evs {
			if e.Actor == actor {
				return e.Done
			}
		}
		return 0
	}
	firstMut := func(actor string) int64 {
		for _, e := range evs {
			if e.Actor == actor && memstore.Mutating(e.Op) {
				return e.Done
			}
		}
		return 0
	}
	bundles := bundlesNow()
	// I1: at most one bundle
	if len(bundles) > 1 {
		return out, fmt.Errorf("I1: the diamond produced %d bundles %v; history %v", len(bundles), bundles, sched.History)
	}
	termState := terminal()
	termAt := landedAt("/diamond-done.yaml")
	// successful commits
	nOK := 0
	for name, r := range w.results {
		if !strings.Contains(name, "commit") {
			continue
		}
		if r.err == nil {
			nOK++
			if len(bundles) != 1 || bundles[0] != r.bundleID {
				return out, fmt.Errorf("commit %s succeeded with bundle %s but the repo holds %v", name, r.bundleID, bundles)
			}
			raw, _ := w.env.VMeta.RawGet(model.GetArchivePathToFinalDiamond(repo, w.diamondID))
			var dd model.DiamondDescriptor
			_ = yaml.Unmarshal(raw, &dd)
			if dd.State != model.DiamondDone || dd.BundleID != r.bundleID {
				return out, fmt.Errorf("commit %s succeeded but diamond-done says state=%s bundle=%s", name, dd.State, dd.BundleID)
			}
		}
	}
	if nOK > 1 {
		return out, fmt.Errorf("I1: %d commits reported success", nOK)
	}
	// I2/I5: operations that started after the terminal descriptor landed are refused
	for name, r := range w.results {
		fc := firstCall(name)
		if termAt != 0 && fc > termAt && r.err == nil {
			kind := name[strings.LastIndex(name, "-")+1:]
			if kind != "cancel" || true {
				return out, fmt.Errorf("I2: %s started after the diamond reached state %q and still succeeded; history %v", name, termState, sched.History)
			}
		}
	}
	for _, pr := range p2 {
		if pr.terminalBefore != "" && pr.res.err == nil {
			return out, fmt.Errorf("I2: late %s succeeded although the diamond was already %s", pr.kind, pr.terminalBefore)
		}
		// I3: a done split cannot be rerun
		if pr.kind == "resplitA" && pr.splitADone && pr.terminalBefore == "" {
			if pr.res.err == nil {
				return out, fmt.Errorf("I3: split-A was done and a new run of it succeeded")
			}
			if !pr.faulted && !errors.Is(pr.res.err, corestatus.ErrSplitAlreadyDone) {
				return out, fmt.Errorf("I3: rerun of done split-A failed with %v, want ErrSplitAlreadyDone", pr.res.err)
			}
		}
	}
	// I3: at most one run of split A reported success, and split-done exists iff one did... (a crash after landing may leave done without success)
	okA := 0
	for name, r := range w.results {
		if strings.Contains(name, "splitA") && r.err == nil {
			okA++
		}
	}
	if okA > 1 {
		return out, fmt.Errorf("I3: %d runs of split-A reported success", okA)
	}
	if okA == 1 && !splitDone("split-A") {
		return out, fmt.Errorf("I3: a run of split-A succeeded but no split-done descriptor exists")
	}
	// I4: the bundle holds exactly the files of the recorded run of each split that was done when the commit started
	if len(bundles) == 1 {
		// which commit wrote it
		var committer string
		for _, e := range evs {
			if e.Op == memstore.OpPut && e.Landed && strings.HasSuffix(e.Key, bundles[0]+"/bundle.yaml") {
				committer = e.Actor
			}
		}
		cs, cm := firstCall(committer), firstMut(committer)
		obs := w.env.Actor("observer")
		b := hx.NewBundle(repo, obs.Stores, nil, 0, core.BundleID(bundles[0]))
		if err := core.DownloadMetadata(context.Background(), b); err != nil {
			return out, fmt.Errorf("committed bundle %s unreadable: %v", bundles[0], err)
		}
		got := map[string]string{}
		for _, e := range b.BundleEntries {
			got[e.NameWithPath] = e.Hash
		}
		want := map[string]bool{}
		for _, sid := range []string{"split-A", "split-B", "split-C", "split-E"} {
			doneAt := landedAt("/splits/" + sid + "/split-done.yaml")
			var files hx.Tree
			if doneAt != 0 {
				raw, _ := w.env.VMeta.RawGet(model.GetArchivePathToFinalSplit(repo, w.diamondID, sid))
				var sd model.SplitDescriptor
				_ = yaml.Unmarshal(raw, &sd)
				fl, ok := w.env.VMeta.RawGet(model.GetArchivePathToSplitFileList(repo, w.diamondID, sid, sd.GenerationID, 0))
				if !ok && sid != "split-E" {
					return out, fmt.Errorf("I4: split-done of %s records generation %s which has no file list", sid, sd.GenerationID)
				}
				var be model.BundleEntries
				_ = yaml.Unmarshal(fl, &be)
				files = hx.Tree{}
				for _, e := range be.BundleEntries {
					files[e.NameWithPath] = []byte(e.Hash)
				}
			}
			prefix := sid[len("split-"):] + "/"
			present := false
			for p := range got {
				if strings.HasPrefix(p, prefix) {
					present = true
				}
			}
			switch {
			case doneAt != 0 && doneAt < cs: // done before the commit started: must be included
				if !present && sid != "split-E" {
					return out, fmt.Errorf("I4: %s was complete before the commit started but its files are missing from the bundle; history %v", sid, sched.History)
				}
			case doneAt == 0 || doneAt > cm: // not done when the commit began writing: must not be included
				if present {
					return out, fmt.Errorf("I4: the bundle holds files of %s which was not complete when the commit wrote the bundle; history %v", sid, sched.History)
				}
			}
			if present {
				for p, h := range files {
					want[p] = true
					if got[p] != string(h) {
						return out, fmt.Errorf("I4: bundle entry %q differs from the run recorded in split-done of %s", p, sid)
					}
				}
				for p := range got {
					if strings.HasPrefix(p, prefix) && !want[p] {
						return out, fmt.Errorf("I4: bundle holds %q which does not belong to the run recorded as completing %s (mixed runs)", p, sid)
					}
				}
			}
		}
		for p := range got {
			if strings.HasPrefix(p, ".conflicts/") {
				return out, fmt.Errorf("I4: unexpected conflict entry %q (splits use disjoint paths)", p)
			}
		}
	}
	// ---- classification
	switches := 0
	last := ""
	seenActors := map[string]bool{}
	for _, h := range sched.History {
		a := h[:strings.Index(h, ":")]
		if a != last && seenActors[a] {
			switches++
		}
		seenActors[a] = true
		last = a
	}
	kinds := append([]string{}, c.Actors...)
	sort.Strings(kinds)
	crashCls := "none"
	if crashedKind != "" {
		crashCls = fmt.Sprintf("%s/land=%v/window=%v", crashedKind, c.Crash.Land, crashLandedInCommitWindow)
	}
	swCls := "0"
	switch {
	case switches > 8:
		swCls = ">8"
	case switches > 2:
		swCls = "3-8"
	case switches > 0:
		swCls = "1-2"
	}
	out.sig = fmt.Sprintf("actors=%s crash=%s p2=%s switches=%s term=%s bundles=%d readfaults=%d", strings.Join(kinds, "+"), crashCls, strings.Join(c.Phase2, "+"), swCls, termState, len(bundles), faultsHit)
	if faultsHit > 0 {
		stats.Count("phase2_read_faults_hit", faultsHit)
	}
	out.nontrivial = switches > 0 || crashLandedInCommitWindow
	return out, nil
}

func TestProp(t *testing.T) {
	rapid.Check(t, func(t *rapid.T) {
		c := drawCase(t)
		hx.Journal(c)
		var out runOutcome
		err, hung, panicked := hx.Guard(120*time.Second, func() error {
			var e error
			out, e = runCase(c, nil)
			return e
		})
		if hung || panicked || err != nil {
			t.Fatalf("%v (hung=%v panicked=%v)", err, hung, panicked)
		}
		stats.Case(out.sig, out.nontrivial, func() interface{} { return c })
		stats.Count("actors_"+fmt.Sprint(len(c.Actors)), 1)
	})
}

// enumerate explores the schedule tree of a fixed actor set depth-first by re-execution
func enumerate(t *testing.T, actors []string, phase2 []string, limit int) (runs int, complete bool) {
	var prefix []int
	for runs < limit {
		c := caseT{Actors: actors, Phase2: phase2}
		out, err := runCase(c, append([]int{}, prefix...))
		if err != nil {
			t.Fatalf("schedule %v of %v: %v", prefix, actors, err)
		}
		runs++
		stats.Case(fmt.Sprintf("enum %s chosen=%v", strings.Join(actors, "+"), out.chosen), true, func() interface{} {
			return map[string]interface{}{"actors": actors, "schedule": out.chosen}
		})
		// next schedule: last position where another choice exists
		chosen := out.chosen
		i := len(chosen) - 1
		for ; i >= 0; i-- {
			if chosen[i]+1 < out.branch[i] {
				break
			}
		}
		if i < 0 {
			return runs, true
		}
		prefix = append(append([]int{}, chosen[:i]...), chosen[i]+1)
	}
	return runs, false
}

// TestEnumTwoActors enumerates every interleaving of the store calls of small two-actor cases
func TestEnumTwoActors(t *testing.T) {
	limit := 150
	if hx.Thorough() {
		limit = 6000
	}
	shard, shards := hx.EnvInt("VERIF_SHARD", 0), hx.EnvInt("VERIF_SHARDS", 1)
	pairs := [][]string{{"commit", "cancel"}, {"splitB", "cancel"}, {"splitA1", "splitA2"}, {"splitB", "commit"}}
	allComplete := true
	for i, p := range pairs {
		if i%shards != shard {
			continue
		}
		runs, complete := enumerate(t, p, []string{"commit"}, limit)
		stats.Count("enum_runs_"+strings.Join(p, "+"), runs)
		if complete {
			stats.Count("enum_complete_"+strings.Join(p, "+"), 1)
		} else {
			allComplete = false
		}
	}
	stats.SetExhaustive(allComplete)
}

// TestKnownDoubleCommit pins the listed finding: a commit interrupted after its bundle descriptor
// landed, followed by a retried commit, yields two bundles
func TestKnownDoubleCommit(t *testing.T) {
	os.Setenv("VERIF_NO_EXCLUDE", "1")
	defer os.Unsetenv("VERIF_NO_EXCLUDE")
	found := ""
	for sel := 0; sel < 6 && found == ""; sel++ {
		c := caseT{Actors: []string{"splitB", "commit"}, Crash: &crashT{Actor: 1, Sel: sel, Land: true}, Choices: make([]int, 200), Phase2: []string{"retry"}}
		if _, err := runCase(c, nil); err != nil && strings.Contains(err.Error(), "I1:") {
			found = err.Error()
		}
	}
	if found == "" {
		// overlapping commits
		c := caseT{Actors: []string{"splitB", "commit", "commit2"}, Choices: []int{0, 0, 0, 0, 0, 0, 0, 0, 0, 0, 0, 0, 0, 0, 0, 0, 0, 0, 0, 0, 0, 1, 0, 1, 0, 1, 0, 1}}
		if _, err := runCase(c, nil); err != nil && strings.Contains(err.Error(), "I1:") {
			found = err.Error()
		}
	}
	if found == "" {
		return
	}
	what := "a diamond can produce two bundles: " + found
	if hx.Listed(knownDoubleCommit) {
		stats.KnownFinding(knownDoubleCommit, what)
		return
	}
	t.Fatalf("%s", what)
}

// TestRegressCommitReadFailureSeveralPages: a commit that lists the splits in pages of one key and whose
// first read of a split descriptor fails must report the failure - not wait for ever for its own key
// listing stages (the stage that merges running/done keys had no way to learn that its consumer was gone)
func TestRegressCommitReadFailureSeveralPages(t *testing.T) {
	n := 40
	if hx.Thorough() {
		n = 400
	}
	for i := 0; i < n; i++ {
		c := caseT{Actors: []string{"splitB", "splitE", "splitA1"}, Choices: []int{5, 1, 5}, Phase2: []string{"commit", "commit"}, Batch: 1 + i%2,
			P2Faults: []*faultT{{Key: []string{"split-done", "split-"}[i%2], Nth: 1 + (i/2)%3}, nil}}
		hx.Journal(c)
		var out runOutcome
		err, hung, panicked := hx.Guard(20*time.Second, func() error {
			var e error
			out, e = runCase(c, nil)
			return e
		})
		if hung || panicked || err != nil {
			t.Fatalf("%v (hung=%v panicked=%v)", err, hung, panicked)
		}
		stats.Case("pinned read failure "+out.sig, true, func() interface{} { return c })
	}
}

// TestRegressCommitListingFailure: one page of the commit's split listing fails. The commit may fail, but it
// must not go ahead with the splits listed so far (the stage merging running/done keys dropped the scan error).
func TestRegressCommitListingFailure(t *testing.T) {
	for i := 0; i < 24; i++ {
		c := caseT{Actors: []string{"splitB", "splitE", "splitA1"}, Choices: []int{5, 1, 5}, Phase2: []string{"commit", "commit"}, Batch: []int{0, 1, 2, 3}[i%4],
			P2Faults: []*faultT{{Key: "/splits/", List: true, Nth: 1 + (i/4)%6}, nil}}
		hx.Journal(c)
		var out runOutcome
		err, hung, panicked := hx.Guard(20*time.Second, func() error {
			var e error
			out, e = runCase(c, nil)
			return e
		})
		if hung || panicked || err != nil {
			t.Fatalf("%v (hung=%v panicked=%v)", err, hung, panicked)
		}
		stats.Case("pinned listing failure "+out.sig, true, func() interface{} { return c })
	}
}
