package c01

import (
	"bytes"
	"context"
	"fmt"
	"io"
	"os"
	"sync"
	"testing"
	"time"

	"github.com/oneconcern/datamon/pkg/cafs"
	"pgregory.net/rapid"

	"verifharness/evid"
	"verifharness/hx"
	"verifharness/memstore"
)

var stats = evid.New("C01", "rapid: leaf size L (constants 64..4096, uniform 64..8192, rarely 32KiB±1/1MiB/1.5MiB/5MiB), content of k*L+d bytes (k 0..6, d in {-1,0,+1,uniform}), source shape (one big write / fixed chunks / random chunks / data+EOF reader / os.File), cafs options, then a generated read program (Read with varying buffers, ReadAt incl. past EOF, WriteTo writer / WriterAt, ReadAll). Non-trivial: size > L or size in {0,1} or size mod L in {0,1,L-1}; distinct by (L, k, d-class, source shape, read styles).")

func TestMain(m *testing.M) {
	code := m.Run()
	stats.Flush()
	os.Exit(code)
}

// ---- sources

type chunkedReader struct {
	data   []byte
	pos    int
	sizes  []int // cyclic chunk sizes
	i      int
	eofTog bool // return data together with io.EOF on the last chunk
}

func (c *chunkedReader) Read(p []byte) (int, error) {
	if c.pos >= len(c.data) {
		return 0, io.EOF
	}
	n := c.sizes[c.i%len(c.sizes)]
	c.i++
	if n > len(p) {
		n = len(p)
	}
	if n > len(c.data)-c.pos {
		n = len(c.data) - c.pos
	}
	copy(p, c.data[c.pos:c.pos+n])
	c.pos += n
	if c.eofTog && c.pos == len(c.data) {
		return n, io.EOF
	}
	return n, nil
}

// writerToChunks hands its bytes to the destination in Write calls of the given sizes
// (io.Copy uses WriterTo when available, so this controls the size of each cafs Write).
type writerToChunks struct {
	data  []byte
	sizes []int
}

func (w *writerToChunks) Read(p []byte) (int, error) {
	panic("Read must not be used when WriteTo exists")
}
func (w *writerToChunks) WriteTo(dst io.Writer) (int64, error) {
	var total int64
	pos, i := 0, 0
	for pos < len(w.data) {
		n := w.sizes[i%len(w.sizes)]
		i++
		if n <= 0 {
			n = 1
		}
		if n > len(w.data)-pos {
			n = len(w.data) - pos
		}
		m, err := dst.Write(w.data[pos : pos+n])
		total += int64(m)
		if err != nil {
			return total, err
		}
		if m != n {
			return total, io.ErrShortWrite
		}
		pos += n
	}
	return total, nil
}

type readOp struct {
	Kind string `json:"kind"` // read | readat | writeto | writetoat | readall
	Bufs []int  `json:"bufs,omitempty"`
	Off  int64  `json:"off,omitempty"`
	Len  int    `json:"len,omitempty"`
}

type caseT struct {
	Content  hx.ContentSpec `json:"content"`
	Source   string         `json:"source"`
	Chunks   []int          `json:"chunks,omitempty"`
	Flushes  int            `json:"flushes"`
	Prefetch int            `json:"prefetch"`
	CacheL   int            `json:"cache_leaves"`
	RCW      int            `json:"reader_chunk_writes"`
	CRC      bool           `json:"crc"`
	Store    string         `json:"store"` // mem | localfs (a real directory on tmpfs: file-like blob readers)
	Reput    bool           `json:"reput"` // Put, Delete, Put again on the same Fs before reading
	// PutFault: the n-th blob write of the Put is refused once by the store (in-memory store only). The Put may
	// fail - the caller then stores the content again - but whatever it reports as stored must read back
	PutFault int `json:"put_fault,omitempty"`
	Program  []readOp       `json:"program"`
}

func drawLeaf(t *rapid.T) uint32 {
	if !hx.Thorough() && rapid.IntRange(0, 399).Draw(t, "bigleafq") == 0 {
		// the pooled leaf buffers come in 1..5 MiB classes: leaf sizes equal to a class capacity are a boundary
		return rapid.SampledFrom([]uint32{1 << 20, 2 << 20, 5 << 20}).Draw(t, "Lbig")
	}
	if hx.Thorough() && rapid.IntRange(0, 199).Draw(t, "bigleaf") == 0 {
		return rapid.SampledFrom([]uint32{32*1024 - 1, 32 * 1024, 32*1024 + 1, 1 << 20, 3 << 19, 5 << 20}).Draw(t, "L")
	}
	return hx.SmallLeaf(t, "L")
}

func drawCase(t *rapid.T) caseT {
	L := drawLeaf(t)
	maxK := 6
	if L > 1<<16 {
		maxK = 3
		if !hx.Thorough() {
			maxK = 1
		}
	}
	c := caseT{Content: hx.Content(t, L, maxK, "content")}
	li := int(L)
	c.Source = rapid.SampledFrom([]string{"onewrite", "fixed", "random", "eofdata", "osfile", "bytesreader", "wtchunks"}).Draw(t, "source")
	switch c.Source {
	case "fixed", "eofdata":
		c.Chunks = []int{rapid.SampledFrom([]int{1, 7, li - 1, li, li + 1, 2 * li, 32 * 1024, 3*li + 5}).Draw(t, "chunk")}
		if c.Chunks[0] == 1 && c.Content.Size > 20000 {
			c.Chunks[0] = 509
		}
	case "random", "wtchunks":
		c.Chunks = rapid.SliceOfN(rapid.IntRange(1, 3*li), 1, 6).Draw(t, "chunks")
	}
	c.Flushes = rapid.IntRange(1, 16).Draw(t, "flushes")
	c.Prefetch = rapid.SampledFrom([]int{0, 0, 0, 1, 2, 3}).Draw(t, "prefetch")
	c.CacheL = rapid.IntRange(1, 8).Draw(t, "cache")
	c.RCW = rapid.IntRange(1, 8).Draw(t, "rcw")
	c.CRC = rapid.Bool().Draw(t, "crc")
	c.Store = rapid.SampledFrom([]string{"mem", "mem", "localfs"}).Draw(t, "store")
	c.Reput = rapid.IntRange(0, 5).Draw(t, "reput") == 0
	if c.Store == "mem" && rapid.IntRange(0, 5).Draw(t, "putfault") == 0 {
		c.PutFault = rapid.IntRange(1, 8).Draw(t, "putfault_nth")
	}
	nops := rapid.IntRange(1, 6).Draw(t, "nops")
	size := int64(c.Content.Size)
	for i := 0; i < nops; i++ {
		op := readOp{Kind: rapid.SampledFrom([]string{"read", "read", "readat", "readat", "readat", "writeto", "writetoat", "readall"}).Draw(t, "opkind")}
		switch op.Kind {
		case "read":
			op.Bufs = rapid.SliceOfN(rapid.IntRange(1, 2*li), 1, 5).Draw(t, "bufs")
			if size > 50000 {
				// keep the number of Read calls bounded for big objects
				for bi := range op.Bufs {
					if op.Bufs[bi] < 1024 {
						op.Bufs[bi] += 1024
					}
				}
			}
		case "readat":
			switch rapid.IntRange(0, 3).Draw(t, "offsel") {
			case 0: // around a leaf boundary
				k := rapid.IntRange(0, 6).Draw(t, "offk")
				op.Off = int64(k*li + rapid.IntRange(-2, 2).Draw(t, "offd"))
			case 1: // around EOF
				op.Off = size + int64(rapid.IntRange(-3, 3).Draw(t, "offe"))
			default:
				op.Off = rapid.Int64Range(0, size+int64(2*li)).Draw(t, "off")
			}
			if op.Off < 0 {
				op.Off = 0
			}
			op.Len = rapid.IntRange(0, 3*li).Draw(t, "len")
		}
		c.Program = append(c.Program, op)
	}
	return c
}

// sliceWriterAt is an in-memory io.WriterAt (+ io.Writer so it can be passed as io.Writer)
type sliceWriterAt struct {
	mu  sync.Mutex
	buf []byte
	max int
}

func (s *sliceWriterAt) WriteAt(p []byte, off int64) (int, error) {
	s.mu.Lock()
	defer s.mu.Unlock()
	end := int(off) + len(p)
	if end > len(s.buf) {
		if end > s.max {
			return 0, fmt.Errorf("write beyond expected size: %d > %d", end, s.max)
		}
		nb := make([]byte, end)
		copy(nb, s.buf)
		s.buf = nb
	}
	copy(s.buf[off:], p)
	return len(p), nil
}
func (s *sliceWriterAt) Write(p []byte) (int, error) { return 0, fmt.Errorf("Write must not be used") }

type plainWriter struct{ b bytes.Buffer }

func (p *plainWriter) Write(b []byte) (int, error) { return p.b.Write(b) }

func runCase(c caseT) error {
	content := c.Content.Bytes()
	L := c.Content.Leaf
	be := memstore.NewBackend("blob")
	var store = be.View("w")
	var opts = []cafs.Option{
		cafs.LeafSize(L), cafs.Logger(hx.Nop), cafs.ConcurrentFlushes(c.Flushes),
		cafs.Prefetch(c.Prefetch), cafs.CacheSize(c.CacheL * int(L)), cafs.ReaderConcurrentChunkWrites(c.RCW),
	}
	switch {
	case c.Store == "localfs":
		sc := hx.NewScratch()
		defer sc.Close()
		opts = append(opts, cafs.Backend(hx.Local(sc.Dir("blobs"))))
	case c.CRC:
		opts = append(opts, cafs.Backend(store.WithCRC()))
	default:
		opts = append(opts, cafs.Backend(store))
	}
	fs, err := cafs.New(opts...)
	if err != nil {
		return fmt.Errorf("cafs.New: %v", err)
	}
	var src io.Reader
	switch c.Source {
	case "onewrite":
		src = &writerToChunks{data: content, sizes: []int{len(content) + 1}}
	case "wtchunks":
		src = &writerToChunks{data: content, sizes: c.Chunks}
	case "bytesreader":
		src = bytes.NewReader(content)
	case "fixed", "random":
		src = &chunkedReader{data: content, sizes: c.Chunks}
	case "eofdata":
		src = &chunkedReader{data: content, sizes: c.Chunks, eofTog: true}
	case "osfile":
		f, err := os.CreateTemp(hx.ScratchRoot(), "verif-c01-*")
		if err != nil {
			return err
		}
		defer os.Remove(f.Name())
		defer f.Close()
		if _, err := f.Write(content); err != nil {
			return err
		}
		if _, err := f.Seek(0, 0); err != nil {
			return err
		}
		src = f
	}
	var mf *memstore.Fault
	if c.PutFault > 0 && c.Store != "localfs" {
		mf = &memstore.Fault{Op: memstore.OpPut, Nth: c.PutFault, Times: 1}
		store.AddFault(mf)
	}
	res, err := fs.Put(context.Background(), src)
	if mf != nil {
		store.ClearFaults()
		if mf.Hits > 0 {
			stats.Count("put_with_a_refused_blob_write", 1)
		}
		if err != nil && mf.Hits > 0 {
			// the store refused one write and the Put said so: the caller stores the content again
			stats.Count("put_failed_on_refused_blob_write", 1)
			res, err = fs.Put(context.Background(), bytes.NewReader(content))
		}
	}
	if err != nil {
		return fmt.Errorf("Put: %v", err)
	}
	if res.Written != int64(len(content)) {
		return fmt.Errorf("Put reported Written=%d, content has %d bytes", res.Written, len(content))
	}
	if c.Reput {
		// the object is deleted and stored again through the same Fs: it must be fully there again
		if err := fs.Delete(context.Background(), res.Key); err != nil {
			return fmt.Errorf("Delete: %v", err)
		}
		var src2 io.Reader = bytes.NewReader(content)
		res2, err := fs.Put(context.Background(), src2)
		if err != nil {
			return fmt.Errorf("second Put: %v", err)
		}
		if res2.Key != res.Key || res2.Written != int64(len(content)) {
			return fmt.Errorf("second Put: key %s written %d, first %s %d", res2.Key, res2.Written, res.Key, len(content))
		}
	}
	// read with a fresh Fs half of the time? keep same fs for ops with index even, fresh for odd
	for i, op := range c.Program {
		rfs := fs
		if i%2 == 1 {
			rfs, err = cafs.New(opts...)
			if err != nil {
				return err
			}
		}
		if err := runOp(rfs, res.Key, content, op, int(L)); err != nil {
			return fmt.Errorf("op %d %+v: %v", i, op, err)
		}
	}
	return nil
}

func runOp(fs cafs.Fs, key cafs.Key, content []byte, op readOp, L int) error {
	ctx := context.Background()
	switch op.Kind {
	case "read":
		r, err := fs.Get(ctx, key)
		if err != nil {
			return fmt.Errorf("Get: %v", err)
		}
		defer r.Close()
		var got []byte
		for i := 0; ; i++ {
			buf := make([]byte, op.Bufs[i%len(op.Bufs)])
			n, err := r.Read(buf)
			if n < 0 || n > len(buf) {
				return fmt.Errorf("Read returned n=%d for a buffer of %d", n, len(buf))
			}
			got = append(got, buf[:n]...)
			if err == io.EOF {
				break
			}
			if err != nil {
				return fmt.Errorf("Read: %v after %d bytes", err, len(got))
			}
			if len(got) > len(content)+L {
				return fmt.Errorf("Read returned more than the content: %d > %d", len(got), len(content))
			}
			if i > 4*(len(content)+10) {
				return fmt.Errorf("Read does not terminate")
			}
		}
		if !bytes.Equal(got, content) {
			return fmt.Errorf("sequential Read mismatch: got %d bytes want %d, first diff at %d", len(got), len(content), firstDiff(got, content))
		}
	case "readall":
		r, err := fs.Get(ctx, key)
		if err != nil {
			return fmt.Errorf("Get: %v", err)
		}
		defer r.Close()
		got, err := io.ReadAll(struct{ io.Reader }{r})
		if err != nil {
			return fmt.Errorf("ReadAll: %v", err)
		}
		if !bytes.Equal(got, content) {
			return fmt.Errorf("ReadAll mismatch: got %d bytes want %d, first diff at %d", len(got), len(content), firstDiff(got, content))
		}
	case "readat":
		r, err := fs.GetAt(ctx, key)
		if err != nil {
			return fmt.Errorf("GetAt: %v", err)
		}
		buf := make([]byte, op.Len)
		n, err := r.ReadAt(buf, op.Off)
		if err != nil && err != io.EOF {
			return fmt.Errorf("ReadAt(%d,%d): %v", op.Off, op.Len, err)
		}
		var want []byte
		if op.Off < int64(len(content)) {
			end := op.Off + int64(op.Len)
			if end > int64(len(content)) {
				end = int64(len(content))
			}
			want = content[op.Off:end]
		}
		if n != len(want) || !bytes.Equal(buf[:n], want) {
			return fmt.Errorf("ReadAt(off=%d,len=%d) on %d bytes: n=%d want %d, first diff at %d", op.Off, op.Len, len(content), n, len(want), firstDiff(buf[:min(n, len(buf))], want))
		}
	case "writeto":
		r, err := fs.Get(ctx, key)
		if err != nil {
			return fmt.Errorf("Get: %v", err)
		}
		defer r.Close()
		wt, ok := r.(io.WriterTo)
		if !ok {
			return fmt.Errorf("reader is not a WriterTo")
		}
		var w plainWriter
		n, err := wt.WriteTo(&w)
		if err != nil {
			return fmt.Errorf("WriteTo(writer): %v", err)
		}
		if n != int64(len(content)) || !bytes.Equal(w.b.Bytes(), content) {
			return fmt.Errorf("WriteTo(writer) mismatch: n=%d got %d bytes want %d, first diff at %d", n, w.b.Len(), len(content), firstDiff(w.b.Bytes(), content))
		}
	case "writetoat":
		r, err := fs.Get(ctx, key)
		if err != nil {
			return fmt.Errorf("Get: %v", err)
		}
		defer r.Close()
		wt := r.(io.WriterTo)
		w := &sliceWriterAt{max: len(content)}
		n, err := wt.WriteTo(w)
		if err != nil {
			return fmt.Errorf("WriteTo(writerAt): %v", err)
		}
		if n != int64(len(content)) || !bytes.Equal(w.buf, content) {
			return fmt.Errorf("WriteTo(writerAt) mismatch: n=%d got %d bytes want %d, first diff at %d", n, len(w.buf), len(content), firstDiff(w.buf, content))
		}
	}
	return nil
}

func firstDiff(a, b []byte) int {
	for i := 0; i < len(a) && i < len(b); i++ {
		if a[i] != b[i] {
			return i
		}
	}
	if len(a) != len(b) {
		return min(len(a), len(b))
	}
	return -1
}

func (c caseT) sig() string {
	styles := map[string]bool{}
	for _, op := range c.Program {
		styles[op.Kind] = true
	}
	s := ""
	for _, k := range []string{"read", "readat", "writeto", "writetoat", "readall"} {
		if styles[k] {
			s += k + ","
		}
	}
	return fmt.Sprintf("L=%d k=%d d=%s src=%s store=%s reput=%v styles=%s", c.Content.Leaf, c.Content.K, c.Content.DClass(), c.Source, c.Store, c.Reput, s)
}

func check(t interface {
	Fatalf(string, ...interface{})
}, c caseT) {
	hx.Journal(c)
	limit := 20 * time.Second
	if c.Content.Leaf > 1<<16 {
		limit = 120 * time.Second
	}
	err, hung, panicked := hx.Guard(limit, func() error { return runCase(c) })
	switch {
	case hung:
		t.Fatalf("HANG: %v; case=%+v", err, c)
	case panicked:
		t.Fatalf("PANIC: %v; case=%+v", err, c)
	case err != nil:
		t.Fatalf("%v; case=%+v", err, c)
	}
}

func TestProp(t *testing.T) {
	rapid.Check(t, func(t *rapid.T) {
		c := drawCase(t)
		check(t, c)
		stats.Case(c.sig(), c.Content.NonTrivial(), func() interface{} { return c })
		stats.Count("src_"+c.Source, 1)
		stats.Count("d_"+c.Content.DClass(), 1)
		if c.Content.Size > int(c.Content.Leaf) {
			stats.Count("multi_leaf", 1)
		}
	})
}

// TestRejectLeafSizes: leaf sizes outside [64, 5MiB] are refused
func TestRejectLeafSizes(t *testing.T) {
	for _, l := range []uint32{0, 1, 63, 5<<20 + 1, 1 << 30} {
		if _, err := cafs.New(cafs.LeafSize(l), cafs.Backend(memstore.NewBackend("b").View("x")), cafs.Logger(hx.Nop)); err == nil {
			t.Fatalf("leaf size %d accepted", l)
		}
	}
}

// TestRegressLeafSizeClasses: the pooled leaf buffers come in classes of 1, 2, 3, 4 and 5 MiB. Leaf sizes on
// either side of every class boundary, and inside the last class, are stored and read back in every read style
// (one full leaf plus a tail, so that a whole leaf must travel through a buffer)
func TestRegressLeafSizeClasses(t *testing.T) {
	const MiB = 1 << 20
	sizes := []uint32{MiB - 1, MiB, MiB + 1, 2 * MiB, 2*MiB + 1, 3 * MiB, 3*MiB + 1, 4*MiB - 1, 4 * MiB, 4*MiB + 1, 4*MiB + 4096, 4*MiB + MiB/2, 5*MiB - 1, 5 * MiB}
	for i, L := range sizes {
		li := int(L)
		size := li + 100 + i
		{
			c := caseT{
				Content: hx.ContentSpec{Leaf: L, K: 1, D: 100 + i, Size: size, Seed: uint64(77 + i), Kind: 0, Period: 1},
				Source:  []string{"onewrite", "bytesreader", "fixed"}[i%3], Chunks: []int{32 * 1024},
				Flushes: 1 + i%4, Prefetch: i % 2, CacheL: 1 + i%3, RCW: 1 + i%2, Store: []string{"mem", "localfs"}[i%2],
				Program: []readOp{
					{Kind: "readat", Off: 0, Len: size},
					{Kind: "readat", Off: int64(li - 2), Len: 50},
					{Kind: "readat", Off: 1, Len: li - 1},
					{Kind: "read", Bufs: []int{64 * 1024, li}},
					{Kind: "writetoat"},
					{Kind: "writeto"},
				},
			}
			check(t, c)
			stats.Case(fmt.Sprintf("pinned leaf class L=%d", L), true, func() interface{} { return c.sig() })
		}
	}
}

// TestRegressManyLeaves: the root blob of an object (64 bytes per leaf) is not bounded by the leaf size: objects
// of about 82 000 leaves of 64 bytes have a root blob just below, at and above 5 MiB. Stored through one Fs and
// read through another (which must fetch the root blob from the store).
func TestRegressManyLeaves(t *testing.T) {
	for _, leaves := range []int{81919, 81920, 81927} {
		content := hx.Expand(uint64(leaves), leaves*64-13, 0, 0)
		be := memstore.NewBackend("blob")
		opts := func(v string) []cafs.Option {
			return []cafs.Option{cafs.LeafSize(64), cafs.Logger(hx.Nop), cafs.Backend(be.View(v)), cafs.CacheSize(64 * 64)}
		}
		err, hung, panicked := hx.Guard(300*time.Second, func() error {
			wfs, err := cafs.New(opts("w")...)
			if err != nil {
				return err
			}
			res, err := wfs.Put(context.Background(), bytes.NewReader(content))
			if err != nil {
				return fmt.Errorf("Put: %v", err)
			}
			if res.Written != int64(len(content)) {
				return fmt.Errorf("Put reported Written=%d, content has %d bytes", res.Written, len(content))
			}
			rfs, err := cafs.New(opts("r")...)
			if err != nil {
				return err
			}
			r, err := rfs.Get(context.Background(), res.Key)
			if err != nil {
				return fmt.Errorf("Get through a fresh Fs: %v", err)
			}
			defer r.Close()
			got, err := io.ReadAll(struct{ io.Reader }{r})
			if err != nil {
				return fmt.Errorf("Read through a fresh Fs: %v", err)
			}
			if !bytes.Equal(got, content) {
				return fmt.Errorf("read back %d bytes, stored %d, first difference at %d", len(got), len(content), firstDiff(got, content))
			}
			ra, err := rfs.GetAt(context.Background(), res.Key)
			if err != nil {
				return fmt.Errorf("GetAt through a fresh Fs: %v", err)
			}
			buf := make([]byte, 200)
			off := int64(len(content) - 150)
			n, err := ra.ReadAt(buf, off)
			if (err != nil && err != io.EOF) || !bytes.Equal(buf[:n], content[off:]) {
				return fmt.Errorf("ReadAt(%d) near the end: n=%d err=%v", off, n, err)
			}
			return nil
		})
		if hung || panicked || err != nil {
			t.Fatalf("object of %d leaves of 64 bytes: %v (hung=%v panicked=%v)", leaves, err, hung, panicked)
		}
		stats.Case(fmt.Sprintf("pinned many leaves n=%d", leaves), true, func() interface{} { return fmt.Sprintf("%d leaves of 64 bytes", leaves) })
	}
}
