package c10

import (
	"fmt"
	"testing"
	"time"

	"verifharness/hx"
)

// ---- pinned cases (plain Go, no library)

func fileSpec(path string, size int, seed uint64) hx.FileSpec {
	return hx.FileSpec{Path: path, Content: hx.ContentSpec{Leaf: 4096, Size: size, Seed: seed}}
}

// pinnedPool: tree 0 has three files (one spanning two leaves), tree 1 one file, tree 2 is empty
func pinnedPool() []hx.TreeSpec {
	return []hx.TreeSpec{
		{Leaf: 4096, Files: []hx.FileSpec{fileSpec("a", 10, 1), fileSpec("dir/b", 5000, 2), fileSpec("dir/sub dir/c.txt", 4096, 3)}},
		{Leaf: 4096, Files: []hx.FileSpec{fileSpec("only", 1, 4)}},
		{Leaf: 4096},
	}
}

// history builds uploads from a pattern, oldest first: 'C' a complete upload, 'L' an upload interrupted
// after all its index files (descriptor write lost), 'P' interrupted after its first index file,
// '=' makes the next upload share the second of the previous one.
func history(pattern string, epf uint) []upT {
	var ups []upT
	sec := 0
	same := false
	for _, ch := range pattern {
		if ch == '=' {
			same = true
			continue
		}
		if !same {
			sec += 2
		}
		same = false
		u := upT{Sec: sec, Tag: uint64(len(ups) + 1), Tree: len(ups) % 3, EPF: epf}
		switch ch {
		case 'C':
		case 'L':
			u.Tree = 0
			u.Crash = (3+int(epf)-1)/int(epf) + 1
		case 'P':
			u.Tree, u.EPF = 0, 1
			u.Crash, u.Land = 1, true
		default:
			panic("bad pattern")
		}
		ups = append(ups, u)
	}
	return ups
}

func pinned(pattern string, epf uint, n int, opt string, labels ...labelT) caseT {
	return caseT{Leaf: 4096, Pool: pinnedPool(), Ups: history(pattern, epf), Labels: labels, N: n, Opt: opt, DlAll: true, CheckLatest: true}
}

func runPinned(t *testing.T, name string, c caseT) {
	t.Helper()
	if hx.Known(KnownLeftovers) && len(c.harmfulLeftovers()) > 0 {
		stats.Count("excluded_"+KnownLeftovers, 1)
		return
	}
	info, err := execute(c, 300*time.Second)
	if err != nil {
		t.Fatalf("%s: %v", name, err)
	}
	record(c, info)
}

func repeat(s string, n int) string {
	out := ""
	for i := 0; i < n; i++ {
		out += s
	}
	return out
}

// TestRegressPlainHistories: no labels, no leftovers: exactly the N newest bundles remain
func TestRegressPlainHistories(t *testing.T) {
	for _, n := range []int{0, 1, 2, 3, 6, 40} {
		for _, N := range []int{0, 1, 2, 5} {
			c := pinned(repeat("C", n), 1000, N, "none")
			if n == 40 {
				c.Batch, c.Conc = 7, 2
			}
			c.Bystander = n == 3
			runPinned(t, fmt.Sprintf("n=%d N=%d", n, N), c)
		}
	}
	// bundles sharing a second, small index files, page size 1
	c := pinned("C=C=CC=C", 2, 2, "none")
	c.Batch = 1
	runPinned(t, "same-second", c)
}

// TestRegressRetainOptions: labels decide what else is kept; labels of removed bundles go away
func TestRegressRetainOptions(t *testing.T) {
	labels := []labelT{
		{Name: "v1.2.3", Target: 0},
		{Name: "prod", Target: 3}, // moved below
		{Name: "0.3.0", Target: 2},
		{Name: "staging", Target: 2}, // two labels on one bundle
		{Name: "prod", Target: 1},
		{Name: "latest-x", Target: 5},          // on the newest bundle
		{Name: "release_candidate", Target: 3}, // the only label of that bundle: not a semver tag
		{Name: "v2.0.0-rc.1", Target: 4},
	}
	for _, opt := range []string{"none", "tags", "semver", "both"} {
		for _, N := range []int{0, 1, 2, 5} {
			for _, epf := range []uint{1000, 2} {
				c := pinned("CCCCCC", epf, N, opt, labels...)
				c.CheckLatest = epf == 2 && N == 1
				c.Bystander = true
				c.Batch = 3
				runPinned(t, fmt.Sprintf("opt=%s N=%d epf=%d", opt, N, epf), c)
			}
		}
	}
}

// TestRegressOldLeftovers: leftovers older than every bundle that is to be kept never mattered
func TestRegressOldLeftovers(t *testing.T) {
	for _, pattern := range []string{"LCCC", "PLCCCC", "CLCPCC", "L", "PL"} {
		for _, N := range []int{1, 2} {
			c := pinned(pattern, 2, N, "tags")
			for i, u := range c.Ups {
				if c.planCommitted(u) {
					c.Labels = []labelT{{Name: "prod", Target: i}} // on the oldest committed bundle
					break
				}
			}
			if h := c.harmfulLeftovers(); len(h) != 0 {
				t.Fatalf("harness: pattern %s N=%d is meant to be outside the class of %s", pattern, N, KnownLeftovers)
			}
			runPinned(t, fmt.Sprintf("%s N=%d", pattern, N), c)
		}
	}
}

// TestRegressCrashPointsEnumerated: one interrupted upload, at EVERY crash point (each index-file write
// and the descriptor write, effect lost or landed), before / inside the retain window / after the
// committed bundles, for retain-N 1 and 2 (thorough: 1..3 and every retain option).
func TestRegressCrashPointsEnumerated(t *testing.T) {
	Ns := []int{1, 2}
	opts := []string{"none"}
	if hx.Thorough() {
		Ns = []int{1, 2, 3}
		opts = []string{"none", "tags", "semver"}
	}
	n := 0
	for _, epf := range []uint{1, 2, 1000} {
		writes := (3+int(epf)-1)/int(epf) + 1
		for crash := 1; crash <= writes; crash++ {
			for _, land := range []bool{false, true} {
				for pos := 0; pos <= 3; pos++ { // index of the interrupted upload among 3 complete ones
					for _, N := range Ns {
						for _, opt := range opts {
							ups := history("CCCC", epf)
							ups[pos].Tree, ups[pos].Crash, ups[pos].Land = 0, crash, land
							c := caseT{Leaf: 4096, Pool: pinnedPool(), Ups: ups, N: N, Opt: opt, DlAll: true, CheckLatest: pos == 3 && land}
							target := 0
							if pos == 0 {
								target = 1
							}
							c.Labels = []labelT{{Name: "v1.2.3", Target: target}}
							runPinned(t, fmt.Sprintf("epf=%d crash=%d/%d land=%v pos=%d N=%d opt=%s", epf, crash, writes, land, pos, N, opt), c)
							n++
						}
					}
				}
			}
		}
	}
	stats.Note("crash_points_enumerated", fmt.Sprintf("%d pinned cases: entries-per-index-file {1,2,1000} x every metadata write x landed/lost x 4 positions x retain-N %v x options %v", n, Ns, opts))
}

// ---- known finding

func knownCases() map[string]caseT {
	return map[string]caseT{
		"leftover after the only bundle, retain 1":          pinned("CL", 1000, 1, "none"),
		"partial leftover after the newest bundle":          pinned("CCCP", 2, 1, "none", labelT{Name: "prod", Target: 2}),
		"leftover inside the retain-2 window":               pinned("CCLC", 1000, 2, "none"),
		"two leftovers after the newest bundle, retain 2":   pinned("CCLP", 1, 2, "semver", labelT{Name: "prod", Target: 1}),
		"fewer bundles than retain-N, leftovers in between": pinned("CLCL", 2, 3, "none"),
	}
}

// TestKnownLeftoverTakesRetainSlot: pinned cases of the listed finding
func TestKnownLeftoverTakesRetainSlot(t *testing.T) {
	reproduced, first := "", error(nil)
	for name, c := range knownCases() {
		if len(c.harmfulLeftovers()) == 0 {
			t.Fatalf("harness: pinned case %q is not in the input class the generator excludes", name)
		}
		if _, err := execute(c, 300*time.Second); err != nil {
			t.Logf("still reproduces: %s\n  %v", name, err)
			if reproduced == "" || name < reproduced {
				reproduced, first = name, err
			}
		}
	}
	if reproduced == "" {
		return // repaired: nothing to report
	}
	if hx.Listed(KnownLeftovers) {
		stats.KnownFinding(KnownLeftovers, knownLeftoversWhat)
		return
	}
	t.Fatalf("%s (first reproducing case: %s: %v)", knownLeftoversWhat, reproduced, first)
}
