package c10

import (
	"context"
	"fmt"
	"os"
	"runtime"
	"runtime/debug"
	"sort"
	"strings"
	"testing"
	"time"

	"github.com/oneconcern/datamon/pkg/core"
	"github.com/oneconcern/datamon/pkg/model"
	"pgregory.net/rapid"

	"verifharness/evid"
	"verifharness/hx"
	"verifharness/memstore"
)

var stats = evid.New("C10", "rapid: a repository history of 0..40 committed bundles (real core uploads of small generated trees, harness KSUIDs in upload order, some sharing a second) interleaved with 0..3 uploads interrupted by a crash of the uploader at a drawn metadata write (every index-file write and the descriptor write, effect landed or not) placed before / between / after the committed ones; 0..6 label operations (clearly-semver and clearly-not names, several labels on one bundle, labels moved); optionally a bystander repository whose name extends the squashed one. Then core.RepoSquash with retain-N unset|1..5, retain option none|tags|semver|both, batch size and list concurrency as the CLI passes them. Oracle: reference model kept = N committed bundles with the largest IDs + (semver-)labelled committed bundles when requested; after squash ListBundles == kept, ListLabels == labels on kept bundles, nothing is left under a removed bundle's prefix, kept bundles download (Publish) to their original bytes, the bystander repository is byte-identical. Non-trivial: a visible leftover sorts after the newest committed bundle, or a retain option keeps a labelled bundle outside the N newest; distinct by (n class, n>N, N, option, worst leftover position, label-retained flag).")

func TestMain(m *testing.M) {
	if os.Getenv("GOGC") == "" {
		// every core.NewBundle / cafs.New allocates ~0.5 MB of short-lived tables: collect less often
		debug.SetGCPercent(400)
	}
	code := m.Run()
	if os.Getenv("VERIF_C10_DEBUG") != "" {
		fmt.Fprintf(os.Stderr, "c10: %d goroutines at exit\n", runtime.NumGoroutine())
	}
	stats.Flush()
	os.Exit(code)
}

const (
	repo      = "squash"
	bystander = "squash-2" // the squashed repo's name is a proper prefix of this one

	// KnownLeftovers is the id of the finding "RepoSquash counts leftovers of interrupted uploads as bundles"
	KnownLeftovers     = "C10-squash-counts-interrupted-uploads"
	knownLeftoversWhat = "core.RepoSquash lists bundles by key prefix only (WithMinimalBundle), so the index files left by an interrupted upload (bundle-files-N.yaml without bundle.yaml) count as a bundle: such a leftover takes one of the retain-N slots and a committed bundle - up to the most recent one - is deleted together with its labels"
)

var (
	// some names are proper prefixes of others ("v2.0.0" / "v2.0.0-rc.1", "prod" / "prod-eu"): their keys are
	// prefix-related in the label name space
	semverNames = []string{"v1.2.3", "0.3.0", "10.20.30", "v2.0.0-rc.1", "1.0.0", "v2.0.0"}
	plainNames  = []string{"prod", "latest-x", "staging", "release_candidate", "prod-eu"}
)

// isSemverRef is the harness' own classification of the generated label names (never an ambiguous one)
func isSemverRef(name string) bool {
	for _, s := range semverNames {
		if s == name {
			return true
		}
	}
	for _, s := range plainNames {
		if s == name {
			return false
		}
	}
	panic("harness: label name outside the generated vocabulary: " + name)
}

// upT is one upload, in ID (= execution) order
type upT struct {
	Sec   int    `json:"sec"`
	Tag   uint64 `json:"tag"`
	Tree  int    `json:"tree"`
	EPF   uint   `json:"entries_per_index_file"`
	Crash int    `json:"crash_at,omitempty"` // 0: the upload completes; n: the uploader dies at its n-th metadata write
	Land  bool   `json:"crash_lands,omitempty"`
}

func (u upT) id() string { return hx.KSUID(u.Sec, u.Tag) }

type labelT struct {
	Name   string `json:"name"`
	Target int    `json:"target"` // index into Ups (a committed upload)
}

type caseT struct {
	Leaf      uint32        `json:"leaf"`
	Pool      []hx.TreeSpec `json:"pool"`
	Ups       []upT         `json:"uploads"`
	Labels    []labelT      `json:"labels"`
	N         int           `json:"retain_n"` // 0: option not passed (documented default: the latest bundle)
	Opt       string        `json:"retain"`   // none | tags | semver | both
	Batch     int           `json:"batch"`    // 0: not passed
	Conc      int           `json:"conc"`     // 0: not passed
	Bystander bool          `json:"bystander"`
	DlSeed    uint64        `json:"dl_seed"`
	DlAll     bool          `json:"dl_all"`

	CheckLatest bool `json:"check_latest,omitempty"`

	// Fault: one transient failure of a metadata store call of the squash (the Nth Has / Get / KeysPrefix under the
	// repository's bundles). The squash may then fail - it must not remove anything it is asked to keep, and run
	// again without fault it must finish the job
	Fault *faultT `json:"fault,omitempty"`
}

type faultT struct {
	Op  string `json:"op"`
	Nth int    `json:"nth"`
}

func (c caseT) effN() int {
	if c.N <= 0 {
		return 1
	}
	return c.N
}

// files / index objects / metadata writes of an upload
func (c caseT) nFiles(u upT) int {
	n := 0
	for _, f := range c.Pool[u.Tree].Files {
		if !hx.IsGeneratedRef(f.Path) {
			n++
		}
	}
	return n
}
func (c caseT) nIndex(u upT) int { return (c.nFiles(u) + int(u.EPF) - 1) / int(u.EPF) }

// planCommitted: the descriptor write lands (by the generated plan)
func (c caseT) planCommitted(u upT) bool {
	return u.Crash == 0 || (u.Crash == c.nIndex(u)+1 && u.Land)
}

// planVisible: the upload leaves at least one index object but no descriptor
func (c caseT) planVisible(u upT) bool {
	if c.planCommitted(u) {
		return false
	}
	landed := u.Crash - 1
	if u.Land && u.Crash <= c.nIndex(u) {
		landed++
	}
	return landed >= 1
}

// harmfulLeftovers returns the indexes of the uploads in the input class of the known finding: a
// visible leftover whose ID is larger than the ID of the min(m,N)-th newest committed bundle.
func (c caseT) harmfulLeftovers() []int {
	var committed []int
	for i, u := range c.Ups {
		if c.planCommitted(u) {
			committed = append(committed, i)
		}
	}
	if len(committed) == 0 {
		return nil
	}
	k := c.effN()
	if k > len(committed) {
		k = len(committed)
	}
	boundary := committed[len(committed)-k] // Ups is in ID order
	var out []int
	for i, u := range c.Ups {
		if i > boundary && c.planVisible(u) {
			out = append(out, i)
		}
	}
	return out
}

// without drops uploads (fixing label targets; no label ever targets a non-committed upload)
func (c caseT) without(drop []int) caseT {
	if len(drop) == 0 {
		return c
	}
	dm := map[int]bool{}
	for _, i := range drop {
		dm[i] = true
	}
	remap := map[int]int{}
	var ups []upT
	for i, u := range c.Ups {
		if dm[i] {
			continue
		}
		remap[i] = len(ups)
		ups = append(ups, u)
	}
	out := c
	out.Ups = ups
	out.Labels = nil
	for _, l := range c.Labels {
		out.Labels = append(out.Labels, labelT{Name: l.Name, Target: remap[l.Target]})
	}
	return out
}

func drawCase(t *rapid.T) caseT {
	c := caseT{}
	c.Leaf = rapid.SampledFrom([]uint32{4096, 4096, 8192, 1024}).Draw(t, "leaf")
	np := rapid.IntRange(1, 3).Draw(t, "npool")
	for i := 0; i < np; i++ {
		minFiles := 0
		if i == 0 {
			minFiles = 2 // interrupted uploads need index files to leave something behind
		}
		c.Pool = append(c.Pool, hx.GenTree(t, c.Leaf, minFiles, 4, 1, false, fmt.Sprintf("pool%d", i)))
	}
	var nC int
	switch sel := rapid.IntRange(0, 19).Draw(t, "nsel"); {
	case sel == 0:
		nC = 0
	case sel == 1:
		nC = 1
	case sel <= 11:
		nC = rapid.IntRange(2, 7).Draw(t, "n")
	case sel <= 17:
		nC = rapid.IntRange(6, 14).Draw(t, "n")
	default:
		nC = rapid.IntRange(15, 40).Draw(t, "n")
	}
	nL := rapid.SampledFrom([]int{0, 1, 1, 1, 2, 3}).Draw(t, "nleftovers")
	// kinds in ID order: false = complete upload, true = interrupted upload
	kinds := make([]bool, nC)
	for i := 0; i < nL; i++ {
		var pos int
		switch rapid.SampledFrom([]string{"after", "after", "after", "window", "window", "mid", "before"}).Draw(t, "lpos") {
		case "after":
			pos = len(kinds)
		case "before":
			pos = 0
		case "window":
			// among the few newest uploads, where the retain-N window is
			pos = len(kinds) - rapid.IntRange(1, 4).Draw(t, "lposback")
			if pos < 0 {
				pos = 0
			}
		default:
			pos = rapid.IntRange(0, len(kinds)).Draw(t, "lposidx")
		}
		kinds = append(kinds, false)
		copy(kinds[pos+1:], kinds[pos:])
		kinds[pos] = true
	}
	sec := 0
	for i, interrupted := range kinds {
		sec += rapid.SampledFrom([]int{0, 0, 1, 1, 3, 60}).Draw(t, "dsec")
		u := upT{Sec: sec, Tag: uint64(i + 1)}
		u.Tree = rapid.IntRange(0, np-1).Draw(t, "tree")
		u.EPF = rapid.SampledFrom([]uint{1, 2, 3, 1000}).Draw(t, "epf")
		if interrupted {
			if rapid.IntRange(0, 3).Draw(t, "retree") > 0 {
				u.Tree = 0 // at least 2 files
				u.EPF = rapid.SampledFrom([]uint{1, 1, 2, 3}).Draw(t, "lepf")
			}
			// every crash point: each index-file write and the descriptor write, effect lost or landed
			u.Crash = rapid.IntRange(1, c.nIndex(u)+1).Draw(t, "crash")
			u.Land = rapid.Bool().Draw(t, "land")
			if c.planCommitted(u) && rapid.Bool().Draw(t, "notlanded") {
				u.Land = false // keep "descriptor landed" (really a committed bundle) from dominating
			}
		}
		c.Ups = append(c.Ups, u)
	}
	var committed []int
	for i, u := range c.Ups {
		if c.planCommitted(u) {
			committed = append(committed, i)
		}
	}
	if len(committed) > 0 {
		nLab := rapid.IntRange(0, 6).Draw(t, "nlabels")
		names := append(append([]string{}, semverNames...), plainNames...)
		prev := committed[0]
		for i := 0; i < nLab; i++ {
			name := rapid.SampledFrom(names).Draw(t, "lname")
			var target int
			switch rapid.IntRange(0, 5).Draw(t, "ltsel") {
			case 0:
				target = committed[0]
			case 1:
				target = prev
			case 2:
				target = committed[len(committed)-1]
			default:
				target = committed[rapid.IntRange(0, len(committed)-1).Draw(t, "ltarget")]
			}
			prev = target
			c.Labels = append(c.Labels, labelT{Name: name, Target: target})
		}
	}
	c.N = rapid.IntRange(0, 5).Draw(t, "retainN")
	c.Opt = rapid.SampledFrom([]string{"none", "none", "tags", "semver", "semver", "both"}).Draw(t, "retain")
	c.Batch = rapid.SampledFrom([]int{0, 0, 1, 2, 3, 7, 1024}).Draw(t, "batch")
	c.Conc = rapid.SampledFrom([]int{0, 0, 1, 2, 8}).Draw(t, "conc")
	c.Bystander = rapid.IntRange(0, 3).Draw(t, "bystander") == 0
	c.DlSeed = rapid.Uint64().Draw(t, "dlseed")
	c.DlAll = hx.Thorough() && rapid.IntRange(0, 3).Draw(t, "dlall") == 0
	if rapid.IntRange(0, 3).Draw(t, "fault") == 0 {
		c.Fault = &faultT{Op: rapid.SampledFrom([]string{memstore.OpHas, memstore.OpHas, memstore.OpGet, memstore.OpKeysPrefix}).Draw(t, "fault_op"), Nth: rapid.IntRange(1, 12).Draw(t, "fault_nth")}
	}
	return c
}

// ---- execution

// infoT is what the executed case turned out to be (for the class signature and counters)
type infoT struct {
	committed     int
	visible       int // leftovers with at least one index object
	leftoverWorst string
	labelRetained bool // a retain option keeps a bundle outside the N newest
	removed       int
	labelsRemoved int
	labelsKept    int
	downloaded    int
	unchangedMeta int
	crashClasses  []string
}

const maxDownloads = 5

func bundlePrefix(r, id string) string { return "bundles/" + r + "/" + id + "/" }

// bundleIDs scans the raw metadata keys of a repo: ids with a descriptor, ids with index objects only
func bundleIDs(be *memstore.Backend, r string) (committed, leftovers []string) {
	prefix := "bundles/" + r + "/"
	hasDesc := map[string]bool{}
	seen := map[string]bool{}
	var order []string
	for _, k := range be.RawKeys() {
		if !strings.HasPrefix(k, prefix) {
			continue
		}
		rest := k[len(prefix):]
		i := strings.IndexByte(rest, '/')
		if i < 0 {
			continue
		}
		id := rest[:i]
		if !seen[id] {
			seen[id] = true
			order = append(order, id)
		}
		if rest[i+1:] == "bundle.yaml" {
			hasDesc[id] = true
		}
	}
	for _, id := range order {
		if hasDesc[id] {
			committed = append(committed, id)
		} else {
			leftovers = append(leftovers, id)
		}
	}
	return
}

func sameStrings(a, b []string) bool {
	if len(a) != len(b) {
		return false
	}
	for i := range a {
		if a[i] != b[i] {
			return false
		}
	}
	return true
}

func short(ids []string) string {
	out := make([]string, len(ids))
	for i, id := range ids {
		out[i] = id
	}
	return "[" + strings.Join(out, " ") + "]"
}

func setLabel(stores *hx.Views, r, name, id string) error {
	b := hx.NewBundle(r, stores.Stores, nil, 0, core.BundleID(id))
	l := core.NewLabel(core.LabelDescriptor(model.NewLabelDescriptor(
		model.LabelName(name),
		model.LabelContributor(model.Contributor{Name: "verif", Email: "verif@example.com"}),
	)))
	return l.UploadDescriptor(context.Background(), b)
}

// download publishes a bundle into a fresh directory: through the public core.Publish when the bundle
// was written with the production index-file size, else through the verif hook with the size it was
// written with (the reader must be told the writer's entries-per-index-file).
func download(sc *hx.Scratch, v *hx.Views, id string, epf uint) (hx.Tree, error) {
	if epf == 1000 {
		return hx.Download(sc, v.Stores, repo, id)
	}
	dir := sc.Dir("dst")
	b := hx.NewBundle(repo, v.Stores, hx.Local(dir), 0, core.BundleID(id))
	if err := core.VerifPublish(context.Background(), b, epf, func(string) (bool, error) { return true, nil }); err != nil {
		return nil, err
	}
	return hx.ReadTree(dir)
}

func runCase(c caseT) (info infoT, err error) {
	sc := hx.NewScratch()
	defer sc.Close()
	env := hx.NewEnv()
	v := env.Actor("p")
	ctx := context.Background()
	if err := hx.CreateRepo(v.Stores, repo); err != nil {
		return info, fmt.Errorf("harness: create repo: %v", err)
	}
	// ---- source trees, written once
	dirs := make([]string, len(c.Pool))
	trees := make([]hx.Tree, len(c.Pool))
	for i, spec := range c.Pool {
		dirs[i] = sc.Dir("src")
		trees[i] = spec.Tree()
		if err := trees[i].Write(dirs[i]); err != nil {
			return info, fmt.Errorf("harness: %v", err)
		}
	}
	// ---- history
	content := map[string]hx.Tree{} // committed bundle id -> uploaded tree
	epfOf := map[string]uint{}
	idOf := make([]string, len(c.Ups))
	for i, u := range c.Ups {
		id := u.id()
		idOf[i] = id
		if i > 0 && !(idOf[i-1] < id) {
			return info, fmt.Errorf("harness: generated IDs are not increasing: %s then %s", idOf[i-1], id)
		}
		actor := v
		if u.Crash > 0 {
			actor = env.Actor(fmt.Sprintf("uploader-%d", i))
			actor.Meta.CrashAt(u.Crash, u.Land)
		}
		b := hx.NewBundle(repo, actor.Stores, hx.Local(dirs[u.Tree]), c.Leaf, core.BundleID(id))
		uerr := core.VerifUpload(ctx, b, u.EPF, nil)
		switch {
		case u.Crash == 0 && uerr != nil:
			return info, fmt.Errorf("harness precondition: upload %d (%s): %v", i, id, uerr)
		case u.Crash > 0 && uerr == nil:
			return info, fmt.Errorf("harness precondition: upload %d (%s) with a crash planned at metadata write %d of %d succeeded", i, id, u.Crash, c.nIndex(u)+1)
		case u.Crash > 0 && !actor.Meta.Crashed():
			return info, fmt.Errorf("harness precondition: upload %d (%s) failed before its crash point: %v", i, id, uerr)
		}
		if u.Crash > 0 {
			switch {
			case c.planCommitted(u):
				info.crashClasses = append(info.crashClasses, "descriptor_landed")
			case c.planVisible(u) && u.Crash == c.nIndex(u)+1:
				info.crashClasses = append(info.crashClasses, "all_index_no_descriptor")
			case c.planVisible(u):
				info.crashClasses = append(info.crashClasses, "partial_index")
			default:
				info.crashClasses = append(info.crashClasses, "nothing_landed")
			}
		}
		if c.planCommitted(u) {
			content[id] = trees[u.Tree].Uploadable()
			epfOf[id] = u.EPF
		}
	}
	// labels: the last operation on a name wins
	labels := map[string]string{}
	for _, l := range c.Labels {
		id := idOf[l.Target]
		if _, ok := content[id]; !ok {
			return info, fmt.Errorf("harness: label %q targets upload %d which is not committed", l.Name, l.Target)
		}
		if err := setLabel(v, repo, l.Name, id); err != nil {
			return info, fmt.Errorf("harness precondition: set label %q: %v", l.Name, err)
		}
		labels[l.Name] = id
	}
	if c.Bystander {
		if err := hx.CreateRepo(v.Stores, bystander); err != nil {
			return info, fmt.Errorf("harness: create bystander repo: %v", err)
		}
		for j := 0; j < 2; j++ {
			id := hx.KSUID(5000000+j, uint64(j))
			b := hx.NewBundle(bystander, v.Stores, hx.Local(dirs[0]), c.Leaf, core.BundleID(id))
			if err := core.VerifUpload(ctx, b, 1000, nil); err != nil {
				return info, fmt.Errorf("harness precondition: bystander upload: %v", err)
			}
			if j == 0 {
				for _, name := range []string{"prod", "v1.2.3"} {
					if err := setLabel(v, bystander, name, id); err != nil {
						return info, fmt.Errorf("harness precondition: bystander label: %v", err)
					}
				}
			}
		}
	}
	// ---- the state before the squash, read from the raw store
	committed, leftovers := bundleIDs(env.Meta, repo)
	var planned []string
	for id := range content {
		planned = append(planned, id)
	}
	sort.Strings(planned)
	if !sameStrings(committed, planned) {
		return info, fmt.Errorf("harness precondition: descriptors in the store %s differ from the planned committed bundles %s", short(committed), short(planned))
	}
	nVisiblePlan := 0
	for _, u := range c.Ups {
		if c.planVisible(u) {
			nVisiblePlan++
		}
	}
	if len(leftovers) != nVisiblePlan {
		return info, fmt.Errorf("harness precondition: %d leftovers in the store, %d planned", len(leftovers), nVisiblePlan)
	}
	pre, lerr := core.ListBundles(repo, v.Stores)
	if lerr != nil {
		return info, fmt.Errorf("harness precondition: ListBundles before squash: %v", lerr)
	}
	var preIDs []string
	for _, b := range pre {
		preIDs = append(preIDs, b.ID)
	}
	sort.Strings(preIDs)
	if !sameStrings(preIDs, committed) {
		return info, fmt.Errorf("harness precondition: ListBundles before squash %s, descriptors in the store %s", short(preIDs), short(committed))
	}
	info.committed = len(committed)
	info.visible = len(leftovers)
	metaBefore := env.Meta.Snapshot()
	vmetaBefore := env.VMeta.Snapshot()
	blobBefore := env.Blob.Snapshot()

	// ---- reference model
	N := c.effN()
	keep := map[string]bool{}
	topStart := len(committed) - N
	if topStart < 0 {
		topStart = 0
	}
	for _, id := range committed[topStart:] {
		keep[id] = true
	}
	for name, id := range labels {
		retained := false
		switch c.Opt {
		case "tags", "both":
			retained = true
		case "semver":
			retained = isSemverRef(name)
		}
		if retained {
			if !keep[id] {
				info.labelRetained = true
			}
			keep[id] = true
		}
	}
	var kept []string
	for _, id := range committed {
		if keep[id] {
			kept = append(kept, id)
		}
	}
	wantLabels := map[string]string{}
	for name, id := range labels {
		if keep[id] {
			wantLabels[name] = id
		}
	}
	info.removed = len(committed) - len(kept)
	info.labelsKept = len(wantLabels)
	info.labelsRemoved = len(labels) - len(wantLabels)
	// leftover position class (from the executed state)
	info.leftoverWorst = "none"
	if len(leftovers) > 0 {
		info.leftoverWorst = "old"
		for _, l := range leftovers {
			switch {
			case len(committed) > 0 && l > committed[len(committed)-1]:
				info.leftoverWorst = "after"
			case len(committed) > 0 && l > committed[topStart] && info.leftoverWorst != "after":
				info.leftoverWorst = "window"
			}
		}
		if len(committed) == 0 {
			info.leftoverWorst = "alone"
		}
	}

	// ---- squash
	opts := []core.Option{}
	if c.N > 0 {
		opts = append(opts, core.WithRetainNLatest(c.N))
	}
	switch c.Opt {
	case "tags":
		opts = append(opts, core.WithRetainTags(true))
	case "semver":
		opts = append(opts, core.WithRetainSemverTags(true))
	case "both":
		opts = append(opts, core.WithRetainTags(true), core.WithRetainSemverTags(true))
	}
	if c.Conc > 0 {
		opts = append(opts, core.ConcurrentList(c.Conc))
	}
	if c.Batch > 0 {
		opts = append(opts, core.BatchSize(c.Batch))
	}
	var mf *memstore.Fault
	rerun := false
	if c.Fault != nil {
		mf = &memstore.Fault{Op: c.Fault.Op, KeySub: "bundles/" + repo + "/", Nth: c.Fault.Nth, Times: 1}
		v.Meta.AddFault(mf)
	}
	serr := core.RepoSquash(v.Stores, repo, opts...)
	v.Meta.ClearFaults()
	if mf != nil && mf.Hits > 0 {
		stats.Count("squash_with_transient_metadata_failure", 1)
		if serr != nil {
			stats.Count("squash_failed_on_transient_failure", 1)
		}
		// whatever the squash answered, nothing it was asked to keep may be gone
		now, lerr := core.ListBundles(repo, v.Stores)
		if lerr != nil {
			return info, fmt.Errorf("ListBundles after a squash disturbed by a transient failure: %v", lerr)
		}
		have := map[string]bool{}
		for _, b := range now {
			have[b.ID] = true
		}
		for _, id := range kept {
			if !have[id] {
				return info, fmt.Errorf("a squash disturbed by one transient %s failure (squash error: %v) removed bundle %s which it had to keep", c.Fault.Op, serr, id)
			}
		}
		ls, lerr := core.ListLabels(repo, v.Stores)
		if lerr != nil {
			return info, fmt.Errorf("ListLabels after a squash disturbed by a transient failure: %v", lerr)
		}
		haveL := map[string]string{}
		for _, l := range ls {
			haveL[l.Name] = l.BundleID
		}
		for name, id := range wantLabels {
			if haveL[name] != id {
				return info, fmt.Errorf("a squash disturbed by one transient %s failure (squash error: %v) removed label %s of kept bundle %s", c.Fault.Op, serr, name, id)
			}
		}
		if serr != nil {
			// the operator runs it again
			rerun = true
			serr = core.RepoSquash(v.Stores, repo, opts...)
		}
	}
	if serr != nil {
		return info, fmt.Errorf("RepoSquash: %v", serr)
	}

	describe := func() string {
		return fmt.Sprintf("committed before squash (oldest first) %s, leftovers of interrupted uploads %s, retain-N %d, retain option %s", short(committed), short(leftovers), N, c.Opt)
	}
	// ---- 1. the bundles
	post, lerr := core.ListBundles(repo, v.Stores)
	if lerr != nil {
		return info, fmt.Errorf("ListBundles after squash: %v", lerr)
	}
	var postIDs []string
	for _, b := range post {
		postIDs = append(postIDs, b.ID)
	}
	sort.Strings(postIDs)
	if len(committed) > 0 {
		newest := committed[len(committed)-1]
		found := false
		for _, id := range postIDs {
			found = found || id == newest
		}
		if !found {
			return info, fmt.Errorf("squash removed the most recent committed bundle %s: bundles after squash %s; %s", newest, short(postIDs), describe())
		}
	}
	if !sameStrings(postIDs, kept) {
		return info, fmt.Errorf("bundles after squash %s, expected %s; %s", short(postIDs), short(kept), describe())
	}
	metaAfter := env.Meta.Snapshot()
	for _, id := range committed {
		if keep[id] {
			continue
		}
		for k := range metaAfter {
			if strings.HasPrefix(k, bundlePrefix(repo, id)) {
				return info, fmt.Errorf("removed bundle %s still has metadata object %s; %s", id, k, describe())
			}
		}
	}
	// ---- 2. the labels
	gotLabels, lerr := core.ListLabels(repo, v.Stores)
	if lerr != nil {
		return info, fmt.Errorf("ListLabels after squash: %v", lerr)
	}
	got := map[string]string{}
	for _, l := range gotLabels {
		if _, dup := got[l.Name]; dup {
			return info, fmt.Errorf("label %q listed twice after squash", l.Name)
		}
		got[l.Name] = l.BundleID
	}
	for name, id := range wantLabels {
		g, ok := got[name]
		if !ok {
			return info, fmt.Errorf("label %q on kept bundle %s is gone after squash; %s", name, id, describe())
		}
		if g != id {
			return info, fmt.Errorf("label %q points at %s after squash, was %s", name, g, id)
		}
	}
	for name, id := range got {
		if _, ok := wantLabels[name]; !ok {
			if rerun && labels[name] == id && !keep[id] {
				// the squash that failed had already removed the bundle; the rerun finds nothing left to squash and
				// returns before its label clean-up. The property speaks of a squash that runs to its end: counted only
				stats.Count("dangling_label_after_failed_squash_and_rerun", 1)
				continue
			}
			return info, fmt.Errorf("label %q -> %s survives although its bundle was to be removed; %s", name, id, describe())
		}
	}
	// ---- 3. kept bundles are intact. Publish is a function of the bundle's metadata objects and the
	// blobs: a kept bundle whose metadata objects are byte-identical (and no blob changed) is downloaded
	// only when selected; any kept bundle whose metadata changed is always downloaded.
	blobAfter := env.Blob.Snapshot()
	blobsSame := len(blobAfter) == len(blobBefore)
	for k, o := range blobBefore {
		if a, ok := blobAfter[k]; !ok || a.Gen != o.Gen {
			blobsSame = false
		}
	}
	metaSame := func(id string) bool {
		p := bundlePrefix(repo, id)
		n := 0
		for k, o := range metaBefore {
			if strings.HasPrefix(k, p) {
				n++
				if a, ok := metaAfter[k]; !ok || string(a.Data) != string(o.Data) {
					return false
				}
			}
		}
		for k := range metaAfter {
			if strings.HasPrefix(k, p) {
				n--
			}
		}
		return n == 0
	}
	selected := map[string]bool{}
	if len(kept) > 0 {
		selected[kept[len(kept)-1]] = true
		selected[kept[0]] = true
		x := c.DlSeed
		for len(selected) < maxDownloads && len(selected) < len(kept) {
			x = x*6364136223846793005 + 1442695040888963407
			selected[kept[int((x>>33)%uint64(len(kept)))]] = true
		}
	}
	for _, id := range kept {
		same := blobsSame && metaSame(id)
		if same {
			info.unchangedMeta++
		}
		if same && !selected[id] && !c.DlAll {
			continue
		}
		tree, derr := download(sc, v, id, epfOf[id])
		if derr != nil {
			return info, fmt.Errorf("kept bundle %s cannot be downloaded after squash: %v; %s", id, derr, describe())
		}
		info.downloaded++
		if d := hx.DiffTrees(tree.WithoutMeta(), content[id]); d != "" {
			return info, fmt.Errorf("kept bundle %s downloads to different content after squash: %s", id, d)
		}
	}
	// ---- 4. nothing outside the squashed repository changed
	inRepo := func(k string) bool {
		return strings.HasPrefix(k, "bundles/"+repo+"/") || strings.HasPrefix(k, "labels/"+repo+"/")
	}
	for name, before := range map[string]map[string]memstore.Object{"metadata": metaBefore, "vmetadata": vmetaBefore} {
		after := metaAfter
		if name == "vmetadata" {
			after = env.VMeta.Snapshot()
		}
		for k, o := range before {
			if inRepo(k) {
				continue
			}
			a, ok := after[k]
			if !ok {
				return info, fmt.Errorf("squash of %q removed %s object %s", repo, name, k)
			}
			if string(a.Data) != string(o.Data) {
				return info, fmt.Errorf("squash of %q modified %s object %s", repo, name, k)
			}
		}
		for k := range after {
			if _, ok := before[k]; !ok {
				return info, fmt.Errorf("squash created %s object %s", name, k)
			}
		}
	}
	// ---- 5. with no leftover around, the latest bundle is the newest committed one
	// (only in pinned cases: the call lists up to a million keys, which costs the reference store 16 MB per call)
	if _, leftNow := bundleIDs(env.Meta, repo); c.CheckLatest && len(leftNow) == 0 && len(committed) > 0 {
		latest, gerr := core.GetLatestBundle(repo, v.Stores)
		if gerr != nil {
			return info, fmt.Errorf("GetLatestBundle after squash: %v", gerr)
		}
		if latest != committed[len(committed)-1] {
			return info, fmt.Errorf("latest bundle after squash is %s, the most recent committed bundle was %s", latest, committed[len(committed)-1])
		}
	}
	return info, nil
}

func nClass(n int) string {
	switch {
	case n == 0:
		return "0"
	case n == 1:
		return "1"
	case n <= 5:
		return "2-5"
	case n <= 14:
		return "6-14"
	}
	return "15-40"
}

func (c caseT) classes(info infoT) (sig string, nontrivial bool) {
	nontrivial = info.leftoverWorst == "after" || info.labelRetained
	sig = fmt.Sprintf("n=%s gtN=%v N=%d opt=%s leftover=%s labelkeeps=%v", nClass(info.committed), info.committed > c.effN(), c.N, c.Opt, info.leftoverWorst, info.labelRetained)
	return
}

type fataler interface {
	Fatalf(string, ...interface{})
}

func execute(c caseT, limit time.Duration) (infoT, error) {
	hx.Journal(c)
	var info infoT
	err, hung, panicked := hx.Guard(limit, func() error {
		var e error
		info, e = runCase(c)
		return e
	})
	if hung || panicked {
		return info, fmt.Errorf("%v (hung=%v panicked=%v)", err, hung, panicked)
	}
	return info, err
}

func record(c caseT, info infoT) {
	sig, nt := c.classes(info)
	stats.Case(sig, nt, func() interface{} { return c })
	stats.Count("opt_"+c.Opt, 1)
	stats.Count(fmt.Sprintf("retainN_%d", c.N), 1)
	stats.Count("n_"+nClass(info.committed), 1)
	stats.Count("leftover_"+info.leftoverWorst, 1)
	for _, cc := range info.crashClasses {
		stats.Count("crash_"+cc, 1)
	}
	if info.removed > 0 {
		stats.Count("cases_removing_bundles", 1)
	}
	stats.Count("bundles_removed", info.removed)
	stats.Count("labels_removed", info.labelsRemoved)
	stats.Count("labels_kept", info.labelsKept)
	if info.labelRetained {
		stats.Count("cases_label_keeps_old_bundle", 1)
	}
	stats.Count("downloads", info.downloaded)
	if c.Bystander {
		stats.Count("bystander", 1)
	}
	if c.Batch > 0 && c.Batch < info.committed+info.visible {
		stats.Count("cases_paginated_listing", 1)
	}
}

func check(t fataler, c caseT) {
	info, err := execute(c, 180*time.Second)
	if err != nil {
		t.Fatalf("%v", err)
	}
	record(c, info)
}

func TestProp(t *testing.T) {
	rapid.Check(t, func(t *rapid.T) {
		c := drawCase(t)
		if hx.Known(KnownLeftovers) {
			if drop := c.harmfulLeftovers(); len(drop) > 0 {
				stats.Count("excluded_"+KnownLeftovers, len(drop))
				c = c.without(drop)
			}
		}
		check(t, c)
	})
}
