package c17

import (
	"fmt"
	"strings"
	"testing"
	"time"

	"github.com/oneconcern/datamon/pkg/cafs"
	"github.com/oneconcern/datamon/pkg/model"
	"gopkg.in/yaml.v2"

	"verifharness/hx"
)

func fixed(leaf uint32, size int, seed uint64) hx.ContentSpec {
	return hx.ContentSpec{Leaf: leaf, K: size / int(leaf), D: size % int(leaf), Size: size, Seed: seed, Kind: 0, Period: 1}
}

var allModes = []modeT{
	{Streamed: false},
	{Streamed: true, CacheLeaves: 0, Prefetch: 0, VerifyHash: false},
	{Streamed: true, CacheLeaves: 1, Prefetch: 2, VerifyHash: true},
	{Streamed: true, CacheLeaves: 4, Prefetch: 1, VerifyHash: false},
	{Streamed: false, Preload: true},
	{Streamed: true, CacheLeaves: 2, VerifyHash: true, Preload: true},
}

// runPinned executes a pinned case in every mount mode
func runPinned(t *testing.T, c caseT) (last *outcome) {
	t.Helper()
	for _, m := range allModes {
		c.Mode = m
		last = check(t, c)
		record(c, last)
	}
	return last
}

// TestRegressNonDefaultLeafSize: a streamed mount must read a bundle with the leaf size recorded in the
// bundle descriptor, not with the default one (NewReadOnlyFS built its cafs before the descriptor was fetched)
func TestRegressNonDefaultLeafSize(t *testing.T) {
	for _, L := range []uint32{4096, 65536} {
		l := int(L)
		c := caseT{Shape: "pinned", Tree: hx.TreeSpec{Leaf: L, Files: []hx.FileSpec{
			{Path: "dir/three-leaves", Content: fixed(L, 2*l+17, 7)},
			{Path: "empty", Content: fixed(L, 0, 1)},
			{Path: "exact", Content: fixed(L, l, 2)},
			{Path: "one", Content: fixed(L, 1, 3)},
		}}}
		c.Program = []opT{
			{Kind: "read", Path: "dir/three-leaves", Off: int64(l - 6), Len: 20},
			{Kind: "read", Path: "dir/three-leaves", Off: int64(l + 1), Len: 2 * l},
			{Kind: "read", Path: "dir/three-leaves", Off: 0, Len: 3 * l},
			{Kind: "read", Path: "dir/three-leaves", Off: int64(2*l + 17), Len: 10},
			{Kind: "read", Path: "dir/three-leaves", Off: int64(2*l + 16), Len: 10},
			{Kind: "read", Path: "dir/three-leaves", Off: int64(3 * l), Len: 10},
			{Kind: "read", Path: "empty", Off: 0, Len: 10},
			{Kind: "read", Path: "empty", Off: 5, Len: 10},
			{Kind: "read", Path: "exact", Off: int64(l - 1), Len: 10},
			{Kind: "read", Path: "exact", Off: int64(l), Len: 10},
			{Kind: "read", Path: "exact", Off: 0, Len: 0},
			{Kind: "read", Path: "one", Off: 0, Len: 1},
			{Kind: "getattr", Path: "dir"},
			{Kind: "absent", Path: "", Name: "di"},
			{Kind: "absent", Path: "", Name: "dir "},
			{Kind: "absent", Path: "dir", Name: "empty"},
			{Kind: "absent", Path: "dir", Name: "dir"},
		}
		runPinned(t, c)
	}
}

// TestKnownEmptyBundleRoot: a bundle without files mounts as an empty root directory that can be
// listed (the unfixed code answers ENOENT to ReadDir on the root)
func TestKnownEmptyBundleRoot(t *testing.T) {
	c := caseT{Shape: "pinned", Tree: hx.TreeSpec{Leaf: 4096}}
	c.Program = []opT{
		{Kind: "getattr", Path: ""},
		{Kind: "absent", Path: "", Name: "nowhere"},
		{Kind: "readdir", Path: "", Bufs: []int{4096}},
		{Kind: "readdir", Path: "", Bufs: []int{64}},
	}
	for _, m := range allModes {
		c.Mode = m
		hx.Journal(c)
		var out *outcome
		err, hung, panicked := hx.Guard(60*time.Second, func() error {
			var e error
			out, e = runCase(c)
			return e
		})
		if err == nil {
			record(c, out)
			continue
		}
		what := "ReadDir on the root of a mounted bundle that has no file answers ENOENT instead of an empty listing (readDirMap has no entry for the root)"
		if !hung && !panicked && hx.Listed(knownEmptyRoot) && strings.Contains(err.Error(), "ReadDir(inode 1, offset 0") {
			stats.KnownFinding(knownEmptyRoot, what)
			t.Logf("KNOWN-FINDING: property=C17 %s", what)
			return
		}
		t.Fatalf("%v (hung=%v panicked=%v); case=%s", err, hung, panicked, caseJSON(c))
	}
}

// TestRegressWideResume: 80 siblings with names of different lengths; every buffer size; resumed at
// every returned offset
func TestRegressWideResume(t *testing.T) {
	L := uint32(4096)
	c := caseT{Shape: "pinned", Tree: hx.TreeSpec{Leaf: L}}
	for i := 0; i < 80; i++ {
		name := fmt.Sprintf("%s_%d%s", wideNames[i%len(wideNames)], i, strings.Repeat("p", (i*7)%41))
		p := "sub dir/" + name
		if i%9 == 0 {
			p += "/g.txt"
		}
		c.Tree.Files = append(c.Tree.Files, hx.FileSpec{Path: p, Content: fixed(L, i%3, uint64(i))})
	}
	c.Tree.Files = append(c.Tree.Files, hx.FileSpec{Path: "top", Content: fixed(L, 5000, 99)})
	m := newModel(c.expectedFiles())
	nb := minBuf(m, "sub dir")
	for _, b := range []int{64, 128, 512, 4096} {
		if b < nb {
			b = nb
		}
		op := opT{Kind: "readdir", Path: "sub dir", Bufs: []int{b}}
		for k := 0; k < 80; k++ {
			op.Resume = append(op.Resume, resumeT{At: k, Buf: b})
		}
		c.Program = append(c.Program, op)
	}
	c.Program = append(c.Program, opT{Kind: "readdir", Path: "sub dir", Bufs: []int{nb, 4096, 128}, Resume: []resumeT{{At: 79, Buf: 4096}, {At: 0, Buf: nb}}})
	c.Program = append(c.Program, opT{Kind: "readdir", Path: "", Bufs: []int{64}, Resume: []resumeT{{At: 0, Buf: 64}, {At: 1, Buf: 64}}})
	out := runPinned(t, c)
	if !out.pageMulti || !out.resumedMulti {
		t.Fatalf("harness: the pinned directory does not need two page-sized buffers (pageMulti=%v resumedMulti=%v)", out.pageMulti, out.resumedMulti)
	}
}

// TestRegressDeepAndNames: deep nesting, repeated component names, unicode, prefix-related siblings
func TestRegressDeepAndNames(t *testing.T) {
	L := uint32(8192)
	c := caseT{Shape: "pinned", Tree: hx.TreeSpec{Leaf: L, Files: []hx.FileSpec{
		{Path: "a/a/a/a/a/a/a/a/a/a/a/a/leaf", Content: fixed(L, 3, 1)},
		{Path: "a/a/a/file", Content: fixed(L, 8193, 2)},
		{Path: "a/ab", Content: fixed(L, 1, 3)},
		{Path: "a/abc/x", Content: fixed(L, 2, 4)},
		{Path: "ab", Content: fixed(L, 0, 5)},
		{Path: "ünï/名前/sub dir/é", Content: fixed(L, 16384, 6)},
		{Path: "ünï/名前.txt", Content: fixed(L, 10, 7)},
		{Path: ".datamonx", Content: fixed(L, 4, 8)},
		{Path: "x/.conflicts/z", Content: fixed(L, 4, 9)},
	}}}
	c.Conflicts = []renameT{{From: "a/ab", To: ".conflicts/split-1/a/ab"}, {From: "ab", To: ".conflicts/1ZUm3kbFR1uSCRFzLIdI6o7RvpL/ab"}}
	c.Program = []opT{
		{Kind: "lookup", Path: "a/a/a/a/a/a/a/a/a/a/a/a/leaf"},
		{Kind: "absent", Path: "a", Name: "ab"},
		{Kind: "absent", Path: "", Name: "ab"},
		{Kind: "absent", Path: "a", Name: "abcd"},
		{Kind: "absent", Path: "a/abc", Name: "ab"},
		{Kind: "absent", Path: "a/a", Name: "file"},
		{Kind: "absent", Path: "ünï", Name: "名"},
		{Kind: "absent", Path: "", Name: ".datamon"},
		{Kind: "lookup", Path: ".conflicts/split-1/a/ab"},
		{Kind: "readdir", Path: ".conflicts", Bufs: []int{64}, Resume: []resumeT{{At: 0, Buf: 64}, {At: 1, Buf: 64}}},
		{Kind: "read", Path: "ünï/名前/sub dir/é", Off: 8190, Len: 8200},
		{Kind: "read", Path: "a/a/a/file", Off: 8192, Len: 1},
		{Kind: "read", Path: "a/a/a/file", Off: 8191, Len: 24576},
	}
	runPinned(t, c)
}

// TestRegressDiamondConflicts: the .conflicts/<split>/<path> entries written by a real diamond commit
// are shown like any other file.  The model is read back from the stored file list; contents are
// matched by hash against the contents the splits uploaded.
func TestRegressDiamondConflicts(t *testing.T) {
	sc := hx.NewScratch()
	defer sc.Close()
	env := hx.NewEnv()
	v := env.Actor("p")
	if err := hx.CreateRepo(v.Stores, "repo"); err != nil {
		t.Fatalf("harness: %v", err)
	}
	d, err := hx.CreateDiamond(v.Stores, "repo")
	if err != nil {
		t.Fatalf("harness: create diamond: %v", err)
	}
	L := uint32(cafs.DefaultLeafSize) // splits always use the default leaf size
	contents := [][]byte{
		hx.Expand(1, 70000, 0, 0), hx.Expand(2, 70001, 0, 0), hx.Expand(3, 10, 0, 0), hx.Expand(4, 0, 0, 0), hx.Expand(5, 33, 0, 0),
	}
	splits := []hx.Tree{
		{"x/f": contents[0], "only1": contents[2], "same": contents[4]},
		{"x/f": contents[1], "dir/only2": contents[3], "same": contents[4]},
	}
	for i, tree := range splits {
		dir := sc.Dir("split")
		if err := tree.Write(dir); err != nil {
			t.Fatalf("harness: %v", err)
		}
		if _, err := hx.SplitAdd(v.Stores, "repo", d.DiamondID, fmt.Sprintf("split-%02d", i), dir); err != nil {
			t.Fatalf("split add: %v", err)
		}
	}
	dd, err := hx.Commit(v.Stores, "repo", d.DiamondID, model.EnableConflicts)
	if err != nil {
		t.Fatalf("commit: %v", err)
	}
	id := dd.BundleID
	// model from the stored file list
	byHash := map[string][]byte{}
	for _, c := range contents {
		k, err := hx.CafsKey(c, L)
		if err != nil {
			t.Fatalf("harness: %v", err)
		}
		byHash[k] = c
	}
	files := hx.Tree{}
	conflicts := 0
	for _, k := range env.Meta.RawKeys() {
		if !strings.HasPrefix(k, "bundles/repo/"+id+"/bundle-files-") {
			continue
		}
		raw, _ := env.Meta.RawGet(k)
		var list struct {
			BundleEntries []struct {
				Hash string `yaml:"hash"`
				Name string `yaml:"name"`
				Size uint64 `yaml:"size"`
			} `yaml:"BundleEntries"`
		}
		if err := yaml.Unmarshal(raw, &list); err != nil {
			t.Fatalf("harness: %v", err)
		}
		for _, e := range list.BundleEntries {
			data, ok := byHash[e.Hash]
			if !ok || uint64(len(data)) != e.Size {
				t.Fatalf("harness: entry %q (hash %.12s, size %d) matches no uploaded content", e.Name, e.Hash, e.Size)
			}
			files[e.Name] = data
			if strings.HasPrefix(e.Name, ".conflicts/") {
				conflicts++
			}
		}
	}
	if conflicts == 0 {
		t.Fatalf("harness: the diamond commit produced no .conflicts entry: %v", files.Paths())
	}
	m := newModel(files)
	for _, mode := range allModes {
		rofs, err := mount(sc, env.Actor("mount"), "repo", id, mode, L)
		if err != nil {
			t.Fatalf("NewReadOnlyFS(%+v): %v", mode, err)
		}
		k := newKernel(rofs.VerifFileSystem(), m)
		err, hung, panicked := hx.Guard(60*time.Second, func() error {
			out := &outcome{kinds: map[string]bool{}}
			if err := k.exec(opT{Kind: "readdir", Path: ".conflicts", Bufs: []int{64}, Resume: []resumeT{{At: 0, Buf: 64}}}, int(L), out); err != nil {
				return err
			}
			if err := k.exec(opT{Kind: "absent", Path: ".conflicts", Name: "x"}, int(L), out); err != nil {
				return err
			}
			return k.sweep(int(L), out)
		})
		if err != nil {
			t.Fatalf("mode %+v: %v (hung=%v panicked=%v); bundle files %v", mode, err, hung, panicked, files.Paths())
		}
	}
}

// TestRegressTwoIndexFiles: 1003 files, i.e. two index files at the production 1000 entries per file
// (the mount always unpacks with the production value); thorough tier only (about 1 s per mode)
func TestRegressTwoIndexFiles(t *testing.T) {
	// quick: more entries than any internal batch of the mount's population (513+); thorough: also more than
	// one index file (1000 entries per file)
	sizes := []int{600}
	if hx.Thorough() {
		sizes = []int{513, 1003, 2100}
	}
	L := uint32(4096)
	for _, n := range sizes {
		c := caseT{Shape: "pinned", Tree: hx.TreeSpec{Leaf: L}}
		path := func(i int) string { return fmt.Sprintf("d%02d/e%d/f%04d", i%37, i%3, i) }
		for i := 0; i < n; i++ {
			c.Tree.Files = append(c.Tree.Files, hx.FileSpec{Path: path(i), Content: fixed(L, i%5, uint64(i))})
		}
		c.Program = []opT{{Kind: "readdir", Path: "", Bufs: []int{128}, Resume: []resumeT{{At: 17, Buf: 128}}}}
		// every entry is reachable by path, early and late ones alike
		for i := 0; i < n; i++ {
			if i%41 == 0 || (i >= 508 && i <= 516) || (i >= 998 && i <= 1003) || i == n-1 {
				c.Program = append(c.Program, opT{Kind: "lookup", Path: path(i)}, opT{Kind: "getattr", Path: path(i)})
				if i%5 != 0 {
					c.Program = append(c.Program, opT{Kind: "read", Path: path(i), Off: 0, Len: 16})
				}
			}
		}
		c.Program = append(c.Program, opT{Kind: "readdir", Path: "d36/e2", Bufs: []int{4096}})
		for _, m := range []modeT{{Streamed: false}, {Streamed: true, CacheLeaves: 2}} {
			c.Mode = m
			out := check(t, c)
			record(c, out)
		}
	}
}
