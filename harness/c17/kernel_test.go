package c17

import (
	"bytes"
	"context"
	"encoding/binary"
	"fmt"
	"github.com/oneconcern/datamon/pkg/storage"
	"io"
	"sort"
	"strings"
	"sync"

	jfuse "github.com/jacobsa/fuse"
	"github.com/jacobsa/fuse/fuseops"
	"github.com/jacobsa/fuse/fuseutil"
)

// kernel is the harness side of the fuse protocol: it keeps a dentry cache (path -> inode) filled by
// LookUpInode calls from the root, exactly like the VFS resolves a path, and checks every answer of
// the file system against the model.
type kernel struct {
	fs      fuseutil.FileSystem
	m       *modelT
	inode   map[string]fuseops.InodeID // dentry cache
	pathOf  map[fuseops.InodeID]string // inverse, to detect two paths sharing an inode
	handles fuseops.HandleID
	brk     *breaker // the mount's blob store wrapper (nil: none)
}

// errReadFailed wraps an error answered by ReadFile (as opposed to wrong data)
type errReadFailed struct{ err error }

func (e errReadFailed) Error() string { return e.err.Error() }

// breaker wraps the blob store of a mount: once armed, the next blob download delivers half of the blob and then
// breaks with io.ErrUnexpectedEOF, like a connection cut in the middle of a transfer
type breaker struct {
	storage.Store
	mu    sync.Mutex
	armed bool
	hits  int
}

func (b *breaker) arm(on bool) {
	b.mu.Lock()
	b.armed = on
	b.mu.Unlock()
}

func (b *breaker) Get(c context.Context, key string) (io.ReadCloser, error) {
	r, err := b.Store.Get(c, key)
	if err != nil {
		return r, err
	}
	b.mu.Lock()
	hit := b.armed
	if hit {
		b.armed = false
		b.hits++
	}
	b.mu.Unlock()
	if !hit {
		return r, nil
	}
	data, _ := io.ReadAll(r)
	_ = r.Close()
	return &brokenBody{data: data[:len(data)/2]}, nil
}

type brokenBody struct {
	data []byte
	pos  int
}

func (b *brokenBody) Read(p []byte) (int, error) {
	if b.pos >= len(b.data) {
		return 0, io.ErrUnexpectedEOF
	}
	n := copy(p, b.data[b.pos:])
	b.pos += n
	return n, nil
}

func (b *brokenBody) Close() error { return nil }

func newKernel(fs fuseutil.FileSystem, m *modelT) *kernel {
	k := &kernel{fs: fs, m: m, inode: map[string]fuseops.InodeID{"": fuseops.RootInodeID}, pathOf: map[fuseops.InodeID]string{fuseops.RootInodeID: ""}}
	return k
}

var ctx = context.Background()

// checkAttrs compares attributes with the model entry of path
func (k *kernel) checkAttrs(path string, a fuseops.InodeAttributes, what string) error {
	if k.m.isDir[path] {
		if !a.Mode.IsDir() {
			return fmt.Errorf("%s of directory %q: mode %v is not a directory", what, path, a.Mode)
		}
		return nil
	}
	data, ok := k.m.files[path]
	if !ok {
		return fmt.Errorf("harness: %q is not in the model", path)
	}
	if !a.Mode.IsRegular() {
		return fmt.Errorf("%s of file %q: mode %v is not a regular file", what, path, a.Mode)
	}
	if a.Size != uint64(len(data)) {
		return fmt.Errorf("%s of file %q: size %d, the bundle's file has %d bytes", what, path, a.Size, len(data))
	}
	if a.Nlink == 0 {
		return fmt.Errorf("%s of file %q: link count 0 (the kernel treats the inode as deleted)", what, path)
	}
	return nil
}

// lookup issues one LookUpInode for an existing child and checks the answer
func (k *kernel) lookup(dir, name string) (fuseops.InodeID, error) {
	parent, ok := k.inode[dir]
	if !ok {
		return 0, fmt.Errorf("harness: parent %q not resolved", dir)
	}
	op := &fuseops.LookUpInodeOp{Parent: parent, Name: name}
	if err := k.fs.LookUpInode(ctx, op); err != nil {
		return 0, fmt.Errorf("LookUpInode(%d=%q, %q) = %v, but the bundle has %q", parent, dir, name, err, joinPath(dir, name))
	}
	p := joinPath(dir, name)
	id := op.Entry.Child
	if id == 0 {
		return 0, fmt.Errorf("LookUpInode(%q, %q) succeeded with child inode 0", dir, name)
	}
	if prev, ok := k.inode[p]; ok && prev != id {
		return 0, fmt.Errorf("LookUpInode(%q, %q) = inode %d, earlier the same path had inode %d", dir, name, id, prev)
	}
	if other, ok := k.pathOf[id]; ok && other != p {
		return 0, fmt.Errorf("inode %d is given to both %q and %q", id, other, p)
	}
	k.inode[p] = id
	k.pathOf[id] = p
	if err := k.checkAttrs(p, op.Entry.Attributes, "LookUpInode attributes"); err != nil {
		return 0, err
	}
	return id, nil
}

// resolve walks from the root like the VFS, using the dentry cache
func (k *kernel) resolve(path string) (fuseops.InodeID, error) {
	if id, ok := k.inode[path]; ok {
		return id, nil
	}
	dir, base := splitPath(path)
	if _, err := k.resolve(dir); err != nil {
		return 0, err
	}
	return k.lookup(dir, base)
}

type dirent struct {
	ino  fuseops.InodeID
	off  fuseops.DirOffset
	typ  fuseutil.DirentType
	name string
}

// parseDirents decodes the fuse_dirent records of a ReadDir answer
func parseDirents(b []byte) ([]dirent, error) {
	var out []dirent
	for pos := 0; pos < len(b); {
		if len(b)-pos < 24 {
			return out, fmt.Errorf("truncated dirent header at byte %d of %d", pos, len(b))
		}
		ino := binary.LittleEndian.Uint64(b[pos:])
		off := binary.LittleEndian.Uint64(b[pos+8:])
		nl := int(binary.LittleEndian.Uint32(b[pos+16:]))
		typ := binary.LittleEndian.Uint32(b[pos+20:])
		padded := (nl + 7) / 8 * 8
		if nl == 0 || pos+24+padded > len(b) {
			return out, fmt.Errorf("malformed dirent at byte %d: namelen %d, %d bytes left", pos, nl, len(b)-pos-24)
		}
		out = append(out, dirent{ino: fuseops.InodeID(ino), off: fuseops.DirOffset(off), typ: fuseutil.DirentType(typ), name: string(b[pos+24 : pos+24+nl])})
		pos += 24 + padded
	}
	return out, nil
}

// walk reads a directory from the given offset to its end, following the returned offsets, with
// the buffer sizes taken cyclically from bufs. calls counts the ReadDir calls that returned data.
func (k *kernel) walk(ino fuseops.InodeID, h fuseops.HandleID, start fuseops.DirOffset, bufs []int, limit int) (out []dirent, calls int, err error) {
	cur := start
	for i := 0; ; i++ {
		if i > limit+2 {
			return out, calls, fmt.Errorf("ReadDir does not reach the end of the directory after %d calls (%d entries so far)", i, len(out))
		}
		size := bufs[i%len(bufs)]
		op := &fuseops.ReadDirOp{Inode: ino, Handle: h, Offset: cur, Dst: make([]byte, size)}
		if e := k.fs.ReadDir(ctx, op); e != nil {
			return out, calls, fmt.Errorf("ReadDir(inode %d, offset %d, %d bytes) = %v", ino, cur, size, e)
		}
		if op.BytesRead < 0 || op.BytesRead > size {
			return out, calls, fmt.Errorf("ReadDir(offset %d, %d bytes) reports %d bytes read", cur, size, op.BytesRead)
		}
		if op.BytesRead == 0 {
			return out, calls, nil
		}
		calls++
		ents, e := parseDirents(op.Dst[:op.BytesRead])
		if e != nil {
			return out, calls, fmt.Errorf("ReadDir(offset %d, %d bytes): %v", cur, size, e)
		}
		out = append(out, ents...)
		cur = ents[len(ents)-1].off
	}
}

func names(ents []dirent) []string {
	out := make([]string, 0, len(ents))
	for _, e := range ents {
		out = append(out, e.name)
	}
	sort.Strings(out)
	return out
}

func sameStrings(a, b []string) bool {
	if len(a) != len(b) {
		return false
	}
	for i := range a {
		if a[i] != b[i] {
			return false
		}
	}
	return true
}

func diffNames(got, want []string) string {
	g, w := map[string]int{}, map[string]int{}
	for _, n := range got {
		g[n]++
	}
	for _, n := range want {
		w[n]++
	}
	var msgs []string
	for _, n := range want {
		if g[n] == 0 {
			msgs = append(msgs, fmt.Sprintf("missing %q", n))
		}
	}
	seen := map[string]bool{}
	for _, n := range got {
		if seen[n] {
			continue
		}
		seen[n] = true
		switch {
		case w[n] == 0:
			msgs = append(msgs, fmt.Sprintf("unexpected %q", n))
		case g[n] > w[n]:
			msgs = append(msgs, fmt.Sprintf("%q listed %d times", n, g[n]))
		}
	}
	if len(msgs) > 8 {
		msgs = append(msgs[:8], fmt.Sprintf("... and %d more", len(msgs)-8))
	}
	return strings.Join(msgs, "; ")
}

// readdir performs opendir, a full walk checked against the model, then the resumed walks
func (k *kernel) readdir(dir string, bufs []int, resume []resumeT, out *outcome) error {
	ino, err := k.resolve(dir)
	if err != nil {
		return err
	}
	k.handles++
	oop := &fuseops.OpenDirOp{Inode: ino}
	if err := k.fs.OpenDir(ctx, oop); err != nil {
		return fmt.Errorf("OpenDir(%q inode %d) = %v", dir, ino, err)
	}
	h := oop.Handle
	defer func() { _ = k.fs.ReleaseDirHandle(ctx, &fuseops.ReleaseDirHandleOp{Handle: h}) }()
	want := k.m.children[dir]
	full, calls, err := k.walk(ino, h, 0, bufs, len(want))
	if err != nil {
		return fmt.Errorf("listing %q with buffers %v: %v", dir, bufs, err)
	}
	if got := names(full); !sameStrings(got, want) {
		return fmt.Errorf("listing of %q with buffers %v differs from the bundle (%d entries, want %d): %s", dir, bufs, len(got), len(want), diffNames(got, want))
	}
	offs := map[fuseops.DirOffset]bool{}
	for _, e := range full {
		p := joinPath(dir, e.name)
		if e.off == 0 || offs[e.off] {
			return fmt.Errorf("listing of %q: entry %q has offset %d (zero or repeated): resuming there cannot work", dir, e.name, e.off)
		}
		offs[e.off] = true
		wantType := fuseutil.DT_File
		if k.m.isDir[p] {
			wantType = fuseutil.DT_Directory
		}
		if e.typ != wantType && e.typ != fuseutil.DT_Unknown {
			return fmt.Errorf("listing of %q: entry %q has type %d, want %d", dir, e.name, e.typ, wantType)
		}
		id, err := k.lookup(dir, e.name)
		if err != nil {
			return fmt.Errorf("listed entry: %v", err)
		}
		if e.ino != id {
			return fmt.Errorf("listing of %q: entry %q has inode %d but LookUpInode gives %d", dir, e.name, e.ino, id)
		}
	}
	for _, r := range resume {
		if len(full) == 0 {
			break
		}
		at := r.At % len(full)
		rest, _, err := k.walk(ino, h, full[at].off, []int{r.Buf}, len(want))
		if err != nil {
			return fmt.Errorf("listing %q resumed at offset %d (after entry %d of %d) with buffer %d: %v", dir, full[at].off, at+1, len(full), r.Buf, err)
		}
		if got, wantRest := names(rest), names(full[at+1:]); !sameStrings(got, wantRest) {
			return fmt.Errorf("listing of %q resumed at offset %d (after entry %d of %d) with buffer %d does not yield the remaining %d children exactly once (got %d): %s",
				dir, full[at].off, at+1, len(full), r.Buf, len(wantRest), len(got), diffNames(got, wantRest))
		}
		if calls >= 2 {
			out.resumedMulti = true
		}
	}
	if calls >= 2 && len(bufs) == 1 && bufs[0] == 4096 {
		out.pageMulti = true
	}
	return nil
}

func (k *kernel) read(path string, off int64, length int, L int, out *outcome) error {
	ino, err := k.resolve(path)
	if err != nil {
		return err
	}
	oop := &fuseops.OpenFileOp{Inode: ino}
	if err := k.fs.OpenFile(ctx, oop); err != nil {
		return fmt.Errorf("OpenFile(%q inode %d) = %v", path, ino, err)
	}
	defer func() { _ = k.fs.ReleaseFileHandle(ctx, &fuseops.ReleaseFileHandleOp{Handle: oop.Handle}) }()
	content := k.m.files[path]
	var want []byte
	if off < int64(len(content)) {
		end := off + int64(length)
		if end > int64(len(content)) {
			end = int64(len(content))
		}
		want = content[off:end]
	}
	dst := make([]byte, length)
	for i := range dst {
		dst[i] = 0xA5 // stale bytes must not count as data
	}
	op := &fuseops.ReadFileOp{Inode: ino, Handle: oop.Handle, Offset: off, Size: int64(length), Dst: dst}
	if err := k.fs.ReadFile(ctx, op); err != nil {
		return errReadFailed{fmt.Errorf("ReadFile(%q, off=%d, len=%d) on %d bytes = %v", path, off, length, len(content), err)}
	}
	var got []byte
	if op.Data != nil {
		for _, d := range op.Data {
			got = append(got, d...)
		}
		if len(got) != op.BytesRead {
			return fmt.Errorf("ReadFile(%q, off=%d, len=%d): BytesRead=%d but %d bytes of vectored data", path, off, length, op.BytesRead, len(got))
		}
	} else {
		if op.BytesRead < 0 || op.BytesRead > length {
			return fmt.Errorf("ReadFile(%q, off=%d, len=%d) reports %d bytes read", path, off, length, op.BytesRead)
		}
		got = dst[:op.BytesRead]
	}
	if !bytes.Equal(got, want) {
		return fmt.Errorf("ReadFile(%q, off=%d, len=%d) on %d bytes (leaf %d): got %d bytes, want %d, first difference at +%d",
			path, off, length, len(content), L, len(got), len(want), firstDiff(got, want))
	}
	if len(want) > 0 && off/int64(L) != (off+int64(len(want))-1)/int64(L) {
		out.spanning = true
	}
	return nil
}

func firstDiff(a, b []byte) int {
	for i := 0; i < len(a) && i < len(b); i++ {
		if a[i] != b[i] {
			return i
		}
	}
	if len(a) != len(b) {
		return min(len(a), len(b))
	}
	return -1
}

func (k *kernel) getattr(path string) error {
	ino, err := k.resolve(path)
	if err != nil {
		return err
	}
	op := &fuseops.GetInodeAttributesOp{Inode: ino}
	if err := k.fs.GetInodeAttributes(ctx, op); err != nil {
		return fmt.Errorf("GetInodeAttributes(%q inode %d) = %v", path, ino, err)
	}
	return k.checkAttrs(path, op.Attributes, "GetInodeAttributes")
}

func (k *kernel) absent(dir, name string) error {
	parent, err := k.resolve(dir)
	if err != nil {
		return err
	}
	op := &fuseops.LookUpInodeOp{Parent: parent, Name: name}
	err = k.fs.LookUpInode(ctx, op)
	if err == nil {
		return fmt.Errorf("LookUpInode(%q inode %d, %q) succeeded (inode %d, mode %v, size %d) but the bundle has no such entry", dir, parent, name, op.Entry.Child, op.Entry.Attributes.Mode, op.Entry.Attributes.Size)
	}
	if err != jfuse.ENOENT {
		return fmt.Errorf("LookUpInode(%q, %q) of an absent name = %v, want ENOENT", dir, name, err)
	}
	return nil
}

func (k *kernel) exec(op opT, L int, out *outcome) error {
	out.kinds[op.Kind] = true
	switch op.Kind {
	case "lookup":
		// a fresh lookup of the last component, even when the dentry is cached
		dir, base := splitPath(op.Path)
		if _, err := k.resolve(dir); err != nil {
			return err
		}
		_, err := k.lookup(dir, base)
		return err
	case "absent":
		return k.absent(op.Path, op.Name)
	case "getattr":
		return k.getattr(op.Path)
	case "readdir":
		return k.readdir(op.Path, op.Bufs, op.Resume, out)
	case "read":
		return k.read(op.Path, op.Off, op.Len, L, out)
	case "breakread":
		// the next blob download of the mount breaks half-way: this read may fail, but if it succeeds its bytes are
		// right - and every later read is (the broken transfer must not have been cached as a complete leaf)
		if k.brk == nil {
			return k.read(op.Path, op.Off, op.Len, L, out)
		}
		before := k.brk.hits
		k.brk.arm(true)
		err := k.read(op.Path, op.Off, op.Len, L, out)
		k.brk.arm(false)
		if k.brk.hits > before {
			out.broken++
			if _, failed := err.(errReadFailed); failed {
				out.brokenFailed++
				return nil
			}
		}
		return err
	}
	return fmt.Errorf("harness: unknown op %q", op.Kind)
}

// sweep lists every directory with a page-sized buffer and reads every file in full (in chunks
// of 128 KiB like the kernel's read-ahead), so that every case checks the complete tree
func (k *kernel) sweep(L int, out *outcome) error {
	scratch := &outcome{kinds: map[string]bool{}}
	defer func() { out.pageMulti = out.pageMulti || scratch.pageMulti }()
	for _, d := range k.m.dirs() {
		if err := k.readdir(d, []int{4096}, nil, scratch); err != nil {
			return err
		}
		if err := k.getattr(d); err != nil {
			return err
		}
	}
	for _, f := range k.m.filePaths() {
		size := len(k.m.files[f])
		for off := 0; off == 0 || off < size; off += 128 * 1024 {
			if err := k.read(f, int64(off), 128*1024, L, scratch); err != nil {
				return err
			}
		}
	}
	return nil
}
