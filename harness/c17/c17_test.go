// Package c17 checks property C17: a read-only mount (streamed or pre-downloaded) shows exactly
// the bundle.  No kernel mount is possible in the sandbox, so the harness plays the kernel and
// drives the fuseutil.FileSystem implementation of the read-only file system directly.
package c17

import (
	"bytes"
	"context"
	"encoding/json"
	"fmt"
	context2 "github.com/oneconcern/datamon/pkg/context"
	"os"
	"sort"
	"strings"
	"testing"
	"time"

	"github.com/oneconcern/datamon/pkg/core"
	dfuse "github.com/oneconcern/datamon/pkg/fuse"
	"github.com/oneconcern/datamon/pkg/model"
	"gopkg.in/yaml.v2"
	"pgregory.net/rapid"

	"verifharness/evid"
	"verifharness/hx"
)

var stats = evid.New("C17", "rapid: a bundle built by a real upload of a generated tree (shapes: mixed = hx.GenTree 1..10 files with unicode/space/dot names and reserved-path decoys; wide = one directory with 1..100 children (files and sub-directories, names of 1..56 bytes so that dirents have different sizes) plus a few multi-leaf files; deep = a chain 6..12 levels deep with files on the way; tiny = 0..2 files incl. the empty bundle), leaf 4096..65536, file sizes k*L+d (k 0..3), optionally some entries renamed to .conflicts/<split>/<path> in the stored file list; mounted with NewReadOnlyFS exactly like `datamon bundle mount` (streamed: cache 1..4 leaves or default, prefetch 0..2, hash verification on/off; or staged = pre-downloaded); then a generated program of 8..40 operations issued like the kernel would (paths resolved by LookUpInode from the root): lookup (present), lookup of absent names (foreign name, prefix, extension, other case), getattr, opendir+readdir walks with buffer sizes from {64,128,512,4096} (raised to the size of the largest dirent of that directory) followed by walks resumed at previously returned offsets, read(off,len) with offsets around leaf boundaries / EOF / past EOF, one read in six while the mount's next blob download breaks half-way (that read may fail, never return wrong bytes; later reads are exact). Oracle: map model of the tree. Non-trivial: the program contains a resumed readdir on a directory that needed >= 2 buffers, or a read spanning a leaf boundary; distinct by (shape, depth class, sibling class, empty file, multi-leaf file, conflicts, mode, op mix).")

func TestMain(m *testing.M) {
	code := m.Run()
	stats.Flush()
	os.Exit(code)
}

// knownEmptyRoot is the finding id for "the root of an empty bundle cannot be listed"
const knownEmptyRoot = "C17-empty-bundle-root-readdir"

// ---------------------------------------------------------------------------------------------
// case description

type modeT struct {
	Streamed    bool `json:"streamed"`
	CacheLeaves int  `json:"cache_leaves"` // 0: do not pass the option (default cache size)
	Prefetch    int  `json:"prefetch"`
	VerifyHash  bool `json:"verify_hash"`
	// Preload: the caller reads the bundle's metadata (core.DownloadMetadata) on the Bundle object before
	// handing it to NewReadOnlyFS, as a program inspecting the bundle before mounting it would
	Preload bool `json:"preload_metadata,omitempty"`
}

type renameT struct {
	From string `json:"from"`
	To   string `json:"to"`
}

type resumeT struct {
	At  int `json:"at"`  // index (mod number of entries) of the dirent whose offset is used
	Buf int `json:"buf"` // buffer size of the resumed walk
}

type opT struct {
	Kind   string    `json:"kind"` // lookup | absent | getattr | readdir | read
	Path   string    `json:"path"` // "" is the root
	Name   string    `json:"name,omitempty"`
	Bufs   []int     `json:"bufs,omitempty"`
	Resume []resumeT `json:"resume,omitempty"`
	Off    int64     `json:"off,omitempty"`
	Len    int       `json:"len,omitempty"`
}

type caseT struct {
	Shape     string      `json:"shape"`
	Tree      hx.TreeSpec `json:"tree"`
	Conflicts []renameT   `json:"conflicts,omitempty"`
	Mode      modeT       `json:"mode"`
	Program   []opT       `json:"program"`
}

// ---------------------------------------------------------------------------------------------
// reference model

type modelT struct {
	files    map[string][]byte   // path -> content
	children map[string][]string // directory path ("" = root) -> sorted child names
	isDir    map[string]bool
}

func splitPath(p string) (dir, base string) {
	if i := strings.LastIndexByte(p, '/'); i >= 0 {
		return p[:i], p[i+1:]
	}
	return "", p
}

func joinPath(dir, name string) string {
	if dir == "" {
		return name
	}
	return dir + "/" + name
}

func newModel(files hx.Tree) *modelT {
	m := &modelT{files: map[string][]byte{}, children: map[string][]string{"": nil}, isDir: map[string]bool{"": true}}
	seen := map[string]bool{}
	add := func(dir, name string) {
		k := dir + "\x00" + name
		if !seen[k] {
			seen[k] = true
			m.children[dir] = append(m.children[dir], name)
		}
	}
	for p, data := range files {
		m.files[p] = data
		cur := p
		for {
			dir, base := splitPath(cur)
			add(dir, base)
			if dir == "" {
				break
			}
			m.isDir[dir] = true
			if _, ok := m.children[dir]; !ok {
				m.children[dir] = nil
			}
			cur = dir
		}
	}
	for d := range m.children {
		sort.Strings(m.children[d])
	}
	return m
}

func (m *modelT) dirs() []string {
	out := make([]string, 0, len(m.isDir))
	for d := range m.isDir {
		out = append(out, d)
	}
	sort.Strings(out)
	return out
}

func (m *modelT) filePaths() []string {
	out := make([]string, 0, len(m.files))
	for p := range m.files {
		out = append(out, p)
	}
	sort.Strings(out)
	return out
}

// expectedFiles is the set of files the mount must show: the uploadable part of the source tree,
// with the forged renames applied
func (c caseT) expectedFiles() hx.Tree {
	files := c.Tree.Tree().Uploadable()
	for _, r := range c.Conflicts {
		if d, ok := files[r.From]; ok {
			delete(files, r.From)
			files[r.To] = d
		}
	}
	return files
}

// ---------------------------------------------------------------------------------------------
// generators

var wideNames = []string{"f", "data", "ünï", "sub dir", "名前", ".hidden", "x.y", "A", "a", "trailing.", "bundle.yaml", "é"}

func tinyContent(t *rapid.T, L uint32, label string) hx.ContentSpec {
	size := rapid.SampledFrom([]int{0, 0, 1, 2, 7, 16, 100}).Draw(t, label+"_sz")
	return hx.ContentSpec{Leaf: L, K: 0, D: size, Size: size, Seed: rapid.Uint64().Draw(t, label+"_seed"), Kind: 0, Period: 1}
}

func genDirPath(t *rapid.T, maxDepth int, label string) string {
	depth := rapid.IntRange(0, maxDepth).Draw(t, label+"_depth")
	parts := []string{}
	for i := 0; i < depth; i++ {
		parts = append(parts, rapid.SampledFrom([]string{"d", "dir", "sub dir", "ünï", "x.y"}).Draw(t, label+"_comp"))
	}
	return strings.Join(parts, "/")
}

func genWide(t *rapid.T, L uint32) hx.TreeSpec {
	spec := hx.TreeSpec{Leaf: L}
	base := genDirPath(t, 2, "base")
	var n int
	if rapid.Bool().Draw(t, "n_const") {
		n = rapid.SampledFrom([]int{1, 2, 3, 10, 40, 80, 100}).Draw(t, "n")
	} else {
		n = rapid.IntRange(1, 100).Draw(t, "n")
	}
	longNames := rapid.Bool().Draw(t, "long_names")
	for i := 0; i < n; i++ {
		name := fmt.Sprintf("%s_%d", rapid.SampledFrom(wideNames).Draw(t, "wname"), i)
		if longNames {
			pad := rapid.IntRange(0, 40).Draw(t, "pad")
			name += strings.Repeat("p", pad)
		}
		p := joinPath(base, name)
		switch rapid.IntRange(0, 9).Draw(t, "wkind") {
		case 0, 1: // sub directory with one file
			spec.Files = append(spec.Files, hx.FileSpec{Path: p + "/" + rapid.SampledFrom([]string{"f", "g.txt", name}).Draw(t, "subf"), Content: tinyContent(t, L, "wc")})
		case 2:
			spec.Files = append(spec.Files, hx.FileSpec{Path: p, Content: hx.Content(t, L, 2, "wbig")})
		default:
			spec.Files = append(spec.Files, hx.FileSpec{Path: p, Content: tinyContent(t, L, "wc")})
		}
	}
	// a few files elsewhere (parents are directories of the wide part or fresh ones)
	extra := rapid.IntRange(0, 2).Draw(t, "extra")
	for i := 0; i < extra; i++ {
		dir := genDirPath(t, 3, "xdir")
		spec.Files = append(spec.Files, hx.FileSpec{Path: joinPath(dir, fmt.Sprintf("extra-%d.bin", i)), Content: hx.Content(t, L, 3, "xc")})
	}
	sort.Slice(spec.Files, func(i, j int) bool { return spec.Files[i].Path < spec.Files[j].Path })
	return spec
}

func genDeep(t *rapid.T, L uint32) hx.TreeSpec {
	spec := hx.TreeSpec{Leaf: L}
	depth := rapid.IntRange(6, 12).Draw(t, "depth")
	cur := ""
	for d := 0; d < depth; d++ {
		comp := rapid.SampledFrom([]string{"a", "b", "dir", "sub dir", "ünï", "x.y", "a"}).Draw(t, "dcomp")
		cur = joinPath(cur, comp)
		if d == depth-1 || rapid.IntRange(0, 3).Draw(t, "dfile") == 0 {
			// the file name is distinct from every directory component
			spec.Files = append(spec.Files, hx.FileSpec{Path: joinPath(cur, fmt.Sprintf("file%d", d)), Content: hx.Content(t, L, 3, "dc")})
		}
	}
	sort.Slice(spec.Files, func(i, j int) bool { return spec.Files[i].Path < spec.Files[j].Path })
	return spec
}

func drawMode(t *rapid.T) modeT {
	m := modeT{Streamed: rapid.IntRange(0, 2).Draw(t, "streamed") > 0}
	if m.Streamed {
		m.CacheLeaves = rapid.IntRange(0, 4).Draw(t, "cache")
		m.Prefetch = rapid.IntRange(0, 2).Draw(t, "prefetch")
		m.VerifyHash = rapid.Bool().Draw(t, "verify")
	}
	m.Preload = rapid.IntRange(0, 3).Draw(t, "preload") == 0
	return m
}

func drawCase(t *rapid.T) caseT {
	c := caseT{}
	L := rapid.SampledFrom([]uint32{4096, 4096, 8192, 16384, 65536}).Draw(t, "L")
	c.Shape = rapid.SampledFrom([]string{"mixed", "mixed", "mixed", "wide", "wide", "wide", "deep", "tiny"}).Draw(t, "shape")
	switch c.Shape {
	case "mixed":
		c.Tree = hx.GenTree(t, L, 1, 10, 3, true, "tree")
	case "wide":
		c.Tree = genWide(t, L)
	case "deep":
		c.Tree = genDeep(t, L)
	case "tiny":
		c.Tree = hx.GenTree(t, L, 0, 2, 3, false, "tree")
		if len(c.Tree.Files) == 0 && hx.Known(knownEmptyRoot) {
			stats.Count("excluded_"+knownEmptyRoot, 1)
			c.Tree.Files = []hx.FileSpec{{Path: "only", Content: tinyContent(t, L, "only")}}
		}
	}
	// forged conflict entries: rename up to 3 entries of the stored file list
	up := c.Tree.Tree().Uploadable()
	if len(up) > 0 && rapid.IntRange(0, 3).Draw(t, "conflicts") == 0 {
		paths := up.Paths()
		n := rapid.IntRange(1, min(3, len(paths))).Draw(t, "nconf")
		used := map[string]bool{}
		for i := 0; i < n; i++ {
			from := paths[rapid.IntRange(0, len(paths)-1).Draw(t, "cfrom")]
			if used[from] {
				continue
			}
			used[from] = true
			split := rapid.SampledFrom([]string{"split-1", "1ZUm3kbFR1uSCRFzLIdI6o7RvpL"}).Draw(t, "csplit")
			c.Conflicts = append(c.Conflicts, renameT{From: from, To: ".conflicts/" + split + "/" + from})
		}
	}
	c.Mode = drawMode(t)
	c.Program = drawProgram(t, newModel(c.expectedFiles()), int(L))
	return c
}

func minBuf(m *modelT, dir string) int {
	need := 0
	for _, n := range m.children[dir] {
		sz := 24 + (len(n)+7)/8*8
		if sz > need {
			need = sz
		}
	}
	return need
}

func drawBuf(t *rapid.T, m *modelT, dir string, label string) int {
	b := rapid.SampledFrom([]int{64, 128, 128, 512, 4096}).Draw(t, label)
	if nb := minBuf(m, dir); b < nb {
		b = nb // a buffer that cannot hold one entry is indistinguishable from the end of the directory
	}
	return b
}

func drawProgram(t *rapid.T, m *modelT, L int) []opT {
	dirs := m.dirs()
	files := m.filePaths()
	// the directory with most children, the longest file
	bigDir := ""
	for _, d := range dirs {
		if len(m.children[d]) > len(m.children[bigDir]) {
			bigDir = d
		}
	}
	bigFile := ""
	for _, f := range files {
		if bigFile == "" || len(m.files[f]) > len(m.files[bigFile]) {
			bigFile = f
		}
	}
	var allNames []string
	for _, d := range dirs {
		allNames = append(allNames, m.children[d]...)
	}
	nops := rapid.IntRange(8, 40).Draw(t, "nops")
	var prog []opT
	for i := 0; i < nops; i++ {
		kind := rapid.SampledFrom([]string{"lookup", "lookup", "absent", "absent", "getattr", "readdir", "readdir", "readdir", "read", "read", "read", "read"}).Draw(t, "opkind")
		if len(files) == 0 && (kind == "read" || kind == "lookup") {
			kind = "readdir"
		}
		op := opT{Kind: kind}
		switch kind {
		case "lookup", "getattr":
			all := append(append([]string{}, files...), dirs...)
			op.Path = all[rapid.IntRange(0, len(all)-1).Draw(t, "target")]
			if kind == "lookup" && op.Path == "" {
				op.Kind = "getattr" // the root is never looked up
			}
		case "absent":
			op.Path = dirs[rapid.IntRange(0, len(dirs)-1).Draw(t, "adir")]
			var name string
			switch sel := rapid.IntRange(0, 5).Draw(t, "asel"); {
			case sel == 0 && len(allNames) > 0: // name that exists in another directory
				name = allNames[rapid.IntRange(0, len(allNames)-1).Draw(t, "foreign")]
			case sel == 1 && len(m.children[op.Path]) > 0: // proper prefix of a child
				ch := m.children[op.Path][rapid.IntRange(0, len(m.children[op.Path])-1).Draw(t, "pfx")]
				r := []rune(ch)
				name = string(r[:rapid.IntRange(0, len(r)-1).Draw(t, "cut")])
			case sel == 2 && len(m.children[op.Path]) > 0: // extension of a child
				ch := m.children[op.Path][rapid.IntRange(0, len(m.children[op.Path])-1).Draw(t, "ext")]
				name = ch + rapid.SampledFrom([]string{"x", " ", ".", "_0", "é"}).Draw(t, "suffix")
			case sel == 3 && len(m.children[op.Path]) > 0: // other case
				ch := m.children[op.Path][rapid.IntRange(0, len(m.children[op.Path])-1).Draw(t, "case")]
				name = strings.ToUpper(ch)
				if name == ch {
					name = strings.ToLower(ch)
				}
			case sel == 4: // the directory's own name / a full path component
				_, name = splitPath(op.Path)
			default:
				name = rapid.SampledFrom([]string{"nowhere", ".datamon", ".conflicts", "bundle.yaml", "0", "名"}).Draw(t, "fixed")
			}
			if name == "" || name == "." || name == ".." || strings.Contains(name, "/") {
				name = "nowhere"
			}
			op.Name = name
			// must really be absent
			for _, ch := range m.children[op.Path] {
				if ch == op.Name {
					op.Kind, op.Path, op.Name = "lookup", joinPath(op.Path, ch), ""
					break
				}
			}
		case "readdir":
			if rapid.Bool().Draw(t, "bigdir") {
				op.Path = bigDir
			} else {
				op.Path = dirs[rapid.IntRange(0, len(dirs)-1).Draw(t, "rdir")]
			}
			nb := rapid.IntRange(1, 3).Draw(t, "nbufs")
			for j := 0; j < nb; j++ {
				op.Bufs = append(op.Bufs, drawBuf(t, m, op.Path, "buf"))
			}
			nr := rapid.IntRange(0, 4).Draw(t, "nresume")
			for j := 0; j < nr; j++ {
				op.Resume = append(op.Resume, resumeT{At: rapid.IntRange(0, 100).Draw(t, "at"), Buf: drawBuf(t, m, op.Path, "rbuf")})
			}
		case "read":
			if rapid.IntRange(0, 5).Draw(t, "breakread") == 0 {
				op.Kind = "breakread"
			}
			if rapid.Bool().Draw(t, "bigfile") {
				op.Path = bigFile
			} else {
				op.Path = files[rapid.IntRange(0, len(files)-1).Draw(t, "rfile")]
			}
			size := int64(len(m.files[op.Path]))
			switch rapid.IntRange(0, 9).Draw(t, "offsel") {
			case 0, 1, 2: // around a leaf boundary
				op.Off = int64(rapid.IntRange(0, 3).Draw(t, "offk")*L + rapid.IntRange(-2, 2).Draw(t, "offd"))
			case 3, 4: // around EOF
				op.Off = size + int64(rapid.IntRange(-3, 0).Draw(t, "offe"))
			case 5: // past EOF
				op.Off = size + int64(rapid.IntRange(1, 2*L).Draw(t, "offpast"))
			case 6:
				op.Off = 0
			default:
				op.Off = rapid.Int64Range(0, size).Draw(t, "off")
			}
			if op.Off < 0 {
				op.Off = 0
			}
			if op.Off > size && rapid.IntRange(0, 2).Draw(t, "keep_past") > 0 {
				op.Off = size
			}
			switch rapid.IntRange(0, 6).Draw(t, "lensel") {
			case 0:
				op.Len = rapid.SampledFrom([]int{0, 1, L - 1, L, L + 1, 2 * L, 3 * L}).Draw(t, "lenc")
			case 1: // exactly up to EOF
				if size > op.Off {
					op.Len = int(size - op.Off)
					if op.Len > 3*L {
						op.Len = 3 * L
					}
				}
			default:
				op.Len = rapid.IntRange(0, 3*L).Draw(t, "len")
			}
		}
		prog = append(prog, op)
	}
	return prog
}

// ---------------------------------------------------------------------------------------------
// building the bundle

// forgeConflicts renames entries in the stored index files of the bundle (what a diamond commit
// with conflicts produces: the same blobs filed under .conflicts/<split>/<path>)
func forgeConflicts(env *hx.Env, repo, id string, renames []renameT) error {
	if len(renames) == 0 {
		return nil
	}
	to := map[string]string{}
	for _, r := range renames {
		to[r.From] = r.To
	}
	done := 0
	prefix := "bundles/" + repo + "/" + id + "/bundle-files-"
	for _, k := range env.Meta.RawKeys() {
		if !strings.HasPrefix(k, prefix) {
			continue
		}
		raw, _ := env.Meta.RawGet(k)
		var list model.BundleEntries
		if err := yaml.Unmarshal(raw, &list); err != nil {
			return fmt.Errorf("harness: cannot parse %s: %v", k, err)
		}
		for i := range list.BundleEntries {
			if n, ok := to[list.BundleEntries[i].NameWithPath]; ok {
				list.BundleEntries[i].NameWithPath = n
				done++
			}
		}
		out, err := yaml.Marshal(list)
		if err != nil {
			return err
		}
		env.Meta.RawPut(k, out)
	}
	if done != len(renames) {
		return fmt.Errorf("harness: forged %d of %d renames", done, len(renames))
	}
	return nil
}

// lastBreaker is the blob store wrapper of the most recent mount (cases run one at a time)
var lastBreaker *breaker

// mount builds the read-only file system for a bundle the way `datamon bundle mount` does: the
// bundle object only knows the repo, the bundle id, the context and an empty destination.
func mount(sc *hx.Scratch, v *hx.Views, repo, id string, m modeT, leaf uint32) (*dfuse.ReadOnlyFS, error) {
	dest := sc.Dir("mnt")
	lastBreaker = &breaker{Store: v.Blob}
	b := core.NewBundle(
		core.Repo(repo),
		core.ContextStores(context2.NewStores(v.Wal, v.ReadLog, lastBreaker, v.Meta, v.VMeta)),
		core.ConsumableStore(hx.Local(dest)),
		core.BundleID(id),
		core.Logger(hx.Nop),
	)
	if m.Preload {
		if err := core.DownloadMetadata(context.Background(), b); err != nil {
			return nil, fmt.Errorf("harness precondition: DownloadMetadata before mounting: %v", err)
		}
	}
	opts := []dfuse.Option{dfuse.Streaming(m.Streamed), dfuse.Logger(hx.Nop)}
	if m.Streamed {
		if m.CacheLeaves > 0 {
			opts = append(opts, dfuse.CacheSize(m.CacheLeaves*int(leaf)))
		}
		opts = append(opts, dfuse.Prefetch(m.Prefetch), dfuse.VerifyHash(m.VerifyHash))
	}
	return dfuse.NewReadOnlyFS(b, opts...)
}

// ---------------------------------------------------------------------------------------------
// executing a case

type outcome struct {
	resumedMulti bool // a resumed readdir on a directory that needed >= 2 buffers
	spanning     bool // a read spanning a leaf boundary
	pageMulti    bool // a directory whose listing with a page-sized (4096) buffer needed >= 2 calls
	kinds        map[string]bool
	broken       int // reads during which a blob download of the mount broke half-way
	brokenFailed int // ... that answered an error
}

func runCase(c caseT) (*outcome, error) {
	sc := hx.NewScratch()
	defer sc.Close()
	env := hx.NewEnv()
	v := env.Actor("p")
	if err := hx.CreateRepo(v.Stores, "repo"); err != nil {
		return nil, fmt.Errorf("harness: create repo: %v", err)
	}
	id, err := hx.UploadTree(sc, v.Stores, "repo", c.Tree.Tree(), c.Tree.Leaf)
	if err != nil {
		return nil, fmt.Errorf("upload: %v", err)
	}
	if err := forgeConflicts(env, "repo", id, c.Conflicts); err != nil {
		return nil, err
	}
	m := newModel(c.expectedFiles())
	rofs, err := mount(sc, env.Actor("mount"), "repo", id, c.Mode, c.Tree.Leaf)
	if err != nil {
		return nil, fmt.Errorf("NewReadOnlyFS(%+v): %v", c.Mode, err)
	}
	k := newKernel(rofs.VerifFileSystem(), m)
	k.brk = lastBreaker
	out := &outcome{kinds: map[string]bool{}}
	for i, op := range c.Program {
		if err := k.exec(op, int(c.Tree.Leaf), out); err != nil {
			return out, fmt.Errorf("op %d %s: %v", i, opString(op), err)
		}
	}
	// closing sweep: the whole tree as `find` + `cat` would see it (every directory listed with a
	// page-sized buffer, every file read in full)
	if err := k.sweep(int(c.Tree.Leaf), out); err != nil {
		return out, fmt.Errorf("final sweep: %v", err)
	}
	return out, nil
}

func opString(op opT) string {
	b, _ := json.Marshal(op)
	return string(b)
}

// ---------------------------------------------------------------------------------------------
// class signature

func (c caseT) shapeClass() (depthC, sibC string, empty, multi bool) {
	m := newModel(c.expectedFiles())
	maxDepth, maxSib := 0, 0
	for d, ch := range m.children {
		if len(ch) > maxSib {
			maxSib = len(ch)
		}
		depth := 0
		if d != "" {
			depth = strings.Count(d, "/") + 1
		}
		if depth > maxDepth {
			maxDepth = depth
		}
	}
	for _, data := range m.files {
		if len(data) == 0 {
			empty = true
		}
		if len(data) > int(c.Tree.Leaf) {
			multi = true
		}
	}
	switch {
	case maxDepth == 0:
		depthC = "flat"
	case maxDepth <= 2:
		depthC = "d1-2"
	case maxDepth <= 5:
		depthC = "d3-5"
	default:
		depthC = "d6+"
	}
	switch {
	case maxSib == 0:
		sibC = "s0"
	case maxSib == 1:
		sibC = "s1"
	case maxSib <= 10:
		sibC = "s2-10"
	case maxSib <= 40:
		sibC = "s11-40"
	default:
		sibC = "s41+"
	}
	return
}

func (c caseT) modeClass() string {
	if !c.Mode.Streamed {
		return "staged"
	}
	return fmt.Sprintf("stream(c%d,p%d,v%v)", c.Mode.CacheLeaves, c.Mode.Prefetch, c.Mode.VerifyHash)
}

func (c caseT) sig(out *outcome) string {
	depthC, sibC, empty, multi := c.shapeClass()
	var kinds []string
	for k := range out.kinds {
		kinds = append(kinds, k)
	}
	sort.Strings(kinds)
	return fmt.Sprintf("shape=%s depth=%s sib=%s empty=%v multi=%v conf=%v mode=%s ops=%s resumedMulti=%v spanning=%v",
		c.Shape, depthC, sibC, empty, multi, len(c.Conflicts) > 0, c.modeClass(), strings.Join(kinds, ","), out.resumedMulti, out.spanning)
}

// ---------------------------------------------------------------------------------------------
// entry points

type fataler interface {
	Fatalf(string, ...interface{})
}

func check(t fataler, c caseT) *outcome {
	hx.Journal(c)
	var out *outcome
	err, hung, panicked := hx.Guard(60*time.Second, func() error {
		var e error
		out, e = runCase(c)
		return e
	})
	switch {
	case hung:
		t.Fatalf("HANG: %v; case=%s", err, caseJSON(c))
	case panicked:
		t.Fatalf("PANIC: %v; case=%s", err, caseJSON(c))
	case err != nil:
		t.Fatalf("%v; case=%s", err, caseJSON(c))
	}
	return out
}

func caseJSON(c caseT) string {
	b, _ := json.Marshal(c)
	if len(b) > 6000 {
		return string(b[:6000]) + "...(truncated; see the journal / fail file)"
	}
	return string(b)
}

func record(c caseT, out *outcome) {
	stats.Case(c.sig(out), out.resumedMulti || out.spanning, func() interface{} { return c })
	stats.Count("shape_"+c.Shape, 1)
	if c.Mode.Streamed {
		stats.Count("mode_streamed", 1)
	} else {
		stats.Count("mode_staged", 1)
	}
	if out.broken > 0 {
		stats.Count("reads_during_a_broken_blob_transfer", out.broken)
		stats.Count("reads_during_a_broken_blob_transfer_answering_an_error", out.brokenFailed)
	}
	if c.Mode.Preload {
		stats.Count("mode_metadata_preloaded", 1)
	}
	if out.resumedMulti {
		stats.Count("resumed_multibuffer_readdir", 1)
	}
	if out.spanning {
		stats.Count("leaf_spanning_read", 1)
	}
	if out.pageMulti {
		stats.Count("listing_needs_two_4096_buffers", 1)
	}
	if len(c.Conflicts) > 0 {
		stats.Count("with_conflict_entries", 1)
	}
	_, sibC, empty, multi := c.shapeClass()
	stats.Count("siblings_"+sibC, 1)
	if empty {
		stats.Count("with_empty_file", 1)
	}
	if multi {
		stats.Count("with_multi_leaf_file", 1)
	}
	if len(c.expectedFiles()) == 0 {
		stats.Count("empty_bundle", 1)
	}
	for _, op := range c.Program {
		stats.Count("op_"+op.Kind, 1)
	}
}

func TestPropReadOnlyMount(t *testing.T) {
	rapid.Check(t, func(t *rapid.T) {
		c := drawCase(t)
		out := check(t, c)
		record(c, out)
	})
}

// TestReplayJournal re-runs the single case stored (as JSON) in the file named by
// $VERIF_REPLAY_JOURNAL
func TestReplayJournal(t *testing.T) {
	p := os.Getenv("VERIF_REPLAY_JOURNAL")
	if p == "" {
		t.Skip("VERIF_REPLAY_JOURNAL not set")
	}
	raw, err := os.ReadFile(p)
	if err != nil {
		t.Fatalf("cannot read journal: %v", err)
	}
	raw = bytes.TrimSpace(raw)
	if i := bytes.LastIndexByte(raw, '\n'); i >= 0 {
		raw = raw[i+1:]
	}
	var c caseT
	if err := json.Unmarshal(raw, &c); err != nil {
		t.Fatalf("cannot parse journal: %v", err)
	}
	out := check(t, c)
	record(c, out)
}
