package c21

import (
	"bytes"
	"encoding/json"
	"strings"
	"testing"
	"unicode/utf8"

	"verifharness/hx"
)

// rangeStr returns the characters from..to (inclusive) as a string
func rangeStr(from, to rune) string {
	var b strings.Builder
	for r := from; r <= to; r++ {
		b.WriteRune(r)
	}
	return b.String()
}

// the two parameter sets of pkg/sidecar/param/pub_api_test.go
func repoFUSECase() caseT {
	return caseT{Kind: "fuse", K: -1, Class: "pinned", Coord: "/tmp/coord", Bucket: "datamon-config-test-sdjfhga", Context: "datamon-sidecar-test",
		Bundles: []bundleT{
			{Name: "src", SrcMode: "label", SrcPath: "/tmp/mount", SrcRepo: "ransom-datamon-test-repo", SrcRef: "testlabel"},
			{Name: "dest", HasDest: true, DestRepo: "ransom-datamon-test-repo", DestMsg: "result of container coordination demo", DestPath: "/tmp/upload",
				DestLabel: "coordemo", DestIDFile: "/tmp/bundleid.txt"},
		}}
}

func repoPGCase() caseT {
	return caseT{Kind: "pg", K: -1, Class: "pinned", Coord: "/tmp/coord", ContribName: "contributor name", ContribEmail: "contributor@oneconcern.com",
		DBs: []dbT{
			{Name: "db1", Port: 5430, DestRepo: "ransom-datamon-test-repo", DestMsg: "postgres coordination example", DestLabel: "OUTPUT_LABEL"},
			{Name: "db2", Port: 5429, DestRepo: "ransom-datamon-test-repo", DestMsg: "postgres coordination example input", SrcMode: "label",
				SrcRepo: "ransom-datamon-test-repo", SrcRef: "pg-coord-example-input"},
		}}
}

type pinned struct {
	name string
	c    caseT
}

func regressCases() []pinned {
	var out []pinned
	add := func(name string, c caseT) { out = append(out, pinned{name, c}) }
	add("repo-unit-test-fuse", repoFUSECase())
	add("repo-unit-test-pg", repoPGCase())

	c := repoFUSECase()
	c.Sleep = true
	add("fuse-sleep", c)

	c = repoPGCase()
	c.Sleep, c.IgnoreVersion = true, true
	add("pg-sleep-ignore-version", c)

	c = repoFUSECase()
	c.Coord = "gs://bucket/coord;x"
	c.Bundles[1].DestMsg = "at 12:30:00; see http://host:8080/"
	add("fuse-default-separators-in-values", c)

	c = repoPGCase()
	c.DBs[0].DestMsg = "k:v;k2:v2"
	c.DBs[1].SrcRef = ";:"
	add("pg-default-separators-in-values", c)

	c = repoFUSECase()
	c.Context = "0123456789"
	add("fuse-all-digits", c) // separators ':' ';'

	c = repoFUSECase()
	c.Context = rangeStr('0', '@')
	add("fuse-through-at-sign", c) // separators 'A' 'B'

	c = repoFUSECase()
	c.Bundles[0].SrcRef = rangeStr('0', 'R')
	add("fuse-through-R-no-sleep", c) // unfixed: 'S' 'T', no S flag is emitted; fixed: 'T' 'U'

	c = repoPGCase()
	c.DBs[0].DestLabel = rangeStr('0', 'E')
	c.DBs[1].DestMsg = rangeStr('F', 'R') + " " + rangeStr('0', '5')
	add("pg-through-R-split-over-values", c)

	c = repoFUSECase()
	c.Coord = "/tmp/ко́орд/日本語/🙂"
	c.Bundles[0].SrcRef = "：；０１" // fullwidth look-alikes of the separators
	c.Bundles[1].DestMsg = "résumé — “quoted” ¿qué?"
	add("fuse-unicode", c)

	c = repoFUSECase()
	c.Bundles = nil
	add("fuse-no-bundles", c)

	c = repoPGCase()
	c.DBs = nil
	add("pg-no-databases", c)

	c = repoFUSECase()
	c.Bundles = append(c.Bundles, bundleT{Name: "empty"})
	add("fuse-bundle-without-parameters", c)

	c = repoFUSECase()
	c.Bucket = ""
	add("fuse-missing-bucket", c) // the encoder refuses: accepted

	c = repoFUSECase()
	c.Bundles[0].SrcRepo = "S"
	c.Bundles[0].SrcRef = "sp"
	c.Bundles[1].DestLabel = "dif"
	add("fuse-values-equal-to-parameter-names", c)

	c = repoPGCase()
	c.DBs[0].Port = -1
	c.DBs[1].Port = 1023456789
	add("pg-odd-ports", c)

	c = repoPGCase()
	c.DBs[0].DestIDFile = "/tmp/id:;01.txt" // accepted by the API, not transported: must not disturb the rest
	add("pg-dest-bundle-id-file", c)
	return out
}

// cases of the finding KnownSepInNames (fail on the tree without the proposed fix)
func knownCases() []pinned {
	var out []pinned
	add := func(name string, c caseT) { out = append(out, pinned{name, c}) }

	c := caseT{Kind: "fuse", K: 34, Class: "pinned", Sleep: true, Coord: rangeStr('0', 'R'), Bucket: "b", Context: "c"}
	add("fuse-sleep-through-R: item separator 'S' swallows the sleep flag", c)

	c = caseT{Kind: "fuse", K: 48, Class: "pinned", Coord: rangeStr('0', '`'), Bucket: "x", Context: "y"}
	add("fuse-through-backquote: separators 'b' 'c' are the keys of bucket and coordination point", c)

	c = caseT{Kind: "fuse", K: 48, Class: "pinned", Sleep: true, Coord: rangeStr('0', '`'), Bucket: "x", Context: "y"}
	add("fuse-sleep-through-backquote: separators 'a' 'b' are the keys of context and bucket", c)

	c = repoPGCase()
	c.DBs[0].DestMsg = rangeStr('0', 'U')
	add("pg-through-U: item separator 'V' is the key of the version-mismatch option", c)

	c = caseT{Kind: "fuse", K: 51, Class: "pinned", Coord: rangeStr('0', 'c'), Bucket: "x", Context: "y",
		Bundles: []bundleT{{Name: "x1", HasDest: true, DestRepo: "x", DestMsg: "y", DestPath: "/x"}}}
	add("fuse-through-c: item separator 'd' starts the keys dp, dr, dm of a bundle (globals still decode)", c)
	return out
}

func TestRegressPinned(t *testing.T) {
	for _, p := range regressCases() {
		p := p
		t.Run(p.name, func(t *testing.T) {
			runAndRecord(t, p.c, true)
		})
	}
}

// TestRegressDecoder pins the reference decoder itself on hand-written strings
func TestRegressDecoder(t *testing.T) {
	good := []struct {
		in   string
		want map[string]string
	}{
		{";:S;c:/tmp/coord;b:bucket;a:ctx", map[string]string{"S": "true", "c": "/tmp/coord", "b": "bucket", "a": "ctx"}},
		{";:", map[string]string{}},
		{"01sp1/tmp/mount0sr1repo", map[string]string{"sp": "/tmp/mount", "sr": "repo"}},
		{";:a:1;;b:2;", map[string]string{"a": "1", "b": "2"}},
		{";:a:;b:2", map[string]string{"b": "2"}},
		{"é—k—véflag", map[string]string{"k": "v", "flag": "true"}},
	}
	for _, g := range good {
		got, _, _, err := refDecode(g.in)
		if err != nil {
			t.Fatalf("refDecode(%q): %v", g.in, err)
		}
		a, _ := json.Marshal(got)
		b, _ := json.Marshal(g.want)
		if !bytes.Equal(a, b) {
			t.Fatalf("refDecode(%q) = %s want %s", g.in, a, b)
		}
	}
	for _, bad := range []string{"", ";", ".:a:b", ";.a.b", ";;a", ";:a:b:c", ";::b", ";:a:1;a:2", "\xff:a"} {
		if got, _, _, err := refDecode(bad); err == nil {
			t.Fatalf("refDecode(%q) accepted: %v", bad, got)
		}
	}
}

// TestKnownSeparatorInParamNames: pinned cases of the listed finding
func TestKnownSeparatorInParamNames(t *testing.T) {
	reproduced := ""
	for _, p := range knownCases() {
		if !p.c.collidesKnown() {
			t.Fatalf("harness: pinned case %q is not in the input class the generator excludes", p.name)
		}
		if _, err := checkCase(p.c); err != nil {
			t.Logf("still reproduces: %s\n  %v", p.name, err)
			if reproduced == "" {
				reproduced = p.name
			}
		}
	}
	if reproduced == "" {
		return // repaired: nothing to report
	}
	if hx.Listed(KnownSepInNames) {
		stats.KnownFinding(KnownSepInNames, knownSepInNamesWhat)
		return
	}
	t.Fatalf("%s (first reproducing case: %s)", knownSepInNamesWhat, reproduced)
}

// ---------------------------------------------------------------------------------------------
// native fuzzing (thorough tier): the fuzzer owns the bytes of every value

// caseFromBytes builds a parameter set from raw bytes: shape[0] selects kind/flags, every further
// shape byte describes one entity; data is cut into values at newlines (a newline or a NUL cannot be
// carried by the shipped decoder and is outside the property's domain; invalid UTF-8 is replaced).
func caseFromBytes(shape []byte, data []byte) caseT {
	clean := func(s string) string {
		s = strings.ToValidUTF8(s, "\uFFFD")
		return strings.Map(func(r rune) rune {
			if r == 0 {
				return -1
			}
			return r
		}, s)
	}
	vals := strings.Split(string(data), "\n")
	next := func() string {
		if len(vals) == 0 {
			return ""
		}
		v := clean(vals[0])
		vals = vals[1:]
		if utf8.RuneCountInString(v) > 200 {
			v = string([]rune(v)[:200])
		}
		return v
	}
	orDefault := func(v, d string) string {
		if v == "" {
			return d
		}
		return v
	}
	var flags byte
	if len(shape) > 0 {
		flags = shape[0]
		shape = shape[1:]
	}
	if len(shape) > 4 {
		shape = shape[:4]
	}
	c := caseT{K: -1, Class: "fuzz", Sleep: flags&2 != 0}
	c.Coord = orDefault(next(), "/c")
	modes := []string{"", "label", "bundle", "label"}
	if flags&1 == 0 {
		c.Kind = "fuse"
		c.Bucket = next()
		c.Context = next()
		if flags&4 == 0 { // mostly keep the mandatory globals
			c.Bucket = orDefault(c.Bucket, "bk")
			c.Context = orDefault(c.Context, "cx")
		}
		for i, sb := range shape {
			b := bundleT{Name: next() + string(rune('0'+i))}
			b.SrcMode = modes[sb&3]
			if b.SrcMode != "" {
				b.SrcPath, b.SrcRepo, b.SrcRef = next(), next(), next()
			}
			b.HasDest = sb&4 != 0
			if b.HasDest {
				b.DestRepo, b.DestMsg, b.DestPath = next(), next(), next()
				if b.DestRepo != "" && b.DestMsg != "" {
					b.DestLabel, b.DestIDFile = next(), next()
				}
			}
			c.Bundles = append(c.Bundles, b)
		}
		return c
	}
	c.Kind = "pg"
	c.IgnoreVersion = flags&4 != 0
	c.ContribName, c.ContribEmail = next(), next()
	for i, sb := range shape {
		d := dbT{Name: next() + string(rune('0'+i))}
		d.Port = int(sb>>3)*211 + 1
		if sb&0x80 != 0 {
			d.Port = -d.Port
		}
		d.DestRepo, d.DestMsg = orDefault(next(), "r"), orDefault(next(), "m")
		d.DestLabel, d.DestIDFile = next(), next()
		d.SrcMode = modes[sb&3]
		if d.SrcMode != "" {
			d.SrcRepo, d.SrcRef = next(), next()
		}
		c.DBs = append(c.DBs, d)
	}
	return c
}

func FuzzC21(f *testing.F) {
	f.Add([]byte{0, 1, 4}, []byte("/tmp/coord\nbucket\ncontext\nsrc\n/tmp/mount\nrepo\nlabel\ndest\nrepo\nmessage; with: separators\n/tmp/upload\nlbl\n/tmp/id.txt"))
	f.Add([]byte{1, 0x29, 0x52}, []byte("/tmp/coord\nname\nmail@host\ndb\nrepo\nmsg\nlabel\n\nsrcrepo\nsrclabel"))
	f.Add([]byte{2}, []byte(rangeStr('0', 'R')+"\nb\nc"))
	f.Add([]byte{0, 5}, []byte("/c\n"+rangeStr('0', '@')+"\n"+rangeStr('A', 'R')+"\nn\np\n"+rangeStr('T', '`')+"\nq"))
	f.Add([]byte{7, 1}, []byte(rangeStr('0', 'U')+"\n\n\ndb\nr\nm"))
	f.Add([]byte{2, 7}, []byte(rangeStr('0', '~')+"\x7f\u0080\u0081\nb\nc\nn\np\nr\nl\nr\nm\np\nl\nf"))
	f.Add([]byte{0, 2, 6}, []byte("ко́орд\n日本語\n🙂\nä\n：；\n０１\n\xff\xfe\n—"))
	f.Fuzz(func(t *testing.T, shape []byte, data []byte) {
		c := caseFromBytes(shape, data)
		if hx.Known(KnownSepInNames) && c.collidesKnown() {
			t.Skip("input class of a known finding")
		}
		// no journal here: the fuzz workers are separate processes sharing one journal file, and the
		// fuzzer saves the failing input itself (testdata/fuzz/FuzzC21)
		runAndRecord(t, c, false)
	})
}
