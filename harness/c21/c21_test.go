// Package c21 checks property C21: sidecar parameters survive the environment-variable encoding
// of pkg/sidecar/param (FUSEParamsToEnvVars / PGParamsToEnvVars).
//
// Oracle: a reference decoder written from the format the shipped decoder
// (hack/fuse-demo/wrap_datamon.sh, deserialize_dict) implements: first character = item separator,
// second character = key/value separator, '.' is not a valid separator, the rest is split into items
// on the item separator (empty items are dropped), an item is split on the key/value separator
// (exactly one allowed: the shell uses `cut -f 2`), an item without key/value separator is a flag
// whose value is "true".  The decoded dictionaries must equal the non-empty parameters that were
// given through the public option functions, or the encoder must have returned an error.
package c21

import (
	"encoding/json"
	"fmt"
	"os"
	"sort"
	"strconv"
	"strings"
	"testing"
	"time"
	"unicode"
	"unicode/utf8"

	"github.com/oneconcern/datamon/pkg/sidecar/param"
	"pgregory.net/rapid"

	"verifharness/evid"
	"verifharness/hx"
)

// KnownSepInNames is the id of the finding "setSeparators may pick a character of a parameter name"
const KnownSepInNames = "C21-separator-collides-with-param-name"

const knownSepInNamesWhat = "param.setSeparators only avoids characters of the parameter VALUES: when the values use every candidate below it, a letter that is (part of) a parameter name (S, V, a, b, c, d, f, i, l, m, p, r, s) becomes a separator and the environment variable no longer decodes (flag S lost, keys split)"

var stats = evid.New("C21", "rapid: FUSE (0-4 bundles) and PG (0-4 databases) parameter sets built through the public option functions of pkg/sidecar/param; value classes plain / with default separators ';' ':' / printable ASCII / unicode / mixed, optional fields empty at random; plus range forcing: the values jointly contain every character of '0'..'0'+k (k 0..78, up to 2 holes) so that setSeparators has to climb the ASCII table through digits, punctuation and the letters used as parameter names. Each generated environment variable is decoded by an independent reference decoder (format of hack/fuse-demo/wrap_datamon.sh deserialize_dict) and compared with the given non-empty parameters and the sleep flag; an encoder error is accepted except when two unused characters in '0'..'@' were available. Non-trivial: some value contains ';' or ':' or a chosen separator is a letter; distinct by (kind, chosen separator pair, #entities).")

func TestMain(m *testing.M) {
	code := m.Run()
	stats.Flush()
	os.Exit(code)
}

// ---------------------------------------------------------------------------------------------
// case description (plain data: journal, samples, replay)

type bundleT struct {
	Name       string `json:"name"`
	SrcMode    string `json:"src_mode"` // "" | label | bundle | both
	SrcPath    string `json:"src_path"`
	SrcRepo    string `json:"src_repo"`
	SrcRef     string `json:"src_ref"`            // label or bundle id, by SrcMode
	SrcRef2    string `json:"src_ref2,omitempty"` // mode both: the bundle id (SrcRef is the label), set on the structure as a YAML parameter file would
	HasDest    bool   `json:"has_dest"`
	DestRepo   string `json:"dest_repo"`
	DestMsg    string `json:"dest_msg"`
	DestPath   string `json:"dest_path"`
	DestLabel  string `json:"dest_label"`
	DestIDFile string `json:"dest_id_file"`
}

type dbT struct {
	Name       string `json:"name"`
	Port       int    `json:"port"`
	DestRepo   string `json:"dest_repo"`
	DestMsg    string `json:"dest_msg"`
	DestLabel  string `json:"dest_label"`
	DestIDFile string `json:"dest_id_file"` // accepted by the API, not transported by the encoder
	SrcMode    string `json:"src_mode"`     // "" | label | bundle | both
	SrcRepo    string `json:"src_repo"`
	SrcRef     string `json:"src_ref"`
	SrcRef2    string `json:"src_ref2,omitempty"` // mode both: the bundle id (SrcRef is the label)
}

type caseT struct {
	Kind          string    `json:"kind"` // fuse | pg
	Sleep         bool      `json:"sleep"`
	IgnoreVersion bool      `json:"ignore_version"` // pg only
	Coord         string    `json:"coord"`
	Bucket        string    `json:"bucket"`        // fuse only
	Context       string    `json:"context"`       // fuse only
	ContribName   string    `json:"contrib_name"`  // pg only, not transported
	ContribEmail  string    `json:"contrib_email"` // pg only, not transported
	Bundles       []bundleT `json:"bundles,omitempty"`
	DBs           []dbT     `json:"dbs,omitempty"`
	Class         string    `json:"class"`
	K             int       `json:"k"` // range forcing '0'..'0'+k, -1 = none
	Holes         []int     `json:"holes,omitempty"`
}

func (c caseT) entities() int {
	if c.Kind == "fuse" {
		return len(c.Bundles)
	}
	return len(c.DBs)
}

func boolStr(b bool) string {
	if b {
		return "true"
	}
	return "false"
}

// allStrings lists every string the parameter structure holds (names, transported and not
// transported values, booleans and the port rendered as text).
func (c caseT) allStrings() []string {
	var s []string
	if c.Kind == "fuse" {
		s = append(s, boolStr(c.Sleep), c.Coord, c.Bucket, c.Context)
		for _, b := range c.Bundles {
			s = append(s, b.Name)
			if b.SrcMode != "" {
				s = append(s, b.SrcPath, b.SrcRepo, b.SrcRef, b.SrcRef2)
			}
			if b.HasDest {
				s = append(s, b.DestRepo, b.DestMsg, b.DestPath)
			}
			s = append(s, b.DestLabel, b.DestIDFile)
		}
		return s
	}
	s = append(s, boolStr(c.Sleep), boolStr(c.IgnoreVersion), c.Coord, c.ContribName, c.ContribEmail)
	for _, d := range c.DBs {
		s = append(s, d.Name, strconv.Itoa(d.Port), d.DestRepo, d.DestMsg, d.DestLabel, d.DestIDFile)
		if d.SrcMode != "" {
			s = append(s, d.SrcRepo, d.SrcRef, d.SrcRef2)
		}
	}
	return s
}

// valueSlots returns pointers to the non-empty free-text values (not the names) of the case
func (c *caseT) valueSlots() []*string {
	var all []*string
	add := func(p ...*string) { all = append(all, p...) }
	add(&c.Coord)
	if c.Kind == "fuse" {
		add(&c.Bucket, &c.Context)
		for i := range c.Bundles {
			b := &c.Bundles[i]
			if b.SrcMode != "" {
				add(&b.SrcPath, &b.SrcRepo, &b.SrcRef)
			}
			if b.SrcMode == "both" {
				add(&b.SrcRef2)
			}
			if b.HasDest {
				add(&b.DestRepo, &b.DestMsg, &b.DestPath)
			}
			add(&b.DestLabel, &b.DestIDFile)
		}
	} else {
		add(&c.ContribName, &c.ContribEmail)
		for i := range c.DBs {
			d := &c.DBs[i]
			add(&d.DestRepo, &d.DestMsg, &d.DestLabel, &d.DestIDFile)
			if d.SrcMode != "" {
				add(&d.SrcRepo, &d.SrcRef)
			}
			if d.SrcMode == "both" {
				add(&d.SrcRef2)
			}
		}
	}
	var out []*string
	for _, p := range all {
		if *p != "" {
			out = append(out, p)
		}
	}
	return out
}

// ---------------------------------------------------------------------------------------------
// expectation: what every environment variable has to decode to

const (
	fuseGlobalsVar = "dm_fuse_opts"
	fuseBundlePref = "dm_fuse_bd_"
	pgGlobalsVar   = "dm_pg_opts"
	pgDBPref       = "dm_pg_db_"
)

func putNonEmpty(m map[string]string, k, v string) {
	if v != "" {
		m[k] = v
	}
}

// expected returns env var name -> (parameter key -> value) for the non-empty parameters given
func (c caseT) expected() map[string]map[string]string {
	out := map[string]map[string]string{}
	if c.Kind == "fuse" {
		g := map[string]string{}
		if c.Sleep {
			g["S"] = "true"
		}
		putNonEmpty(g, "c", c.Coord)
		putNonEmpty(g, "b", c.Bucket)
		putNonEmpty(g, "a", c.Context)
		out[fuseGlobalsVar] = g
		for _, b := range c.Bundles {
			m := map[string]string{}
			switch b.SrcMode {
			case "label":
				putNonEmpty(m, "sp", b.SrcPath)
				putNonEmpty(m, "sr", b.SrcRepo)
				putNonEmpty(m, "sl", b.SrcRef)
			case "bundle":
				putNonEmpty(m, "sp", b.SrcPath)
				putNonEmpty(m, "sr", b.SrcRepo)
				putNonEmpty(m, "sb", b.SrcRef)
			case "both":
				putNonEmpty(m, "sp", b.SrcPath)
				putNonEmpty(m, "sr", b.SrcRepo)
				putNonEmpty(m, "sl", b.SrcRef)
				putNonEmpty(m, "sb", b.SrcRef2)
			}
			if b.HasDest {
				putNonEmpty(m, "dp", b.DestPath)
				putNonEmpty(m, "dr", b.DestRepo)
				putNonEmpty(m, "dm", b.DestMsg)
			}
			putNonEmpty(m, "dl", b.DestLabel)
			putNonEmpty(m, "dif", b.DestIDFile)
			out[fuseBundlePref+b.Name] = m
		}
		return out
	}
	g := map[string]string{"V": boolStr(c.IgnoreVersion)}
	if c.Sleep {
		g["S"] = "true"
	}
	putNonEmpty(g, "c", c.Coord)
	out[pgGlobalsVar] = g
	for _, d := range c.DBs {
		m := map[string]string{"p": strconv.Itoa(d.Port)}
		putNonEmpty(m, "m", d.DestMsg)
		putNonEmpty(m, "l", d.DestLabel)
		putNonEmpty(m, "r", d.DestRepo)
		switch d.SrcMode {
		case "label":
			putNonEmpty(m, "sr", d.SrcRepo)
			putNonEmpty(m, "sl", d.SrcRef)
		case "bundle":
			putNonEmpty(m, "sr", d.SrcRepo)
			putNonEmpty(m, "sb", d.SrcRef)
		case "both":
			putNonEmpty(m, "sr", d.SrcRepo)
			putNonEmpty(m, "sl", d.SrcRef)
			putNonEmpty(m, "sb", d.SrcRef2)
		}
		out[pgDBPref+d.Name] = m
	}
	return out
}

// requiredSet: the globals the encoder documents as mandatory are present
func (c caseT) requiredSet() bool {
	if c.Kind == "fuse" {
		return c.Coord != "" && c.Bucket != "" && c.Context != ""
	}
	return c.Coord != ""
}

func (c caseT) usedRunes() map[rune]bool {
	used := map[rune]bool{}
	for _, s := range c.allStrings() {
		for _, r := range s {
			used[r] = true
		}
	}
	return used
}

// freeLowSeparators counts the characters of '0'..'@' (digits and punctuation: none of them occurs in a
// parameter name or in "true"/"false") that no string of the parameter set uses.
func (c caseT) freeLowSeparators() int {
	used := c.usedRunes()
	n := 0
	for r := '0'; r <= '@'; r++ {
		if !used[r] {
			n++
		}
	}
	return n
}

// collidesKnown describes the input class of the known finding KnownSepInNames: the two lowest
// characters >= '0' that no string of the parameter set uses (what setSeparators picks) include a
// character of a parameter name that is emitted for this case.  Used ONLY to redirect the random
// search while the finding is listed as known - never by the oracle.
func (c caseT) collidesKnown() bool {
	used := c.usedRunes()
	var seps []rune
	for r := '0'; len(seps) < 2; r++ {
		if !used[r] {
			seps = append(seps, r)
		}
	}
	for _, m := range c.expected() {
		for k := range m {
			for _, s := range seps {
				if strings.ContainsRune(k, s) {
					return true
				}
			}
		}
	}
	return false
}

// ---------------------------------------------------------------------------------------------
// reference decoder

// refDecode decodes one environment variable value.  Flags decode to "true" (as the shipped
// shell decoder does).
func refDecode(s string) (map[string]string, string, string, error) {
	r1, n1 := utf8.DecodeRuneInString(s)
	if n1 == 0 {
		return nil, "", "", fmt.Errorf("empty string: no separators declared")
	}
	r2, n2 := utf8.DecodeRuneInString(s[n1:])
	if n2 == 0 {
		return nil, "", "", fmt.Errorf("only one character: no key/value separator declared")
	}
	if (r1 == utf8.RuneError && n1 == 1) || (r2 == utf8.RuneError && n2 == 1) {
		return nil, "", "", fmt.Errorf("separator is not a valid character")
	}
	item, kv := s[:n1], s[n1:n1+n2]
	if r1 == '.' || r2 == '.' {
		return nil, item, kv, fmt.Errorf("'.' is not a valid parameter separator")
	}
	if r1 == '\n' || r2 == '\n' || r1 == 0 || r2 == 0 {
		return nil, item, kv, fmt.Errorf("newline/NUL cannot be a separator")
	}
	if r1 == r2 {
		return nil, item, kv, fmt.Errorf("item separator and key/value separator are the same character %q", item)
	}
	out := map[string]string{}
	for _, it := range strings.Split(s[n1+n2:], item) {
		if it == "" {
			continue // the shell decoder drops empty items
		}
		parts := strings.Split(it, kv)
		var key, val string
		switch len(parts) {
		case 1:
			key, val = parts[0], "true"
		case 2:
			key, val = parts[0], parts[1]
		default:
			return nil, item, kv, fmt.Errorf("item %q contains the key/value separator %q %d times", it, kv, len(parts)-1)
		}
		if key == "" {
			return nil, item, kv, fmt.Errorf("item %q has an empty key", it)
		}
		if _, dup := out[key]; dup {
			return nil, item, kv, fmt.Errorf("key %q occurs twice", key)
		}
		out[key] = val
	}
	// an item "key<kv>" with an empty value is what every consumer treats as "not given"
	for k, v := range out {
		if v == "" {
			delete(out, k)
		}
	}
	return out, item, kv, nil
}

// ---------------------------------------------------------------------------------------------
// driving the real code

type outcome struct {
	env      map[string]string
	encErr   error // error of *ParamsToEnvVars
	buildErr error // error of the constructor / Add* functions
}

func encode(c caseT) outcome {
	if c.Kind == "fuse" {
		fp, err := param.NewFUSEParams(
			param.FUSECoordPoint(c.Coord),
			param.FUSEConfigBucketName(c.Bucket),
			param.FUSEContextName(c.Context),
		)
		if err != nil {
			return outcome{buildErr: fmt.Errorf("NewFUSEParams: %v", err)}
		}
		fp.Globals.SleepInsteadOfExit = c.Sleep
		for _, b := range c.Bundles {
			opts := []param.FUSEParamsBDOption{param.BDName(b.Name)}
			switch b.SrcMode {
			case "label", "both":
				opts = append(opts, param.BDSrcByLabel(b.SrcPath, b.SrcRepo, b.SrcRef))
			case "bundle":
				opts = append(opts, param.BDSrcByBundleID(b.SrcPath, b.SrcRepo, b.SrcRef))
			}
			if b.HasDest {
				opts = append(opts, param.BDDest(b.DestRepo, b.DestMsg, b.DestPath))
			}
			if b.DestLabel != "" {
				opts = append(opts, param.BDDestLabel(b.DestLabel))
			}
			if b.DestIDFile != "" {
				opts = append(opts, param.BDDestBundleIDFile(b.DestIDFile))
			}
			if err := fp.AddBundle(opts...); err != nil {
				return outcome{buildErr: fmt.Errorf("AddBundle(%q): %v", b.Name, err)}
			}
			if b.SrcMode == "both" {
				// the option API refuses label + bundle id; a YAML parameter file (cmd/sidecar_param unmarshals
				// straight into the structure) can carry both, and every parameter given must be transported
				fp.Bundles[len(fp.Bundles)-1].SrcBundle = b.SrcRef2
			}
		}
		env, err := param.FUSEParamsToEnvVars(fp)
		return outcome{env: env, encErr: err}
	}
	pp, err := param.NewPGParams(param.PGCoordPoint(c.Coord), param.PGContributor(c.ContribName, c.ContribEmail))
	if err != nil {
		return outcome{buildErr: fmt.Errorf("NewPGParams: %v", err)}
	}
	pp.Globals.SleepInsteadOfExit = c.Sleep
	pp.Globals.IgnorePGVersionMismatch = c.IgnoreVersion
	for _, d := range c.DBs {
		opts := []param.PGParamsDBOption{param.DBNameAndPort(d.Name, d.Port), param.DBDest(d.DestRepo, d.DestMsg)}
		if d.DestLabel != "" {
			opts = append(opts, param.DBDestLabel(d.DestLabel))
		}
		if d.DestIDFile != "" {
			opts = append(opts, param.DBDestBundleIDFile(d.DestIDFile))
		}
		switch d.SrcMode {
		case "label", "both":
			opts = append(opts, param.DBSrcByLabel(d.SrcRepo, d.SrcRef))
		case "bundle":
			opts = append(opts, param.DBSrcByBundle(d.SrcRepo, d.SrcRef))
		}
		if err := pp.AddDatabase(opts...); err != nil {
			return outcome{buildErr: fmt.Errorf("AddDatabase(%q): %v", d.Name, err)}
		}
		if d.SrcMode == "both" {
			pp.Databases[len(pp.Databases)-1].SrcBundle = d.SrcRef2
		}
	}
	env, err := param.PGParamsToEnvVars(pp)
	return outcome{env: env, encErr: err}
}

// verdict of one executed case
type verdict struct {
	encErr  bool
	itemSep string
	kvSep   string
}

func sortedKeys(m map[string]string) []string {
	var ks []string
	for k := range m {
		ks = append(ks, k)
	}
	sort.Strings(ks)
	return ks
}

// checkCase runs the encoder on the case and applies the oracle; a non-nil error is a violation.
func checkCase(c caseT) (verdict, error) {
	var o outcome
	err, hung, panicked := hx.Guard(20*time.Second, func() error { o = encode(c); return nil })
	switch {
	case hung:
		return verdict{}, fmt.Errorf("HANG: %v", err)
	case panicked:
		return verdict{}, fmt.Errorf("PANIC in the encoder: %v", err)
	}
	if o.buildErr != nil {
		// the generator only produces parameter sets the option API documents as valid
		return verdict{}, fmt.Errorf("public option API rejected a valid parameter set: %v", o.buildErr)
	}
	if o.encErr != nil {
		if c.requiredSet() && c.freeLowSeparators() >= 2 {
			return verdict{encErr: true}, fmt.Errorf("encoder failed (%v) although all mandatory parameters are set and %d characters of '0'..'@' occur in no value (unambiguous separators exist)", o.encErr, c.freeLowSeparators())
		}
		return verdict{encErr: true}, nil // "encoding fails rather than produce an ambiguous string"
	}
	exp := c.expected()
	var v verdict
	// exactly the expected variables
	for name := range o.env {
		if _, ok := exp[name]; !ok {
			return v, fmt.Errorf("unexpected environment variable %q=%q", name, o.env[name])
		}
	}
	names := make([]string, 0, len(exp))
	for name := range exp {
		names = append(names, name)
	}
	sort.Strings(names)
	for _, name := range names {
		want := exp[name]
		raw, ok := o.env[name]
		if !ok {
			return v, fmt.Errorf("environment variable %q missing (have %d variables)", name, len(o.env))
		}
		got, item, kv, derr := refDecode(raw)
		if name == fuseGlobalsVar || name == pgGlobalsVar {
			v.itemSep, v.kvSep = item, kv
		}
		if derr != nil {
			return v, fmt.Errorf("%s=%q does not decode: %v; given parameters %v", name, raw, derr, want)
		}
		for _, k := range sortedKeys(want) {
			g, ok := got[k]
			if !ok {
				return v, fmt.Errorf("%s=%q: parameter %q=%q was given but is not decoded (decoded: %v)", name, raw, k, want[k], got)
			}
			if k == "S" {
				continue // flag: any non-empty value means set
			}
			if g != want[k] {
				return v, fmt.Errorf("%s=%q: parameter %q decodes to %q, given %q", name, raw, k, g, want[k])
			}
		}
		for _, k := range sortedKeys(got) {
			if _, ok := want[k]; !ok {
				return v, fmt.Errorf("%s=%q: decodes to parameter %q=%q that was not given (given: %v)", name, raw, k, got[k], want)
			}
		}
	}
	return v, nil
}

// ---------------------------------------------------------------------------------------------
// generators

var plainValues = []string{
	"/tmp/coord", "/tmp/mount", "/tmp/upload", "/tmp/bundleid.txt", "datamon-config-test-sdjfhga",
	"datamon-sidecar-test", "ransom-datamon-test-repo", "testlabel", "coordemo", "OUTPUT_LABEL",
	"result of container coordination demo", "postgres coordination example", "pg-coord-example-input",
	"contributor name", "contributor@oneconcern.com", "x", "a b", "repo.name", "v-latest", "/", "S", "sp", "dif", "V",
}

var defSepValues = []string{
	"gs://bucket/path", "a;b", "12:30:00", ";", ":", ";:", ":;", "k:v;k2:v2", "http://host:8080/x;y", "label:", ";label",
	"1JYnYmM0cWkLkBUG4bgNpDGEoiH", "2020-01-01T10:00:00Z", "host:5432", "commit 42; fixes #17",
}

var unicodeRunes = []rune("éßΩяж中日本語🙂€—“”·¿ñüİǆ́：；０１＝’«»ўあ한𝔘")

var printableASCII = func() []rune {
	var r []rune
	for c := rune(0x20); c <= 0x7e; c++ {
		r = append(r, c)
	}
	return r
}()

func drawValue(t *rapid.T, class string, label string) string {
	if class == "mixed" {
		class = rapid.SampledFrom([]string{"plain", "defsep", "ascii", "unicode"}).Draw(t, label+"_cls")
	}
	switch class {
	case "plain":
		return rapid.SampledFrom(plainValues).Draw(t, label)
	case "defsep":
		return rapid.SampledFrom(defSepValues).Draw(t, label)
	case "ascii":
		return rapid.StringOfN(rapid.RuneFrom(printableASCII), 1, 12, -1).Draw(t, label)
	default: // unicode, mixed with some ASCII
		s := rapid.StringOfN(rapid.OneOf(rapid.RuneFrom(unicodeRunes), rapid.RuneFrom(unicodeRunes), rapid.RuneFrom(printableASCII),
			rapid.RuneFrom(nil, unicode.Latin, unicode.Greek, unicode.Cyrillic, unicode.Han, unicode.Sm)), 1, 10, -1).Draw(t, label)
		return s
	}
}

// drawOpt draws a value that is empty with probability 1/4
func drawOpt(t *rapid.T, class string, label string) string {
	if rapid.SampledFrom([]bool{false, false, true, false}).Draw(t, label+"_empty") {
		return ""
	}
	return drawValue(t, class, label)
}

func drawName(t *rapid.T, class string, i int, label string) string {
	// names are distinct by construction (index suffix); they are part of the variable name, and their
	// characters count for the separator choice
	base := ""
	switch rapid.IntRange(0, 3).Draw(t, label+"_sel") {
	case 0:
		base = rapid.SampledFrom([]string{"src", "dest", "db", "in", "out", "S", "V"}).Draw(t, label)
	case 1:
		base = rapid.StringOfN(rapid.RuneFrom([]rune("abcdefghijklmnopqrstuvwxyzABCDEFGHIJKLMNOPQRSTUVWXYZ_")), 1, 6, -1).Draw(t, label)
	case 2:
		base = drawValue(t, class, label)
	}
	return base + strconv.Itoa(i)
}

func drawSrcMode(t *rapid.T, label string) string {
	return rapid.SampledFrom([]string{"", "label", "bundle", "", "label", "bundle", "both"}).Draw(t, label)
}

// (rapid's integer generators favour small values: probabilities are spelled out as sample lists)
var mandatorySel = []int{0, 0, 0, 0, 0, 0, 0, 0, 0, 0, 0, 0, 0, 0, 0, 0, 0, 1, 0, 0, 0, 0, 0, 0, 0, 0, 2, 0, 0, 0, 0, 0, 0, 0, 0, 0, 0, 0, 0, 0}

func drawBase(t *rapid.T) caseT {
	c := caseT{K: -1}
	c.Kind = rapid.SampledFrom([]string{"fuse", "pg"}).Draw(t, "kind")
	c.Class = rapid.SampledFrom([]string{"plain", "defsep", "ascii", "unicode", "mixed", "mixed"}).Draw(t, "class")
	c.Sleep = rapid.Bool().Draw(t, "sleep")
	c.Coord = drawValue(t, c.Class, "coord")
	n := rapid.SampledFrom([]int{0, 1, 1, 1, 2, 2, 3, 4}).Draw(t, "entities")
	if c.Kind == "fuse" {
		c.Bucket = drawValue(t, c.Class, "bucket")
		c.Context = drawValue(t, c.Class, "context")
		// rarely leave a mandatory global out: the encoder has to fail, or to produce something that decodes
		switch rapid.SampledFrom(mandatorySel).Draw(t, "mandatory") {
		case 1:
			c.Bucket = ""
		case 2:
			c.Context = ""
		}
		for i := 0; i < n; i++ {
			l := fmt.Sprintf("b%d_", i)
			b := bundleT{Name: drawName(t, c.Class, i, l+"name")}
			b.SrcMode = drawSrcMode(t, l+"srcmode")
			if b.SrcMode != "" {
				b.SrcPath = drawOpt(t, c.Class, l+"sp")
				b.SrcRepo = drawOpt(t, c.Class, l+"sr")
				b.SrcRef = drawOpt(t, c.Class, l+"sref")
				if b.SrcMode == "both" {
					b.SrcRef2 = drawOpt(t, c.Class, l+"sref2")
				}
			}
			b.HasDest = rapid.Bool().Draw(t, l+"hasdest")
			if b.HasDest {
				b.DestRepo = drawOpt(t, c.Class, l+"dr")
				b.DestMsg = drawOpt(t, c.Class, l+"dm")
				b.DestPath = drawOpt(t, c.Class, l+"dp")
			}
			if b.HasDest && b.DestRepo != "" && b.DestMsg != "" {
				// only then does AddBundle accept a destination label / bundle id file
				b.DestLabel = drawOpt(t, c.Class, l+"dl")
				b.DestIDFile = drawOpt(t, c.Class, l+"dif")
			}
			c.Bundles = append(c.Bundles, b)
		}
		return c
	}
	c.IgnoreVersion = rapid.Bool().Draw(t, "ignorev")
	c.ContribName = drawOpt(t, c.Class, "contrib_name")
	c.ContribEmail = drawOpt(t, c.Class, "contrib_email")
	for i := 0; i < n; i++ {
		l := fmt.Sprintf("d%d_", i)
		d := dbT{Name: drawName(t, c.Class, i, l+"name")}
		switch rapid.IntRange(0, 3).Draw(t, l+"portsel") {
		case 0:
			d.Port = rapid.SampledFrom([]int{5432, 5430, 5429, 1, 65535, 1023456789, -1}).Draw(t, l+"port")
		default:
			d.Port = rapid.IntRange(1, 65535).Draw(t, l+"port")
		}
		d.DestRepo = drawValue(t, c.Class, l+"dr")
		d.DestMsg = drawValue(t, c.Class, l+"dm")
		d.DestLabel = drawOpt(t, c.Class, l+"dl")
		d.DestIDFile = drawOpt(t, c.Class, l+"dif")
		d.SrcMode = drawSrcMode(t, l+"srcmode")
		if d.SrcMode != "" {
			d.SrcRepo = drawOpt(t, c.Class, l+"sr")
			d.SrcRef = drawOpt(t, c.Class, l+"sref")
			if d.SrcMode == "both" {
				d.SrcRef2 = drawOpt(t, c.Class, l+"sref2")
			}
		}
		c.DBs = append(c.DBs, d)
	}
	return c
}

// interestingK: last candidate before / at the characters that matter: '9', '@', 'R' (before S), 'S', 'U' (before V), 'V',
// '`' (before a), 'a'..'s', '~'
var interestingK = []int{9, 10, 11, 16, 17, 33, 34, 35, 36, 37, 38, 48, 49, 50, 51, 52, 54, 57, 60, 61, 64, 66, 67, 68, 78}

// injectRange makes the values jointly contain every character of '0'..'0'+k except the holes
func injectRange(t *rapid.T, c *caseT) {
	if rapid.Bool().Draw(t, "k_interesting") {
		c.K = rapid.SampledFrom(interestingK).Draw(t, "k")
	} else {
		c.K = rapid.IntRange(0, 78).Draw(t, "k")
	}
	nh := rapid.SampledFrom([]int{0, 0, 1, 1, 2}).Draw(t, "nholes")
	hole := map[int]bool{}
	for i := 0; i < nh; i++ {
		h := rapid.IntRange(0, c.K).Draw(t, "hole")
		if !hole[h] {
			hole[h] = true
			c.Holes = append(c.Holes, h)
		}
	}
	var chars []rune
	for i := 0; i <= c.K; i++ {
		if !hole[i] {
			chars = append(chars, rune('0'+i))
		}
	}
	if len(chars) == 0 {
		return
	}
	if rapid.Bool().Draw(t, "shuffle") {
		chars = rapid.Permutation(chars).Draw(t, "perm")
	}
	slots := c.valueSlots()
	nchunks := rapid.IntRange(1, 6).Draw(t, "nchunks")
	if nchunks > len(chars) {
		nchunks = len(chars)
	}
	size := (len(chars) + nchunks - 1) / nchunks
	for i := 0; i < len(chars); i += size {
		end := i + size
		if end > len(chars) {
			end = len(chars)
		}
		chunk := string(chars[i:end])
		p := slots[rapid.IntRange(0, len(slots)-1).Draw(t, "slot")]
		switch rapid.IntRange(0, 2).Draw(t, "where") {
		case 0:
			*p = chunk + *p
		case 1:
			*p += chunk
		default:
			*p = chunk
		}
	}
}

func cloneCase(c caseT) caseT {
	b, _ := json.Marshal(c)
	var d caseT
	_ = json.Unmarshal(b, &d)
	return d
}

// drawCase: ok=false means the draw has to be discarded
func drawCase(t *rapid.T) (caseT, bool) {
	base := drawBase(t)
	c := base
	if rapid.SampledFrom([]bool{false, true, false, true, false}).Draw(t, "force") {
		c = cloneCase(base)
		injectRange(t, &c)
	}
	if hx.Known(KnownSepInNames) && c.collidesKnown() {
		// input class of the listed finding: redirect to the same case without range forcing
		stats.Count("excluded_"+KnownSepInNames, 1)
		c = base
		c.Class += "+redirected"
		if c.collidesKnown() {
			return c, false
		}
	}
	return c, true
}

// ---------------------------------------------------------------------------------------------
// bookkeeping

func isLetter(s string) bool {
	r, _ := utf8.DecodeRuneInString(s)
	return r < 0x80 && unicode.IsLetter(r)
}

func hasDefaultSep(c caseT) bool {
	for _, s := range c.allStrings() {
		if strings.ContainsAny(s, ";:") {
			return true
		}
	}
	return false
}

func record(c caseT, v verdict) {
	sig := fmt.Sprintf("kind=%s seps=%q%q n=%d", c.Kind, v.itemSep, v.kvSep, c.entities())
	letter := isLetter(v.itemSep) || isLetter(v.kvSep)
	defsep := hasDefaultSep(c)
	nt := !v.encErr && (letter || defsep)
	if v.encErr {
		sig = fmt.Sprintf("kind=%s error n=%d", c.Kind, c.entities())
	}
	stats.Case(sig, nt, func() interface{} {
		return map[string]interface{}{"case": c, "item_sep": v.itemSep, "kv_sep": v.kvSep}
	})
	stats.Count("kind_"+c.Kind, 1)
	stats.Count("class_"+c.Class, 1)
	stats.Count(fmt.Sprintf("entities_%d", c.entities()), 1)
	switch {
	case v.encErr:
		stats.Count("outcome_encoder_error", 1)
	default:
		stats.Count("outcome_decoded", 1)
	}
	if c.K >= 0 {
		stats.Count("range_forced", 1)
	}
	if letter {
		stats.Count("sep_is_letter", 1)
	}
	if defsep {
		stats.Count("value_has_default_sep", 1)
	}
	if !v.encErr {
		switch r, _ := utf8.DecodeRuneInString(v.itemSep); {
		case r >= '0' && r <= '9':
			stats.Count("itemsep_digit", 1)
		case r < 'A':
			stats.Count("itemsep_punct_low", 1)
		case r <= 'Z':
			stats.Count("itemsep_upper", 1)
		case r < 'a':
			stats.Count("itemsep_punct_mid", 1)
		case r <= 'z':
			stats.Count("itemsep_lower", 1)
		default:
			stats.Count("itemsep_beyond_z", 1)
		}
		if strings.ContainsAny(v.itemSep+v.kvSep, "=[\\^$*") {
			// not asserted: characters the shell tooling of wrap_datamon.sh (cut -d '=', grep regex, print escapes) mishandles
			stats.Count("sep_awkward_for_shell_decoder", 1)
		}
	}
}

type fataler interface {
	Fatalf(string, ...interface{})
}

func runAndRecord(t fataler, c caseT, journal bool) {
	if journal {
		hx.Journal(c)
	}
	v, err := checkCase(c)
	if err != nil {
		hx.Journal(c) // the failing case is the replay unit (TestReplayJournal)
		b, _ := json.Marshal(c)
		t.Fatalf("%v\ncase=%s", err, b)
	}
	record(c, v)
}

// ---------------------------------------------------------------------------------------------
// properties

func TestProp(t *testing.T) {
	rapid.Check(t, func(t *rapid.T) {
		c, ok := drawCase(t)
		if !ok {
			stats.Discard()
			t.Skip("input class of a known finding")
		}
		runAndRecord(t, c, true)
	})
}

// TestReplayJournal re-executes a journalled case (driver: --replay <journal>)
func TestReplayJournal(t *testing.T) {
	p := os.Getenv("VERIF_REPLAY_JOURNAL")
	if p == "" {
		t.Skip("no journal given")
	}
	b, err := os.ReadFile(p)
	if err != nil {
		t.Fatalf("read journal: %v", err)
	}
	var c caseT
	if err := json.Unmarshal(b, &c); err != nil {
		t.Fatalf("parse journal: %v", err)
	}
	if _, err := checkCase(c); err != nil {
		t.Fatalf("%v\ncase=%s", err, b)
	}
}
