package c11

import (
	"context"
	"fmt"
	"os"
	"sort"
	"strings"
	"testing"
	"time"

	"github.com/oneconcern/datamon/pkg/core"
	"github.com/oneconcern/datamon/pkg/model"
	"go.uber.org/zap"
	"go.uber.org/zap/zapcore"
	"go.uber.org/zap/zaptest/observer"
	"gopkg.in/yaml.v2"
	"pgregory.net/rapid"

	"verifharness/evid"
	"verifharness/hx"
	"verifharness/memstore"
)

var stats = evid.New("C11", "rapid: 1..8 splits (real CreateSplit/Upload) over <= 6 paths, each split uploading a generated subset with content drawn from <= 4 versions per path (identical duplicates frequent); the upload time of every (split, path) version is rewritten in the stored split file lists with a generated permutation of distinct times; every case is committed (on clones of the store) in all four conflict modes and under 2-4 arrival orders of the split file lists imposed by gating the commit's reads of those objects (release one, wait until the merger logged its arrival). Oracle: order-independent specification computed from (split -> path -> (hash, time)): main tree = latest version per path; extra entries in conflict/checkpoint mode = losing distinct versions under .conflicts|.checkpoints/<their split>/<path>; none in ignore mode; forbid mode fails iff two splits disagree; flags HasConflicts/HasCheckpoints; main tree equal across modes and orders; single split == plain upload. Non-trivial: >= 2 splits disagree on some path; distinct by (conflict shape, mode, achieved arrival order class).")

const (
	repo               = "repo"
	knownSharedVersion = "C11-shared-version-order-dependent"
)

func TestMain(m *testing.M) {
	code := m.Run()
	stats.Flush()
	os.Exit(code)
}

type versionT struct {
	Split int `json:"split"`
	Path  int `json:"path"`
	V     int `json:"v"`    // content version
	Time  int `json:"time"` // rank of the upload time (distinct)
}

type caseT struct {
	NSplits  int        `json:"nsplits"`
	Versions []versionT `json:"versions"`
	Orders   [][]int    `json:"orders"` // arrival orders (permutations of split indexes)
	// Retried: index+1 of a split whose first Upload fails (its first file-list write is refused once) and is
	// called again on the same Split object; 0: none
	Retried int `json:"retried_split,omitempty"`
	// Batch: page size of the split listing done by the commit (0: default 1024). Small pages put page boundaries
	// where they fall with hundreds of splits at the default size.
	Batch int `json:"commit_list_page,omitempty"`
}

// dot-files and dot-directories early in the list (the first n paths are used), together with their dot-less twins
var paths = []string{"f0", ".env", "d/f1", ".cfg/app.yaml", "env", "d/e/f3", "f4 x", "ü/f5", "cfg/app.yaml"}

func content(p, v int) []byte { return []byte(fmt.Sprintf("content of %s version %d", paths[p], v)) }

func drawCase(t *rapid.T) caseT {
	c := caseT{}
	c.NSplits = rapid.SampledFrom([]int{1, 2, 2, 3, 3, 3, 4, 4, 5, 6, 8}).Draw(t, "nsplits")
	np := rapid.IntRange(1, len(paths)).Draw(t, "npaths")
	for s := 0; s < c.NSplits; s++ {
		any := false
		for p := 0; p < np; p++ {
			if rapid.IntRange(0, 2).Draw(t, "has") > 0 {
				c.Versions = append(c.Versions, versionT{Split: s, Path: p, V: rapid.IntRange(0, 3).Draw(t, "v")})
				any = true
			}
		}
		// a split may legally upload nothing (empty source, filter matching nothing): keep some of them empty
		if !any && rapid.IntRange(0, 2).Draw(t, "keepempty") > 0 {
			c.Versions = append(c.Versions, versionT{Split: s, Path: 0, V: rapid.IntRange(0, 3).Draw(t, "v0")})
		}
	}
	perm := rapid.Permutation(seq(len(c.Versions))).Draw(t, "times")
	for i := range c.Versions {
		c.Versions[i].Time = perm[i]
	}
	norders := rapid.IntRange(2, 3).Draw(t, "norders")
	if hx.Thorough() {
		norders = rapid.IntRange(2, 4).Draw(t, "norders_t")
	}
	c.Batch = rapid.SampledFrom([]int{0, 0, 0, 1, 2, 3, 4, 5, 8}).Draw(t, "commit_page")
	if rapid.IntRange(0, 3).Draw(t, "retried") == 0 {
		c.Retried = 1 + rapid.IntRange(0, c.NSplits-1).Draw(t, "retried_split")
	}
	if c.NSplits == 1 {
		norders = 1
	}
	for o := 0; o < norders; o++ {
		c.Orders = append(c.Orders, rapid.Permutation(seq(c.NSplits)).Draw(t, "order"))
	}
	return c
}

func seq(n int) []int {
	s := make([]int, n)
	for i := range s {
		s[i] = i
	}
	return s
}

type entryT struct {
	hash string
	size uint64
}

type specT struct {
	main     map[string]entryT            // path -> winner
	losers   map[string]map[string]entryT // path -> split -> losing distinct version
	conflict bool                         // two splits disagree on some path
}

type verT struct {
	split string
	entryT
	t time.Time
}

func computeSpec(vers map[string][]verT) specT {
	sp := specT{main: map[string]entryT{}, losers: map[string]map[string]entryT{}}
	for p, vs := range vers {
		w := vs[0]
		for _, v := range vs[1:] {
			if v.t.After(w.t) {
				w = v
			}
		}
		sp.main[p] = w.entryT
		for _, v := range vs {
			if v.hash != w.hash {
				if sp.losers[p] == nil {
					sp.losers[p] = map[string]entryT{}
				}
				sp.losers[p][v.split] = v.entryT
				sp.conflict = true
			}
		}
	}
	return sp
}

func splitName(i int) string { return fmt.Sprintf("split-%02d", i) }

// prepare uploads the splits through the real API, rewrites upload times, and returns the env, the
// diamond ID and the version table read back from the stored file lists
func prepare(sc *hx.Scratch, c caseT) (*hx.Env, string, map[string][]verT, error) {
	env := hx.NewEnv()
	v := env.Actor("prep")
	if err := hx.CreateRepo(v.Stores, repo); err != nil {
		return nil, "", nil, err
	}
	d, err := hx.CreateDiamond(v.Stores, repo)
	if err != nil {
		return nil, "", nil, fmt.Errorf("create diamond: %v", err)
	}
	rank := map[string]int{}
	for s := 0; s < c.NSplits; s++ {
		tree := hx.Tree{}
		for _, ver := range c.Versions {
			if ver.Split == s {
				tree[paths[ver.Path]] = content(ver.Path, ver.V)
				rank[splitName(s)+"\x00"+paths[ver.Path]] = ver.Time
			}
		}
		dir := sc.Dir("split")
		if err := tree.Write(dir); err != nil {
			return nil, "", nil, err
		}
		if c.Retried == s+1 {
			f := &memstore.Fault{Op: memstore.OpPut, KeySub: "/bundle-files-", Nth: 1, Times: 1}
			retried, err := hx.SplitAddRetried(v.Stores, repo, d.DiamondID, splitName(s), dir, func() { v.VMeta.AddFault(f) }, func() { v.VMeta.ClearFaults() })
			if err != nil {
				return nil, "", nil, fmt.Errorf("split add %d (retried=%v on the same Split object after a refused file-list write): %v", s, retried, err)
			}
			if retried {
				stats.Count("split_upload_retried_on_same_object", 1)
			}
			continue
		}
		if _, err := hx.SplitAdd(v.Stores, repo, d.DiamondID, splitName(s), dir); err != nil {
			return nil, "", nil, fmt.Errorf("split add %d: %v", s, err)
		}
	}
	// rewrite the upload times in the stored split file lists
	base := time.Date(2021, 3, 4, 5, 6, 7, 0, time.UTC)
	vers := map[string][]verT{}
	listed := map[string]bool{}
	for _, k := range env.VMeta.RawKeys() {
		if !strings.Contains(k, "/splits/") || !strings.Contains(k, "/bundle-files-") {
			continue
		}
		apc, err := model.GetArchivePathComponents(k)
		if err != nil {
			return nil, "", nil, fmt.Errorf("harness: cannot parse %s: %v", k, err)
		}
		raw, _ := env.VMeta.RawGet(k)
		var be model.BundleEntries
		if err := yaml.Unmarshal(raw, &be); err != nil {
			return nil, "", nil, fmt.Errorf("harness: %v", err)
		}
		for i := range be.BundleEntries {
			e := &be.BundleEntries[i]
			r, ok := rank[apc.SplitID+"\x00"+e.NameWithPath]
			if !ok {
				return nil, "", nil, fmt.Errorf("harness: unexpected entry %q in split %s", e.NameWithPath, apc.SplitID)
			}
			if e.Timestamp.IsZero() {
				return nil, "", nil, fmt.Errorf("split file list entry %q carries no upload time", e.NameWithPath)
			}
			if listed[apc.SplitID+"\x00"+e.NameWithPath] {
				return nil, "", nil, fmt.Errorf("split %s lists %q twice", apc.SplitID, e.NameWithPath)
			}
			listed[apc.SplitID+"\x00"+e.NameWithPath] = true
			e.Timestamp = base.Add(time.Duration(r)*time.Second + time.Duration(r)*time.Nanosecond)
			vers[e.NameWithPath] = append(vers[e.NameWithPath], verT{split: apc.SplitID, entryT: entryT{e.Hash, e.Size}, t: e.Timestamp})
		}
		out, err := yaml.Marshal(be)
		if err != nil {
			return nil, "", nil, err
		}
		env.VMeta.RawPut(k, out)
	}
	// every file of every split is listed by its completed split (the stored lists are what the merge reads)
	for k := range rank {
		if !listed[k] {
			sp := strings.SplitN(k, "\x00", 2)
			return nil, "", nil, fmt.Errorf("split %s completed but its stored file lists do not hold %q", sp[0], sp[1])
		}
	}
	return env, d.DiamondID, vers, nil
}

type commitRes struct {
	err      error
	entries  map[string]entryT
	desc     model.DiamondDescriptor
	achieved []string
}

// commitWith commits on a clone under the given mode and arrival order
func commitWith(env *hx.Env, diamondID string, mode model.ConflictMode, order []int, batch int) (commitRes, error) {
	e := env.Clone()
	v := e.Actor("commit")
	obsCore, logs := observer.New(zapcore.DebugLevel)
	logger := zap.New(obsCore)
	gate := memstore.NewGate(func(c *memstore.Call) bool {
		return c.Op == memstore.OpGet && strings.Contains(c.Key, "/splits/") && strings.Contains(c.Key, "/bundle-files-")
	})
	gate.Attach(v.VMeta)
	n := len(order)
	type out struct {
		d   *core.Diamond
		err error
	}
	done := make(chan out, 1)
	returned := make(chan struct{})
	go func() {
		defer close(returned)
		var copts []core.Option
		if batch > 0 {
			copts = append(copts, core.BatchSize(batch))
		}
		d, err := hx.CommitWith(v.Stores, repo, diamondID, mode, copts, core.DiamondLogger(logger))
		done <- out{d, err}
	}()
	res := commitRes{}
	arrived := func() []string {
		var a []string
		for _, l := range logs.FilterMessage("merge received batch").All() {
			a = append(a, l.ContextMap()["from split"].(string))
		}
		return a
	}
	// wait for all file list reads to be parked, then release in order
	var o out
	finished := false
	waiting := gate.WaitArrivalsIdle(n, 10*time.Second, 1500*time.Millisecond, returned)
	if len(waiting) != n {
		stats.Count("arrival_order_not_enforced", 1)
	}
	if len(waiting) == n {
		keyOf := map[string]string{}
		for _, k := range waiting {
			apc, _ := model.GetArchivePathComponents(k)
			keyOf[apc.SplitID] = k
		}
		for i, s := range order {
			gate.Release(keyOf[splitName(s)])
			deadline := time.Now().Add(10 * time.Second)
			gaveUp := false
			for len(arrived()) < i+1 && time.Now().Before(deadline) {
				select {
				case o = <-done:
					finished = true
				default:
				}
				if finished {
					break
				}
				if logs.FilterLevelExact(zapcore.ErrorLevel).Len() > 0 {
					// the merger gave up (forbidden conflict / failure): nothing more will arrive
					gaveUp = true
					break
				}
				time.Sleep(100 * time.Microsecond)
			}
			if finished || gaveUp {
				break
			}
		}
	}
	gate.Open()
	if !finished {
		select {
		case o = <-done:
		case <-time.After(60 * time.Second):
			return res, fmt.Errorf("commit did not return (mode %s)", mode)
		}
	}
	res.err = o.err
	res.achieved = arrived()
	if o.err != nil {
		return res, nil
	}
	res.desc = o.d.DiamondDescriptor
	b := hx.NewBundle(repo, v.Stores, nil, 0, core.BundleID(o.d.BundleID))
	if err := core.DownloadMetadata(context.Background(), b); err != nil {
		return res, fmt.Errorf("download metadata of committed bundle: %v", err)
	}
	res.entries = map[string]entryT{}
	for _, en := range b.BundleEntries {
		if _, dup := res.entries[en.NameWithPath]; dup {
			return res, fmt.Errorf("committed bundle lists %q twice", en.NameWithPath)
		}
		res.entries[en.NameWithPath] = entryT{en.Hash, en.Size}
	}
	return res, nil
}

func sharedVersionClass(vers map[string][]verT) bool {
	for _, vs := range vers {
		cnt := map[string]int{}
		for _, v := range vs {
			cnt[v.hash]++
		}
		if len(cnt) < 2 {
			continue
		}
		for _, n := range cnt {
			if n > 1 {
				return true
			}
		}
	}
	return false
}

// mainOnly drops the conflict/checkpoint entries when only the main tree is comparable (relaxed mode)
func mainOnly(m map[string]entryT, relaxed bool) map[string]entryT {
	if !relaxed {
		return m
	}
	out := map[string]entryT{}
	for p, e := range m {
		if !strings.HasPrefix(p, ".conflicts/") && !strings.HasPrefix(p, ".checkpoints/") {
			out[p] = e
		}
	}
	return out
}

func checkResult(mode model.ConflictMode, sp specT, r commitRes, shared bool, relaxed bool) error {
	if mode == model.ForbidConflicts {
		if sp.conflict && r.err == nil {
			return fmt.Errorf("forbid mode: commit succeeded although splits uploaded different content for a path")
		}
		if !sp.conflict && r.err != nil {
			return fmt.Errorf("forbid mode: commit failed although no two splits disagree: %v", r.err)
		}
		if r.err != nil {
			return nil
		}
	} else if r.err != nil {
		return fmt.Errorf("commit failed: %v", r.err)
	}
	prefix := ""
	switch mode {
	case model.EnableConflicts:
		prefix = ".conflicts/"
	case model.EnableCheckpoints:
		prefix = ".checkpoints/"
	}
	extras := map[string]entryT{}
	for p, e := range r.entries {
		if strings.HasPrefix(p, ".conflicts/") || strings.HasPrefix(p, ".checkpoints/") {
			extras[p] = e
			continue
		}
		w, ok := sp.main[p]
		if !ok {
			return fmt.Errorf("bundle holds %q which no split uploaded", p)
		}
		if w != e {
			return fmt.Errorf("main tree: %q has hash %s.., the version with the latest upload time is %s..", p, e.hash[:8], w.hash[:8])
		}
	}
	for p := range sp.main {
		if _, ok := r.entries[p]; !ok {
			return fmt.Errorf("main tree: %q missing from the bundle", p)
		}
	}
	if prefix == "" {
		if len(extras) != 0 {
			return fmt.Errorf("mode %s must not add conflict/checkpoint paths, got %v", mode, keys(extras))
		}
	} else {
		want := map[string]entryT{}
		for p, m := range sp.losers {
			for s, e := range m {
				want[prefix+s+"/"+p] = e
			}
		}
		for p, e := range extras {
			w, ok := want[p]
			if !ok && relaxed {
				// known finding: a copy identical to the winner may be filed; it must still be that split's upload
				rest := strings.TrimPrefix(p, prefix)
				i := strings.Index(rest, "/")
				if i < 0 {
					return fmt.Errorf("malformed entry %q", p)
				}
				if win, isPath := sp.main[rest[i+1:]]; !isPath || win != e {
					return fmt.Errorf("entry %q holds %s.. which is neither a losing version of that split nor the winner's content", p, e.hash[:8])
				}
				continue
			}
			if !ok {
				return fmt.Errorf("unexpected entry %q: that split did not upload a losing distinct version of the path (identical contents are not conflicts)", p)
			}
			if w != e {
				return fmt.Errorf("entry %q holds %s.., but that split uploaded %s..", p, e.hash[:8], w.hash[:8])
			}
		}
		if !shared {
			for p := range want {
				if _, ok := extras[p]; !ok {
					return fmt.Errorf("losing version not kept: %q missing (have %v)", p, keys(extras))
				}
			}
		} else {
			// several splits uploaded the same losing content: at least one copy of each distinct losing content must be kept
			for p, m := range sp.losers {
				byHash := map[string]bool{}
				for _, e := range m {
					byHash[e.hash] = false
				}
				for s, e := range m {
					if _, ok := extras[prefix+s+"/"+p]; ok {
						byHash[e.hash] = true
					}
				}
				for h, ok := range byHash {
					if !ok {
						return fmt.Errorf("losing version %s.. of %q is kept nowhere", h[:8], p)
					}
				}
			}
		}
	}
	hasExtras := len(extras) > 0
	if relaxed {
		return nil
	}
	if mode == model.EnableConflicts && (r.desc.HasConflicts != hasExtras || r.desc.HasCheckpoints) {
		return fmt.Errorf("HasConflicts=%v HasCheckpoints=%v but %d conflict entries", r.desc.HasConflicts, r.desc.HasCheckpoints, len(extras))
	}
	if mode == model.EnableCheckpoints && (r.desc.HasCheckpoints != hasExtras || r.desc.HasConflicts) {
		return fmt.Errorf("HasCheckpoints=%v HasConflicts=%v but %d checkpoint entries", r.desc.HasCheckpoints, r.desc.HasConflicts, len(extras))
	}
	if mode == model.IgnoreConflicts && (r.desc.HasConflicts || r.desc.HasCheckpoints) && !sp.conflict {
		return fmt.Errorf("ignore mode without disagreement reports HasConflicts=%v HasCheckpoints=%v", r.desc.HasConflicts, r.desc.HasCheckpoints)
	}
	return nil
}

func keys(m map[string]entryT) []string {
	var ks []string
	for k := range m {
		ks = append(ks, k)
	}
	sort.Strings(ks)
	return ks
}

func render(m map[string]entryT) string {
	var b strings.Builder
	for _, k := range keys(m) {
		fmt.Fprintf(&b, "%s=%s;", k, m[k].hash[:10])
	}
	return b.String()
}

var modes = []model.ConflictMode{model.EnableConflicts, model.EnableCheckpoints, model.IgnoreConflicts, model.ForbidConflicts}

type outcome struct {
	sigs       []string
	nontrivial bool
}

func runCase(c caseT) (outcome, error) {
	var out outcome
	sc := hx.NewScratch()
	defer sc.Close()
	env, diamondID, vers, err := prepare(sc, c)
	if err != nil {
		return out, err
	}
	sp := computeSpec(vers)
	shared := sharedVersionClass(vers)
	// Known finding: for the shared-version class the SET of conflict entries depends on the arrival order.
	// While it is listed, such cases are still run, but only what the finding does not touch is asserted:
	// the main tree (latest write wins, in every mode and order), forbid-mode verdicts, and that every
	// conflict entry is a version its split really uploaded.
	relaxed := shared && hx.Known(knownSharedVersion)
	if relaxed {
		stats.Count("relaxed_"+knownSharedVersion, 1)
	}
	out.nontrivial = sp.conflict
	shape := fmt.Sprintf("splits=%d conflictpaths=%d shared=%v", c.NSplits, len(sp.losers), shared)
	for _, mode := range modes {
		var first *commitRes
		for oi, order := range c.Orders {
			r, err := commitWith(env, diamondID, mode, order, c.Batch)
			if err != nil {
				return out, fmt.Errorf("mode %s order %v: %v", mode, order, err)
			}
			if err := checkResult(mode, sp, r, shared, relaxed); err != nil {
				return out, fmt.Errorf("mode %s, intended arrival order %v, achieved %v: %v", mode, order, r.achieved, err)
			}
			if first == nil {
				rr := r
				first = &rr
			} else if r.err == nil && first.err == nil && render(mainOnly(r.entries, relaxed)) != render(mainOnly(first.entries, relaxed)) {
				return out, fmt.Errorf("mode %s: the committed bundle depends on the order in which split file lists are read: order %v (achieved %v) gives %s ; order %v (achieved %v) gives %s",
					mode, c.Orders[0], first.achieved, render(first.entries), order, r.achieved, render(r.entries))
			}
			achievedCls := "inorder"
			if len(r.achieved) > 1 && !sort.StringsAreSorted(r.achieved) {
				achievedCls = "permuted"
			}
			_ = oi
			out.sigs = append(out.sigs, fmt.Sprintf("%s mode=%s arrival=%s", shape, mode, achievedCls))
		}
	}
	if c.NSplits == 1 {
		// single split == plain upload of the same files
		tree := hx.Tree{}
		for _, ver := range c.Versions {
			tree[paths[ver.Path]] = content(ver.Path, ver.V)
		}
		e2 := hx.NewEnv()
		v2 := e2.Actor("plain")
		if err := hx.CreateRepo(v2.Stores, repo); err != nil {
			return out, err
		}
		id, err := hx.UploadTree(sc, v2.Stores, repo, tree, 0)
		if err != nil {
			return out, fmt.Errorf("plain upload: %v", err)
		}
		b := hx.NewBundle(repo, v2.Stores, nil, 0, core.BundleID(id))
		if err := core.DownloadMetadata(context.Background(), b); err != nil {
			return out, err
		}
		plain := map[string]entryT{}
		for _, en := range b.BundleEntries {
			plain[en.NameWithPath] = entryT{en.Hash, en.Size}
		}
		if render(plain) != render(sp.main) {
			return out, fmt.Errorf("single-split diamond differs from a plain upload: %s vs %s", render(sp.main), render(plain))
		}
	}
	return out, nil
}

func TestProp(t *testing.T) {
	rapid.Check(t, func(t *rapid.T) {
		c := drawCase(t)
		hx.Journal(c)
		var out outcome
		err, hung, panicked := hx.Guard(240*time.Second, func() error {
			var e error
			out, e = runCase(c)
			return e
		})
		if hung || panicked || err != nil {
			t.Fatalf("%v (hung=%v panicked=%v)", err, hung, panicked)
		}
		for _, s := range out.sigs {
			stats.Case(s, out.nontrivial, func() interface{} { return c })
		}
		stats.Count("cases", 1)
		stats.Count(fmt.Sprintf("nsplits_%d", c.NSplits), 1)
	})
}

// TestKnownSharedVersion pins the listed finding: identical content from two splits plus a distinct
// newer version gives different conflict sets under different arrival orders
func TestKnownSharedVersion(t *testing.T) {
	c := caseT{NSplits: 3, Versions: []versionT{{0, 0, 1, 0}, {1, 0, 1, 1}, {2, 0, 2, 2}}, Orders: [][]int{{0, 1, 2}, {2, 0, 1}, {1, 2, 0}}}
	_, err := runCase(c)
	if err == nil {
		return
	}
	what := "diamond commit: when two splits upload identical content for a path that also has a distinct version, the set of .conflicts entries depends on the arrival order of the split file lists: " + err.Error()
	// only the listed symptom counts as the known finding: the set of conflict entries varies with the
	// arrival order (or a copy identical to the winner is filed); anything else is a fresh violation
	symptom := strings.Contains(err.Error(), "depends on the order in which split file lists are read") ||
		strings.Contains(err.Error(), "identical contents are not conflicts")
	if symptom && hx.Listed(knownSharedVersion) {
		stats.KnownFinding(knownSharedVersion, what)
		return
	}
	t.Fatalf("%s", what)
}

// TestRegressThreeSplits pins the earlier defect: loser filed under the newer file's split ID
func TestRegressThreeSplits(t *testing.T) {
	c := caseT{NSplits: 3, Versions: []versionT{{0, 0, 0, 0}, {1, 0, 1, 1}, {2, 0, 2, 2}}, Orders: [][]int{{0, 1, 2}, {2, 1, 0}, {1, 0, 2}}}
	if _, err := runCase(c); err != nil {
		t.Fatalf("%v", err)
	}
	// same content, refreshed time: (t0:h1 s0), (t2:h1 s1), (t1:h2 s2) -> main must be h1
	c = caseT{NSplits: 3, Versions: []versionT{{0, 0, 1, 0}, {1, 0, 1, 2}, {2, 0, 2, 1}}, Orders: [][]int{{0, 1, 2}}}
	if _, err := runCase(c); err != nil {
		t.Fatalf("%v", err)
	}
}

// TestRegressBigSplit crosses the 1000-entries-per-index-file boundary of split and bundle file lists:
// a single-split diamond of n files must commit to the same bundle as a plain upload of those files
func TestRegressBigSplit(t *testing.T) {
	for _, n := range []int{999, 1000, 1001} {
		sc := hx.NewScratch()
		tree := hx.Tree{}
		for i := 0; i < n; i++ {
			tree[fmt.Sprintf("d%d/f%04d", i%5, i)] = []byte(fmt.Sprintf("content %d", i%37))
		}
		env := hx.NewEnv()
		v := env.Actor("big")
		if err := hx.CreateRepo(v.Stores, repo); err != nil {
			t.Fatal(err)
		}
		d, err := hx.CreateDiamond(v.Stores, repo)
		if err != nil {
			t.Fatal(err)
		}
		dir := sc.Dir("split")
		if err := tree.Write(dir); err != nil {
			t.Fatal(err)
		}
		if _, err := hx.SplitAdd(v.Stores, repo, d.DiamondID, "big-split", dir); err != nil {
			t.Fatalf("n=%d split add: %v", n, err)
		}
		dd, err := hx.Commit(v.Stores, repo, d.DiamondID, model.EnableConflicts)
		if err != nil {
			t.Fatalf("n=%d commit: %v", n, err)
		}
		plainID, err := hx.UploadTree(sc, v.Stores, repo, tree, 0)
		if err != nil {
			t.Fatalf("n=%d plain upload: %v", n, err)
		}
		read := func(id string) map[string]entryT {
			b := hx.NewBundle(repo, v.Stores, nil, 0, core.BundleID(id))
			if err := core.DownloadMetadata(context.Background(), b); err != nil {
				t.Fatalf("n=%d: bundle %s unreadable: %v", n, id, err)
			}
			out := map[string]entryT{}
			for _, e := range b.BundleEntries {
				out[e.NameWithPath] = entryT{e.Hash, e.Size}
			}
			return out
		}
		got, want := read(dd.BundleID), read(plainID)
		if len(want) != n {
			t.Fatalf("n=%d: plain upload lists %d entries", n, len(want))
		}
		if render(got) != render(want) {
			t.Fatalf("n=%d: single-split diamond lists %d entries, the plain upload of the same files %d", n, len(got), len(want))
		}
		stats.Case(fmt.Sprintf("bigsplit n=%d", n), true, func() interface{} { return fmt.Sprintf("single split of %d files vs plain upload", n) })
		sc.Close()
	}
}
