package c06

import (
	"bytes"
	"context"
	"errors"
	"fmt"
	"os"
	"sort"
	"strings"
	"testing"
	"time"

	"github.com/oneconcern/datamon/pkg/cafs"
	"github.com/oneconcern/datamon/pkg/core"
	"github.com/oneconcern/datamon/pkg/model"
	"pgregory.net/rapid"

	"verifharness/evid"
	"verifharness/hx"
	"verifharness/memstore"
)

var stats = evid.New("C06", "rapid histories of <= 8 operations over one repository (plus an untouched second repository): bundle upload (small tree, entries per index file in {1,2,1000}, bundle ID position drawn so that interrupted uploads sort before/between/after committed bundles), label set, label delete, diamond (1-2 splits) + commit; each operation optionally crashes the whole process at its n-th store write (n in 1..W, W measured by a dry run on a cloned store; before or after the write lands). After every operation and again after the retried operation a fresh process observes: ListBundles at page sizes {1,2,1024}, GetLatestBundle, Exists and Publish of every committed bundle, labels, and generation/bytes of every metadata object of committed bundles. Thorough additionally enumerates EVERY crash index x {before,after} of each crashing operation on clones. Non-trivial and distinct by (operation kind, crash position class: first write / before descriptor / descriptor / after descriptor, landed or not, #prior committed bundles class, leftover sorts last or not).")

func TestMain(m *testing.M) {
	code := m.Run()
	stats.Flush()
	os.Exit(code)
}

type crashT struct {
	Sel       int  `json:"sel"` // crash index = 1 + Sel % W
	Land      bool `json:"land"`
	Transient bool `json:"transient"`          // a single failed store write (the process goes on) instead of a crash
	NoRetry   bool `json:"no_retry"`           // the interrupted operation is not retried (leftovers accumulate)
	FromEnd   int  `json:"from_end,omitempty"` // pinned cases: crash index = W - FromEnd
	SameID    bool `json:"same_id,omitempty"`  // uploads: the retry re-uses the bundle ID (preserved ID) with changed source data
}

type opT struct {
	Kind   string        `json:"kind"` // upload | label | dellabel | diamond
	Tree   hx.TreeSpec   `json:"tree,omitempty"`
	EPF    uint          `json:"epf,omitempty"`
	IDSec  int           `json:"id_sec,omitempty"`
	Label  string        `json:"label,omitempty"`
	Target int           `json:"target,omitempty"`
	Splits []hx.TreeSpec `json:"splits,omitempty"`
	Crash  *crashT       `json:"crash,omitempty"`
	// ViaEntries (upload): the blobs are stored first and the bundle is then committed from a list of entries with
	// Bundle.UploadBundleEntries - the commit path of the mutable mount and of library callers
	ViaEntries bool `json:"via_entries,omitempty"`
}

const repo = "repo"
const other = "repo-other"

func drawOps(t *rapid.T) []opT {
	n := rapid.IntRange(2, 8).Draw(t, "nops")
	var ops []opT
	for i := 0; i < n; i++ {
		op := opT{Kind: rapid.SampledFrom([]string{"upload", "upload", "upload", "label", "dellabel", "diamond"}).Draw(t, "kind")}
		if i == 0 {
			op.Kind = "upload"
		}
		switch op.Kind {
		case "upload":
			op.Tree = hx.GenTree(t, 4096, 0, 4, 2, false, "tree")
			op.EPF = rapid.SampledFrom([]uint{1, 2, 1000}).Draw(t, "epf")
			op.IDSec = rapid.IntRange(1, 60).Draw(t, "idsec")
			if rapid.IntRange(0, 3).Draw(t, "via_entries") == 0 {
				op.ViaEntries, op.EPF = true, 1000
			}
		case "label", "dellabel":
			op.Label = rapid.SampledFrom([]string{"l1", "l2"}).Draw(t, "label")
			op.Target = rapid.IntRange(0, 7).Draw(t, "target")
		case "diamond":
			ns := rapid.IntRange(1, 2).Draw(t, "nsplits")
			for s := 0; s < ns; s++ {
				op.Splits = append(op.Splits, hx.GenTree(t, 4096, 1, 3, 1, false, "split"))
			}
		}
		if op.Kind != "dellabel" && rapid.IntRange(0, 9).Draw(t, "docrash") < 6 {
			op.Crash = &crashT{Sel: rapid.IntRange(0, 999).Draw(t, "crashsel"), Land: rapid.Bool().Draw(t, "land"),
				Transient: rapid.IntRange(0, 3).Draw(t, "transient") == 0, NoRetry: rapid.IntRange(0, 2).Draw(t, "noretry") == 0,
				SameID: rapid.IntRange(0, 3).Draw(t, "sameid") == 0}
		}
		if op.ViaEntries && op.Crash != nil {
			// a commit from entries has no preserved-ID retry (the mount draws a random ID; UploadBundleEntries has no
			// existence check of its own): only plain retries under a new ID
			op.Crash.SameID = false
		}
		ops = append(ops, op)
	}
	return ops
}

// ---- model

type bundleM struct {
	epf  uint
	tree hx.Tree
	objs map[string]string // metadata key -> "gen:bytes" at first visibility
}

type world struct {
	sc        *hx.Scratch
	env       *hx.Env
	committed map[string]*bundleM
	labels    map[string]string
	otherSnap string
	seq       int
	diamonds  int
}

func (w *world) clone() *world {
	nw := &world{sc: w.sc, env: w.env.Clone(), committed: map[string]*bundleM{}, labels: map[string]string{}, otherSnap: w.otherSnap, seq: w.seq + 1000, diamonds: w.diamonds}
	for k, v := range w.committed {
		nw.committed[k] = v
	}
	for k, v := range w.labels {
		nw.labels[k] = v
	}
	return nw
}

func descriptorKeys(be *memstore.Backend, r string) map[string]bool {
	out := map[string]bool{}
	for _, k := range be.RawKeys() {
		if strings.HasPrefix(k, "bundles/"+r+"/") && strings.HasSuffix(k, "/bundle.yaml") {
			out[strings.Split(k, "/")[2]] = true
		}
	}
	return out
}

func bundleObjs(be *memstore.Backend, r, id string) map[string]string {
	out := map[string]string{}
	for _, k := range be.RawKeys() {
		if strings.HasPrefix(k, "bundles/"+r+"/"+id+"/") {
			o, _ := be.RawObject(k)
			out[k] = fmt.Sprintf("%d:%x", o.Gen, o.Data)
		}
	}
	return out
}

func snapRepo(env *hx.Env, r string) string {
	var b strings.Builder
	for _, be := range []*memstore.Backend{env.Meta, env.VMeta} {
		for _, k := range be.RawKeys() {
			if strings.Contains(k, "/"+r+"/") {
				o, _ := be.RawObject(k)
				fmt.Fprintf(&b, "%s=%d:%x\n", k, o.Gen, o.Data)
			}
		}
	}
	return b.String()
}

// splitTree prefixes the paths of split s so splits never conflict (conflicts are C11's subject)
func splitTree(spec hx.TreeSpec, s int) hx.Tree {
	out := hx.Tree{}
	for p, d := range spec.Tree() {
		out[fmt.Sprintf("s%d/%s", s, p)] = d
	}
	return out
}

// exec runs one operation as the given actor. It returns the operation error.
// For "diamond" the split uploads are done by a separate, never crashing actor: only the commit crashes.
func (w *world) exec(op opT, v *hx.Views, prep *hx.Views, bundleID string, diamondID string) error {
	ctx := context.Background()
	switch op.Kind {
	case "upload":
		dir := w.sc.Dir("src")
		if err := op.Tree.Tree().Write(dir); err != nil {
			return fmt.Errorf("harness: %v", err)
		}
		if op.ViaEntries {
			// another, undisturbed party of the same process has already stored the blobs (as the mount does while
			// files are written); only the commit of the entries is subject to the crash
			bv := w.env.Actor("blobs")
			fs, err := cafs.New(cafs.LeafSize(op.Tree.Leaf), cafs.Backend(bv.Blob), cafs.Logger(hx.Nop), cafs.CacheSize(4*int(op.Tree.Leaf)))
			if err != nil {
				return fmt.Errorf("harness: %v", err)
			}
			tree := op.Tree.Tree().Uploadable()
			b := hx.NewBundle(repo, v.Stores, nil, op.Tree.Leaf, core.BundleID(bundleID))
			b.BundleDescriptor.ID = bundleID // what InitializeBundleID does for the mount, with an ID the harness chose
			for _, p := range tree.Paths() {
				res, err := fs.Put(ctx, bytes.NewReader(tree[p]))
				if err != nil {
					return fmt.Errorf("harness: storing blobs: %v", err)
				}
				b.BundleEntries = append(b.BundleEntries, model.BundleEntry{Hash: res.Key.String(), NameWithPath: p, FileMode: 0o644, Size: uint64(len(tree[p]))})
			}
			return b.UploadBundleEntries(ctx)
		}
		b := hx.NewBundle(repo, v.Stores, hx.Local(dir), op.Tree.Leaf, core.BundleID(bundleID), core.ConcurrentFileUploads(4))
		return core.VerifUpload(ctx, b, op.EPF, nil)
	case "label":
		ids := w.sortedIDs()
		if len(ids) == 0 {
			return nil
		}
		id := ids[op.Target%len(ids)]
		b := hx.NewBundle(repo, v.Stores, nil, 0, core.BundleID(id))
		l := core.NewLabel(core.LabelDescriptor(model.NewLabelDescriptor(model.LabelName(op.Label), model.LabelContributor(model.Contributor{Name: "v", Email: "v@example.com"}))))
		return l.UploadDescriptor(ctx, b)
	case "dellabel":
		if _, ok := w.labels[op.Label]; !ok {
			return nil
		}
		return core.DeleteLabel(repo, v.Stores, op.Label)
	case "diamond":
		_, err := hx.Commit(v.Stores, repo, diamondID, model.EnableConflicts)
		return err
	}
	return fmt.Errorf("unknown op")
}

func (w *world) sortedIDs() []string {
	ids := make([]string, 0, len(w.committed))
	for id := range w.committed {
		ids = append(ids, id)
	}
	sort.Strings(ids)
	return ids
}

// prepareDiamond creates a diamond with its splits (no crash) and returns its ID and the expected tree
func (w *world) prepareDiamond(op opT) (string, hx.Tree, error) {
	v := w.env.Actor(fmt.Sprintf("prep%d", w.seq))
	d, err := hx.CreateDiamond(v.Stores, repo)
	if err != nil {
		return "", nil, fmt.Errorf("create diamond: %v", err)
	}
	want := hx.Tree{}
	for s, spec := range op.Splits {
		tr := splitTree(spec, s)
		dir := w.sc.Dir("split")
		if err := tr.Write(dir); err != nil {
			return "", nil, err
		}
		if _, err := hx.SplitAdd(v.Stores, repo, d.DiamondID, fmt.Sprintf("split-%d", s), dir); err != nil {
			return "", nil, fmt.Errorf("split add: %v", err)
		}
		for p, c := range tr {
			want[p] = c
		}
	}
	return d.DiamondID, want, nil
}

// observe checks everything a fresh process can see against the model
func (w *world) observe(when string) error {
	w.seq++
	v := w.env.Actor(fmt.Sprintf("obs%d", w.seq))
	ctx := context.Background()
	ids := w.sortedIDs()
	for _, bs := range []int{1, 2, 1024} {
		got, err := core.ListBundles(repo, v.Stores, core.BatchSize(bs))
		if err != nil {
			return fmt.Errorf("%s: ListBundles(batch=%d): %v", when, bs, err)
		}
		var gids []string
		for _, b := range got {
			gids = append(gids, b.ID)
		}
		if strings.Join(gids, ",") != strings.Join(ids, ",") {
			return fmt.Errorf("%s: ListBundles(batch=%d) = %v, committed bundles are %v", when, bs, gids, ids)
		}
	}
	latest, err := core.GetLatestBundle(repo, v.Stores)
	if len(ids) == 0 {
		if err == nil {
			return fmt.Errorf("%s: GetLatestBundle returned %q although no bundle is committed", when, latest)
		}
	} else {
		if err != nil {
			return fmt.Errorf("%s: GetLatestBundle: %v", when, err)
		}
		if latest != ids[len(ids)-1] {
			return fmt.Errorf("%s: GetLatestBundle = %s, the most recent committed bundle is %s (committed: %v)", when, latest, ids[len(ids)-1], ids)
		}
	}
	for _, id := range ids {
		bm := w.committed[id]
		b := hx.NewBundle(repo, v.Stores, nil, 0, core.BundleID(id))
		ok, err := b.Exists(ctx)
		if err != nil || !ok {
			return fmt.Errorf("%s: Exists(%s) = %v, %v", when, id, ok, err)
		}
		dst := w.sc.Dir("dst")
		db := hx.NewBundle(repo, v.Stores, hx.Local(dst), 0, core.BundleID(id))
		if err := core.VerifPublish(ctx, db, bm.epf, func(string) (bool, error) { return true, nil }); err != nil {
			return fmt.Errorf("%s: download of committed bundle %s: %v", when, id, err)
		}
		got, err := hx.ReadTree(dst)
		if err != nil {
			return err
		}
		if d := hx.DiffTrees(got.WithoutMeta(), bm.tree); d != "" {
			return fmt.Errorf("%s: committed bundle %s downloads differently: %s", when, id, d)
		}
		now := bundleObjs(w.env.Meta, repo, id)
		if bm.objs == nil {
			bm.objs = now
		} else {
			if len(now) != len(bm.objs) {
				return fmt.Errorf("%s: metadata objects of committed bundle %s changed: %d -> %d objects", when, id, len(bm.objs), len(now))
			}
			for k, v0 := range bm.objs {
				if now[k] != v0 {
					return fmt.Errorf("%s: metadata object %s of a committed bundle was altered", when, k)
				}
			}
		}
	}
	// labels
	got, err := core.ListLabels(repo, v.Stores)
	if err != nil {
		return fmt.Errorf("%s: ListLabels: %v", when, err)
	}
	if len(got) != len(w.labels) {
		return fmt.Errorf("%s: ListLabels returned %d labels, model has %v", when, len(got), w.labels)
	}
	for _, l := range got {
		if w.labels[l.Name] != l.BundleID {
			return fmt.Errorf("%s: label %s -> %s, want %s", when, l.Name, l.BundleID, w.labels[l.Name])
		}
	}
	for name, id := range w.labels {
		l := core.NewLabel(core.LabelDescriptor(model.NewLabelDescriptor(model.LabelName(name))))
		b := hx.NewBundle(repo, v.Stores, nil, 0)
		if err := l.DownloadDescriptor(ctx, b, true); err != nil {
			return fmt.Errorf("%s: get label %s: %v", when, name, err)
		}
		if l.Descriptor.BundleID != id {
			return fmt.Errorf("%s: label %s resolves to %s, want %s", when, name, l.Descriptor.BundleID, id)
		}
	}
	if s := snapRepo(w.env, other); s != w.otherSnap {
		return fmt.Errorf("%s: the other repository changed", when)
	}
	return nil
}

// account updates the model after an operation (crashed or not) from what landed
func (w *world) account(op opT, opErr error, crashed bool, bundleID string, before map[string]bool, want hx.Tree, labelTarget string) error {
	switch op.Kind {
	case "upload":
		landed := descriptorKeys(w.env.Meta, repo)[bundleID]
		if opErr == nil && !landed {
			return fmt.Errorf("upload returned success but no descriptor exists")
		}
		if landed {
			w.committed[bundleID] = &bundleM{epf: op.EPF, tree: op.Tree.Tree().Uploadable()}
		}
	case "diamond":
		after := descriptorKeys(w.env.Meta, repo)
		n := 0
		for id := range after {
			if !before[id] {
				w.committed[id] = &bundleM{epf: 1000, tree: want}
				n++
			}
		}
		if opErr == nil && n != 1 {
			return fmt.Errorf("successful commit created %d bundles", n)
		}
		if n > 1 {
			return fmt.Errorf("one commit attempt created %d bundles", n)
		}
	case "label":
		if labelTarget == "" {
			return nil
		}
		raw, ok := w.env.VMeta.RawGet(model.GetArchivePathToLabel(repo, op.Label))
		if opErr == nil && !ok {
			return fmt.Errorf("label set returned success but no label object exists")
		}
		if ok && bytes.Contains(raw, []byte(labelTarget)) {
			if opErr == nil || crashed {
				w.labels[op.Label] = labelTarget
			}
		}
	case "dellabel":
		if opErr == nil {
			delete(w.labels, op.Label)
		}
	}
	return nil
}

type crashInfo struct {
	w         int
	n         int
	land      bool
	transient bool
	posClass  string
}

// step executes one operation (with optional crash + retry) on world w
func (w *world) step(i int, op opT, enumerate bool) (sigs []string, err error) {
	w.seq++
	bundleID := hx.KSUID(op.IDSec, uint64(w.seq))
	labelTarget := ""
	if op.Kind == "label" {
		ids := w.sortedIDs()
		if len(ids) > 0 {
			labelTarget = ids[op.Target%len(ids)]
		}
	}
	var diamondID string
	var want hx.Tree
	if op.Kind == "diamond" {
		diamondID, want, err = w.prepareDiamond(op)
		if err != nil {
			return nil, err
		}
	}
	run := func(ww *world, crash *crashInfo, bid string) (error, bool, error) {
		ww.seq++
		v := ww.env.Actor(fmt.Sprintf("op%d-%d", i, ww.seq))
		if crash != nil && crash.transient {
			v.Proc.FailAt(crash.n, crash.land)
		} else if crash != nil {
			v.Proc.CrashAt(crash.n, crash.land)
		}
		before := descriptorKeys(ww.env.Meta, repo)
		opErr := ww.exec(op, v, nil, bid, diamondID)
		crashed := v.Proc.Crashed() || v.Proc.Failed()
		if crash != nil && !crash.transient && crashed && opErr == nil && !(crash.land) {
			return nil, crashed, fmt.Errorf("operation %s reported success although write %d did not land", op.Kind, crash.n)
		}
		if crash == nil && opErr != nil {
			return opErr, false, fmt.Errorf("operation %s failed without any fault: %v", op.Kind, opErr)
		}
		if crashed && opErr != nil && !errors.Is(opErr, memstore.ErrCrashed) && !strings.Contains(opErr.Error(), "crashed") {
			// some datamon layers re-wrap errors as text; accept any error after a crash
			_ = opErr
		}
		return opErr, crashed, ww.account(op, opErr, crashed, bid, before, want, labelTarget)
	}
	if op.Crash == nil {
		if _, _, err := run(w, nil, bundleID); err != nil {
			return nil, err
		}
		return nil, w.observe(fmt.Sprintf("after op %d (%s)", i, op.Kind))
	}
	// dry run on a clone to measure W and the position of the descriptor write
	dry := w.clone()
	dv := dry.env.Actor("dry")
	if e := dry.exec(op, dv, nil, bundleID, diamondID); e != nil {
		return nil, fmt.Errorf("dry run of %s failed: %v", op.Kind, e)
	}
	W := dv.Proc.MutCount()
	if W == 0 {
		// nothing to crash (e.g. label on an empty repo)
		if _, _, err := run(w, nil, bundleID); err != nil {
			return nil, err
		}
		return nil, w.observe(fmt.Sprintf("after op %d (%s)", i, op.Kind))
	}
	descIdx := 0
	for k, l := range dv.Proc.MutLog() {
		if strings.HasSuffix(l, "/bundle.yaml") {
			descIdx = k + 1
		}
	}
	transient := op.Crash.Transient
	classify := func(n int, land bool) string {
		pos := "mid"
		switch {
		case descIdx != 0 && n == descIdx:
			pos = "descriptor"
		case descIdx != 0 && n > descIdx:
			pos = "after-descriptor"
		case n == 1:
			pos = "first"
		case descIdx != 0 && n == descIdx-1:
			pos = "last-before-descriptor"
		}
		return fmt.Sprintf("%s/%s/land=%v/transient=%v", op.Kind, pos, land, transient)
	}
	prior := len(w.committed)
	priorCls := "0"
	if prior == 1 {
		priorCls = "1"
	} else if prior > 1 {
		priorCls = "2+"
	}
	leftoverLast := op.Kind == "upload" && prior > 0 && bundleID > w.sortedIDs()[prior-1]
	mkSig := func(n int, land bool) string {
		return fmt.Sprintf("%s prior=%s leftoverLast=%v", classify(n, land), priorCls, leftoverLast)
	}
	if enumerate {
		for n := 1; n <= W; n++ {
			for _, land := range []bool{false, true} {
				cw := w.clone()
				ci := &crashInfo{w: W, n: n, land: land, transient: transient}
				if _, _, err := run(cw, ci, bundleID); err != nil {
					return nil, fmt.Errorf("[enumerated crash %d/%d land=%v] %v", n, W, land, err)
				}
				if err := cw.observe(fmt.Sprintf("after op %d (%s) crashed at write %d/%d land=%v [enumerated]", i, op.Kind, n, W, land)); err != nil {
					return nil, err
				}
				sigs = append(sigs, mkSig(n, land))
			}
		}
	}
	n := 1 + op.Crash.Sel%W
	if op.Crash.FromEnd > 0 && W-op.Crash.FromEnd >= 1 {
		n = W - op.Crash.FromEnd
	}
	ci := &crashInfo{w: W, n: n, land: op.Crash.Land, transient: transient}
	if _, _, err := run(w, ci, bundleID); err != nil {
		return nil, err
	}
	if err := w.observe(fmt.Sprintf("after op %d (%s) crashed at write %d/%d land=%v [%s]", i, op.Kind, n, W, op.Crash.Land, classify(n, op.Crash.Land))); err != nil {
		return nil, err
	}
	sigs = append(sigs, mkSig(n, op.Crash.Land))
	if op.Crash.NoRetry {
		return sigs, nil
	}
	// retry the operation (a new process; uploads get a new bundle ID, as the CLI would)
	w.seq++
	retryID := hx.KSUID(op.IDSec, uint64(w.seq))
	if op.Kind == "upload" && op.Crash.SameID {
		// the retry preserves the bundle ID while the source data changed in between: it is either refused
		// (the ID is taken / left-overs are in the way) or it publishes exactly the retried content
		op2 := op
		op2.Tree = hx.TreeSpec{Leaf: op.Tree.Leaf}
		for _, f := range op.Tree.Files {
			f.Content.Seed += 1000
			if f.Content.Size == 0 {
				f.Content.Size = 5
			}
			op2.Tree.Files = append(op2.Tree.Files, f)
		}
		op2.Tree.Files = append(op2.Tree.Files, hx.FileSpec{Path: "added-by-retry", Content: hx.ContentSpec{Leaf: op.Tree.Leaf, Size: 7, Seed: 77}})
		_, already := w.committed[bundleID]
		w.seq++
		v := w.env.Actor(fmt.Sprintf("retry-sameid%d", w.seq))
		opErr := w.exec(op2, v, nil, bundleID, diamondID)
		landed := descriptorKeys(w.env.Meta, repo)[bundleID]
		switch {
		case already && opErr == nil:
			return nil, fmt.Errorf("retry with the ID of an already committed bundle %s succeeded", bundleID)
		case already:
			// refused: the committed bundle stays as it is (checked by observe)
		case opErr == nil && !landed:
			return nil, fmt.Errorf("retry with preserved ID returned success but no descriptor exists")
		case landed:
			w.committed[bundleID] = &bundleM{epf: op.EPF, tree: op2.Tree.Tree().Uploadable()}
		}
		return sigs, w.observe(fmt.Sprintf("after same-ID retry of op %d (upload, first attempt crashed at write %d/%d land=%v)", i, n, W, op.Crash.Land))
	}
	if op.Kind == "diamond" {
		// a commit that crashed after its descriptor landed leaves the diamond committable: the retry
		// may succeed (second bundle: C12's subject) or be refused once diamond-done landed
		w.seq++
		v := w.env.Actor(fmt.Sprintf("retry%d", w.seq))
		before := descriptorKeys(w.env.Meta, repo)
		opErr := w.exec(op, v, nil, retryID, diamondID)
		if opErr != nil && n <= descIdx && !(n == descIdx && op.Crash.Land) {
			return nil, fmt.Errorf("retried commit failed although the first attempt never wrote its descriptor: %v", opErr)
		}
		if err := w.account(op, opErr, false, retryID, before, want, labelTarget); err != nil && opErr == nil {
			return nil, fmt.Errorf("retry: %v", err)
		}
	} else {
		if _, _, err := run(w, nil, retryID); err != nil {
			return nil, fmt.Errorf("retry: %v", err)
		}
	}
	return sigs, w.observe(fmt.Sprintf("after retry of op %d (%s)", i, op.Kind))
}

func runHistory(ops []opT, enumerate bool) ([]string, error) {
	sc := hx.NewScratch()
	defer sc.Close()
	w := &world{sc: sc, env: hx.NewEnv(), committed: map[string]*bundleM{}, labels: map[string]string{}}
	v := w.env.Actor("init")
	if err := hx.CreateRepo(v.Stores, repo); err != nil {
		return nil, err
	}
	if err := hx.CreateRepo(v.Stores, other); err != nil {
		return nil, err
	}
	if _, err := hx.UploadTree(sc, v.Stores, other, hx.Tree{"x": []byte("other")}, 4096, core.BundleID(hx.KSUID(5, 99999))); err != nil {
		return nil, err
	}
	w.otherSnap = snapRepo(w.env, other)
	var sigs []string
	for i, op := range ops {
		s, err := w.step(i, op, enumerate)
		if err != nil {
			return sigs, err
		}
		sigs = append(sigs, s...)
	}
	return sigs, nil
}

func TestProp(t *testing.T) {
	rapid.Check(t, func(t *rapid.T) {
		ops := drawOps(t)
		hx.Journal(ops)
		var sigs []string
		err, hung, panicked := hx.Guard(180*time.Second, func() error {
			var e error
			sigs, e = runHistory(ops, hx.Thorough())
			return e
		})
		if hung || panicked || err != nil {
			t.Fatalf("%v (hung=%v panicked=%v)", err, hung, panicked)
		}
		for _, s := range sigs {
			stats.Case(s, true, func() interface{} { return map[string]interface{}{"crash_class": s, "history": ops} })
		}
		if len(sigs) == 0 {
			stats.Case("no-crash", false, nil)
		}
		stats.Count("histories", 1)
		stats.Count("crash_points", len(sigs))
	})
}

// TestRegressLeftoverSortsLast pins: an upload interrupted before its descriptor, whose ID is the
// largest, must not become the latest bundle
func TestRegressLeftoverSortsLast(t *testing.T) {
	ops := []opT{
		{Kind: "upload", Tree: hx.TreeSpec{Leaf: 4096, Files: []hx.FileSpec{{Path: "a", Content: hx.ContentSpec{Leaf: 4096, Size: 10, Seed: 1}}}}, EPF: 1000, IDSec: 10},
		{Kind: "upload", Tree: hx.TreeSpec{Leaf: 4096, Files: []hx.FileSpec{{Path: "b", Content: hx.ContentSpec{Leaf: 4096, Size: 10, Seed: 2}}}}, EPF: 1000, IDSec: 50, Crash: &crashT{Sel: 2, Land: true}},
	}
	// find the crash index that lands the file list but not the descriptor: enumerate all
	if _, err := runHistory(ops, true); err != nil {
		t.Fatalf("%v", err)
	}
}

// TestRegressConsecutiveLeftovers pins: several interrupted, never retried uploads in a row whose IDs all
// sort after the last committed bundle (each died after its index file landed, before the descriptor)
func TestRegressConsecutiveLeftovers(t *testing.T) {
	file := func(p string, seed uint64) hx.TreeSpec {
		return hx.TreeSpec{Leaf: 4096, Files: []hx.FileSpec{{Path: p, Content: hx.ContentSpec{Leaf: 4096, Size: 10, Seed: seed}}}}
	}
	ops := []opT{
		{Kind: "upload", Tree: file("a", 1), EPF: 1000, IDSec: 10},
		{Kind: "upload", Tree: file("b", 2), EPF: 1000, IDSec: 40, Crash: &crashT{Land: true, NoRetry: true, FromEnd: 1}},
		{Kind: "upload", Tree: file("c", 3), EPF: 1000, IDSec: 50, Crash: &crashT{Land: true, NoRetry: true, FromEnd: 1}},
		{Kind: "upload", Tree: file("d", 4), EPF: 1, IDSec: 55, Crash: &crashT{Land: true, NoRetry: true, FromEnd: 1}},
		{Kind: "label", Label: "l1", Target: 0},
	}
	if _, err := runHistory(ops, false); err != nil {
		t.Fatalf("%v", err)
	}
}

// TestRegressLabelMoveCrash pins: moving or re-setting an existing label, interrupted at every one of its
// store writes (landed or not), never loses the label: it resolves to the old or to the new bundle
func TestRegressLabelMoveCrash(t *testing.T) {
	file := func(p string, seed uint64) hx.TreeSpec {
		return hx.TreeSpec{Leaf: 4096, Files: []hx.FileSpec{{Path: p, Content: hx.ContentSpec{Leaf: 4096, Size: 10, Seed: seed}}}}
	}
	ops := []opT{
		{Kind: "upload", Tree: file("a", 1), EPF: 1000, IDSec: 10},
		{Kind: "upload", Tree: file("b", 2), EPF: 1000, IDSec: 20},
		{Kind: "label", Label: "l1", Target: 0},
		{Kind: "label", Label: "l2", Target: 0},
		{Kind: "label", Label: "l1", Target: 1, Crash: &crashT{Sel: 0, Land: true}},  // move, every crash point enumerated
		{Kind: "label", Label: "l2", Target: 0, Crash: &crashT{Sel: 1, Land: false}}, // re-set to the same bundle
	}
	sigs, err := runHistory(ops, true)
	if err != nil {
		t.Fatalf("%v", err)
	}
	for _, s := range sigs {
		s := s
		stats.Case("pinned label move "+s, true, func() interface{} { return s })
	}
}
