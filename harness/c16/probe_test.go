package c16

import (
	"bytes"
	"context"
	"fmt"
	"os"
	"testing"

	"github.com/oneconcern/datamon/pkg/storage/localfs"
	"github.com/spf13/afero"

	"verifharness/hx"
)

func TestProbe(t *testing.T) {
	dir, _ := os.MkdirTemp("/dev/shm", "c16-probe-")
	defer os.RemoveAll(dir)
	s := localfs.New(afero.NewBasePathFs(afero.NewOsFs(), dir), localfs.WithRetry(false), localfs.WithLogger(hx.Nop))
	ctx := context.Background()
	for _, k := range []string{"a/x", "ab/y", "a-b/z", "a.b/w", "b", "a/a/q", "a/ab/r"} {
		if err := s.Put(ctx, k, bytes.NewReader([]byte(k)), true); err != nil {
			t.Fatal(err)
		}
	}
	ks, err := s.Keys(ctx)
	fmt.Println("Keys", ks, err)
	for _, p := range []string{"", "a", "a/", "a/a", "a/a/", "b", "b/", "a/x/", "zz", "zz/", "A"} {
		for _, d := range []string{"", "/"} {
			err, _, pan := hx.Guard(5e9, func() error {
				ks, next, err := s.KeysPrefix(ctx, "", p, d, 1000)
				fmt.Printf("prefix %q delim %q -> %q next=%q err=%v\n", p, d, ks, next, err)
				return nil
			})
			if pan {
				fmt.Printf("prefix %q delim %q PANIC %v\n", p, d, err)
			}
		}
	}
	for _, p := range []string{"zz/y", "a/zz/y", "zz/y/"} {
		err, _, pan := hx.Guard(5e9, func() error {
			ks, next, err := s.KeysPrefix(ctx, "", p, "", 1000)
			fmt.Printf("prefix %q -> %q next=%q err=%v\n", p, ks, next, err)
			return nil
		})
		fmt.Println(p, err, pan)
	}
	// stale cache
	ks, next, err := s.KeysPrefix(ctx, "", "a", "", 2)
	fmt.Println("abandon", ks, next, err)
	_ = s.Delete(ctx, "a/x")
	ks, next, err = s.KeysPrefix(ctx, "", "a", "/", 1000)
	fmt.Println("after", ks, next, err)
	// misc
	h, err := s.Has(ctx, "a")
	fmt.Println("Has dir", h, err)
	h, err = s.Has(ctx, "b/x")
	fmt.Println("Has below file", h, err)
	_, err = s.Get(ctx, "nope")
	fmt.Println("Get missing", err)
	_, err = s.GetAttr(ctx, "nope")
	fmt.Println("GetAttr missing", err)
	ra, err := s.GetAt(ctx, "nope")
	fmt.Println("GetAt missing", ra, ra == nil, err)
	fmt.Println("Touch missing", s.Touch(ctx, "nope"))
	fmt.Println("Delete missing", s.Delete(ctx, "nope"))
	fmt.Println("Delete dir", s.Delete(ctx, "ab"))
	fmt.Println("Put excl existing", s.Put(ctx, "b", bytes.NewReader([]byte("zz")), true))
	fmt.Println("Put over dir", s.Put(ctx, "a", bytes.NewReader([]byte("zz")), false))
	fmt.Println("Put below file", s.Put(ctx, "b/c", bytes.NewReader([]byte("zz")), false))
	fmt.Println("Clear", s.Clear(ctx))
	ks, err = s.Keys(ctx)
	fmt.Println("Keys after clear", ks, err)
}
