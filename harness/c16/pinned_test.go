package c16

import (
	"bytes"
	"context"
	"fmt"
	"github.com/oneconcern/datamon/pkg/storage/localfs"
	"github.com/spf13/afero"
	"io"
	"strings"
	"testing"
	"time"

	"github.com/oneconcern/datamon/pkg/storage"

	"verifharness/hx"
)

// ---- pinned regression cases (plain Go, no library)

func TestRegressBasicHistory(t *testing.T) {
	c := caseT{
		Keys: []string{"a/b", "ab/b", "b", "A/a/a/a"},
		Ops: []opT{
			{Kind: "put", Key: 0, Seed: 1, Size: 10, Src: "writerto"},
			{Kind: "putx", Key: 1, Seed: 2, Size: 0, Src: "plain"},
			{Kind: "putx", Key: 1, Seed: 3, Size: 5, Src: "plain"}, // refused, bytes stay
			{Kind: "put", Key: 2, Seed: 4, Size: 70000, Src: "plain"},
			{Kind: "put", Key: 2, Seed: 5, Size: 3, Src: "chunked"}, // shorter overwrite
			{Kind: "put", Key: 3, Seed: 6, Size: 33, Src: "writerto"},
			{Kind: "getat", Key: 3, Off: 30, Len: 10},
			{Kind: "getattr", Key: 2},
			{Kind: "hasdir", Dir: "A/a"},
			{Kind: "keys"},
			{Kind: "list", Prefix: "", Delim: "/", Count: 1},
			{Kind: "list", Prefix: "A/", Delim: "/", Count: 2},
			{Kind: "list", Prefix: "A/a/a", Delim: "", Count: 1000},
			{Kind: "list", Prefix: "b", Delim: "", AllSizes: true, Count: 1},
			{Kind: "delete", Key: 0},
			{Kind: "delete", Key: 0},
			{Kind: "touch", Key: 0},
			{Kind: "touch", Key: 1},
			{Kind: "list", Prefix: "", Delim: "", AllSizes: true, Count: 1},
		},
	}
	for _, lock := range []bool{false, true} {
		c.Lock = lock
		check(t, c)
	}
}

// every page size over a fixed key set whose walk order equals byte order
func TestRegressEveryPageSize(t *testing.T) {
	c := caseT{Keys: []string{"A/a", "A/ab", "A/b/a", "A/b/b", "a", "ab", "b/A/A", "b/A/a", "b/a", "b/b/b/b"}}
	for i := range c.Keys {
		c.Ops = append(c.Ops, opT{Kind: "putx", Key: i, Seed: uint64(i), Size: i, Src: "writerto"})
	}
	for _, p := range []string{"", "A", "b", "b/A", "b/b/b/b", "a", "zz", "A/b/zz"} {
		for _, d := range []string{"", "/"} {
			c.Ops = append(c.Ops, opT{Kind: "list", Prefix: p, Delim: d, AllSizes: true, Count: 1})
		}
	}
	check(t, c)
}

func TestRegressExclusiveWriters(t *testing.T) {
	r := func(key string, pre bool) roundT {
		return roundT{Key: key, Writers: 8, Sizes: []int{0, 1, 100, 5000, 70000, 100, 100, 32768}, Seed: 42, Pre: pre, Siblings: 2,
			Srcs: []string{"writerto", "plain", "writerto", "plain", "writerto", "plain", "writerto", "plain"}}
	}
	for i := 0; i < 20; i++ {
		checkConc(t, concT{Lock: i%2 == 1, Rounds: []roundT{r("a/b/c", false), r("a/b/d", true), r("top", false)}})
	}
}

// ---- pinned cases of the findings

type scenario struct {
	id   string
	what string
	run  func(s storage.Store) error // nil: behaves as the property states
}

func put(s storage.Store, keys ...string) error {
	for _, k := range keys {
		if err := s.Put(context.Background(), k, bytes.NewReader([]byte("content of "+k)), storage.NoOverWrite); err != nil {
			return fmt.Errorf("setup Put(%q): %v", k, err)
		}
	}
	return nil
}

func listAll(s storage.Store, prefix, delim string, count int) ([]string, error) {
	var all []string
	token := ""
	for i := 0; i < 100; i++ {
		page, next, err := s.KeysPrefix(context.Background(), token, prefix, delim, count)
		if err != nil {
			return nil, err
		}
		all = append(all, page...)
		if next == "" {
			return all, nil
		}
		token = next
	}
	return nil, fmt.Errorf("pagination does not end")
}

func wantList(s storage.Store, prefix, delim string, count int, want ...string) error {
	got, err := listAll(s, prefix, delim, count)
	if err != nil {
		return err
	}
	if want == nil {
		want = []string{}
	}
	if d := diffLists(got, want); d != "" {
		return fmt.Errorf("KeysPrefix(prefix=%q, delimiter=%q, count=%d): %s", prefix, delim, count, d)
	}
	return nil
}

var scenarios = map[string]scenario{
	"slash": {idSlash, "localfs.KeysPrefix drops the trailing slash of the prefix (path.Clean): prefix \"a/\" also returns \"ab/...\", and with delimiter \"/\" returns \"a/\" instead of the immediate sub-prefixes",
		func(s storage.Store) error {
			if err := put(s, "a/x", "a/sub/y", "ab/z"); err != nil {
				return err
			}
			if err := wantList(s, "a/", "", 1000, "a/sub/y", "a/x"); err != nil {
				return err
			}
			return wantList(s, "a/", "/", 1000, "a/sub/", "a/x")
		}},
	"parent": {idParent, "localfs.KeysPrefix panics (nil os.FileInfo dereference in the Walk callback) when the directory above the prefix does not exist, instead of returning no keys",
		func(s storage.Store) error {
			if err := put(s, "a/x"); err != nil {
				return err
			}
			return wantList(s, "zz/y", "", 1000)
		}},
	"order": {idOrder, "localfs.KeysPrefix returns keys in directory-walk order, not lexicographic order: \"a/x\" before \"a-b/y\" although '-' < '/'",
		func(s storage.Store) error {
			if err := put(s, "a/x", "a-b/y", "a.b/z"); err != nil {
				return err
			}
			if err := wantList(s, "", "", 1000, "a-b/y", "a.b/z", "a/x"); err != nil {
				return err
			}
			return wantList(s, "a", "/", 2, "a-b/", "a.b/", "a/")
		}},
	"stale": {idStale, "localfs.KeysPrefix keeps the cached result of a pagination that was not followed to its end: a later listing of the same prefix (token \"\", any delimiter) returns the stale keys",
		func(s storage.Store) error {
			if err := put(s, "d/k1", "d/k2", "d/k3"); err != nil {
				return err
			}
			page, next, err := s.KeysPrefix(context.Background(), "", "d", "", 1)
			if err != nil || len(page) != 1 || next == "" {
				return fmt.Errorf("setup: first page %q next %q err %v", page, next, err)
			}
			// the caller stops here (e.g. it found what it looked for); the store changes
			if err := s.Delete(context.Background(), "d/k1"); err != nil {
				return err
			}
			if err := put(s, "d/k4"); err != nil {
				return err
			}
			if err := wantList(s, "d", "", 1000, "d/k2", "d/k3", "d/k4"); err != nil {
				return err
			}
			// same with a different delimiter and no change of the store
			if _, _, err := s.KeysPrefix(context.Background(), "", "d", "", 1); err != nil {
				return err
			}
			return wantList(s, "d", "/", 1000, "d/")
		}},
}

func runScenario(t *testing.T, name string) {
	sc := scenarios[name]
	scratch := hx.NewScratch()
	defer scratch.Close()
	s := newStore(scratch.Dir("store"), false)
	hx.Journal(map[string]string{"scenario": name})
	err, hung, _ := hx.Guard(20*time.Second, func() error { return sc.run(s) })
	if hung {
		t.Fatalf("HANG in scenario %s", name)
	}
	if err == nil {
		return
	}
	if hx.Listed(sc.id) {
		stats.KnownFinding(sc.id, sc.what)
		t.Logf("KNOWN-FINDING: property=C16 %s (%v)", sc.what, err)
		return
	}
	t.Fatalf("%s: %v", sc.id, err)
}

func TestKnownTrailingSlash(t *testing.T)    { runScenario(t, "slash") }
func TestKnownMissingParent(t *testing.T)    { runScenario(t, "parent") }
func TestKnownLexicographic(t *testing.T)    { runScenario(t, "order") }
func TestKnownAbandonedListing(t *testing.T) { runScenario(t, "stale") }

// TestRegressExclusivePutDefaultOptions: the store as the CLI builds it (retries on, ~30 s budget): a create-if-absent
// Put on an existing key is refused however often the store retries, and the existing object stays as it was.
// Thorough tier only (the refusal takes the whole retry budget).
func TestRegressExclusivePutDefaultOptions(t *testing.T) {
	if !hx.Thorough() {
		t.Skip("thorough tier only: the refusal takes the store's whole retry budget (~30 s)")
	}
	sc := hx.NewScratch()
	defer sc.Close()
	s := localfs.New(afero.NewBasePathFs(afero.NewOsFs(), sc.Dir("store")), localfs.WithLogger(hx.Nop))
	ctx := context.Background()
	if err := s.Put(ctx, "purge/lock", strings.NewReader("job 1"), true); err != nil {
		t.Fatalf("first create-if-absent Put: %v", err)
	}
	err, hung, panicked := hx.Guard(120*time.Second, func() error {
		if e := s.Put(ctx, "purge/lock", strings.NewReader("job 2"), true); e == nil {
			return fmt.Errorf("a second create-if-absent Put on the same key succeeded")
		}
		return nil
	})
	if hung || panicked || err != nil {
		stats.Violation("exclusive Put with default options")
		t.Fatalf("%v (hung=%v panicked=%v)", err, hung, panicked)
	}
	r, err := s.Get(ctx, "purge/lock")
	if err != nil {
		t.Fatalf("Get after the refused Put: %v", err)
	}
	b, _ := io.ReadAll(r)
	_ = r.Close()
	if string(b) != "job 1" {
		stats.Violation("exclusive Put with default options")
		t.Fatalf("the refused create-if-absent Put changed the object: %q", b)
	}
	stats.Case("pinned exclusive put with default options (retries on)", true, func() interface{} { return "purge/lock" })
}
