package c16

import (
	"path"
	"sort"
	"strings"
)

// model is the reference: a map from key to the last written bytes, plus the set of directories the
// store is known to have created (only used to describe the input class of one finding).
type model struct {
	objs map[string][]byte
	dirs map[string]bool // "/a", "/a/b": directories created by any Put attempt (they are never removed)
}

func newModel() *model { return &model{objs: map[string][]byte{}, dirs: map[string]bool{"/": true}} }

func (m *model) sorted() []string {
	ks := make([]string, 0, len(m.objs))
	for k := range m.objs {
		ks = append(ks, k)
	}
	sort.Strings(ks)
	return ks
}

func (m *model) mkdirs(key string) {
	for d := path.Dir("/" + key); d != "/" && d != "."; d = path.Dir(d) {
		m.dirs[d] = true
	}
}

// expect is the specification of a prefix listing (property text): the keys having the exact string
// prefix, or - with a delimiter - those keys cut after the first delimiter following the prefix
// (immediate sub-prefixes), each once, in lexicographic (byte) order.
func expect(sortedKeys []string, prefix, delim string) []string {
	seen := map[string]bool{}
	out := []string{}
	for _, k := range sortedKeys {
		if !strings.HasPrefix(k, prefix) {
			continue
		}
		item := k
		if delim != "" {
			if cut := strings.Index(k[len(prefix):], delim); cut >= 0 {
				item = k[:len(prefix)+cut+len(delim)]
			}
		}
		if !seen[item] {
			seen[item] = true
			out = append(out, item)
		}
	}
	sort.Strings(out)
	return out
}

// prefixClass names the shape of a prefix relative to the key universe of the case
func prefixClass(universe []string, prefix string) string {
	if prefix == "" {
		return "all"
	}
	slash := strings.HasSuffix(prefix, "/")
	base := strings.TrimSuffix(prefix, "/")
	isKey, isDir, isPartial := false, false, false
	for _, k := range universe {
		switch {
		case k == base:
			isKey = true
		case strings.HasPrefix(k, base+"/"):
			isDir = true
		case strings.HasPrefix(k, base):
			isPartial = true
		}
	}
	cls := "missing"
	switch {
	case isKey:
		cls = "key"
	case isDir:
		cls = "dir"
	case isPartial:
		cls = "partial"
	}
	if slash {
		cls += "/"
	}
	return cls
}

// siblingPrefix: the prefix (minus a trailing slash) is a proper string prefix of a stored key that is
// neither the prefix itself nor below prefix+"/": its last component is a proper prefix of a sibling component.
func siblingPrefix(keys []string, prefix string) bool {
	base := strings.TrimSuffix(prefix, "/")
	if base == "" {
		return false
	}
	for _, k := range keys {
		if strings.HasPrefix(k, base) && k != base && !strings.HasPrefix(k, base+"/") {
			return true
		}
	}
	return false
}

// ---- input classes of the findings.  These predicates only look at the generated input and the model;
// they are used to redirect/relax cases when the corresponding finding is listed as known, and for counters.

// slashAffected: finding idSlash - the prefix ends in "/" and dropping that slash changes the specified result
func slashAffected(keys []string, prefix, delim string) bool {
	if !strings.HasSuffix(prefix, "/") {
		return false
	}
	base := strings.TrimSuffix(prefix, "/")
	for _, k := range keys {
		if strings.HasPrefix(k, base) && (delim != "" || !strings.HasPrefix(k, prefix)) {
			return true
		}
	}
	return false
}

// parentMissing: finding idParent - the directory above the (cleaned) prefix was never created
func parentMissing(m *model, prefix string) bool {
	return !m.dirs[path.Dir(path.Clean("/"+prefix))]
}

// orderAffected: finding idOrder - visiting the matching keys directory by directory (component-wise
// order) gives another sequence than byte order of the whole keys
func orderAffected(keys []string, prefix, delim string) bool {
	walk := append([]string{}, keys...)
	sort.Slice(walk, func(i, j int) bool {
		return strings.ReplaceAll(walk[i], "/", "\x00") < strings.ReplaceAll(walk[j], "/", "\x00")
	})
	seen := map[string]bool{}
	var seq []string
	for _, k := range walk {
		if !strings.HasPrefix(k, prefix) {
			continue
		}
		item := k
		if delim != "" {
			if cut := strings.Index(k[len(prefix):], delim); cut >= 0 {
				item = k[:len(prefix)+cut+len(delim)]
			}
		}
		if !seen[item] {
			seen[item] = true
			seq = append(seq, item)
		}
	}
	return !sort.StringsAreSorted(seq)
}
