// Package c16 checks property C16: the local filesystem backend (pkg/storage/localfs) behaves like a
// key/value object store.  Subject: the real localfs.Store over a real OS directory on tmpfs.
// Oracle: a plain map[string][]byte model (see model.go).
package c16

import (
	"bytes"
	"context"
	"encoding/json"
	"errors"
	"fmt"
	"io"
	"os"
	"runtime"
	"runtime/debug"
	"sort"
	"strings"
	"sync"
	"testing"
	"time"

	"github.com/oneconcern/datamon/pkg/storage"
	"github.com/oneconcern/datamon/pkg/storage/localfs"
	storagestatus "github.com/oneconcern/datamon/pkg/storage/status"
	"github.com/spf13/afero"
	"pgregory.net/rapid"

	"verifharness/evid"
	"verifharness/hx"
)

var stats = evid.New("C16", "rapid: (1) TestPropHistory - a universe of 1..14 hierarchical keys over components {a,ab,a-b,a.b,b,A}, depth 1..4, "+
	"no key a directory-ancestor of another; a population phase (exclusive Put of the first p keys) then 5..40 (thorough tier: 5..100) operations (Put overwrite/exclusive through WriterTo or plain Reader sources, Get, GetAt, GetAttr, Has, "+
	"Has on a directory name, Delete present/absent, Touch, Keys, KeysPrefix paginated to exhaustion with delimiter in {\"\",\"/\"} and page size in 1..8 or 1000 "+
	"or every page size 1..n+1, abandoned pagination) against a map model on a real OS directory under /dev/shm; prefixes: empty, directory with/without "+
	"trailing slash, full key, key+\"/\", partial component, missing (parent present / parent missing). (2) TestPropExclusive - 2..8 goroutines Put(exclusive) "+
	"the same key with pairwise different bytes (optionally pre-existing key, sibling writers, WithLock). Non-trivial: a history with a listing whose prefix "+
	"(minus trailing slash) is a proper string prefix of a stored key that is not under prefix+\"/\" (sibling component), or a listing after a delete; a "+
	"concurrent round with >=2 writers. Distinct by (lock, op mix = which of {refused exclusive put, overwrite, delete present, delete absent, abandoned pagination} occurred, set of classes of the non-trivial listings: (prefix class, delimiter, page-size class) for sibling-component prefixes, prefix class for listings after a delete) "+
	"resp. (writers, pre-existing, lock, size class, siblings).")

func TestMain(m *testing.M) {
	// Many short-lived goroutines and small allocations: with one P per core and the default GC pace the
	// run time is dominated by GC/preemption hand-shakes when the machine is oversubscribed (16 shards,
	// race detector).  Four Ps keep the concurrent writers truly parallel.
	if os.Getenv("GOMAXPROCS") == "" && runtime.NumCPU() > 4 {
		runtime.GOMAXPROCS(4)
	}
	if os.Getenv("GOGC") == "" {
		debug.SetGCPercent(1000)
	}
	code := m.Run()
	stats.Flush()
	os.Exit(code)
}

// IDs of the findings (see FINDINGS.json / NOTES.md)
const (
	idSlash  = "C16-prefix-trailing-slash-ignored"
	idParent = "C16-missing-parent-dir-panics"
	idOrder  = "C16-listing-not-lexicographic"
	idStale  = "C16-stale-listing-after-abandoned-pagination"
)

var comps = []string{"a", "ab", "a-b", "a.b", "b", "A"}

// ---------------------------------------------------------------------------------------------
// case description (plain data, JSON-able for the journal)

type opT struct {
	Kind string `json:"kind"` // put putx get getat getattr has hasdir delete touch keys list abandon
	Key  int    `json:"key,omitempty"`
	// put
	Seed uint64 `json:"seed,omitempty"`
	Size int    `json:"size,omitempty"`
	Src  string `json:"src,omitempty"` // writerto | plain | chunked
	// getat
	Off int64 `json:"off,omitempty"`
	Len int   `json:"len,omitempty"`
	// hasdir
	Dir string `json:"dir,omitempty"`
	// list / abandon
	Prefix   string `json:"prefix,omitempty"`
	Delim    string `json:"delim,omitempty"`
	Count    int    `json:"count,omitempty"`
	AllSizes bool   `json:"all_sizes,omitempty"`
}

type caseT struct {
	Keys []string `json:"keys"`
	Lock bool     `json:"lock"`
	Ops  []opT    `json:"ops"`
}

// ---------------------------------------------------------------------------------------------
// generators

func drawUniverse(t *rapid.T) []string {
	n := rapid.IntRange(1, 14).Draw(t, "nkeys")
	var keys []string
	for i := 0; i < n; i++ {
		var parts []string
		mode := 0
		if len(keys) > 0 {
			mode = rapid.IntRange(0, 4).Draw(t, "mode") // 0 fresh, 1-2 below a directory of an earlier key, 3-4 sibling of a component of an earlier key
		}
		if mode > 0 {
			base := strings.Split(rapid.SampledFrom(keys).Draw(t, "base"), "/")
			j := rapid.IntRange(0, len(base)-1).Draw(t, "cut")
			parts = append(parts, base[:j]...)
			if mode >= 3 {
				// a component of which base[j] is a proper string prefix, or which is one of base[j]
				sib := "a"
				if base[j] == "a" {
					sib = rapid.SampledFrom([]string{"ab", "a-b", "a.b"}).Draw(t, "sib")
				}
				parts = append(parts, sib)
			}
		}
		lo := 1
		if len(parts) > 0 && mode >= 3 {
			lo = 0
		}
		extra := 0
		if len(parts) < 4 {
			extra = rapid.IntRange(lo, 4-len(parts)).Draw(t, "extra")
		}
		for e := 0; e < extra; e++ {
			parts = append(parts, rapid.SampledFrom(comps).Draw(t, "comp"))
		}
		k := strings.Join(parts, "/")
		if !conflicts(keys, k) {
			keys = append(keys, k)
		}
	}
	return keys
}

// conflicts: k equals, is a directory-ancestor of, or lies below one of keys
func conflicts(keys []string, k string) bool {
	for _, o := range keys {
		if o == k || strings.HasPrefix(o, k+"/") || strings.HasPrefix(k, o+"/") {
			return true
		}
	}
	return false
}

func drawPrefix(t *rapid.T, keys []string) string {
	kind := rapid.SampledFrom([]string{"all", "dir/", "dir/", "dir/", "dir", "dir", "key", "key/", "partial", "partial", "missing", "missingdeep"}).Draw(t, "pkind")
	if kind == "all" {
		return ""
	}
	parts := strings.Split(rapid.SampledFrom(keys).Draw(t, "pkey"), "/")
	switch kind {
	case "dir/", "dir":
		if len(parts) == 1 {
			// no directory above this key: use the component itself (a "key" prefix)
			if kind == "dir/" {
				return parts[0] + "/"
			}
			return parts[0]
		}
		i := rapid.IntRange(1, len(parts)-1).Draw(t, "plevel")
		p := strings.Join(parts[:i], "/")
		if kind == "dir/" {
			p += "/"
		}
		return p
	case "key":
		return strings.Join(parts, "/")
	case "key/":
		return strings.Join(parts, "/") + "/"
	case "partial":
		i := rapid.IntRange(0, len(parts)-1).Draw(t, "plevel")
		c := parts[i]
		j := 1
		if len(c) > 1 {
			j = rapid.IntRange(1, len(c)-1).Draw(t, "pbytes")
		}
		return strings.Join(append(append([]string{}, parts[:i]...), c[:j]), "/")
	default: // missing, missingdeep
		i := rapid.IntRange(0, len(parts)-1).Draw(t, "plevel")
		tail := "zz"
		if kind == "missingdeep" {
			tail = rapid.SampledFrom([]string{"zz/q", "zz/q/r"}).Draw(t, "ptail")
		}
		if rapid.Bool().Draw(t, "pslash") {
			tail += "/"
		}
		return strings.Join(append(append([]string{}, parts[:i]...), tail), "/")
	}
}

func drawSize(t *rapid.T) int {
	switch rapid.IntRange(0, 19).Draw(t, "sizesel") {
	case 0:
		return 0
	case 1:
		return 1
	case 2:
		return rapid.IntRange(4000, 5000).Draw(t, "size")
	case 3:
		return rapid.IntRange(32*1024-1, 32*1024+1).Draw(t, "size")
	case 4:
		return rapid.IntRange(65536, 70000).Draw(t, "size")
	default:
		return rapid.IntRange(2, 200).Draw(t, "size")
	}
}

var opKinds = []string{"put", "put", "put", "putx", "putx", "get", "get", "getat", "getattr", "has", "hasdir", "deldir", "delete", "delete", "touch", "keys",
	"list", "list", "list", "list", "list", "list", "abandon", "abandon"}

func drawCase(t *rapid.T) caseT {
	c := caseT{Keys: drawUniverse(t), Lock: rapid.Bool().Draw(t, "lock")}
	// population phase: most keys are written first (in universe order), so that listings have something to list
	populate := len(c.Keys) - rapid.IntRange(0, len(c.Keys)).Draw(t, "unpopulated")
	for i := 0; i < populate; i++ {
		c.Ops = append(c.Ops, opT{Kind: "putx", Key: i, Seed: uint64(i) + 1, Size: 3 + i, Src: "writerto"})
	}
	maxOps := 40
	if hx.Thorough() {
		maxOps = 100
	}
	nops := rapid.IntRange(5, maxOps).Draw(t, "nops")
	for i := 0; i < nops; i++ {
		op := opT{Kind: rapid.SampledFrom(opKinds).Draw(t, "op")}
		switch op.Kind {
		case "put", "putx":
			op.Key = rapid.IntRange(0, len(c.Keys)-1).Draw(t, "key")
			op.Seed = rapid.Uint64().Draw(t, "seed")
			op.Size = drawSize(t)
			op.Src = rapid.SampledFrom([]string{"writerto", "plain", "chunked"}).Draw(t, "src")
		case "get", "getattr", "has", "delete", "touch":
			op.Key = rapid.IntRange(0, len(c.Keys)-1).Draw(t, "key")
		case "getat":
			op.Key = rapid.IntRange(0, len(c.Keys)-1).Draw(t, "key")
			op.Off = int64(rapid.IntRange(0, 210).Draw(t, "off"))
			op.Len = rapid.IntRange(0, 220).Draw(t, "len")
		case "hasdir", "deldir":
			parts := strings.Split(rapid.SampledFrom(c.Keys).Draw(t, "dkey"), "/")
			if len(parts) == 1 {
				op.Kind = "has"
				op.Key = 0
				break
			}
			op.Dir = strings.Join(parts[:rapid.IntRange(1, len(parts)-1).Draw(t, "dlevel")], "/")
		case "list", "abandon":
			op.Prefix = drawPrefix(t, c.Keys)
			op.Delim = rapid.SampledFrom([]string{"", "", "/"}).Draw(t, "delim")
			if op.Kind == "abandon" {
				op.Count = rapid.IntRange(1, 3).Draw(t, "count")
				break
			}
			switch rapid.IntRange(0, 9).Draw(t, "countsel") {
			case 0:
				op.Count = 1000
			case 1, 2:
				op.AllSizes = true
				op.Count = 1
			default:
				op.Count = rapid.IntRange(1, 8).Draw(t, "count")
			}
		}
		c.Ops = append(c.Ops, op)
	}
	return c
}

// ---------------------------------------------------------------------------------------------
// sources

// plainReader hides every optional interface of the wrapped reader (forces the PipeIO path of Put)
type plainReader struct{ r io.Reader }

func (p plainReader) Read(b []byte) (int, error) { return p.r.Read(b) }

// chunked hands out at most 7 bytes per Read
type chunked struct {
	data []byte
	pos  int
}

func (c *chunked) Read(p []byte) (int, error) {
	if c.pos >= len(c.data) {
		return 0, io.EOF
	}
	n := 7
	if n > len(p) {
		n = len(p)
	}
	if n > len(c.data)-c.pos {
		n = len(c.data) - c.pos
	}
	copy(p, c.data[c.pos:c.pos+n])
	c.pos += n
	return n, nil
}

func source(kind string, data []byte) io.Reader {
	switch kind {
	case "writerto":
		return bytes.NewReader(data) // implements io.WriterTo
	case "chunked":
		if len(data) > 5000 {
			return plainReader{bytes.NewReader(data)}
		}
		return &chunked{data: data}
	default:
		return plainReader{bytes.NewReader(data)}
	}
}

// ---------------------------------------------------------------------------------------------
// executor

func newStore(dir string, lock bool) storage.Store {
	return localfs.New(afero.NewBasePathFs(afero.NewOsFs(), dir), localfs.WithRetry(false), localfs.WithLogger(hx.Nop), localfs.WithLock(lock))
}

type listClass struct {
	PClass      string
	Delim       bool
	CountClass  string
	Sibling     bool
	AfterDelete bool
}

type result struct {
	kinds     map[string]bool
	lists     map[string]bool
	nontriv   bool
	counters  map[string]int
	maxListed int
}

type executor struct {
	c       caseT
	s       storage.Store
	ctx     context.Context
	m       *model
	deleted bool // a present key was deleted earlier in this history
	res     *result
}

func (e *executor) count(name string) { e.res.counters[name]++ }

func runCase(c caseT, res *result) error {
	sc := hx.NewScratch()
	defer sc.Close()
	e := &executor{c: c, s: newStore(sc.Dir("store"), c.Lock), ctx: context.Background(), m: newModel(), res: res}
	for i, op := range c.Ops {
		if err := e.step(op); err != nil {
			return fmt.Errorf("op %d %s: %v\nmodel keys: %q", i, js(op), err, e.m.sorted())
		}
		res.kinds[op.Kind] = true
	}
	if err := e.final(); err != nil {
		return fmt.Errorf("final state: %v\nmodel keys: %q", err, e.m.sorted())
	}
	return nil
}

func (e *executor) step(op opT) error {
	var key string
	if op.Key >= 0 && op.Key < len(e.c.Keys) {
		key = e.c.Keys[op.Key]
	}
	switch op.Kind {
	case "put", "putx":
		data := hx.Expand(op.Seed, op.Size, 0, 0)
		excl := op.Kind == "putx"
		_, present := e.m.objs[key]
		err := e.s.Put(e.ctx, key, source(op.Src, data), excl)
		e.m.mkdirs(key)
		switch {
		case excl && present:
			e.count("putx_present")
			if err == nil {
				return fmt.Errorf("exclusive Put on a present key succeeded")
			}
		default:
			if err != nil {
				return fmt.Errorf("Put failed: %v", err)
			}
			e.m.objs[key] = data
			if present {
				e.count("put_overwrite")
			}
		}
		return e.checkKey(key)
	case "get":
		return e.checkKey(key)
	case "getat":
		want, present := e.m.objs[key]
		ra, err := e.s.GetAt(e.ctx, key)
		if !present {
			if err == nil {
				closeIf(ra)
				return fmt.Errorf("GetAt of an absent key succeeded")
			}
			return nil
		}
		if err != nil {
			return fmt.Errorf("GetAt: %v", err)
		}
		defer closeIf(ra)
		buf := make([]byte, op.Len)
		n, err := ra.ReadAt(buf, op.Off)
		if err != nil && err != io.EOF {
			return fmt.Errorf("ReadAt(%d,%d): %v", op.Off, op.Len, err)
		}
		var exp []byte
		if op.Off < int64(len(want)) {
			end := op.Off + int64(op.Len)
			if end > int64(len(want)) {
				end = int64(len(want))
			}
			exp = want[op.Off:end]
		}
		if n != len(exp) || !bytes.Equal(buf[:n], exp) {
			return fmt.Errorf("ReadAt(off=%d,len=%d) on %d bytes returned %d bytes, want %d (or different content)", op.Off, op.Len, len(want), n, len(exp))
		}
		return nil
	case "getattr":
		want, present := e.m.objs[key]
		attr, err := e.s.GetAttr(e.ctx, key)
		if !present {
			if err == nil {
				return fmt.Errorf("GetAttr of an absent key succeeded: %+v", attr)
			}
			return nil
		}
		if err != nil {
			return fmt.Errorf("GetAttr: %v", err)
		}
		if attr.Size != int64(len(want)) {
			return fmt.Errorf("GetAttr.Size=%d, last written %d bytes", attr.Size, len(want))
		}
		return nil
	case "has":
		return e.checkHas(key)
	case "hasdir":
		ok, err := e.s.Has(e.ctx, op.Dir)
		if err != nil || ok {
			return fmt.Errorf("Has(%q) (a directory name, never written as a key) = %v, %v; want false, nil", op.Dir, ok, err)
		}
		return nil
	case "deldir":
		// Delete of an absent key that names an EMPTY directory left behind by earlier deletes: like any
		// delete of an absent key it reports success; keys written below it afterwards must work as ever
		var below []string
		for k := range e.m.objs {
			if strings.HasPrefix(k, op.Dir+"/") {
				below = append(below, k)
			}
		}
		if len(below) > 0 {
			// the name is a proper path prefix of existing keys but no key itself: whether the delete of this
			// absent key reports success (object store) or is refused (a directory that is not empty), the keys
			// below it are other objects and must stay
			e.count("delete_name_with_keys_below")
			_ = e.s.Delete(e.ctx, op.Dir)
			sort.Strings(below)
			for _, k := range below {
				if err := e.checkKey(k); err != nil {
					return fmt.Errorf("after Delete(%q), an absent key that is a path prefix of %q: %v", op.Dir, k, err)
				}
			}
			return nil
		}
		for d := range e.m.dirs {
			if strings.HasPrefix(d, "/"+op.Dir+"/") {
				return nil // holds (empty) sub-directories on disk
			}
		}
		if !e.m.dirs["/"+op.Dir] {
			return nil // never created
		}
		e.count("delete_empty_dir_name")
		if err := e.s.Delete(e.ctx, op.Dir); err != nil {
			return fmt.Errorf("Delete(%q) of an absent key (an empty directory name): %v", op.Dir, err)
		}
		delete(e.m.dirs, "/"+op.Dir)
		return nil
	case "delete":
		_, present := e.m.objs[key]
		err := e.s.Delete(e.ctx, key)
		if present {
			e.count("delete_present")
			if err != nil {
				return fmt.Errorf("Delete of a present key: %v", err)
			}
			delete(e.m.objs, key)
			e.deleted = true
		} else {
			e.count("delete_absent")
		}
		return e.checkKey(key)
	case "touch":
		_ = e.s.Touch(e.ctx, key)
		return e.checkKey(key)
	case "keys":
		return e.checkKeys()
	case "list":
		return e.list(op, false)
	case "abandon":
		if hx.Known(idStale) {
			e.count("excluded_" + idStale)
			return nil
		}
		return e.list(op, true)
	}
	return fmt.Errorf("unknown op kind %q", op.Kind)
}

func closeIf(v interface{}) {
	if c, ok := v.(io.Closer); ok && c != nil {
		_ = c.Close()
	}
}

func (e *executor) checkHas(key string) error {
	_, present := e.m.objs[key]
	ok, err := e.s.Has(e.ctx, key)
	if err != nil {
		return fmt.Errorf("Has(%q): %v", key, err)
	}
	if ok != present {
		return fmt.Errorf("Has(%q)=%v, model says present=%v", key, ok, present)
	}
	return nil
}

// checkKey: Has and Get agree with the model for one key
func (e *executor) checkKey(key string) error {
	if err := e.checkHas(key); err != nil {
		return err
	}
	want, present := e.m.objs[key]
	rc, err := e.s.Get(e.ctx, key)
	if !present {
		if err == nil {
			_ = rc.Close()
			return fmt.Errorf("Get(%q) of an absent key succeeded", key)
		}
		if !errors.Is(err, storagestatus.ErrNotExists) {
			return fmt.Errorf("Get(%q) of an absent key: error %q does not wrap status.ErrNotExists", key, err)
		}
		return nil
	}
	if err != nil {
		return fmt.Errorf("Get(%q): %v", key, err)
	}
	got, err := io.ReadAll(rc)
	_ = rc.Close()
	if err != nil {
		return fmt.Errorf("reading %q: %v", key, err)
	}
	if !bytes.Equal(got, want) {
		return fmt.Errorf("Get(%q) returned %d bytes, last written %d bytes (first difference at %d)", key, len(got), len(want), firstDiff(got, want))
	}
	return nil
}

func firstDiff(a, b []byte) int {
	for i := 0; i < len(a) && i < len(b); i++ {
		if a[i] != b[i] {
			return i
		}
	}
	if len(a) != len(b) {
		return min(len(a), len(b))
	}
	return -1
}

// checkKeys: Keys() returns every stored key exactly once (order unspecified by its documentation)
func (e *executor) checkKeys() error {
	got, err := e.s.Keys(e.ctx)
	if err != nil {
		return fmt.Errorf("Keys: %v", err)
	}
	got = append([]string{}, got...)
	sort.Strings(got)
	if d := diffLists(got, e.m.sorted()); d != "" {
		return fmt.Errorf("Keys() (sorted): %s", d)
	}
	return nil
}

func diffLists(got, want []string) string {
	if len(got) == len(want) {
		same := true
		for i := range got {
			if got[i] != want[i] {
				same = false
				break
			}
		}
		if same {
			return ""
		}
	}
	return fmt.Sprintf("got %q, want %q", got, want)
}

// paginate runs the fetch loop of datamon's callers: token "" first, then the returned token until it is empty.
// maxPages>0 stops early (abandoned pagination). Returns the concatenation of the pages.
func (e *executor) paginate(prefix, delim string, count, bound, maxPages int) (all []string, exhausted bool, err error) {
	token := ""
	for calls := 1; ; calls++ {
		if calls > bound {
			return all, false, fmt.Errorf("pagination did not end within %d calls; collected %q", bound, all)
		}
		page, next, err := e.s.KeysPrefix(e.ctx, token, prefix, delim, count)
		if err != nil {
			return all, false, fmt.Errorf("KeysPrefix(token=%q): %v", token, err)
		}
		if len(page) > count {
			return all, false, fmt.Errorf("KeysPrefix(token=%q, count=%d) returned a page of %d items: %q", token, count, len(page), page)
		}
		all = append(all, page...)
		if next == "" {
			return all, true, nil
		}
		if maxPages > 0 && calls >= maxPages {
			return all, false, nil
		}
		token = next
	}
}

func (e *executor) list(op opT, abandon bool) error {
	keys := e.m.sorted()
	want := expect(keys, op.Prefix, op.Delim)
	cl := listClass{PClass: prefixClass(e.c.Keys, op.Prefix), Delim: op.Delim != "", Sibling: siblingPrefix(keys, op.Prefix), AfterDelete: e.deleted}

	// input classes of the findings (predicates over the input and the model only)
	if slashAffected(keys, op.Prefix, op.Delim) {
		e.count("class_trailing_slash")
		if hx.Known(idSlash) {
			e.count("excluded_" + idSlash)
			return nil
		}
	}
	if parentMissing(e.m, op.Prefix) {
		e.count("class_parent_missing")
		if hx.Known(idParent) {
			e.count("excluded_" + idParent)
			return nil
		}
	}
	unordered := false
	if orderAffected(keys, op.Prefix, op.Delim) {
		e.count("class_walk_order")
		if hx.Known(idOrder) {
			e.count("excluded_" + idOrder)
			unordered = true // the ordering clause is not checked for this listing, exactness still is
		}
	}

	compare := func(got, exp []string, what string) error {
		g := got
		if unordered {
			g = append([]string{}, got...)
			sort.Strings(g)
		}
		if d := diffLists(g, exp); d != "" {
			return fmt.Errorf("KeysPrefix(prefix=%q, delimiter=%q) %s: %s", op.Prefix, op.Delim, what, d)
		}
		return nil
	}

	if abandon {
		got, exhausted, err := e.paginate(op.Prefix, op.Delim, op.Count, 2, 1)
		if err != nil {
			return err
		}
		if !exhausted {
			e.count("abandoned")
			if !unordered {
				return compare(got, want[:min(len(want), len(got))], fmt.Sprintf("first page, count=%d", op.Count))
			}
			return nil
		}
		return compare(got, want, fmt.Sprintf("single page, count=%d", op.Count))
	}

	counts := []int{op.Count}
	cl.CountClass = "some"
	switch {
	case op.AllSizes:
		counts = counts[:0]
		for n := 1; n <= len(want)+1; n++ {
			counts = append(counts, n)
		}
		cl.CountClass = "every"
	case op.Count == 1:
		cl.CountClass = "1"
	case op.Count >= len(want):
		cl.CountClass = "whole"
	}
	for _, n := range counts {
		got, _, err := e.paginate(op.Prefix, op.Delim, n, 2*len(want)+4, 0)
		if err != nil {
			return fmt.Errorf("prefix=%q delimiter=%q count=%d: %v (want %q)", op.Prefix, op.Delim, n, err, want)
		}
		if err := compare(got, want, fmt.Sprintf("paginated with count=%d", n)); err != nil {
			return err
		}
		e.count("paginations")
		if n < len(want) {
			e.count("paginations_multi_page")
		}
	}
	if len(want) > e.res.maxListed {
		e.res.maxListed = len(want)
	}
	// class signature of the history: the classes of its non-trivial listings (sibling-component prefixes in
	// full, listings after a delete by prefix class only)
	if cl.Sibling {
		e.res.lists[fmt.Sprintf("sib:%s|d=%v|n=%s", cl.PClass, cl.Delim, cl.CountClass)] = true
	}
	if cl.AfterDelete {
		e.res.lists["del:"+cl.PClass] = true
	}
	if cl.Sibling || cl.AfterDelete {
		e.res.nontriv = true
	}
	e.count("list_" + cl.PClass)
	if cl.Sibling {
		e.count("list_sibling_prefix")
	}
	if cl.AfterDelete {
		e.count("list_after_delete")
	}
	if cl.Delim {
		e.count("list_delimiter")
	}
	if len(want) == 0 {
		e.count("list_empty_result")
	}
	return nil
}

// final: every key of the universe, Keys() and the full listing agree with the model
func (e *executor) final() error {
	for _, k := range e.c.Keys {
		if err := e.checkKey(k); err != nil {
			return err
		}
	}
	if err := e.checkKeys(); err != nil {
		return err
	}
	return e.list(opT{Kind: "list", Prefix: "", Delim: "", Count: 3}, false)
}

func (r *result) sig(c caseT) string {
	var ls []string
	for l := range r.lists {
		ls = append(ls, l)
	}
	sort.Strings(ls)
	mix := ""
	for _, k := range []string{"putx_present", "put_overwrite", "delete_present", "delete_absent", "abandoned"} {
		if r.counters[k] > 0 {
			mix += k + ","
		}
	}
	return fmt.Sprintf("lock=%v mix=%s lists=%s", c.Lock, mix, strings.Join(ls, ";"))
}

func js(v interface{}) string {
	b, _ := json.Marshal(v)
	return string(b)
}

type fataler interface {
	Fatalf(string, ...interface{})
}

func check(t fataler, c caseT) *result {
	hx.Journal(c)
	res := &result{kinds: map[string]bool{}, lists: map[string]bool{}, counters: map[string]int{}}
	err, hung, panicked := hx.Guard(30*time.Second, func() error { return runCase(c, res) })
	switch {
	case hung:
		t.Fatalf("HANG: %v\ncase=%s", err, js(c))
	case panicked:
		t.Fatalf("PANIC: %v\ncase=%s", err, js(c))
	case err != nil:
		t.Fatalf("%v\ncase=%s", err, js(c))
	}
	return res
}

// TestPropHistory: random operation histories against the map model
func TestPropHistory(t *testing.T) {
	rapid.Check(t, func(t *rapid.T) {
		c := drawCase(t)
		res := check(t, c)
		stats.Case(res.sig(c), res.nontriv, func() interface{} { return c })
		stats.Count("histories", 1)
		stats.Count("ops", len(c.Ops))
		for k, n := range res.counters {
			stats.Count(k, n)
		}
		if res.maxListed >= 5 {
			stats.Count("histories_with_listing_of_5plus", 1)
		}
	})
}

// ---------------------------------------------------------------------------------------------
// concurrent exclusive writers

type roundT struct {
	Key      string   `json:"key"`
	Writers  int      `json:"writers"`
	Sizes    []int    `json:"sizes"`
	Srcs     []string `json:"srcs"`
	Seed     uint64   `json:"seed"`
	Pre      bool     `json:"preexisting"`
	Siblings int      `json:"siblings"`
}

type concT struct {
	Lock   bool     `json:"lock"`
	Rounds []roundT `json:"rounds"`
}

func drawConc(t *rapid.T) concT {
	c := concT{Lock: rapid.IntRange(0, 3).Draw(t, "lock") == 0}
	var keys []string
	n := rapid.IntRange(1, 4).Draw(t, "rounds")
	for i := 0; i < n; i++ {
		depth := rapid.IntRange(1, 3).Draw(t, "depth")
		var parts []string
		for d := 0; d < depth; d++ {
			parts = append(parts, rapid.SampledFrom(comps).Draw(t, "comp"))
		}
		k := strings.Join(parts, "/")
		// siblings are written as k+".s<i>": keep those names free as well
		if conflicts(keys, k) {
			continue
		}
		keys = append(keys, k)
		r := roundT{Key: k, Writers: rapid.IntRange(2, 8).Draw(t, "writers"), Seed: rapid.Uint64().Draw(t, "seed"),
			Pre: rapid.IntRange(0, 5).Draw(t, "pre") == 0, Siblings: rapid.IntRange(0, 2).Draw(t, "siblings")}
		for w := 0; w < r.Writers; w++ {
			r.Sizes = append(r.Sizes, drawSize(t))
			r.Srcs = append(r.Srcs, rapid.SampledFrom([]string{"writerto", "plain"}).Draw(t, "src"))
		}
		c.Rounds = append(c.Rounds, r)
	}
	return c
}

// writerBytes: content of writer w; the first two bytes identify the writer so that contents are pairwise different
func writerBytes(r roundT, w int) []byte {
	return append([]byte{byte('A' + w), '#'}, hx.Expand(r.Seed+uint64(w)*7919, r.Sizes[w], 0, 0)...)
}

func runConc(c concT) error {
	sc := hx.NewScratch()
	defer sc.Close()
	s := newStore(sc.Dir("store"), c.Lock)
	ctx := context.Background()
	stored := map[string][]byte{}
	for ri, r := range c.Rounds {
		pre := []byte("pre-existing content of " + r.Key)
		if r.Pre {
			if err := s.Put(ctx, r.Key, bytes.NewReader(pre), true); err != nil {
				return fmt.Errorf("round %d: initial Put: %v", ri, err)
			}
		}
		errs := make([]error, r.Writers)
		sibErrs := make([]error, r.Siblings)
		start := make(chan struct{})
		var wg sync.WaitGroup
		for w := 0; w < r.Writers; w++ {
			wg.Add(1)
			go func(w int) {
				defer wg.Done()
				data := writerBytes(r, w)
				<-start
				errs[w] = s.Put(ctx, r.Key, source(r.Srcs[w], data), true)
			}(w)
		}
		for i := 0; i < r.Siblings; i++ {
			wg.Add(1)
			go func(i int) {
				defer wg.Done()
				<-start
				sibErrs[i] = s.Put(ctx, fmt.Sprintf("%s.s%d", r.Key, i), bytes.NewReader([]byte(fmt.Sprintf("sibling %d", i))), true)
			}(i)
		}
		close(start)
		wg.Wait()
		var winners []int
		for w, err := range errs {
			if err == nil {
				winners = append(winners, w)
			}
		}
		want := pre
		if r.Pre {
			if len(winners) != 0 {
				return fmt.Errorf("round %d key %q: exclusive writers %v succeeded although the key existed", ri, r.Key, winners)
			}
		} else {
			if len(winners) != 1 {
				return fmt.Errorf("round %d key %q: %d of %d concurrent exclusive writers succeeded (%v), want exactly one; errors: %v", ri, r.Key, len(winners), r.Writers, winners, errs)
			}
			want = writerBytes(r, winners[0])
		}
		for i, err := range sibErrs {
			if err != nil {
				return fmt.Errorf("round %d: exclusive Put of the absent sibling key %s.s%d failed: %v", ri, r.Key, i, err)
			}
			stored[fmt.Sprintf("%s.s%d", r.Key, i)] = []byte(fmt.Sprintf("sibling %d", i))
		}
		stored[r.Key] = want
		rc, err := s.Get(ctx, r.Key)
		if err != nil {
			return fmt.Errorf("round %d: Get(%q): %v", ri, r.Key, err)
		}
		got, err := io.ReadAll(rc)
		_ = rc.Close()
		if err != nil {
			return fmt.Errorf("round %d: reading %q: %v", ri, r.Key, err)
		}
		if !bytes.Equal(got, want) {
			who := "nobody"
			if len(got) >= 2 && got[1] == '#' {
				who = fmt.Sprintf("writer %d", int(got[0]-'A'))
			}
			return fmt.Errorf("round %d key %q: winner(s) %v, but the stored %d bytes are not the winner's %d bytes (first difference at %d; stored content starts like %s's)",
				ri, r.Key, winners, len(got), len(want), firstDiff(got, want), who)
		}
	}
	// all keys, each once
	got, err := s.Keys(ctx)
	if err != nil {
		return fmt.Errorf("Keys: %v", err)
	}
	got = append([]string{}, got...)
	sort.Strings(got)
	var wantKeys []string
	for k := range stored {
		wantKeys = append(wantKeys, k)
	}
	sort.Strings(wantKeys)
	if d := diffLists(got, wantKeys); d != "" {
		return fmt.Errorf("Keys() after the rounds: %s", d)
	}
	for k, want := range stored {
		rc, err := s.Get(ctx, k)
		if err != nil {
			return fmt.Errorf("Get(%q): %v", k, err)
		}
		b, err := io.ReadAll(rc)
		_ = rc.Close()
		if err != nil || !bytes.Equal(b, want) {
			return fmt.Errorf("Get(%q) after the rounds: %d bytes, err=%v, want %d bytes", k, len(b), err, len(want))
		}
	}
	return nil
}

func checkConc(t fataler, c concT) {
	hx.Journal(c)
	err, hung, panicked := hx.Guard(30*time.Second, func() error { return runConc(c) })
	switch {
	case hung:
		t.Fatalf("HANG: %v\ncase=%s", err, js(c))
	case panicked:
		t.Fatalf("PANIC: %v\ncase=%s", err, js(c))
	case err != nil:
		t.Fatalf("%v\ncase=%s", err, js(c))
	}
}

func sizeClass(n int) string {
	switch {
	case n == 0:
		return "0"
	case n < 1000:
		return "small"
	case n < 32000:
		return "4k"
	default:
		return "big"
	}
}

// TestPropExclusive: concurrent create-if-absent writers of one key
func TestPropExclusive(t *testing.T) {
	rapid.Check(t, func(t *rapid.T) {
		c := drawConc(t)
		checkConc(t, c)
		if len(c.Rounds) == 0 {
			stats.Case("norounds", false, nil)
			return
		}
		for _, r := range c.Rounds {
			mx := 0
			for _, s := range r.Sizes {
				if s > mx {
					mx = s
				}
			}
			stats.Case(fmt.Sprintf("conc writers=%d pre=%v lock=%v size=%s sib=%d", r.Writers, r.Pre, c.Lock, sizeClass(mx), r.Siblings), r.Writers >= 2, func() interface{} { return c })
			stats.Count("conc_rounds", 1)
			stats.Count("conc_writers", r.Writers)
			if r.Pre {
				stats.Count("conc_preexisting", 1)
			}
		}
	})
}
