package c04

import (
	"context"
	"fmt"
	context2 "github.com/oneconcern/datamon/pkg/context"
	"github.com/oneconcern/datamon/pkg/storage"
	"os"
	"regexp"
	"sort"
	"strings"
	"sync"
	"testing"
	"time"

	"github.com/oneconcern/datamon/pkg/core"
	"github.com/oneconcern/datamon/pkg/model"
	"pgregory.net/rapid"

	"verifharness/evid"
	"verifharness/hx"
)

var stats = evid.New("C04", "rapid: trees of 0..60 files (thorough: also fixed big trees of 999/1000/1001/2001/2500 files at the production 1000 entries per index file), nested 0-5 deep, names with spaces/unicode/dots, sizes k*L+d around the leaf size, duplicated content, generated-path decoys; entriesPerFile in {1,2,3,7,1000} via the verif hook with file counts built as m*epf+{-1,0,1}; upload whole tree or an explicit key list (sub-multiset with repeats and missing keys, SkipMissing on/off); download by Publish / predicate-filtered Publish / PublishFile. Oracle: map model of the source tree minus generated paths (independent predicate). Non-trivial: a multi-leaf file, or >= 2 index files, or a decoy, or a filtered download, or a key list; distinct by (file-count class, index boundary class, upload mode, download mode, decoys, multi-leaf).")

func TestMain(m *testing.M) {
	code := m.Run()
	stats.Flush()
	os.Exit(code)
}

type caseT struct {
	Tree       hx.TreeSpec `json:"tree"`
	EPF        uint        `json:"entries_per_file"`
	UpConc     int         `json:"upload_concurrency"`
	DownConc   int         `json:"download_concurrency"`
	CRC        bool        `json:"crc"`
	Mode       string      `json:"mode"` // tree | keys
	Keys       []string    `json:"keys,omitempty"`
	Skip       bool        `json:"skip_missing"`
	Download   string      `json:"download"` // publish | select | file
	SelectRe   string      `json:"select_re,omitempty"`
	SelectFile string      `json:"select_file,omitempty"`
	Reuse      bool        `json:"reuse_bundle_object,omitempty"` // metadata is loaded more than once on one Bundle object
	// BreakMeta: the n-th metadata object the download reads (descriptor, file lists) breaks half-way through its
	// transfer. The download may then fail; if it reports success the destination must be complete all the same
	BreakMeta int `json:"break_metadata_read,omitempty"`
	// SrcHasFault: the n-th existence probe (Has) of the source store fails once during the upload. The upload may
	// fail; if it reports success the bundle holds every file it had to hold (a failed probe is not "missing")
	SrcHasFault int `json:"source_has_fault,omitempty"`
}

// flakyHas is a source store whose n-th Has fails once
type flakyHas struct {
	storage.Store
	mu   sync.Mutex
	nth  int
	hits int
}

func (f *flakyHas) Has(ctx context.Context, key string) (bool, error) {
	f.mu.Lock()
	f.nth--
	hit := f.nth == 0
	if hit {
		f.hits++
	}
	f.mu.Unlock()
	if hit {
		return false, fmt.Errorf("injected: transient failure of the existence probe of %q", key)
	}
	return f.Store.Has(ctx, key)
}

func drawCase(t *rapid.T) caseT {
	var L uint32
	if hx.Thorough() && rapid.IntRange(0, 60).Draw(t, "bigleaf") == 0 {
		L = rapid.SampledFrom([]uint32{32 * 1024, 64 * 1024, 1 << 20, 5 << 20}).Draw(t, "L")
	} else {
		// core flows cannot set the cafs cache size: the default 50 MiB cache costs one free-list slot per
		// leaf-sized buffer at every cafs.New, so tiny leaves (C01's domain) are kept rare here
		L = rapid.SampledFrom([]uint32{1000, 1024, 2048, 4096, 4096, 8192, 8192, 16384, 65536, 65536}).Draw(t, "L")
		if rapid.IntRange(0, 24).Draw(t, "tinyleaf") == 0 {
			L = rapid.SampledFrom([]uint32{64, 100, 128}).Draw(t, "Ltiny")
		}
	}
	c := caseT{}
	c.EPF = rapid.SampledFrom([]uint{1, 2, 3, 7, 1000}).Draw(t, "epf")
	// file count constructed as m*epf + {-1,0,1} when epf is small
	minF, maxF := 0, 40
	if c.EPF > 1 && c.EPF < 1000 && rapid.Bool().Draw(t, "boundary") {
		m := rapid.IntRange(1, 4).Draw(t, "m")
		n := m*int(c.EPF) + rapid.IntRange(-1, 1).Draw(t, "bd")
		if n < 0 {
			n = 0
		}
		minF, maxF = n, n
	}
	maxK := 3
	if L >= 1<<20 {
		maxK = 1
		if maxF > 6 {
			minF, maxF = min(minF, 6), 6
		}
	}
	c.Tree = hx.GenTree(t, L, minF, maxF, maxK, true, "tree")
	c.UpConc = rapid.IntRange(1, 20).Draw(t, "upconc")
	c.DownConc = rapid.IntRange(1, 20).Draw(t, "downconc")
	c.CRC = rapid.Bool().Draw(t, "crc")
	c.Mode = rapid.SampledFrom([]string{"tree", "tree", "keys"}).Draw(t, "mode")
	if c.Mode == "keys" {
		var paths []string
		for _, f := range c.Tree.Files {
			paths = append(paths, f.Path)
		}
		n := rapid.IntRange(0, len(paths)+2).Draw(t, "nkeys")
		for i := 0; i < n; i++ {
			switch sel := rapid.IntRange(0, 9).Draw(t, "keysel"); {
			case sel == 0:
				c.Keys = append(c.Keys, "missing/"+rapid.SampledFrom([]string{"m1", "m2"}).Draw(t, "mk"))
			case sel == 1 && len(c.Keys) > 0:
				c.Keys = append(c.Keys, c.Keys[rapid.IntRange(0, len(c.Keys)-1).Draw(t, "rep")])
			case len(paths) > 0:
				c.Keys = append(c.Keys, paths[rapid.IntRange(0, len(paths)-1).Draw(t, "pk")])
			}
		}
		c.Skip = rapid.Bool().Draw(t, "skip")
	}
	c.Download = rapid.SampledFrom([]string{"publish", "publish", "select", "file"}).Draw(t, "download")
	c.Reuse = rapid.IntRange(0, 3).Draw(t, "reuse") == 0
	if rapid.IntRange(0, 4).Draw(t, "srchasfault") == 0 {
		c.SrcHasFault = rapid.IntRange(1, 6).Draw(t, "srchasfault_nth")
	}
	if rapid.IntRange(0, 4).Draw(t, "breakmeta") == 0 {
		c.BreakMeta = rapid.IntRange(1, 4).Draw(t, "breakmeta_nth")
	}
	switch c.Download {
	case "select":
		c.SelectRe = rapid.SampledFrom([]string{"^a", "dir", `\.`, "^$", ".*", "b$", "[ünï名]", "^[^/]*$", "/.*/"}).Draw(t, "re")
	case "file":
		if len(c.Tree.Files) > 0 && rapid.IntRange(0, 4).Draw(t, "absent") > 0 {
			c.SelectFile = c.Tree.Files[rapid.IntRange(0, len(c.Tree.Files)-1).Draw(t, "sf")].Path
		} else {
			c.SelectFile = "no/such/file"
		}
	}
	return c
}

func indexKeys(env *hx.Env, repo, id string) []string {
	var out []string
	prefix := "bundles/" + repo + "/" + id + "/bundle-files-"
	for _, k := range env.Meta.RawKeys() {
		if strings.HasPrefix(k, prefix) {
			out = append(out, k)
		}
	}
	return out
}

func runCase(c caseT) error {
	sc := hx.NewScratch()
	defer sc.Close()
	env := hx.NewEnv()
	env.CRC = c.CRC
	v := env.Actor("p")
	ctx := context.Background()
	if err := hx.CreateRepo(v.Stores, "repo"); err != nil {
		return fmt.Errorf("create repo: %v", err)
	}
	L := c.Tree.Leaf
	tree := c.Tree.Tree()
	src := sc.Dir("src")
	if err := tree.Write(src); err != nil {
		return fmt.Errorf("harness: %v", err)
	}
	// ---- expected uploaded set
	expected := tree.Uploadable()
	expectFail := false
	var getKeys func() ([]string, error)
	if c.Mode == "keys" {
		expected = hx.Tree{}
		for _, k := range c.Keys {
			d, ok := tree[k]
			switch {
			case !ok && !c.Skip:
				expectFail = true
			case !ok:
			case hx.IsGeneratedRef(k):
			default:
				expected[k] = d
			}
		}
		keys := append([]string{}, c.Keys...)
		getKeys = func() ([]string, error) { return keys, nil }
	}
	var srcStore storage.Store = hx.Local(src)
	var fh *flakyHas
	if c.SrcHasFault > 0 {
		fh = &flakyHas{Store: srcStore, nth: c.SrcHasFault}
		srcStore = fh
	}
	b := hx.NewBundle("repo", v.Stores, srcStore, L, core.ConcurrentFileUploads(c.UpConc), core.SkipMissing(c.Skip))
	err := core.VerifUpload(ctx, b, c.EPF, getKeys)
	if fh != nil && fh.hits > 0 {
		stats.Count("upload_with_a_failed_source_probe", 1)
		if err != nil && !expectFail {
			stats.Count("upload_refused_after_a_failed_source_probe", 1)
			return nil
		}
	}
	if expectFail {
		if err == nil {
			return fmt.Errorf("upload of a key list with a missing key (skip-missing off) succeeded")
		}
		// no visible bundle
		bs, lerr := core.ListBundles("repo", v.Stores)
		if lerr != nil {
			return fmt.Errorf("ListBundles after failed upload: %v", lerr)
		}
		if len(bs) != 0 {
			return fmt.Errorf("failed upload left a visible bundle %v", bs)
		}
		for _, k := range env.Meta.RawKeys() {
			if strings.HasSuffix(k, "/bundle.yaml") {
				return fmt.Errorf("failed upload left a descriptor %s", k)
			}
		}
		return nil
	}
	if err != nil {
		return fmt.Errorf("upload: %v", err)
	}
	id := b.BundleID
	// ---- metadata checks
	idx := indexKeys(env, "repo", id)
	wantIdx := (len(expected) + int(c.EPF) - 1) / int(c.EPF)
	if len(idx) != wantIdx {
		return fmt.Errorf("%d index objects in the store for %d entries at %d per file, want %d", len(idx), len(expected), c.EPF, wantIdx)
	}
	mb := hx.NewBundle("repo", v.Stores, nil, 0, core.BundleID(id), core.ConcurrentFilelistDownloads(c.DownConc))
	if err := core.VerifPublishMetadata(ctx, mb, false, c.EPF); err != nil {
		return fmt.Errorf("download metadata: %v", err)
	}
	if int(mb.BundleDescriptor.BundleEntriesFileCount) != len(idx) {
		return fmt.Errorf("descriptor count=%d but %d index objects exist", mb.BundleDescriptor.BundleEntriesFileCount, len(idx))
	}
	if mb.BundleDescriptor.ID != id || mb.BundleDescriptor.LeafSize != L {
		return fmt.Errorf("descriptor id/leaf mismatch: %+v", mb.BundleDescriptor)
	}
	seen := map[string]bool{}
	keyCache := map[string]string{}
	for _, e := range mb.BundleEntries {
		if seen[e.NameWithPath] {
			return fmt.Errorf("entry %q listed twice", e.NameWithPath)
		}
		seen[e.NameWithPath] = true
		d, ok := expected[e.NameWithPath]
		if !ok {
			return fmt.Errorf("bundle lists %q which must not be uploaded", e.NameWithPath)
		}
		if e.Size != uint64(len(d)) {
			return fmt.Errorf("entry %q size %d want %d", e.NameWithPath, e.Size, len(d))
		}
		want, ok := keyCache[string(d)]
		if !ok {
			var kerr error
			want, kerr = hx.CafsKey(d, L)
			if kerr != nil {
				return fmt.Errorf("harness key: %v", kerr)
			}
			keyCache[string(d)] = want
		}
		if e.Hash != want {
			return fmt.Errorf("entry %q hash %s want %s", e.NameWithPath, e.Hash, want)
		}
	}
	if len(seen) != len(expected) {
		var missing []string
		for p := range expected {
			if !seen[p] {
				missing = append(missing, p)
			}
		}
		sort.Strings(missing)
		return fmt.Errorf("bundle lists %d entries, want %d; missing %q", len(seen), len(expected), missing)
	}
	if c.Reuse {
		// a library user may keep the Bundle object: loading the metadata again must give the same entries
		first := append([]model.BundleEntry{}, mb.BundleEntries...)
		if err := core.VerifPublishMetadata(ctx, mb, false, c.EPF); err != nil {
			return fmt.Errorf("download metadata (second load on the same Bundle): %v", err)
		}
		if len(mb.BundleEntries) != len(first) {
			return fmt.Errorf("second metadata load on the same Bundle lists %d entries, first load %d", len(mb.BundleEntries), len(first))
		}
		for i := range first {
			a, b := first[i], mb.BundleEntries[i]
			if a.Hash != b.Hash || a.NameWithPath != b.NameWithPath || a.Size != b.Size || a.FileMode != b.FileMode || !a.Timestamp.Equal(b.Timestamp) {
				return fmt.Errorf("second metadata load on the same Bundle: entry %d is %+v, was %+v", i, mb.BundleEntries[i], first[i])
			}
		}
	}
	// ---- download
	dst := sc.Dir("dst")
	dstores := v.Stores
	var brk *hx.Breaker
	if c.BreakMeta > 0 {
		brk = hx.NewBreaker(v.Meta)
		dstores = context2.NewStores(v.Wal, v.ReadLog, v.Blob, brk, v.VMeta)
	}
	db := hx.NewBundle("repo", dstores, hx.Local(dst), 0, core.BundleID(id), core.ConcurrentFileDownloads(c.DownConc), core.ConcurrentFilelistDownloads(c.DownConc))
	if brk != nil {
		brk.Arm(c.BreakMeta, func(k string) bool { return strings.HasPrefix(k, "bundles/repo/"+id+"/") })
	}
	// downloadFailed tells whether a failed download is excused by the broken transfer (the case then ends)
	downloadFailed := func(err error) bool {
		if err != nil && brk != nil && brk.Hits > 0 {
			stats.Count("download_refused_after_broken_metadata_transfer", 1)
			return true
		}
		return false
	}
	if c.Reuse {
		// list first (as `bundle list files` does), then download with the same object
		if err := core.VerifPublishMetadata(ctx, db, false, c.EPF); err != nil {
			if downloadFailed(err) {
				return nil
			}
			return fmt.Errorf("download metadata before publish: %v", err)
		}
	}
	want := hx.Tree{}
	switch c.Download {
	case "publish":
		if err := core.VerifPublish(ctx, db, c.EPF, func(string) (bool, error) { return true, nil }); err != nil {
			if downloadFailed(err) {
				return nil
			}
			return fmt.Errorf("publish: %v", err)
		}
		want = expected
	case "select":
		re := regexp.MustCompile(c.SelectRe)
		if err := core.VerifPublish(ctx, db, c.EPF, func(s string) (bool, error) { return re.MatchString(s), nil }); err != nil {
			if downloadFailed(err) {
				return nil
			}
			return fmt.Errorf("publish select: %v", err)
		}
		for p, d := range expected {
			if re.MatchString(p) {
				want[p] = d
			}
		}
	case "file":
		if wantIdx > 1 && c.EPF != 1000 {
			// PublishFile has no entries-per-file parameter: only usable with one index file
			if err := core.VerifPublish(ctx, db, c.EPF, func(s string) (bool, error) { return s == c.SelectFile, nil }); err != nil {
				if downloadFailed(err) {
					return nil
				}
				return fmt.Errorf("publish select one: %v", err)
			}
			if d, ok := expected[c.SelectFile]; ok {
				want[c.SelectFile] = d
			}
		} else {
			err := core.PublishFile(ctx, db, c.SelectFile)
			if downloadFailed(err) {
				return nil
			}
			d, ok := expected[c.SelectFile]
			if !ok {
				if err == nil {
					return fmt.Errorf("PublishFile(%q) of a path not in the bundle succeeded", c.SelectFile)
				}
			} else {
				if err != nil {
					return fmt.Errorf("PublishFile(%q): %v", c.SelectFile, err)
				}
				want[c.SelectFile] = d
			}
		}
	}
	got, err := hx.ReadTree(dst)
	if err != nil {
		return fmt.Errorf("harness: %v", err)
	}
	if d := hx.DiffTrees(got.WithoutMeta(), want); d != "" {
		return fmt.Errorf("downloaded tree differs (%s): %s", c.Download, d)
	}
	// .datamon holds exactly the descriptor and the file lists
	wantMeta := map[string]bool{model.GetConsumablePathToBundle(id): true}
	for i := 0; i < wantIdx; i++ {
		wantMeta[model.GetConsumablePathToBundleFileList(id, uint64(i))] = true
	}
	for p := range got {
		if strings.HasPrefix(p, ".datamon/") {
			if !wantMeta[p] {
				return fmt.Errorf("unexpected metadata file %q in destination", p)
			}
			delete(wantMeta, p)
		}
	}
	if len(wantMeta) != 0 {
		return fmt.Errorf("metadata files missing in destination: %v", wantMeta)
	}
	return nil
}

func (c caseT) classes() (sig string, nontrivial bool) {
	n := len(c.Tree.Files)
	multi, decoy := false, false
	for _, f := range c.Tree.Files {
		if f.Content.Size > int(c.Tree.Leaf) {
			multi = true
		}
		if hx.IsGeneratedRef(f.Path) || strings.Contains(f.Path, ".datamon") || strings.Contains(f.Path, "onflicts") || strings.Contains(f.Path, ".checkpoints") {
			decoy = true
		}
	}
	cnt := "0"
	switch {
	case n == 0:
	case n <= 3:
		cnt = "1-3"
	case n <= 10:
		cnt = "4-10"
	default:
		cnt = ">10"
	}
	bclass := "single"
	if c.EPF < 1000 && n > 0 {
		switch n % int(c.EPF) {
		case 0:
			bclass = "exact"
		case 1:
			bclass = "plus1"
		case int(c.EPF) - 1:
			bclass = "minus1"
		default:
			bclass = "mid"
		}
	}
	nidx := (n + int(c.EPF) - 1) / int(c.EPF)
	nontrivial = multi || nidx >= 2 || decoy || c.Download != "publish" || c.Mode == "keys"
	sig = fmt.Sprintf("n=%s epf=%d b=%s mode=%s skip=%v dl=%s decoy=%v multi=%v reuse=%v", cnt, c.EPF, bclass, c.Mode, c.Skip, c.Download, decoy, multi, c.Reuse)
	return
}

func check(t interface{ Fatalf(string, ...interface{}) }, c caseT, limit time.Duration) {
	hx.Journal(c)
	err, hung, panicked := hx.Guard(limit, func() error { return runCase(c) })
	if hung || panicked || err != nil {
		t.Fatalf("%v (hung=%v panicked=%v)", err, hung, panicked)
	}
}

func TestProp(t *testing.T) {
	rapid.Check(t, func(t *rapid.T) {
		c := drawCase(t)
		check(t, c, 60*time.Second)
		sig, nt := c.classes()
		stats.Case(sig, nt, func() interface{} { return c })
		stats.Count("mode_"+c.Mode, 1)
		stats.Count("dl_"+c.Download, 1)
		stats.Count(fmt.Sprintf("epf_%d", c.EPF), 1)
	})
}

// TestRegressBigTrees crosses the production 1000-entries-per-index-file boundary with real trees
func TestRegressBigTrees(t *testing.T) {
	sizes := []int{999, 1000, 1001}
	if hx.Thorough() {
		sizes = append(sizes, 2000, 2001, 2500)
	}
	for _, n := range sizes {
		spec := hx.TreeSpec{Leaf: 1024}
		for i := 0; i < n; i++ {
			spec.Files = append(spec.Files, hx.FileSpec{Path: fmt.Sprintf("d%d/f%04d", i%7, i), Content: hx.ContentSpec{Leaf: 1024, Size: i % 5, Seed: uint64(i % 50)}})
		}
		// names that sort differently by byte order and by directory walk ("d1.txt" < "d1/f0001")
		for j := 0; j < 7; j++ {
			spec.Files = append(spec.Files, hx.FileSpec{Path: fmt.Sprintf("d%d.txt", j), Content: hx.ContentSpec{Leaf: 1024, Size: 3 + j, Seed: uint64(900 + j)}})
		}
		c := caseT{Tree: spec, EPF: 1000, UpConc: 20, DownConc: 10, Mode: "tree", Download: "publish"}
		check(t, c, 300*time.Second)
		// single-file downloads across the index-file boundary (production entry point, default index size)
		for _, uc := range []int{1, 20} {
			picks := []string{spec.Files[0].Path, spec.Files[n-1].Path, spec.Files[n/2].Path, "d1.txt", "d6.txt", fmt.Sprintf("d%d/f%04d", 999%7, 999), "no/such/file"}
			for _, pick := range picks {
				cc := caseT{Tree: spec, EPF: 1000, UpConc: uc, DownConc: 3, Mode: "tree", Download: "file", SelectFile: pick}
				check(t, cc, 300*time.Second)
			}
			if !hx.Thorough() {
				break
			}
		}
		sig, _ := c.classes()
		stats.Case(fmt.Sprintf("big n=%d %s", n, sig), true, func() interface{} { return fmt.Sprintf("big tree of %d tiny files, epf=1000", n) })
	}
}
