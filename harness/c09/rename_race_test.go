package c09

import (
	"context"
	"fmt"
	"strings"
	"testing"
	"time"

	"github.com/oneconcern/datamon/pkg/core"
	"github.com/oneconcern/datamon/pkg/model"

	"verifharness/hx"
	"verifharness/memstore"
)

// A RenameRepo(old -> NAME) is also a creator of NAME: racing it with a CreateRepo(NAME) of another
// client, exactly one of the two wins the name, the winner's repository is intact afterwards and the
// loser's source is untouched. All positions of the creator's single store write among the renamer's
// store calls are enumerated by re-execution under the harness scheduler.

func runRenameRace(prefix []int) (branch, chosen []int, hist []string, err error) {
	sc := hx.NewScratch()
	defer sc.Close()
	env := hx.NewEnv()
	prep := env.Actor("prep")
	if err = hx.CreateRepo(prep.Stores, "old"); err != nil {
		return
	}
	tree := hx.Tree{"a": []byte("content-a"), "d/b": []byte("content-b")}
	id, err := hx.UploadTree(sc, prep.Stores, "old", tree, 4096, core.BundleID(hx.KSUID(3, 3)))
	if err != nil {
		return
	}
	lb := hx.NewBundle("old", prep.Stores, nil, 0, core.BundleID(id))
	l := core.NewLabel(core.LabelDescriptor(model.NewLabelDescriptor(model.LabelName("rel"), model.LabelContributor(model.Contributor{Name: "v", Email: "v@example.com"}))))
	if err = l.UploadDescriptor(context.Background(), lb); err != nil {
		return
	}
	sched := memstore.NewSched()
	va, vb := env.Actor("creator"), env.Actor("renamer")
	for _, v := range []*hx.Views{va, vb} {
		sched.Attach(v.Meta)
		sched.Attach(v.VMeta)
	}
	var errA, errB error
	sched.Go("creator", func() {
		errA = core.CreateRepo(model.RepoDescriptor{Name: "new", Description: "made by the creator", Contributor: model.Contributor{Name: "c", Email: "c@example.com"}}, va.Stores)
	})
	sched.Go("renamer", func() { errB = core.RenameRepo("old", "new", vb.Stores) })
	if e := sched.Run(prefix, 20*time.Second); e != nil {
		sched.Free()
		return nil, nil, sched.History, fmt.Errorf("scheduler: %v", e)
	}
	branch, chosen, hist = sched.Branch, sched.Chosen, sched.History
	obs := env.Actor("obs")
	bundlesOf := func(r string) ([]string, error) {
		bs, e := core.ListBundles(r, obs.Stores)
		var ids []string
		for _, b := range bs {
			ids = append(ids, b.ID)
		}
		return ids, e
	}
	intact := func(r string) error {
		ids, e := bundlesOf(r)
		if e != nil || len(ids) != 1 || ids[0] != id {
			return fmt.Errorf("repo %s lists bundles %v (err %v), want [%s]", r, ids, e, id)
		}
		got, e := hx.Download(sc, obs.Stores, r, id)
		if e != nil {
			return fmt.Errorf("repo %s: download: %v", r, e)
		}
		if d := hx.DiffTrees(got.WithoutMeta(), tree); d != "" {
			return fmt.Errorf("repo %s: bundle differs: %s", r, d)
		}
		ls, e := core.ListLabels(r, obs.Stores)
		if e != nil || len(ls) != 1 || ls[0].Name != "rel" || ls[0].BundleID != id {
			return fmt.Errorf("repo %s: labels %v (err %v)", r, ls, e)
		}
		return nil
	}
	switch {
	case errA == nil && errB == nil:
		err = fmt.Errorf("both the creator and the renamer obtained the name")
	case errA == nil: // the creator won: its repository must be there, the renamer's source untouched
		d, e := core.GetRepoDescriptorByRepoName(obs.Stores, "new")
		if e != nil {
			err = fmt.Errorf("CreateRepo(new) reported success but the repository is gone: %v (renamer: %v)", e, errB)
			break
		}
		if d.Description != "made by the creator" {
			err = fmt.Errorf("the creator won but repo 'new' carries description %q", d.Description)
			break
		}
		if ids, _ := bundlesOf("new"); len(ids) != 0 {
			err = fmt.Errorf("the creator's new repository holds bundles %v", ids)
			break
		}
		if e := intact("old"); e != nil {
			err = fmt.Errorf("the renamer lost the name but its source repository is damaged: %v", e)
		}
	case errB == nil: // the renamer won
		if e := intact("new"); e != nil {
			err = fmt.Errorf("rename succeeded but: %v", e)
			break
		}
		if e := core.RepoExists("old", obs.Stores); e == nil {
			err = fmt.Errorf("rename succeeded but the old repository still exists")
		}
	default:
		err = fmt.Errorf("neither obtained the name: creator %v, renamer %v", errA, errB)
	}
	if err != nil {
		err = fmt.Errorf("%v; schedule %s", err, strings.Join(hist, " | "))
	}
	return
}

func TestRegressRenameVsCreateAllInterleavings(t *testing.T) {
	var prefix []int
	runs, limit := 0, 400
	for runs < limit {
		branch, chosen, _, err := runRenameRace(append([]int{}, prefix...))
		if err != nil {
			t.Fatalf("%v", err)
		}
		runs++
		stats.Case(fmt.Sprintf("rename-vs-create chosen=%v", chosen), true, func() interface{} {
			return map[string]interface{}{"actors": "CreateRepo(new) vs RenameRepo(old,new)", "schedule": chosen}
		})
		i := len(chosen) - 1
		for ; i >= 0; i-- {
			if chosen[i]+1 < branch[i] {
				break
			}
		}
		if i < 0 {
			stats.Count("rename_vs_create_complete", 1)
			break
		}
		prefix = append(append([]int{}, chosen[:i]...), chosen[i]+1)
	}
	stats.Count("rename_vs_create_schedules", runs)
}
