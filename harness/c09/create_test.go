package c09

import (
	"fmt"
	"strings"
	"sync"
	"testing"
	"time"

	"github.com/oneconcern/datamon/pkg/core"
	"github.com/oneconcern/datamon/pkg/model"
	"gopkg.in/yaml.v2"
	"pgregory.net/rapid"

	"verifharness/hx"
	"verifharness/memstore"
)

// createCase: n creators of the same name, next to already existing repositories
type createCase struct {
	N       int      `json:"creators"`
	Name    string   `json:"name"`
	Pre     []string `json:"existing"`
	Choices []int    `json:"choices"`
	Free    bool     `json:"free_running"`
	CRC     bool     `json:"crc"`
}

func creatorDesc(name string, i int) model.RepoDescriptor {
	return model.RepoDescriptor{
		Name:        name,
		Description: fmt.Sprintf("creator %d", i),
		Timestamp:   time.Date(2020, 1, 1+i, 0, 0, 0, 0, time.UTC),
		Contributor: model.Contributor{Name: fmt.Sprintf("c%d", i), Email: fmt.Sprintf("c%d@example.com", i)},
	}
}

// runCreate returns the schedule that was executed (scheduled mode) and the oracle verdict
func runCreate(c createCase) (history []string, err error) {
	env := hx.NewEnv()
	env.CRC = c.CRC
	setup := env.Actor("setup")
	for _, p := range c.Pre {
		if p == c.Name {
			continue
		}
		if e := hx.CreateRepo(setup.Stores, p); e != nil {
			return nil, fmt.Errorf("setup: %v", e)
		}
	}
	before := takeSnap(env)
	errs := make([]error, c.N)
	views := make([]*hx.Views, c.N)
	for i := range views {
		views[i] = env.Actor(fmt.Sprintf("p%d", i))
	}
	if c.Free {
		start := make(chan struct{})
		var wg sync.WaitGroup
		for i := 0; i < c.N; i++ {
			wg.Add(1)
			go func(i int) {
				defer wg.Done()
				<-start
				errs[i] = core.CreateRepo(creatorDesc(c.Name, i), views[i].Stores)
			}(i)
		}
		close(start)
		wg.Wait()
	} else {
		sched := memstore.NewSched()
		// every creator announces its first store call, so that the schedule is only driven once all
		// of them are about to park (keeps the choice -> schedule mapping stable on a loaded machine)
		var arrived sync.WaitGroup
		arrived.Add(c.N)
		onces := make([]sync.Once, c.N)
		for i := 0; i < c.N; i++ {
			i := i
			for _, v := range views[i].All() {
				v.Before(func(*memstore.Call) error {
					onces[i].Do(arrived.Done)
					return nil
				})
				sched.Attach(v)
			}
		}
		for i := 0; i < c.N; i++ {
			i := i
			sched.Go(fmt.Sprintf("p%d", i), func() {
				defer onces[i].Do(arrived.Done) // a creator that returns without any store call
				errs[i] = core.CreateRepo(creatorDesc(c.Name, i), views[i].Stores)
			})
		}
		arrived.Wait()
		rerr := sched.Run(c.Choices, 10*time.Second)
		sched.Free()
		history = append(history, sched.History...)
		if rerr != nil {
			return history, fmt.Errorf("harness: %v", rerr)
		}
	}
	// ---- oracle: exactly one creator succeeded and the stored descriptor is its own
	var winners []int
	for i, e := range errs {
		if e == nil {
			winners = append(winners, i)
		}
	}
	if len(winners) != 1 {
		return history, fmt.Errorf("%d concurrent CreateRepo(%q): %d succeeded (%v), want exactly 1; errors: %v", c.N, c.Name, len(winners), winners, errs)
	}
	after := takeSnap(env)
	d := diffMaps(before.meta, after.meta)
	if len(d.removed) != 0 || len(d.changed) != 0 || len(d.added) != 1 || d.added[0] != repoKey(c.Name) {
		return history, fmt.Errorf("concurrent CreateRepo(%q) changed the metadata store by %s, want exactly %q added", c.Name, d, repoKey(c.Name))
	}
	if dv, db := diffMaps(before.vmeta, after.vmeta), diffMaps(before.blob, after.blob); !dv.empty() || !db.empty() {
		return history, fmt.Errorf("concurrent CreateRepo(%q) touched other stores: %s / %s", c.Name, dv, db)
	}
	var stored model.RepoDescriptor
	if e := yaml.Unmarshal(after.meta[repoKey(c.Name)], &stored); e != nil {
		return history, fmt.Errorf("stored descriptor unreadable: %v", e)
	}
	want := creatorDesc(c.Name, winners[0])
	if stored.Name != want.Name || stored.Description != want.Description || stored.Contributor != want.Contributor || !stored.Timestamp.Equal(want.Timestamp) {
		return history, fmt.Errorf("creator %d succeeded but the stored descriptor is %+v", winners[0], stored)
	}
	// and datamon sees it
	rd, e := core.GetRepoDescriptorByRepoName(setup.Stores, c.Name)
	if e != nil || rd.Description != want.Description {
		return history, fmt.Errorf("GetRepoDescriptorByRepoName(%q) = %+v, %v; want the winner's descriptor", c.Name, rd, e)
	}
	repos, e := core.ListRepos(setup.Stores)
	if e != nil {
		return history, fmt.Errorf("ListRepos: %v", e)
	}
	wantNames := map[string]bool{c.Name: true}
	for _, p := range c.Pre {
		wantNames[p] = true
	}
	var got []string
	for _, r := range repos {
		got = append(got, r.Name)
	}
	if s := sameSet(got, wantNames, "missing", "unexpected"); s != "" || len(got) != len(wantNames) {
		return history, fmt.Errorf("ListRepos after concurrent create = %v: %s", got, s)
	}
	return history, nil
}

func checkCreate(t interface {
	Fatalf(string, ...interface{})
}, c createCase) []string {
	hx.Journal(c)
	var hist []string
	err, hung, panicked := hx.Guard(60*time.Second, func() error {
		var e error
		hist, e = runCreate(c)
		return e
	})
	if hung || panicked || err != nil {
		t.Fatalf("%v (hung=%v panicked=%v) schedule=%v", err, hung, panicked, hist)
	}
	return hist
}

func recordCreate(c createCase, hist []string) {
	mode := "sched"
	if c.Free {
		mode = "free"
	}
	rel := "none"
	m := modelT{}
	for _, p := range c.Pre {
		m[p] = nil
	}
	rel = relation(c.Name, m)
	// class: number of creators, mode, prefix relation, order of the creators' first calls
	order := ""
	seen := map[string]bool{}
	for _, h := range hist {
		a := h[:strings.IndexByte(h, ':')]
		if !seen[a] {
			seen[a] = true
			order += a
		}
	}
	stats.Count("create_"+mode, 1)
	stats.Count(fmt.Sprintf("create_n%d", c.N), 1)
	stats.Case(fmt.Sprintf("create n=%d mode=%s rel=%s order=%s crc=%v", c.N, mode, rel, order, c.CRC), true, func() interface{} { return c })
}

// TestPropConcurrentCreate draws the number of creators, the neighbours and the interleaving
func TestPropConcurrentCreate(t *testing.T) {
	rapid.Check(t, func(t *rapid.T) {
		fam := rapid.SampledFrom(families).Draw(t, "family")
		c := createCase{
			N:    rapid.IntRange(2, 4).Draw(t, "n"),
			Name: rapid.SampledFrom(fam).Draw(t, "name"),
			Pre:  rapid.SliceOfNDistinct(rapid.SampledFrom(fam), 0, 3, rapid.ID[string]).Draw(t, "pre"),
			Free: rapid.IntRange(0, 2).Draw(t, "free") == 0,
			CRC:  rapid.Bool().Draw(t, "crc"),
		}
		pre := c.Pre[:0]
		for _, p := range c.Pre {
			if p != c.Name {
				pre = append(pre, p)
			}
		}
		c.Pre = pre
		if !c.Free {
			c.Choices = rapid.SliceOfN(rapid.IntRange(0, 3), 0, 12).Draw(t, "choices")
		}
		hist := checkCreate(t, c)
		recordCreate(c, hist)
	})
}

// TestRegressCreateAllInterleavings enumerates every interleaving of the creators' store calls for
// 2, 3 and 4 creators: all choice sequences over the number of calls observed, de-duplicated by the
// executed schedule.
func TestRegressCreateAllInterleavings(t *testing.T) {
	total := 0
	complete := true
	for n := 2; n <= 4; n++ {
		base := createCase{N: n, Name: "ab", Pre: []string{"a", "abc"}}
		hist := checkCreate(t, base)
		steps := len(hist)
		if steps < n {
			t.Fatalf("harness: %d creators made only %d store calls", n, steps)
		}
		if steps > 8 {
			steps = 8
		}
		distinct := map[string]bool{}
		want := 1
		for k := 2; k <= n; k++ {
			want *= k
		}
		// one pass over all choice sequences reaches every interleaving when all creators are parked
		// at each step; on a heavily loaded machine a late creator can shift the mapping, so the
		// pass is repeated (at most 4 times) until all n! schedules were seen
		for pass := 0; pass < 4 && (pass == 0 || (len(hist) == n && len(distinct) < want)); pass++ {
			choices := make([]int, steps)
			for {
				c := base
				c.Choices = append([]int{}, choices...)
				h := checkCreate(t, c)
				key := strings.Join(h, " ")
				if !distinct[key] {
					distinct[key] = true
					recordCreate(c, h)
				}
				// next sequence; position i has at most n-i alternatives when every creator makes one call
				i := steps - 1
				for ; i >= 0; i-- {
					choices[i]++
					if choices[i] < n {
						break
					}
					choices[i] = 0
				}
				if i < 0 {
					break
				}
			}
		}
		if len(hist) == n && len(distinct) > want {
			t.Fatalf("harness: %d distinct schedules for %d single-call creators, more than %d", len(distinct), n, want)
		}
		if len(hist) == n && len(distinct) < want {
			complete = false
			t.Logf("only %d of %d interleavings of %d creators were reached (loaded machine)", len(distinct), want, n)
		}
		total += len(distinct)
	}
	if complete {
		stats.Note("create_interleavings", fmt.Sprintf("all %d interleavings of the store calls of 2, 3 and 4 concurrent creators enumerated", total))
	} else {
		stats.Note("create_interleavings", fmt.Sprintf("%d interleavings of the store calls of 2, 3 and 4 concurrent creators executed (enumeration incomplete)", total))
	}
	stats.Count("create_schedules_enumerated", total)
}

// TestRegressCreateFreeRunning repeats the free-running race (meant for -race in the thorough tier)
func TestRegressCreateFreeRunning(t *testing.T) {
	rounds := 50
	if hx.Thorough() {
		rounds = 500
	}
	for i := 0; i < rounds; i++ {
		c := createCase{N: 2 + i%3, Name: "repo-1", Pre: []string{"repo", "repo-10"}, Free: true, CRC: i%2 == 0}
		checkCreate(t, c)
	}
	stats.Count("create_free_pinned", rounds)
}
