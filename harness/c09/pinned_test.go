package c09

import (
	"fmt"
	"strings"
	"testing"
	"time"

	"verifharness/hx"
)

func cs(size int, seed uint64) hx.ContentSpec {
	return hx.ContentSpec{Leaf: 4096, Size: size, Seed: seed}
}

var pinnedPool = []hx.FileSpec{
	{Path: "a", Content: cs(10, 1)},
	{Path: "ab", Content: cs(5000, 2)},
	{Path: "dir/a", Content: cs(4096, 3)},
	{Path: "dir/sub dir/ünï", Content: cs(0, 4)},
	{Path: "x.y", Content: cs(10, 1)}, // same bytes as "a"
	{Path: "z", Content: cs(9000, 5)},
}

func all(n int) ([]int, []bool) { return seq(n), make([]bool, n) }

func pinnedRepos() []repoSpec {
	p6, a6 := all(6)
	return []repoSpec{
		{Name: "a", Bundles: []bundleSpec{{Sec: 1, Tag: 1, Pick: p6, Alt: a6}, {Sec: 2, Tag: 1, Pick: []int{0, 2}, Alt: []bool{false, true}}}, Labels: []labelSpec{{"v1", 0}, {"latest", 1}}},
		{Name: "ab", Bundles: []bundleSpec{{Sec: 1, Tag: 1, Pick: p6, Alt: a6}}, Labels: []labelSpec{{"v1", 0}, {"prod", 0}}},
		{Name: "a-b", Bundles: []bundleSpec{{Sec: 1, Tag: 1, Pick: []int{0, 1, 2, 3, 4}, Alt: make([]bool, 5)}, {Sec: 3, Tag: 2, Pick: nil, Alt: nil}}, Labels: []labelSpec{{"latest", 1}}},
		{Name: "abc"},
	}
}

// TestRegressPinned: fixed histories on prefix-related repositories sharing bundle IDs and blobs
func TestRegressPinned(t *testing.T) {
	ops := [][]opSpec{
		{{Kind: "delrepo", Repo: "a"}},
		{{Kind: "delrepo", Repo: "ab"}, {Kind: "create", Repo: "ab"}},
		{{Kind: "delrepo", Repo: "abc"}},
		{{Kind: "delrepo", Repo: "a1"}},
		{{Kind: "rename", Repo: "a", New: "a1"}},
		{{Kind: "rename", Repo: "ab", New: "a"}},
		{{Kind: "rename", Repo: "ab", New: "ab"}},
		{{Kind: "rename", Repo: "zz", New: "a1"}},
		{{Kind: "rename", Repo: "a-b", New: "a-"}, {Kind: "delrepo", Repo: "a-"}},
		{{Kind: "rename", Repo: "a", New: "abcd"}, {Kind: "rename", Repo: "abcd", New: "a"}},
		{{Kind: "delfiles", Repo: "a", Sels: []selT{{Kind: "literal", S: "a"}}}},
		{{Kind: "delfiles", Repo: "a", Sels: []selT{{Kind: "literal", S: "dir"}, {Kind: "literal", S: "A"}, {Kind: "literal", S: "dir/sub dir"}, {Kind: "literal", S: "zz"}}}},
		{{Kind: "delfiles", Repo: "a", Sels: []selT{{Kind: "allof", B: 1}}}, {Kind: "rename", Repo: "a", New: "a1"}},
		{{Kind: "delfiles", Repo: "a-b", Sels: []selT{{Kind: "allof", B: 0}}}},
		{{Kind: "delfiles", Repo: "nope", Sels: []selT{{Kind: "literal", S: "a"}}}},
		{{Kind: "delbundle", Repo: "a", Bundle: 0}},
		{{Kind: "delbundle", Repo: "a", Bundle: -1}},
		{{Kind: "dellabel", Repo: "ab", Label: "v1"}},
		{{Kind: "dellabel", Repo: "abc", Label: "v1"}},
		{{Kind: "create", Repo: "a"}},
	}
	for _, epf := range []uint{1000, 2} {
		for _, crc := range []bool{false, true} {
			for i, o := range ops {
				if epf == 2 && (hasNonLastHit(o) || crc != (i%2 == 0)) {
					continue
				}
				c := caseT{Leaf: 4096, EPF: epf, CRC: crc, Pool: pinnedPool, Repos: pinnedRepos(), Ops: o}
				t.Run(fmt.Sprintf("epf%d-crc%v-%d", epf, crc, i), func(t *testing.T) {
					info := check(t, c, 120*time.Second)
					record(c, info)
				})
			}
		}
	}
}

// with two entries per index object the pinned delete-files cases on non-last objects belong to
// the known finding; they are exercised by TestKnownDeleteFilesNonLastIndex instead
func hasNonLastHit(ops []opSpec) bool {
	for _, o := range ops {
		if o.Kind == "delfiles" && o.Repo != "nope" {
			for _, s := range o.Sels {
				if s.Kind == "allof" || (s.Kind == "literal" && s.S == "a") {
					return true
				}
			}
		}
	}
	return false
}

// TestRegressDeleteFilesLastIndex: entries removed from the last index object only
func TestRegressDeleteFilesLastIndex(t *testing.T) {
	for _, epf := range []uint{1, 2, 3} {
		for a := 0; a < 3; a++ {
			c := caseT{Leaf: 4096, EPF: epf, Pool: pinnedPool, Repos: pinnedRepos(), Ops: []opSpec{{Kind: "delfiles", Repo: "a", Sels: []selT{{Kind: "pos", A: a, B: 0, C: 2}}}}}
			info := check(t, c, 120*time.Second)
			if len(info.Ops) != 1 || info.Ops[0].Index != "last" || info.Ops[0].Hit == "none" {
				t.Fatalf("harness: pinned case does not hit the last index object: %+v", info.Ops)
			}
			record(c, info)
		}
	}
}

func nonLastCase(epf uint, sel selT) caseT {
	return caseT{Leaf: 4096, EPF: epf, Pool: pinnedPool, Repos: pinnedRepos(), Ops: []opSpec{{Kind: "delfiles", Repo: "a", Sels: []selT{sel}}}}
}

// TestKnownDeleteFilesNonLastIndex: a path removed from an index object that is not the last one of
// its bundle. Property: "deleting files from a repository removes exactly those paths from every
// bundle and nothing else".
func TestKnownDeleteFilesNonLastIndex(t *testing.T) {
	t.Setenv("VERIF_NO_EXCLUDE", "1")
	var failures []string
	n := 0
	for _, epf := range []uint{1, 2, 3} {
		for _, sel := range []selT{{Kind: "pos", A: 0, B: 0, C: 0}, {Kind: "pos", A: 1, B: 0, C: 1}} {
			c := nonLastCase(epf, sel)
			n++
			var info caseInfo
			err, hung, panicked := hx.Guard(120*time.Second, func() error {
				var e error
				info, e = runCase(c)
				return e
			})
			if len(info.Ops) == 1 && info.Ops[0].Index != "nonlast" {
				if epf == 3 && sel.C == 1 {
					continue // 6 entries, 2 objects: the "middle" object is the last one
				}
				t.Fatalf("harness: pinned case does not hit a non-last index object: %+v", info.Ops)
			}
			if hung || panicked {
				t.Fatalf("epf=%d: %v (hung=%v panicked=%v)", epf, err, hung, panicked)
			}
			if err != nil {
				failures = append(failures, fmt.Sprintf("epf=%d %v: %v", epf, info.Ops[0].Paths, err))
			}
		}
	}
	if len(failures) == 0 {
		return // repaired
	}
	for _, f := range failures {
		if !strings.Contains(f, "cannot be downloaded") || !strings.Contains(f, "expected number of bundle entries") {
			t.Fatalf("unexpected kind of failure: %s", f)
		}
	}
	what := fmt.Sprintf("DeleteEntriesFromRepo removing a path stored in a non-last index file leaves the bundle unreadable (%d of %d pinned cases); first: %s", len(failures), n, failures[0])
	if hx.Listed(KnownNonLast) {
		stats.KnownFinding(KnownNonLast, what)
		return
	}
	t.Fatalf("%s", what)
}

// TestKnownDeleteFilesNonLastIndexDefault: the same at the production constant of 1000 entries per
// index file, through the unhooked entry points only (Upload, DeleteEntriesFromRepo, Publish).
func TestKnownDeleteFilesNonLastIndexDefault(t *testing.T) {
	t.Setenv("VERIF_NO_EXCLUDE", "1")
	const n = 1003
	var pool []hx.FileSpec
	for i := 0; i < n; i++ {
		pool = append(pool, hx.FileSpec{Path: fmt.Sprintf("d%d/f%04d", i%7, i), Content: hx.ContentSpec{Leaf: 4096, Size: i % 5, Seed: uint64(i % 50)}})
	}
	p, a := all(n)
	repos := []repoSpec{
		{Name: "big", Bundles: []bundleSpec{{Sec: 1, Tag: 1, Pick: p, Alt: a}}, Labels: []labelSpec{{"v1", 0}}},
		{Name: "big-2", Bundles: []bundleSpec{{Sec: 1, Tag: 1, Pick: []int{0, 1, 2}, Alt: make([]bool, 3)}}},
	}
	// last index object: fine
	if hx.Thorough() {
		last := caseT{Leaf: 4096, EPF: 1000, Pool: pool, Repos: repos, Ops: []opSpec{{Kind: "delfiles", Repo: "big", Sels: []selT{{Kind: "pos", A: 1, B: 0, C: 2}}}}}
		info := check(t, last, 300*time.Second)
		if info.Ops[0].Index != "last" {
			t.Fatalf("harness: expected a hit in the last index object: %+v", info.Ops)
		}
		record(last, info)
	}
	// first index object
	c := caseT{Leaf: 4096, EPF: 1000, Pool: pool, Repos: repos, Ops: []opSpec{{Kind: "delfiles", Repo: "big", Sels: []selT{{Kind: "pos", A: 17, B: 0, C: 0}}}}}
	var info caseInfo
	err, hung, panicked := hx.Guard(300*time.Second, func() error {
		var e error
		info, e = runCase(c)
		return e
	})
	if hung || panicked {
		t.Fatalf("%v (hung=%v panicked=%v)", err, hung, panicked)
	}
	if len(info.Ops) != 1 || info.Ops[0].Index != "nonlast" {
		t.Fatalf("harness: expected a hit in a non-last index object: %+v (%v)", info.Ops, err)
	}
	if err == nil {
		return // repaired
	}
	if !strings.Contains(err.Error(), "cannot be downloaded") {
		t.Fatalf("unexpected kind of failure: %v", err)
	}
	what := fmt.Sprintf("at the production 1000 entries per index file: a bundle of %d files is unreadable after DeleteEntriesFromRepo(%q): %v", n, info.Ops[0].Paths, err)
	if hx.Listed(KnownNonLast) {
		stats.KnownFinding(KnownNonLast, what)
		return
	}
	t.Fatalf("%s", what)
}

// TestKnownDeleteRepoLeftover: a repository holding the file list of an interrupted upload (no
// bundle.yaml). Property: "Deleting a repository removes all of its bundles, file lists and labels
// ...; renaming moves every bundle ... and label to the new name and removes the old one".
func TestKnownDeleteRepoLeftover(t *testing.T) {
	t.Setenv("VERIF_NO_EXCLUDE", "1")
	var failures []string
	for _, ops := range [][]opSpec{
		{{Kind: "delrepo", Repo: "a"}},
		{{Kind: "rename", Repo: "a", New: "a1"}},
		{{Kind: "delrepo", Repo: "abc"}},
	} {
		repos := pinnedRepos()
		repos[0].Leftover = true // "a"
		repos[3].Leftover = true // "abc": nothing but the leftover
		c := caseT{Leaf: 4096, EPF: 1000, Pool: pinnedPool, Repos: repos, Ops: ops}
		err, hung, panicked := hx.Guard(120*time.Second, func() error {
			_, e := runCase(c)
			return e
		})
		if hung || panicked {
			t.Fatalf("%v (hung=%v panicked=%v)", err, hung, panicked)
		}
		if err != nil {
			if !strings.Contains(err.Error(), "objects removed from the metadata stores differ") || !strings.Contains(err.Error(), "bundle-files-0.yaml") || strings.Contains(err.Error(), "must not be removed") {
				t.Fatalf("unexpected kind of failure: %v", err)
			}
			failures = append(failures, err.Error())
		}
	}
	if len(failures) == 0 {
		return // repaired
	}
	what := fmt.Sprintf("file lists left by an interrupted upload survive DeleteRepo / RenameRepo under the old repository name (%d of 3 pinned cases); first: %s", len(failures), failures[0])
	if hx.Listed(KnownLeftover) {
		stats.KnownFinding(KnownLeftover, what)
		return
	}
	t.Fatalf("%s", what)
}
