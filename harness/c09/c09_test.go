// Package c09 checks property C09: repository operations (create, delete, rename, delete-files,
// and their building blocks delete-bundle / delete-label) affect exactly their own repository.
//
// Oracle: a map model of repos -> bundles -> entries and labels, built from the generated inputs,
// plus a model of the archive key layout (repos/{repo}/repo.yaml, bundles/{repo}/{id}/bundle.yaml,
// bundles/{repo}/{id}/bundle-files-{n}.yaml, labels/{repo}/{label}/label.yaml). After every
// operation the raw difference of the metadata, vmetadata and blob stores must be exactly what the
// model predicts, and the repositories touched are read back through datamon's own listings and
// downloads; at the end every repository is read back.
package c09

import (
	"bytes"
	"context"
	"errors"
	"fmt"
	"os"
	"path/filepath"
	"sort"
	"strings"
	"testing"
	"time"

	context2 "github.com/oneconcern/datamon/pkg/context"
	"github.com/oneconcern/datamon/pkg/core"
	"github.com/oneconcern/datamon/pkg/model"
	"gopkg.in/yaml.v2"
	"pgregory.net/rapid"

	"verifharness/evid"
	"verifharness/hx"
	"verifharness/memstore"
)

var stats = evid.New("C09", "rapid: 2-4 repositories with prefix-related names (a, ab, a-b, abc, ...), 0-3 bundles each drawn as subsets of a shared pool of paths with shared / alternative contents (shared blobs, optionally the same bundle ID in several repos), entries per index file in {1,2,3,1000} through the verif hook (multi-index bundles), labels, plain or CRC stores, optionally the file list of an interrupted upload (no bundle.yaml) in a repository; then 1-2 operations among DeleteRepo, RenameRepo (new name absent / present / itself), DeleteEntriesFromRepo (paths present, absent, near misses, all files of a bundle, positions in the first / middle / last index file), DeleteBundle, DeleteLabel, CreateRepo, on existing and absent repositories. Oracle: map model + archive key-layout model: after each operation the raw diff of the three stores is exactly the predicted one and the touched repositories are listed and downloaded through datamon; at the end all repositories are. Concurrent CreateRepo: 2-4 creators of one name under the memstore scheduler (all interleavings of their store calls enumerated in the pinned test, drawn in the property) and free running. Input classes of listed known findings are excluded and counted (excluded_<id>). Non-trivial: the target repository name is a proper prefix of / has as proper prefix another existing repository, or delete-files touches a bundle with >= 2 index files; distinct by (operation, outcome, prefix relation, hit class, index class).")

func TestMain(m *testing.M) {
	code := m.Run()
	stats.Flush()
	// A download that fails half-way (the pinned cases of the known finding) leaves datamon goroutines
	// behind which may re-create files in the case directory after it was removed: sweep at exit.
	if left, err := filepath.Glob(filepath.Join(hx.ScratchRoot(), fmt.Sprintf("verif-%d-*", os.Getpid()))); err == nil {
		for _, d := range left {
			_ = os.RemoveAll(d)
		}
	}
	os.Exit(code)
}

// KnownNonLast is the id of the known finding: DeleteEntriesFromRepo shrinking a non-last index file
const KnownNonLast = "C09-delete-files-nonlast-index-unreadable"

// KnownLeftover is the id of the known finding: DeleteRepo / RenameRepo leave the file lists of
// interrupted uploads (no bundle.yaml) behind under the old name
const KnownLeftover = "C09-delete-repo-keeps-interrupted-upload-file-lists"

// ---------------------------------------------------------------------------------------------
// case description

type bundleSpec struct {
	Sec  int    `json:"sec"`
	Tag  uint64 `json:"tag"`
	Pick []int  `json:"pick"` // indexes into the pool
	Alt  []bool `json:"alt"`  // alternative content for that pick
}

func (b bundleSpec) id() string { return hx.KSUID(b.Sec, b.Tag) }

type labelSpec struct {
	Name   string `json:"name"`
	Bundle int    `json:"bundle"`
}

type repoSpec struct {
	Name    string       `json:"name"`
	Bundles []bundleSpec `json:"bundles"`
	Labels  []labelSpec  `json:"labels"`
	// Leftover: the repository also holds the first file list of an upload that was interrupted
	// before its bundle.yaml was written (put there by the harness, as the dead uploader would have)
	Leftover bool `json:"leftover,omitempty"`
}

func leftoverID(ri int) string { return hx.KSUID(7, uint64(500+ri)) }

// selT selects paths for delete-files; resolved against the state at the time of the operation
type selT struct {
	Kind string `json:"kind"` // pool | absent | dir | longer | shorter | upper | allof | pos | literal
	A    int    `json:"a"`
	B    int    `json:"b"`
	C    int    `json:"c"`
	S    string `json:"s,omitempty"`
}

type opSpec struct {
	Kind     string `json:"kind"` // delrepo | rename | delfiles | delbundle | dellabel | create
	Repo     string `json:"repo"`
	New      string `json:"new,omitempty"`
	Bundle   int    `json:"bundle,omitempty"`    // -1: an id that does not exist
	Label    string `json:"label,omitempty"`     // dellabel: literal name (pinned cases) ...
	LabelIdx int    `json:"label_idx,omitempty"` // ... or index into the labels of the target; -1: a label that does not exist
	Sels     []selT `json:"sels,omitempty"`
	// FaultNth (rename): the Nth write under the new repository's bundles fails once. A rename that reports the
	// failure must have left the old repository as it was (the case ends there); one that reports success is
	// checked like any other
	FaultNth int `json:"fault_nth,omitempty"`
}

var errCaseEnds = errors.New("the case ends after a refused operation")

type caseT struct {
	Leaf  uint32        `json:"leaf"`
	EPF   uint          `json:"entries_per_file"`
	CRC   bool          `json:"crc"`
	Pool  []hx.FileSpec `json:"pool"`
	Repos []repoSpec    `json:"repos"`
	Ops   []opSpec      `json:"ops"`
}

// name families: every family is closed under "is a prefix of"
var families = [][]string{
	{"a", "ab", "abc", "a-b", "a-", "a1", "ab-c"},
	{"repo", "repo-1", "repo-10", "repo1", "rep", "repo-"},
	{"é", "éa", "e", "ea", "é-"},
	{"x", "y", "xy", "yx", "x-y"},
}

var labelNames = []string{"v1", "latest", "prod", "v1-0", "a", "ab", "a_b"}

func altContent(c hx.ContentSpec) hx.ContentSpec {
	c.Seed ^= 0x5555
	c.Kind = 0
	if c.Size == 0 {
		c.Size = 3
	}
	return c
}

func drawCase(t *rapid.T) caseT {
	c := caseT{}
	c.Leaf = []uint32{4096, 8192, 16384, 65536}[pick(t, "leaf", 4)]
	c.EPF = []uint{1, 2, 2, 3, 3, 1000}[pick(t, "epf", 6)]
	c.CRC = rapid.Bool().Draw(t, "crc")
	pool := hx.GenTree(t, c.Leaf, 3, 8, 1, false, "pool")
	c.Pool = pool.Files
	f1 := pick(t, "family", len(families))
	fam := append([]string{}, families[f1]...)
	if f2 := pick(t, "family2", 6*len(families)); f2 < len(families) && f2 != f1 {
		fam = append(fam, families[f2]...)
	}
	names := rapid.SliceOfNDistinct(rapid.SampledFrom(fam), 2, 4, rapid.ID[string]).Draw(t, "names")
	sameIDs := pick(t, "sameids", 3) == 0
	for ri, n := range names {
		r := repoSpec{Name: n}
		nb := []int{0, 1, 1, 1, 2, 2, 3}[pick(t, "nbundles", 7)]
		used := map[string]bool{}
		for bi := 0; bi < nb; bi++ {
			b := bundleSpec{Sec: pick(t, "sec", 3), Tag: uint64(1 + pick(t, "tag", 2))}
			if !sameIDs {
				b.Tag += uint64(10 * (ri + 1))
			}
			for used[b.id()] {
				b.Tag += 100
			}
			used[b.id()] = true
			// number of files: around multiples of the index size when that is small
			var k int
			if c.EPF < 1000 && rapid.Bool().Draw(t, "boundary") {
				k = int(c.EPF)*rapid.IntRange(1, 3).Draw(t, "m") + rapid.IntRange(-1, 1).Draw(t, "bd")
			} else {
				k = rapid.IntRange(0, len(c.Pool)).Draw(t, "k")
			}
			if k < 0 {
				k = 0
			}
			if k > len(c.Pool) {
				k = len(c.Pool)
			}
			perm := rapid.Permutation(seq(len(c.Pool))).Draw(t, "perm")
			b.Pick = append([]int{}, perm[:k]...)
			sort.Ints(b.Pick)
			for range b.Pick {
				b.Alt = append(b.Alt, rapid.IntRange(0, 3).Draw(t, "alt") == 0)
			}
			r.Bundles = append(r.Bundles, b)
		}
		if nb > 0 {
			nl := rapid.IntRange(0, 3).Draw(t, "nlabels")
			seen := map[string]bool{}
			for li := 0; li < nl; li++ {
				ln := rapid.SampledFrom(labelNames).Draw(t, "label")
				if seen[ln] {
					continue
				}
				seen[ln] = true
				r.Labels = append(r.Labels, labelSpec{Name: ln, Bundle: rapid.IntRange(0, nb-1).Draw(t, "labelbundle")})
			}
		}
		r.Leftover = pick(t, "leftover", 5) == 0
		if r.Leftover && hx.Known(KnownLeftover) {
			r.Leftover = false
			stats.Count("excluded_"+KnownLeftover, 1)
		}
		c.Repos = append(c.Repos, r)
	}
	// targets: mostly the created repositories, sometimes another name of the family
	var spare []string
	for _, n := range fam {
		created := false
		for _, m := range names {
			created = created || m == n
		}
		if !created {
			spare = append(spare, n)
		}
	}
	pickName := func(label string, pExisting int) string {
		if len(spare) == 0 || pick(t, label+"_which", 100) < pExisting {
			return names[pick(t, label+"_created", len(names))]
		}
		return spare[pick(t, label+"_spare", len(spare))]
	}
	nops := []int{1, 1, 1, 2}[pick(t, "nops", 4)]
	kinds := []string{"delrepo", "delrepo", "delrepo", "rename", "rename", "rename", "rename", "delfiles", "delfiles", "delfiles", "delfiles", "delfiles", "delbundle", "dellabel", "create"}
	selKinds := []string{"pool", "pool", "pos", "pos", "pos", "pos", "pos", "pos", "allof", "absent", "dir", "longer", "shorter", "upper"}
	for i := 0; i < nops; i++ {
		op := opSpec{}
		op.Kind = kinds[pick(t, "op", len(kinds))]
		op.Repo = pickName("target", 88)
		// operations on bundles / labels / entries: prefer a repository that has some
		var withFiles, withLabels []string
		for _, r := range c.Repos {
			nf := 0
			for _, b := range r.Bundles {
				nf += len(b.Pick)
			}
			if nf > 0 {
				withFiles = append(withFiles, r.Name)
			}
			if len(r.Labels) > 0 {
				withLabels = append(withLabels, r.Name)
			}
		}
		if (op.Kind == "delfiles" || op.Kind == "delbundle") && len(withFiles) > 0 && pick(t, "target_rich", 100) < 80 {
			op.Repo = withFiles[pick(t, "target_withfiles", len(withFiles))]
		}
		if op.Kind == "dellabel" && len(withLabels) > 0 && pick(t, "target_rich", 100) < 80 {
			op.Repo = withLabels[pick(t, "target_withlabels", len(withLabels))]
		}
		switch op.Kind {
		case "delrepo":
			if pick(t, "delrepo_fault", 4) == 0 {
				op.FaultNth = 1 + pick(t, "delrepo_fault_nth", 8)
			}
		case "rename":
			op.New = pickName("newname", 25)
			if pick(t, "rename_fault", 4) == 0 {
				op.FaultNth = 1 + pick(t, "rename_fault_nth", 8)
			}
		case "create":
			op.Repo = pickName("createname", 30)
		case "delbundle":
			op.Bundle = pick(t, "opbundle", 5) - 1
		case "dellabel":
			op.LabelIdx = pick(t, "oplabel", 5) - 1
		case "delfiles":
			ns := pick(t, "nsel", 5)
			if ns == 0 && pick(t, "nonempty", 4) > 0 {
				ns = 1
			}
			for j := 0; j < ns; j++ {
				s := selT{}
				s.Kind = selKinds[pick(t, "sel", len(selKinds))]
				s.A = pick(t, "selA", 8)
				s.B = pick(t, "selB", 3)
				s.C = pick(t, "selC", 4)
				op.Sels = append(op.Sels, s)
			}
		}
		c.Ops = append(c.Ops, op)
	}
	return c
}

// pick draws an index in [0,n) without rapid's bias towards small values: the drawn number goes
// through a bijective mixer (mix(0) = 0, so cases still shrink towards index 0) before the modulo
func pick(t *rapid.T, label string, n int) int {
	z := rapid.Uint64().Draw(t, label)
	z = (z ^ (z >> 30)) * 0xBF58476D1CE4E5B9
	z = (z ^ (z >> 27)) * 0x94D049BB133111EB
	z ^= z >> 31
	return int(z % uint64(n))
}

func seq(n int) []int {
	out := make([]int, n)
	for i := range out {
		out[i] = i
	}
	return out
}

// ---------------------------------------------------------------------------------------------
// model

type mFile struct {
	data []byte
	hash string
	size uint64
}

type mBundle struct {
	id    string
	files map[string]mFile
}

type mRepo struct {
	bundles map[string]*mBundle
	labels  map[string]string
}

type modelT map[string]*mRepo

func (r *mRepo) ids() []string {
	out := make([]string, 0, len(r.bundles))
	for id := range r.bundles {
		out = append(out, id)
	}
	sort.Strings(out)
	return out
}

func (m modelT) names() []string {
	out := make([]string, 0, len(m))
	for n := range m {
		out = append(out, n)
	}
	sort.Strings(out)
	return out
}

// ---------------------------------------------------------------------------------------------
// archive key layout model

// owner returns the repository a metadata / vmetadata key belongs to
func owner(key string) (kind, repo string, ok bool) {
	parts := strings.SplitN(key, "/", 3)
	if len(parts) < 3 {
		return "", "", false
	}
	switch parts[0] {
	case "repos", "bundles", "labels":
		return parts[0], parts[1], true
	}
	return "", "", false
}

func repoKey(repo string) string          { return "repos/" + repo + "/repo.yaml" }
func bundlePrefix(repo, id string) string { return "bundles/" + repo + "/" + id + "/" }
func labelKey(repo, label string) string  { return "labels/" + repo + "/" + label + "/label.yaml" }
func isFileList(key string) bool          { return strings.Contains(key, "/bundle-files-") }
func swapRepo(key, from, to string) string {
	kind, _, _ := owner(key)
	return kind + "/" + to + strings.TrimPrefix(key, kind+"/"+from)
}

type snapT struct {
	meta, vmeta, blob map[string][]byte
}

func takeSnap(env *hx.Env) snapT {
	f := func(b interface {
		RawKeys() []string
		RawGet(string) ([]byte, bool)
	}) map[string][]byte {
		out := map[string][]byte{}
		for _, k := range b.RawKeys() {
			d, _ := b.RawGet(k)
			out[k] = d
		}
		return out
	}
	return snapT{meta: f(env.Meta), vmeta: f(env.VMeta), blob: f(env.Blob)}
}

type diffT struct {
	added, removed, changed []string
}

func (d diffT) empty() bool { return len(d.added)+len(d.removed)+len(d.changed) == 0 }
func (d diffT) String() string {
	return fmt.Sprintf("added=%q removed=%q changed=%q", d.added, d.removed, d.changed)
}

func diffMaps(before, after map[string][]byte) diffT {
	var d diffT
	for k, v := range before {
		w, ok := after[k]
		if !ok {
			d.removed = append(d.removed, k)
		} else if string(v) != string(w) {
			d.changed = append(d.changed, k)
		}
	}
	for k := range after {
		if _, ok := before[k]; !ok {
			d.added = append(d.added, k)
		}
	}
	sort.Strings(d.added)
	sort.Strings(d.removed)
	sort.Strings(d.changed)
	return d
}

func sameSet(got []string, want map[string]bool, missWord, extraWord string) string {
	g := map[string]bool{}
	for _, k := range got {
		g[k] = true
	}
	var msgs []string
	for k := range want {
		if !g[k] {
			msgs = append(msgs, missWord+" "+k)
		}
	}
	for k := range g {
		if !want[k] {
			msgs = append(msgs, extraWord+" "+k)
		}
	}
	sort.Strings(msgs)
	if len(msgs) > 8 {
		msgs = append(msgs[:8], fmt.Sprintf("... %d more", len(msgs)-8))
	}
	return strings.Join(msgs, "; ")
}

func parseFileList(data []byte) ([]model.BundleEntry, error) {
	var be model.BundleEntries
	if err := yaml.Unmarshal(data, &be); err != nil {
		return nil, err
	}
	return be.BundleEntries, nil
}

// layout returns, for a bundle, the entries of each of its index objects as stored
func layout(meta map[string][]byte, repo, id string) ([][]model.BundleEntry, error) {
	var out [][]model.BundleEntry
	for i := 0; ; i++ {
		d, ok := meta[fmt.Sprintf("%sbundle-files-%d.yaml", bundlePrefix(repo, id), i)]
		if !ok {
			return out, nil
		}
		es, err := parseFileList(d)
		if err != nil {
			return nil, err
		}
		out = append(out, es)
	}
}

// ---------------------------------------------------------------------------------------------
// execution

type opInfo struct {
	Kind     string   `json:"kind"`
	OK       bool     `json:"ok"`
	Rel      string   `json:"rel"`   // prefix relation of the target to the other existing repos
	Hit      string   `json:"hit"`   // delete-files: none | some | whole (all files of some bundle)
	Index    string   `json:"index"` // delete-files: single | last | nonlast | multi-miss
	Paths    []string `json:"paths,omitempty"`
	Excluded int      `json:"excluded,omitempty"`
}

func (o opInfo) sig() string {
	return fmt.Sprintf("%s ok=%v rel=%s hit=%s idx=%s", o.Kind, o.OK, o.Rel, o.Hit, o.Index)
}

func (o opInfo) nontrivial() bool {
	return o.Rel != "none" || (o.Kind == "delfiles" && o.Index != "single" && o.Index != "")
}

type caseInfo struct {
	Ops       []opInfo
	SharedIDs bool
	MultiIdx  bool
	SharedBlb bool
	Leftover  bool
}

func relation(target string, m modelT) string {
	isPrefix, hasPrefix := false, false
	for n := range m {
		if n == target {
			continue
		}
		if strings.HasPrefix(n, target) {
			isPrefix = true
		}
		if strings.HasPrefix(target, n) {
			hasPrefix = true
		}
	}
	switch {
	case isPrefix && hasPrefix:
		return "both"
	case isPrefix:
		return "prefix-of-other"
	case hasPrefix:
		return "extends-other"
	}
	return "none"
}

type runner struct {
	c      caseT
	sc     *hx.Scratch
	env    *hx.Env
	stores context2.Stores
	m      modelT
	ctx    context.Context
	fresh  map[string]bool // repos verified through datamon since their last change
	info   caseInfo
}

func setLabel(stores context2.Stores, repo, name, bundleID string) error {
	b := core.NewBundle(core.Repo(repo), core.ContextStores(stores), core.BundleID(bundleID), core.Logger(hx.Nop))
	ld := model.NewLabelDescriptor(model.LabelName(name), model.LabelContributor(model.Contributor{Name: "verif", Email: "verif@example.com"}))
	return core.NewLabel(core.LabelDescriptor(ld)).UploadDescriptor(context.Background(), b)
}

func (r *runner) setup() error {
	c := r.c
	blobUse := map[string]int{}
	idUse := map[string]int{}
	for ri, rs := range c.Repos {
		if err := hx.CreateRepo(r.stores, rs.Name); err != nil {
			return fmt.Errorf("setup: create repo %q: %v", rs.Name, err)
		}
		mr := &mRepo{bundles: map[string]*mBundle{}, labels: map[string]string{}}
		r.m[rs.Name] = mr
		for _, bs := range rs.Bundles {
			tree := hx.Tree{}
			for i, p := range bs.Pick {
				f := c.Pool[p]
				cs := f.Content
				if bs.Alt[i] {
					cs = altContent(cs)
				}
				tree[f.Path] = cs.Bytes()
			}
			src := r.sc.Dir("src")
			if err := tree.Write(src); err != nil {
				return fmt.Errorf("harness: %v", err)
			}
			id := bs.id()
			b := hx.NewBundle(rs.Name, r.stores, hx.Local(src), c.Leaf, core.BundleID(id), core.ConcurrentFileUploads(1))
			var uerr error
			if c.EPF == 1000 {
				uerr = core.Upload(r.ctx, b) // the production entry point (1000 entries per index file)
			} else {
				uerr = core.VerifUpload(r.ctx, b, c.EPF, nil)
			}
			if err := uerr; err != nil {
				return fmt.Errorf("setup: upload %s/%s: %v", rs.Name, id, err)
			}
			mb := &mBundle{id: id, files: map[string]mFile{}}
			mr.bundles[id] = mb
			idUse[id]++
			// read back what the upload stored, straight from the store
			lay, err := layout(takeMeta(r.env), rs.Name, id)
			if err != nil {
				return fmt.Errorf("setup: stored file list of %s/%s unreadable: %v", rs.Name, id, err)
			}
			if len(lay) >= 2 {
				r.info.MultiIdx = true
			}
			for _, es := range lay {
				for _, e := range es {
					d, ok := tree[e.NameWithPath]
					if !ok || e.Size != uint64(len(d)) {
						return fmt.Errorf("setup: upload of %s/%s stored entry %q size %d, not in the source tree like that", rs.Name, id, e.NameWithPath, e.Size)
					}
					if _, dup := mb.files[e.NameWithPath]; dup {
						return fmt.Errorf("setup: upload of %s/%s stored entry %q twice", rs.Name, id, e.NameWithPath)
					}
					mb.files[e.NameWithPath] = mFile{data: d, hash: e.Hash, size: e.Size}
					blobUse[e.Hash]++
				}
			}
			if len(mb.files) != len(tree) {
				return fmt.Errorf("setup: upload of %s/%s stored %d entries for %d files", rs.Name, id, len(mb.files), len(tree))
			}
		}
		if rs.Leftover {
			data, err := yaml.Marshal(model.BundleEntries{BundleEntries: []model.BundleEntry{{Hash: strings.Repeat("0", 128), NameWithPath: "never/committed", Size: 1}}})
			if err != nil {
				return fmt.Errorf("harness: %v", err)
			}
			r.env.Meta.RawPut(bundlePrefix(rs.Name, leftoverID(ri))+"bundle-files-0.yaml", data)
			r.info.Leftover = true
		}
		for _, ls := range rs.Labels {
			id := rs.Bundles[ls.Bundle].id()
			if err := setLabel(r.stores, rs.Name, ls.Name, id); err != nil {
				return fmt.Errorf("setup: label %s/%s: %v", rs.Name, ls.Name, err)
			}
			mr.labels[ls.Name] = id
		}
	}
	for _, n := range blobUse {
		if n > 1 {
			r.info.SharedBlb = true
		}
	}
	for _, n := range idUse {
		if n > 1 {
			r.info.SharedIDs = true
		}
	}
	return nil
}

func takeMeta(env *hx.Env) map[string][]byte {
	out := map[string][]byte{}
	for _, k := range env.Meta.RawKeys() {
		d, _ := env.Meta.RawGet(k)
		out[k] = d
	}
	return out
}

// resolve turns the selectors of a delete-files operation into paths
func (r *runner) resolve(op opSpec, before snapT) (paths []string, excluded int) {
	pool := r.c.Pool
	mr := r.m[op.Repo]
	var ids []string
	if mr != nil {
		ids = mr.ids()
	}
	for _, s := range op.Sels {
		p := pool[s.A%len(pool)].Path
		switch s.Kind {
		case "literal":
			paths = append(paths, s.S)
		case "pool":
			paths = append(paths, p)
		case "absent":
			paths = append(paths, "no/such/file")
		case "dir":
			if i := strings.IndexByte(p, '/'); i > 0 {
				paths = append(paths, p[:i])
			} else {
				paths = append(paths, "no/such/dir")
			}
		case "longer":
			paths = append(paths, p+"x")
		case "shorter":
			if len(p) > 1 {
				rs := []rune(p)
				paths = append(paths, string(rs[:len(rs)-1]))
			}
		case "upper":
			paths = append(paths, strings.ToUpper(p))
		case "allof":
			if len(ids) > 0 {
				mb := mr.bundles[ids[s.B%len(ids)]]
				for n := range mb.files {
					paths = append(paths, n)
				}
			}
		case "pos":
			// s.B: bundle, s.C: which index object (0 first, 1 middle, 2/3 last), s.A: offset inside
			if len(ids) > 0 {
				id := ids[s.B%len(ids)]
				lay, err := layout(before.meta, op.Repo, id)
				if err == nil && len(lay) > 0 {
					fi := 0
					switch s.C {
					case 1:
						fi = len(lay) / 2
					case 2, 3:
						fi = len(lay) - 1
					}
					if len(lay[fi]) > 0 {
						paths = append(paths, lay[fi][s.A%len(lay[fi])].NameWithPath)
					}
				}
			}
		}
	}
	sort.Strings(paths) // "allof" iterates a map
	if mr != nil && hx.Known(KnownNonLast) {
		// known finding: an entry removed from a non-last index object makes the bundle unreadable
		bad := map[string]bool{}
		for _, id := range ids {
			lay, _ := layout(before.meta, op.Repo, id)
			for fi := 0; fi+1 < len(lay); fi++ {
				for _, e := range lay[fi] {
					bad[e.NameWithPath] = true
				}
			}
		}
		kept := paths[:0]
		for _, p := range paths {
			if bad[p] {
				excluded++
				continue
			}
			kept = append(kept, p)
		}
		paths = kept
	}
	return paths, excluded
}

func (r *runner) runOp(op opSpec) error {
	before := takeSnap(r.env)
	m := r.m
	info := opInfo{Kind: op.Kind, Rel: relation(op.Repo, m)}
	target, exists := m[op.Repo]
	var err error
	var expectOK bool
	affected := []string{}
	// predicted raw difference
	wantRemoved := map[string]bool{}
	wantAdded := map[string]bool{}
	mayChange := map[string]bool{}
	mayAdd := map[string]bool{}
	ownedBy := func(repo string) []string {
		var ks []string
		for _, mp := range []map[string][]byte{before.meta, before.vmeta} {
			for k := range mp {
				if _, o, ok := owner(k); ok && o == repo {
					ks = append(ks, k)
				}
			}
		}
		return ks
	}
	what := ""
	switch op.Kind {
	case "delrepo":
		what = fmt.Sprintf("DeleteRepo(%q)", op.Repo)
		expectOK = exists
		if op.FaultNth > 0 && exists {
			// one delete of the operation is refused by the store: the operation may fail; run again it must finish
			fv := r.env.Actor("deleter")
			mf1 := &memstore.Fault{Op: memstore.OpDelete, Nth: op.FaultNth, Times: 1}
			mf2 := &memstore.Fault{Op: memstore.OpDelete, Nth: 1 + op.FaultNth/2, Times: 1}
			fv.Meta.AddFault(mf1)
			fv.VMeta.AddFault(mf2)
			err = core.DeleteRepo(op.Repo, fv.Stores)
			if mf1.Hits+mf2.Hits > 0 {
				stats.Count("delrepo_with_a_refused_delete", 1)
				if err != nil {
					stats.Count("delrepo_failed_and_rerun", 1)
					if err = core.DeleteRepo(op.Repo, r.stores); err != nil {
						return fmt.Errorf("%s failed after one refused delete and cannot be completed by running it again: %v", what, err)
					}
				}
			}
		} else {
			err = core.DeleteRepo(op.Repo, r.stores)
		}
		if exists {
			for _, k := range ownedBy(op.Repo) {
				wantRemoved[k] = true
			}
			delete(m, op.Repo)
			affected = append(affected, op.Repo)
		}
	case "rename":
		what = fmt.Sprintf("RenameRepo(%q,%q)", op.Repo, op.New)
		_, newExists := m[op.New]
		expectOK = exists && !newExists
		if r2 := relation(op.New, m); info.Rel == "none" && r2 != "none" && expectOK {
			info.Rel = "new-" + r2
		}
		if exists && newExists {
			info.Hit = "onto-existing"
			if op.New == op.Repo {
				info.Hit = "onto-itself"
			}
		}
		if op.FaultNth > 0 && expectOK {
			fv := r.env.Actor("renamer")
			mf := &memstore.Fault{Op: memstore.OpPut, KeySub: "bundles/" + op.New + "/", Nth: op.FaultNth, Times: 1}
			fv.Meta.AddFault(mf)
			err = core.RenameRepo(op.Repo, op.New, fv.Stores)
			if mf.Hits > 0 {
				stats.Count("rename_with_transient_write_failure", 1)
			}
			if mf.Hits > 0 && err != nil {
				after := takeSnap(r.env)
				for _, k := range ownedBy(op.Repo) {
					b, inMeta := before.meta[k]
					a := after.meta[k]
					if !inMeta {
						b, a = before.vmeta[k], after.vmeta[k]
					}
					if a == nil || !bytes.Equal(a, b) {
						return fmt.Errorf("%s failed (%v) after one refused write, but %q of the old repository is gone or altered", what, err, k)
					}
				}
				stats.Count("rename_refused_old_repo_intact", 1)
				return errCaseEnds
			}
		} else {
			err = core.RenameRepo(op.Repo, op.New, r.stores)
		}
		if expectOK {
			for _, k := range ownedBy(op.Repo) {
				wantRemoved[k] = true
				if isFileList(k) && before.meta[k[:strings.LastIndexByte(k, '/')+1]+"bundle.yaml"] == nil {
					// what an interrupted upload left behind is not a bundle: it must leave the old name,
					// whether it is carried over to the new one is not specified
					mayAdd[swapRepo(k, op.Repo, op.New)] = true
					continue
				}
				wantAdded[swapRepo(k, op.Repo, op.New)] = true
			}
			m[op.New] = target
			delete(m, op.Repo)
			affected = append(affected, op.Repo, op.New)
		}
	case "create":
		what = fmt.Sprintf("CreateRepo(%q)", op.Repo)
		expectOK = !exists
		err = hx.CreateRepo(r.stores, op.Repo)
		if expectOK {
			wantAdded[repoKey(op.Repo)] = true
			m[op.Repo] = &mRepo{bundles: map[string]*mBundle{}, labels: map[string]string{}}
			affected = append(affected, op.Repo)
		}
	case "dellabel":
		label := op.Label
		if label == "" {
			label = "nolabel"
			if exists && op.LabelIdx >= 0 && len(target.labels) > 0 {
				var ls []string
				for l := range target.labels {
					ls = append(ls, l)
				}
				sort.Strings(ls)
				label = ls[op.LabelIdx%len(ls)]
			}
		}
		what = fmt.Sprintf("DeleteLabel(%q,%q)", op.Repo, label)
		if exists {
			_, expectOK = target.labels[label]
		}
		err = core.DeleteLabel(op.Repo, r.stores, label)
		if expectOK {
			wantRemoved[labelKey(op.Repo, label)] = true
			delete(target.labels, label)
			affected = append(affected, op.Repo)
		}
	case "delbundle":
		id := hx.KSUID(9000, 77)
		if exists && op.Bundle >= 0 && len(target.bundles) > 0 {
			ids := target.ids()
			id = ids[op.Bundle%len(ids)]
			expectOK = true
		}
		what = fmt.Sprintf("DeleteBundle(%q,%q)", op.Repo, id)
		err = core.DeleteBundle(op.Repo, r.stores, id)
		if expectOK {
			for k := range before.meta {
				if strings.HasPrefix(k, bundlePrefix(op.Repo, id)) {
					wantRemoved[k] = true
				}
			}
			for l, lid := range target.labels {
				if lid == id {
					wantRemoved[labelKey(op.Repo, l)] = true
					delete(target.labels, l)
				}
			}
			delete(target.bundles, id)
			affected = append(affected, op.Repo)
		}
	case "delfiles":
		paths, excluded := r.resolve(op, before)
		info.Paths, info.Excluded = paths, excluded
		if excluded > 0 {
			stats.Count("excluded_"+KnownNonLast, 1)
		}
		what = fmt.Sprintf("DeleteEntriesFromRepo(%q,%q)", op.Repo, paths)
		expectOK = exists
		del := map[string]bool{}
		for _, p := range paths {
			del[p] = true
		}
		if exists {
			info.Hit, info.Index = "none", "single"
			for _, id := range target.ids() {
				lay, _ := layout(before.meta, op.Repo, id)
				nhit := 0
				for fi, es := range lay {
					for _, e := range es {
						if !del[e.NameWithPath] {
							continue
						}
						nhit++
						switch {
						case len(lay) < 2:
						case fi+1 < len(lay):
							info.Index = "nonlast"
						case info.Index != "nonlast":
							info.Index = "last"
						}
					}
				}
				if len(lay) >= 2 && nhit == 0 && info.Index == "single" {
					info.Index = "multi-miss"
				}
				nfiles := len(target.bundles[id].files)
				switch {
				case nhit > 0 && nhit == nfiles:
					info.Hit = "whole"
				case nhit > 0 && info.Hit == "none":
					info.Hit = "some"
				}
			}
		}
		err = core.DeleteEntriesFromRepo(op.Repo, r.stores, paths)
		if exists {
			for k := range before.meta {
				if _, o, ok := owner(k); ok && o == op.Repo && isFileList(k) {
					mayChange[k] = true
				}
			}
			for _, mb := range target.bundles {
				for p := range del {
					delete(mb.files, p)
				}
			}
			affected = append(affected, op.Repo)
		}
	default:
		return fmt.Errorf("harness: unknown op %q", op.Kind)
	}
	info.OK = expectOK
	r.info.Ops = append(r.info.Ops, info)

	if expectOK && err != nil {
		return fmt.Errorf("%s failed: %v", what, err)
	}
	if !expectOK && err == nil {
		return fmt.Errorf("%s succeeded but must fail (target exists=%v)", what, exists)
	}
	after := takeSnap(r.env)
	// ---- raw difference must be exactly the predicted one
	if d := diffMaps(before.blob, after.blob); !d.empty() {
		return fmt.Errorf("%s changed the blob store: %s", what, d)
	}
	var added, removed, changed []string
	for _, d := range []diffT{diffMaps(before.meta, after.meta), diffMaps(before.vmeta, after.vmeta)} {
		added = append(added, d.added...)
		removed = append(removed, d.removed...)
		changed = append(changed, d.changed...)
	}
	if !expectOK {
		if len(added)+len(removed)+len(changed) != 0 {
			return fmt.Errorf("%s failed (%v) but had an effect: added=%q removed=%q changed=%q", what, err, added, removed, changed)
		}
		return nil
	}
	if s := sameSet(removed, wantRemoved, "still there:", "must not be removed:"); s != "" {
		return fmt.Errorf("%s: objects removed from the metadata stores differ from the expected set: %s", what, s)
	}
	strict := added[:0:0]
	for _, k := range added {
		if !mayAdd[k] {
			strict = append(strict, k)
		}
	}
	if s := sameSet(strict, wantAdded, "not created:", "must not be created:"); s != "" {
		return fmt.Errorf("%s: objects added to the metadata stores differ from the expected set: %s", what, s)
	}
	for _, k := range changed {
		if !mayChange[k] {
			return fmt.Errorf("%s rewrote %q, which it must not touch", what, k)
		}
	}
	if op.Kind == "delfiles" {
		// the stored file lists of every bundle of the repository hold the former entries minus the paths
		for _, id := range target.ids() {
			lay, lerr := layout(after.meta, op.Repo, id)
			if lerr != nil {
				return fmt.Errorf("%s: stored file list of bundle %s unreadable: %v", what, id, lerr)
			}
			mb := target.bundles[id]
			n := 0
			for _, es := range lay {
				for _, e := range es {
					n++
					if f, ok := mb.files[e.NameWithPath]; !ok || f.hash != e.Hash || f.size != e.Size {
						return fmt.Errorf("%s: stored file lists of bundle %s hold entry %q (%s,%d) which is not a remaining entry of that bundle", what, id, e.NameWithPath, e.Hash, e.Size)
					}
				}
			}
			if n != len(mb.files) {
				return fmt.Errorf("%s: stored file lists of bundle %s hold %d entries, want %d", what, id, n, len(mb.files))
			}
		}
	}
	// labels live in vmetadata, everything else in metadata: nothing may sit in the wrong store
	for k := range after.vmeta {
		if kind, _, ok := owner(k); ok && kind != "labels" {
			return fmt.Errorf("%s: unexpected object %q in the vmetadata store", what, k)
		}
	}
	for k := range after.meta {
		if kind, _, ok := owner(k); ok && kind == "labels" {
			return fmt.Errorf("%s: unexpected label object %q in the metadata store", what, k)
		}
	}
	// ---- the touched repositories, seen through datamon
	for _, n := range affected {
		delete(r.fresh, n)
	}
	for _, n := range affected {
		if err := r.verifyRepo(n, what); err != nil {
			return err
		}
	}
	return nil
}

func (r *runner) verifyRepo(name, after string) error {
	mr, exists := r.m[name]
	if !exists {
		if err := core.RepoExists(name, r.stores); err == nil {
			return fmt.Errorf("after %s: RepoExists(%q) still succeeds", after, name)
		}
		if bs, err := core.ListBundles(name, r.stores); err == nil {
			return fmt.Errorf("after %s: ListBundles(%q) of the removed repository succeeds with %d bundles", after, name, len(bs))
		}
		if ls, err := core.ListLabels(name, r.stores); err == nil {
			return fmt.Errorf("after %s: ListLabels(%q) of the removed repository succeeds with %d labels", after, name, len(ls))
		}
		return nil
	}
	if r.fresh[name] {
		return nil
	}
	if err := core.RepoExists(name, r.stores); err != nil {
		return fmt.Errorf("after %s: RepoExists(%q): %v", after, name, err)
	}
	rd, err := core.GetRepoDescriptorByRepoName(r.stores, name)
	if err != nil || rd.Name != name {
		return fmt.Errorf("after %s: repo descriptor of %q: %+v, %v", after, name, rd, err)
	}
	bs, err := core.ListBundles(name, r.stores)
	if err != nil {
		return fmt.Errorf("after %s: ListBundles(%q): %v", after, name, err)
	}
	var got []string
	for _, b := range bs {
		got = append(got, b.ID)
	}
	sort.Strings(got)
	if want := mr.ids(); strings.Join(got, ",") != strings.Join(want, ",") {
		return fmt.Errorf("after %s: ListBundles(%q) = %v, want %v", after, name, got, want)
	}
	ls, err := core.ListLabels(name, r.stores)
	if err != nil {
		return fmt.Errorf("after %s: ListLabels(%q): %v", after, name, err)
	}
	gotL := map[string]string{}
	for _, l := range ls {
		if _, dup := gotL[l.Name]; dup {
			return fmt.Errorf("after %s: ListLabels(%q) lists %q twice", after, name, l.Name)
		}
		gotL[l.Name] = l.BundleID
	}
	if fmt.Sprint(gotL) != fmt.Sprint(mr.labels) {
		return fmt.Errorf("after %s: labels of %q = %v, want %v", after, name, gotL, mr.labels)
	}
	for _, id := range mr.ids() {
		mb := mr.bundles[id]
		dst := r.sc.Dir("dst")
		db := hx.NewBundle(name, r.stores, hx.Local(dst), 0, core.BundleID(id))
		var perr error
		if r.c.EPF == 1000 {
			perr = core.Publish(r.ctx, db) // the production entry point
		} else {
			perr = core.VerifPublish(r.ctx, db, r.c.EPF, func(string) (bool, error) { return true, nil })
		}
		if err := perr; err != nil {
			return fmt.Errorf("after %s: bundle %s/%s cannot be downloaded: %v", after, name, id, err)
		}
		seen := map[string]bool{}
		for _, e := range db.BundleEntries {
			f, ok := mb.files[e.NameWithPath]
			if !ok {
				return fmt.Errorf("after %s: bundle %s/%s lists %q, which it must not contain", after, name, id, e.NameWithPath)
			}
			if seen[e.NameWithPath] {
				return fmt.Errorf("after %s: bundle %s/%s lists %q twice", after, name, id, e.NameWithPath)
			}
			seen[e.NameWithPath] = true
			if e.Hash != f.hash || e.Size != f.size {
				return fmt.Errorf("after %s: bundle %s/%s entry %q is (%s,%d), was (%s,%d)", after, name, id, e.NameWithPath, e.Hash, e.Size, f.hash, f.size)
			}
		}
		if len(seen) != len(mb.files) {
			var missing []string
			for p := range mb.files {
				if !seen[p] {
					missing = append(missing, p)
				}
			}
			sort.Strings(missing)
			return fmt.Errorf("after %s: bundle %s/%s lists %d entries, want %d: missing %q", after, name, id, len(seen), len(mb.files), missing)
		}
		gotT, err := hx.ReadTree(dst)
		if err != nil {
			return fmt.Errorf("harness: %v", err)
		}
		want := hx.Tree{}
		for p, f := range mb.files {
			want[p] = f.data
		}
		if d := hx.DiffTrees(gotT.WithoutMeta(), want); d != "" {
			return fmt.Errorf("after %s: download of %s/%s differs: %s", after, name, id, d)
		}
	}
	r.fresh[name] = true
	return nil
}

func (r *runner) verifyAll(after string, gone []string) error {
	repos, err := core.ListRepos(r.stores)
	if err != nil {
		return fmt.Errorf("after %s: ListRepos: %v", after, err)
	}
	var got []string
	for _, rd := range repos {
		got = append(got, rd.Name)
	}
	sort.Strings(got)
	if want := r.m.names(); strings.Join(got, ",") != strings.Join(want, ",") {
		return fmt.Errorf("after %s: ListRepos = %v, want %v", after, got, want)
	}
	for _, n := range r.m.names() {
		if err := r.verifyRepo(n, after); err != nil {
			return err
		}
	}
	for _, n := range gone {
		if _, ok := r.m[n]; !ok {
			if err := r.verifyRepo(n, after); err != nil {
				return err
			}
		}
	}
	return nil
}

func runCase(c caseT) (caseInfo, error) {
	sc := hx.NewScratch()
	defer sc.Close()
	env := hx.NewEnv()
	env.CRC = c.CRC
	r := &runner{c: c, sc: sc, env: env, stores: env.Actor("p").Stores, m: modelT{}, ctx: context.Background(), fresh: map[string]bool{}}
	if err := r.setup(); err != nil {
		return r.info, err
	}
	var whats []string
	var named []string
	for _, rs := range c.Repos {
		named = append(named, rs.Name)
	}
	for _, op := range c.Ops {
		if err := r.runOp(op); err != nil {
			if err == errCaseEnds {
				return r.info, nil
			}
			return r.info, err
		}
		whats = append(whats, op.Kind+" "+op.Repo)
		named = append(named, op.Repo, op.New)
	}
	if err := r.verifyAll(strings.Join(whats, ", "), named); err != nil {
		return r.info, err
	}
	return r.info, nil
}

func check(t interface {
	Fatalf(string, ...interface{})
}, c caseT, limit time.Duration) caseInfo {
	hx.Journal(c)
	var info caseInfo
	err, hung, panicked := hx.Guard(limit, func() error {
		var e error
		info, e = runCase(c)
		return e
	})
	if hung || panicked || err != nil {
		t.Fatalf("%v (hung=%v panicked=%v)", err, hung, panicked)
	}
	return info
}

func record(c caseT, info caseInfo) {
	var sigs []string
	nt := false
	for _, o := range info.Ops {
		sigs = append(sigs, o.sig())
		if o.nontrivial() {
			nt = true
		}
		stats.Count("op_"+o.Kind, 1)
		if o.OK {
			stats.Count("op_"+o.Kind+"_ok", 1)
		} else {
			stats.Count("op_"+o.Kind+"_rejected", 1)
		}
		stats.Count("rel_"+o.Rel, 1)
		if o.Kind == "delfiles" && o.OK {
			stats.Count("delfiles_hit_"+o.Hit, 1)
			stats.Count("delfiles_index_"+o.Index, 1)
		}
		if o.Hit == "onto-existing" || o.Hit == "onto-itself" {
			stats.Count("rename_"+o.Hit, 1)
		}
	}
	if info.SharedIDs {
		stats.Count("shared_bundle_ids", 1)
	}
	if info.SharedBlb {
		stats.Count("shared_blobs", 1)
	}
	if info.MultiIdx {
		stats.Count("multi_index_bundle", 1)
	}
	if info.Leftover {
		stats.Count("leftover_file_list", 1)
	}
	if c.CRC {
		stats.Count("crc_store", 1)
	}
	stats.Count(fmt.Sprintf("nops_%d", len(info.Ops)), 1)
	sig := fmt.Sprintf("%s | multi=%v crc=%v leftover=%v", strings.Join(sigs, " ; "), info.MultiIdx, c.CRC, info.Leftover)
	stats.Case(sig, nt, func() interface{} { return map[string]interface{}{"case": c, "ops": info.Ops} })
}

// TestPropRepoOps is the model check over histories
func TestPropRepoOps(t *testing.T) {
	rapid.Check(t, func(t *rapid.T) {
		c := drawCase(t)
		info := check(t, c, 120*time.Second)
		record(c, info)
	})
}
