package purgex

import (
	"context"
	"errors"
	"io"

	"github.com/cenkalti/backoff/v4"
	"github.com/oneconcern/datamon/pkg/storage"

	"verifharness/memstore"
)

// deadStore wraps a memstore view of the purge process. It only changes one thing: the error a
// call returns once the process-wide crash point was reached (memstore.ErrCrashed) is marked as
// permanent for github.com/cenkalti/backoff, so that datamon's retry loops (30 s and 10 min of
// exponential back-off) give up at once.  A killed process makes no further store call at all;
// spending the back-off time on a process that is "dead" would only burn the budget.
type deadStore struct {
	v *memstore.Store
}

var _ storage.Store = deadStore{}

func dead(err error) error {
	if err != nil && errors.Is(err, memstore.ErrCrashed) {
		return backoff.Permanent(err)
	}
	return err
}

func (d deadStore) String() string { return d.v.String() }

func (d deadStore) Has(ctx context.Context, k string) (bool, error) {
	ok, err := d.v.Has(ctx, k)
	return ok, dead(err)
}

func (d deadStore) Get(ctx context.Context, k string) (io.ReadCloser, error) {
	r, err := d.v.Get(ctx, k)
	if err != nil {
		return nil, dead(err)
	}
	return r, nil
}

func (d deadStore) GetAttr(ctx context.Context, k string) (storage.Attributes, error) {
	a, err := d.v.GetAttr(ctx, k)
	return a, dead(err)
}

func (d deadStore) GetAt(ctx context.Context, k string) (io.ReaderAt, error) {
	r, err := d.v.GetAt(ctx, k)
	if err != nil {
		return nil, dead(err)
	}
	return r, nil
}

func (d deadStore) Touch(ctx context.Context, k string) error { return dead(d.v.Touch(ctx, k)) }

func (d deadStore) Put(ctx context.Context, k string, r io.Reader, excl bool) error {
	return dead(d.v.Put(ctx, k, r, excl))
}

func (d deadStore) Delete(ctx context.Context, k string) error { return dead(d.v.Delete(ctx, k)) }

func (d deadStore) Clear(ctx context.Context) error { return dead(d.v.Clear(ctx)) }

func (d deadStore) Keys(ctx context.Context) ([]string, error) {
	ks, err := d.v.Keys(ctx)
	return ks, dead(err)
}

func (d deadStore) KeysPrefix(ctx context.Context, token, prefix, delim string, count int) ([]string, string, error) {
	ks, next, err := d.v.KeysPrefix(ctx, token, prefix, delim, count)
	return ks, next, dead(err)
}
