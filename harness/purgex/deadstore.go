package purgex

import (
	"context"
	"errors"
	"io"

	"reflect"
	"strings"
	"sync"

	"github.com/oneconcern/datamon/pkg/storage"

	"verifharness/memstore"
)

// deadStore wraps a memstore view of the purge process. It only changes one thing: the error a
// call returns once the process-wide crash point was reached (memstore.ErrCrashed) is marked as
// permanent for github.com/cenkalti/backoff, so that datamon's retry loops (30 s and 10 min of
// exponential back-off) give up at once.  A killed process makes no further store call at all;
// spending the back-off time on a process that is "dead" would only burn the budget.
type deadStore struct {
	v *memstore.Store
	w *World
}

// ShortRead is a transient failure memstore cannot express: the Nth Get on a key containing KeySub
// succeeds, but the returned stream breaks (memstore.ErrInjected) after half of the object, as a
// connection reset in the middle of a download would.
type ShortRead struct {
	Store  string // backend name ("meta", "blob"), empty = any
	KeySub string
	Nth    int
	Times  int
	mu     sync.Mutex
	seen   int
	Hits   int
}

type brokenReader struct {
	data []byte
	off  int
}

func (b *brokenReader) Read(p []byte) (int, error) {
	if b.off >= len(b.data) {
		return 0, memstore.ErrInjected
	}
	n := copy(p, b.data[b.off:])
	b.off += n
	return n, nil
}

func (b *brokenReader) Close() error { return nil }

func (s *ShortRead) wrap(store, key string, r io.ReadCloser) io.ReadCloser {
	if s == nil || !strings.Contains(key, s.KeySub) || (s.Store != "" && s.Store != store) {
		return r
	}
	s.mu.Lock()
	defer s.mu.Unlock()
	s.seen++
	times := s.Times
	if times < 1 {
		times = 1
	}
	if s.seen < s.Nth || s.seen >= s.Nth+times {
		return r
	}
	data, err := io.ReadAll(r)
	_ = r.Close()
	if err != nil {
		return &brokenReader{}
	}
	s.Hits++
	return &brokenReader{data: data[:len(data)/2]}
}

var _ storage.Store = deadStore{}

// deadErr is memstore.ErrCrashed dressed so that errors.As(err, **backoff.PermanentError) succeeds,
// which is how backoff.Retry recognises an error it must not retry.  The backoff package is not
// imported (that would make the go command rewrite the harness go.mod: the module is only an
// indirect requirement there), its type is matched by name through reflection instead.
type deadErr struct{ err error }

func (e deadErr) Error() string { return e.err.Error() }
func (e deadErr) Unwrap() error { return e.err }

// As fills a **backoff.PermanentError target
func (e deadErr) As(target interface{}) bool {
	rv := reflect.ValueOf(target)
	if rv.Kind() != reflect.Ptr || rv.IsNil() || rv.Elem().Kind() != reflect.Ptr {
		return false
	}
	et := rv.Elem().Type().Elem()
	if et.Kind() != reflect.Struct || et.Name() != "PermanentError" || !strings.Contains(et.PkgPath(), "cenkalti/backoff") {
		return false
	}
	p := reflect.New(et)
	f := p.Elem().FieldByName("Err")
	if !f.IsValid() || !f.CanSet() {
		return false
	}
	f.Set(reflect.ValueOf(&e.err).Elem())
	rv.Elem().Set(p)
	return true
}

func dead(err error) error {
	if err != nil && errors.Is(err, memstore.ErrCrashed) {
		return deadErr{err}
	}
	return err
}

func (d deadStore) String() string { return d.v.String() }

func (d deadStore) Has(ctx context.Context, k string) (bool, error) {
	ok, err := d.v.Has(ctx, k)
	return ok, dead(err)
}

func (d deadStore) Get(ctx context.Context, k string) (io.ReadCloser, error) {
	r, err := d.v.Get(ctx, k)
	if err != nil {
		return nil, dead(err)
	}
	return d.w.short().wrap(d.v.Backend().Name, k, r), nil
}

func (d deadStore) GetAttr(ctx context.Context, k string) (storage.Attributes, error) {
	a, err := d.v.GetAttr(ctx, k)
	return a, dead(err)
}

func (d deadStore) GetAt(ctx context.Context, k string) (io.ReaderAt, error) {
	r, err := d.v.GetAt(ctx, k)
	if err != nil {
		return nil, dead(err)
	}
	return r, nil
}

func (d deadStore) Touch(ctx context.Context, k string) error { return dead(d.v.Touch(ctx, k)) }

func (d deadStore) Put(ctx context.Context, k string, r io.Reader, excl bool) error {
	return dead(d.v.Put(ctx, k, r, excl))
}

func (d deadStore) Delete(ctx context.Context, k string) error { return dead(d.v.Delete(ctx, k)) }

func (d deadStore) Clear(ctx context.Context) error { return dead(d.v.Clear(ctx)) }

func (d deadStore) Keys(ctx context.Context) ([]string, error) {
	ks, err := d.v.Keys(ctx)
	return ks, dead(err)
}

func (d deadStore) KeysPrefix(ctx context.Context, token, prefix, delim string, count int) ([]string, string, error) {
	ks, next, err := d.v.KeysPrefix(ctx, token, prefix, delim, count)
	return ks, next, dead(err)
}
