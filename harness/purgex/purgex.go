// Package purgex holds what the purge checks C13 and C14 share: the printable description of a
// history (uploads / deletes / squashes over repositories of one or two contexts sharing a blob
// store), a world executing it against the real datamon code on memstore, the reference model of
// which bundles are committed with which content, an independent computation of the blob keys a
// bundle references, and readers for the observable artefacts of purge (index chunks, blob set).
//
// It is NOT a test package (no oracle verdicts live here), both checks import it.
package purgex

import (
	"bufio"
	"bytes"
	"context"
	"fmt"
	"sort"
	"strings"
	"sync"
	"time"

	"github.com/oneconcern/datamon/pkg/cafs"
	context2 "github.com/oneconcern/datamon/pkg/context"
	"github.com/oneconcern/datamon/pkg/core"
	"github.com/oneconcern/datamon/pkg/model"
	"pgregory.net/rapid"

	"verifharness/hx"
	"verifharness/memstore"
)

// ---------------------------------------------------------------------------------------------
// case description (everything printable / JSON-able)

// Content is a file content made of whole leaf-sized blocks taken from a tiny alphabet plus an
// optional tail shorter than a leaf.  Two contents with a common block prefix share leaf blobs
// (a leaf key depends on the block bytes, its position and whether it is the last one) while
// having different root blobs.
type Content struct {
	Blocks []int `json:"blocks"`
	Tail   int   `json:"tail"`  // bytes, < leaf
	TSeed  int   `json:"tseed"` // which tail
}

// Bytes materialises the content for a leaf size
func (c Content) Bytes(leaf uint32) []byte {
	out := make([]byte, 0, len(c.Blocks)*int(leaf)+c.Tail)
	for _, b := range c.Blocks {
		out = append(out, hx.Expand(uint64(1000+b), int(leaf), 0, 0)...)
	}
	t := c.Tail
	if t >= int(leaf) {
		t = int(leaf) - 1
	}
	if t > 0 {
		out = append(out, hx.Expand(uint64(2000+c.TSeed), t, 0, 0)...)
	}
	return out
}

// File is one file of an uploaded tree
type File struct {
	Path string  `json:"path"`
	C    Content `json:"content"`
}

// Op kinds
const (
	OpUpload    = "upload"
	OpDelBundle = "delbundle"
	OpSquash    = "squash"
	OpDelRepo   = "delrepo"
	OpDelFile   = "delfile"
)

// Op is one step of a history
type Op struct {
	Kind  string `json:"kind"`
	Ctx   int    `json:"ctx"`
	Repo  int    `json:"repo"`
	Leaf  uint32 `json:"leaf,omitempty"`  // upload
	Files []File `json:"files,omitempty"` // upload
	Pick  int    `json:"pick,omitempty"`  // delbundle: which alive bundle of the repo (modulo)
	Keep  int    `json:"keep,omitempty"`  // squash: retain the n latest
	Path  string `json:"path,omitempty"`  // delfile
}

func (o Op) String() string {
	switch o.Kind {
	case OpUpload:
		var fs []string
		for _, f := range o.Files {
			fs = append(fs, fmt.Sprintf("%s=%v+%d/%d", f.Path, f.C.Blocks, f.C.Tail, f.C.TSeed))
		}
		return fmt.Sprintf("upload(c%d/r%d L=%d %s)", o.Ctx, o.Repo, o.Leaf, strings.Join(fs, " "))
	case OpDelBundle:
		return fmt.Sprintf("delbundle(c%d/r%d #%d)", o.Ctx, o.Repo, o.Pick)
	case OpSquash:
		return fmt.Sprintf("squash(c%d/r%d keep %d)", o.Ctx, o.Repo, o.Keep)
	case OpDelRepo:
		return fmt.Sprintf("delrepo(c%d/r%d)", o.Ctx, o.Repo)
	case OpDelFile:
		return fmt.Sprintf("delfile(c%d/r%d %s)", o.Ctx, o.Repo, o.Path)
	}
	return o.Kind
}

// Shape is the static part of a world: number of repositories per context (1 or 2 contexts
// sharing one blob store) and the leaf sizes in use
type Shape struct {
	Repos  []int    `json:"repos"`  // repositories per context
	Leaves []uint32 `json:"leaves"` // leaf sizes uploads pick from
	// SameNames: the repositories of the second context carry the same names as those of the first one
	// (different repositories: the contexts have their own metadata and only share the blob store)
	SameNames bool `json:"same_repo_names,omitempty"`
	// CRC: the uploaders' stores take checksums (PutCRC) and the blob store reports them in its attributes, as GCS does
	CRC bool `json:"crc_stores,omitempty"`
}

// RepoName names repository r of context c
func (s Shape) RepoName(c, r int) string {
	if s.SameNames {
		return RepoName(0, r)
	}
	return RepoName(c, r)
}

// Paths files are drawn from
var Paths = []string{"a", "b", "d/c", "d/e"}

func pick(t *rapid.T, label string, weights ...int) int {
	tot := 0
	for _, w := range weights {
		tot += w
	}
	// interior values of IntRange are drawn roughly uniformly once away from the ends: scale up
	x := rapid.IntRange(0, tot*8-1).Draw(t, label) / 8
	for i, w := range weights {
		if x < w {
			return i
		}
		x -= w
	}
	return len(weights) - 1
}

// DrawShape draws the static part
func DrawShape(t *rapid.T) Shape {
	s := Shape{}
	s.Repos = []int{rapid.IntRange(1, 3).Draw(t, "repos0")}
	if pick(t, "twoctx", 3, 2) == 1 {
		s.Repos = append(s.Repos, rapid.IntRange(1, 2).Draw(t, "repos1"))
		s.SameNames = rapid.Bool().Draw(t, "same_names")
	}
	s.CRC = rapid.Bool().Draw(t, "crc_stores")
	l := []uint32{1024, 2048, 4096}[pick(t, "leaf", 2, 1, 1)]
	s.Leaves = []uint32{l}
	if pick(t, "twoleaf", 4, 1) == 1 {
		s.Leaves = append(s.Leaves, l*2)
	}
	return s
}

// DrawContent draws a content
func DrawContent(t *rapid.T) Content {
	c := Content{}
	n := pick(t, "nblocks", 3, 3, 3, 1) // 0..3 whole blocks
	for i := 0; i < n; i++ {
		c.Blocks = append(c.Blocks, pick(t, "block", 3, 2, 1))
	}
	switch pick(t, "tail", 3, 2, 2) {
	case 1:
		c.Tail = 1
	case 2:
		c.Tail = 300
	}
	if c.Tail > 0 {
		c.TSeed = pick(t, "tseed", 2, 1)
	}
	return c
}

// DrawUpload draws an upload
func DrawUpload(t *rapid.T, s Shape) Op {
	o := Op{Kind: OpUpload}
	o.Ctx = 0
	if len(s.Repos) > 1 && pick(t, "ctx", 2, 1) == 1 {
		o.Ctx = 1
	}
	o.Repo = rapid.IntRange(0, s.Repos[o.Ctx]-1).Draw(t, "repo")
	o.Leaf = s.Leaves[0]
	if len(s.Leaves) > 1 && pick(t, "leaf2", 3, 1) == 1 {
		o.Leaf = s.Leaves[1]
	}
	n := 1 + pick(t, "nfiles", 3, 3, 2, 1)
	if pick(t, "emptybundle", 30, 1) == 1 {
		n = 0
	}
	used := map[string]bool{}
	for i := 0; i < n; i++ {
		p := Paths[pick(t, "path", 1, 1, 1, 1)]
		if used[p] {
			continue
		}
		used[p] = true
		o.Files = append(o.Files, File{Path: p, C: DrawContent(t)})
	}
	return o
}

// DrawOp draws any operation; delWeight scales the share of destructive operations
func DrawOp(t *rapid.T, s Shape, delWeight int) Op {
	k := pick(t, "kind", 6, 2*delWeight, delWeight, delWeight, delWeight)
	if k == 0 {
		return DrawUpload(t, s)
	}
	o := Op{}
	if len(s.Repos) > 1 && pick(t, "ctx", 2, 1) == 1 {
		o.Ctx = 1
	}
	o.Repo = rapid.IntRange(0, s.Repos[o.Ctx]-1).Draw(t, "repo")
	switch k {
	case 1:
		o.Kind = OpDelBundle
		o.Pick = rapid.IntRange(0, 5).Draw(t, "pick")
	case 2:
		o.Kind = OpSquash
		o.Keep = 1 + pick(t, "keep", 3, 1)
	case 3:
		o.Kind = OpDelRepo
	default:
		o.Kind = OpDelFile
		o.Path = Paths[pick(t, "path", 1, 1, 1, 1)]
	}
	return o
}

// DrawOps draws n..m operations
func DrawOps(t *rapid.T, s Shape, min, max, delWeight int, label string) []Op {
	n := rapid.IntRange(min, max).Draw(t, label)
	ops := make([]Op, 0, n)
	for i := 0; i < n; i++ {
		ops = append(ops, DrawOp(t, s, delWeight))
	}
	return ops
}

// ---------------------------------------------------------------------------------------------
// independent computation of referenced blob keys

var (
	keyMu    sync.Mutex
	keyCache = map[string][]string{}
)

// KeysOf returns the blob keys (root key and leaf keys) datamon's content addressable store
// assigns to data for a leaf size: the content is stored through pkg/cafs into a private scratch
// store (validated by C01/C02 against the python BLAKE2 oracle) and every object that appears
// there is a key the content needs.  Independent of pkg/core/purge*.
func KeysOf(data []byte, leaf uint32) ([]string, error) {
	ck := fmt.Sprintf("%d/%x", leaf, data)
	if len(data) > 64 {
		ck = fmt.Sprintf("%d/%d/%x/%x", leaf, len(data), data[:32], hashBytes(data))
	}
	keyMu.Lock()
	if ks, ok := keyCache[ck]; ok {
		keyMu.Unlock()
		return ks, nil
	}
	keyMu.Unlock()
	be := memstore.NewBackend("scratch")
	fs, err := cafs.New(cafs.LeafSize(leaf), cafs.Backend(be.View("k")), cafs.Logger(hx.Nop), cafs.CacheSize(int(4*leaf)))
	if err != nil {
		return nil, err
	}
	res, err := fs.Put(context.Background(), bytes.NewReader(data))
	if err != nil {
		return nil, err
	}
	ks := be.RawKeys()
	found := false
	for _, k := range ks {
		if k == res.Key.String() {
			found = true
		}
	}
	if !found {
		return nil, fmt.Errorf("harness: root key %s not among the scratch store objects %v", res.Key, ks)
	}
	keyMu.Lock()
	keyCache[ck] = ks
	keyMu.Unlock()
	return ks, nil
}

func hashBytes(b []byte) uint64 {
	var h uint64 = 14695981039346656037
	for _, c := range b {
		h ^= uint64(c)
		h *= 1099511628211
	}
	return h
}

// ---------------------------------------------------------------------------------------------
// world + model

// Bundle is the model of one committed bundle
type Bundle struct {
	Ctx   int
	Repo  string
	ID    string
	Leaf  uint32
	Tree  hx.Tree
	Phase string // phase label given by the check when the upload STARTED ("pre", "mid", "post", ...)
	Alive bool
}

// Keys returns the set of blob keys the bundle references
func (b *Bundle) Keys() (map[string]bool, error) {
	out := map[string]bool{}
	for _, p := range b.Tree.Paths() {
		ks, err := KeysOf(b.Tree[p], b.Leaf)
		if err != nil {
			return nil, err
		}
		for _, k := range ks {
			out[k] = true
		}
	}
	return out, nil
}

// World executes histories on real datamon code over memstore backends
type World struct {
	Shape   Shape
	Sc      *hx.Scratch
	Envs    []*hx.Env   // Envs[i].Blob is the same backend for all i
	Users   []*hx.Views // the actor doing uploads/deletes, per context
	Purge   []*hx.Views // the purge process, per context (all views attached to PurgeProc)
	Proc    *memstore.Proc
	Bundles []*Bundle
	Skipped int // operations that had nothing to act on
	seq     int
	kvDir   string

	shortMu   sync.Mutex
	shortRead *ShortRead
}

// WorkDir returns a local work directory for a purge command: a new one per call, or - like the CLI's default
// ./.datamon-index - one and the same for every command of this world
func (w *World) WorkDir(same bool) string {
	if !same {
		return w.Sc.Dir("kv")
	}
	if w.kvDir == "" {
		w.kvDir = w.Sc.Dir("kv-shared")
	}
	return w.kvDir
}

// SetShortRead installs (or with nil removes) a broken-stream plan on the purge process' stores
func (w *World) SetShortRead(s *ShortRead) {
	w.shortMu.Lock()
	w.shortRead = s
	w.shortMu.Unlock()
}

func (w *World) short() *ShortRead {
	w.shortMu.Lock()
	defer w.shortMu.Unlock()
	return w.shortRead
}

// RepoName gives the name of repository r of context c
func RepoName(c, r int) string {
	if c == 0 {
		return fmt.Sprintf("r%d", r)
	}
	return fmt.Sprintf("x%d", r)
}

// NewWorld creates contexts and repositories
func NewWorld(s Shape) (*World, error) {
	w := &World{Shape: s, Sc: hx.NewScratch(), Proc: memstore.NewProc()}
	for c := range s.Repos {
		e := hx.NewEnv()
		e.CRC = s.CRC
		if c == 0 {
			e.Blob.UseWallClock()
		} else {
			e.Blob = w.Envs[0].Blob
		}
		e.Meta.UseWallClock()
		w.Envs = append(w.Envs, e)
		u := e.Actor("user")
		w.Users = append(w.Users, u)
		p := e.Actor("purge")
		for _, v := range p.All() {
			v.Attach(w.Proc)
		}
		p.Proc = w.Proc
		p.Stores = context2.NewStores(deadStore{p.Wal, w}, deadStore{p.ReadLog, w}, deadStore{p.Blob, w}, deadStore{p.Meta, w}, deadStore{p.VMeta, w})
		w.Purge = append(w.Purge, p)
		for r := 0; r < s.Repos[c]; r++ {
			if err := hx.CreateRepo(u.Stores, s.RepoName(c, r)); err != nil {
				return nil, fmt.Errorf("setup: create repo: %v", err)
			}
		}
	}
	return w, nil
}

// Close removes scratch directories
func (w *World) Close() { w.Sc.Close() }

// Blob is the shared blob backend
func (w *World) Blob() *memstore.Backend { return w.Envs[0].Blob }

// Extra returns the purge process' stores of the non-primary contexts
func (w *World) Extra() []context2.Stores {
	var out []context2.Stores
	for _, p := range w.Purge[1:] {
		out = append(out, p.Stores)
	}
	return out
}

// PurgeViews returns all store views of the purge process
func (w *World) PurgeViews() []*memstore.Store {
	var out []*memstore.Store
	for _, p := range w.Purge {
		out = append(out, p.All()...)
	}
	return out
}

// AliveIn lists the alive bundles of a repository in upload order
func (w *World) AliveIn(ctx int, repo string) []*Bundle {
	var out []*Bundle
	for _, b := range w.Bundles {
		if b.Alive && b.Ctx == ctx && b.Repo == repo {
			out = append(out, b)
		}
	}
	return out
}

// Alive lists all alive bundles
func (w *World) Alive() []*Bundle {
	var out []*Bundle
	for _, b := range w.Bundles {
		if b.Alive {
			out = append(out, b)
		}
	}
	return out
}

// Referenced returns the union of the keys of all alive bundles
func (w *World) Referenced() (map[string]bool, error) {
	out := map[string]bool{}
	for _, b := range w.Alive() {
		ks, err := b.Keys()
		if err != nil {
			return nil, err
		}
		for k := range ks {
			out[k] = true
		}
	}
	return out, nil
}

// TreeOf materialises the tree of an upload
func TreeOf(o Op) hx.Tree {
	t := hx.Tree{}
	for _, f := range o.Files {
		t[f.Path] = f.C.Bytes(o.Leaf)
	}
	return t
}

// ReusesOrphan tells whether an upload would find some of its blobs already in the blob store
// although no alive bundle references them (a blob orphaned earlier)
func (w *World) ReusesOrphan(o Op) (bool, error) {
	ref, err := w.Referenced()
	if err != nil {
		return false, err
	}
	for _, f := range o.Files {
		ks, err := KeysOf(f.C.Bytes(o.Leaf), o.Leaf)
		if err != nil {
			return false, err
		}
		for _, k := range ks {
			if _, ok := w.Blob().RawObject(k); ok && !ref[k] {
				return true, nil
			}
		}
	}
	return false, nil
}

// Apply executes one operation as the user actor and updates the model. An error means that the
// operation itself (not under test here) failed.
func (w *World) Apply(o Op, phase string) error {
	if o.Ctx >= len(w.Users) {
		o.Ctx = 0
	}
	stores := w.Users[o.Ctx].Stores
	if o.Repo >= w.Shape.Repos[o.Ctx] {
		o.Repo = 0
	}
	repo := w.Shape.RepoName(o.Ctx, o.Repo)
	switch o.Kind {
	case OpUpload:
		w.seq++
		id := hx.KSUID(w.seq, uint64(w.seq))
		tree := TreeOf(o)
		got, err := hx.UploadTree(w.Sc, stores, repo, tree, o.Leaf, core.BundleID(id))
		if err != nil {
			return fmt.Errorf("%s: %v", o, err)
		}
		if got != id {
			return fmt.Errorf("harness: %s: bundle id %s, want %s", o, got, id)
		}
		w.Bundles = append(w.Bundles, &Bundle{Ctx: o.Ctx, Repo: repo, ID: id, Leaf: o.Leaf, Tree: tree, Phase: phase, Alive: true})
	case OpDelBundle:
		al := w.AliveIn(o.Ctx, repo)
		if len(al) == 0 {
			w.Skipped++
			return nil
		}
		b := al[o.Pick%len(al)]
		if err := core.DeleteBundle(repo, stores, b.ID); err != nil {
			return fmt.Errorf("%s: %v", o, err)
		}
		b.Alive = false
	case OpSquash:
		al := w.AliveIn(o.Ctx, repo)
		keep := o.Keep
		if keep < 1 {
			keep = 1
		}
		if err := core.RepoSquash(stores, repo, core.WithRetainNLatest(keep)); err != nil {
			return fmt.Errorf("%s: %v", o, err)
		}
		if len(al) <= keep {
			w.Skipped++
		}
		for i := 0; i < len(al)-keep; i++ {
			al[i].Alive = false
		}
	case OpDelRepo:
		al := w.AliveIn(o.Ctx, repo)
		if len(al) == 0 {
			w.Skipped++
		}
		if err := core.DeleteRepo(repo, stores); err != nil {
			return fmt.Errorf("%s: %v", o, err)
		}
		for _, b := range al {
			b.Alive = false
		}
		if err := hx.CreateRepo(stores, repo); err != nil {
			return fmt.Errorf("%s: re-create: %v", o, err)
		}
	case OpDelFile:
		hit := false
		for _, b := range w.AliveIn(o.Ctx, repo) {
			if _, ok := b.Tree[o.Path]; ok {
				hit = true
			}
		}
		if !hit {
			w.Skipped++
		}
		if err := core.DeleteEntriesFromRepo(repo, stores, []string{o.Path}); err != nil {
			return fmt.Errorf("%s: %v", o, err)
		}
		for _, b := range w.AliveIn(o.Ctx, repo) {
			if _, ok := b.Tree[o.Path]; ok {
				nt := hx.Tree{}
				for p, d := range b.Tree {
					if p != o.Path {
						nt[p] = d
					}
				}
				b.Tree = nt
			}
		}
	default:
		return fmt.Errorf("harness: unknown op %q", o.Kind)
	}
	return nil
}

// CheckModel cross-checks the model's alive set against datamon's own listing (a harness
// self-check: a mismatch means the model of delete/squash is wrong, not purge)
func (w *World) CheckModel() error {
	for c, n := range w.Shape.Repos {
		for r := 0; r < n; r++ {
			repo := w.Shape.RepoName(c, r)
			bs, err := core.ListBundles(repo, w.Users[c].Stores)
			if err != nil {
				return fmt.Errorf("harness: ListBundles(%s): %v", repo, err)
			}
			var got, want []string
			for _, b := range bs {
				got = append(got, b.ID)
			}
			for _, b := range w.AliveIn(c, repo) {
				want = append(want, b.ID)
			}
			sort.Strings(got)
			sort.Strings(want)
			if strings.Join(got, ",") != strings.Join(want, ",") {
				return fmt.Errorf("harness: model of %s has bundles %v, datamon lists %v", repo, want, got)
			}
		}
	}
	return nil
}

// Verify downloads every alive bundle and compares it with the model: the C13 observable.
// It first checks blob presence from the model so that a failure names the lost blob.
func (w *World) Verify() error {
	for _, b := range w.Alive() {
		ks, err := b.Keys()
		if err != nil {
			return err
		}
		var lost []string
		for k := range ks {
			if _, ok := w.Blob().RawObject(k); !ok {
				lost = append(lost, k[:12])
			}
		}
		sort.Strings(lost)
		got, derr := hx.Download(w.Sc, w.Users[b.Ctx].Stores, b.Repo, b.ID)
		if derr != nil {
			return fmt.Errorf("bundle %s of %s (upload started in phase %q, files %v) no longer downloads: %v; blobs lost: %v", b.ID, b.Repo, b.Phase, b.Tree.Paths(), derr, lost)
		}
		if d := hx.DiffTrees(got.WithoutMeta(), b.Tree); d != "" {
			return fmt.Errorf("bundle %s of %s (phase %q) downloads with different content: %s; blobs lost: %v", b.ID, b.Repo, b.Phase, d, lost)
		}
		if len(lost) > 0 {
			return fmt.Errorf("bundle %s of %s (phase %q) lost blobs %v although it still downloads", b.ID, b.Repo, b.Phase, lost)
		}
	}
	return nil
}

// ---------------------------------------------------------------------------------------------
// observing purge artefacts

// Chunk is one index chunk object
type Chunk struct {
	Name  string
	Index uint64
	Time  time.Time
	Keys  []string
}

// ReadIndex parses all index chunk objects of the primary context
func (w *World) ReadIndex() ([]Chunk, error) {
	var out []Chunk
	meta := w.Envs[0].Meta
	for _, k := range meta.RawKeys() {
		if !strings.HasPrefix(k, model.ReverseIndexPrefix()) {
			continue
		}
		data, _ := meta.RawGet(k)
		idx, err := model.ReverseIndexChunk(k)
		if err != nil {
			return nil, fmt.Errorf("index chunk %q: unparsable name: %v", k, err)
		}
		ch := Chunk{Name: k, Index: idx}
		sc := bufio.NewScanner(bytes.NewReader(data))
		sc.Buffer(make([]byte, 1<<20), 1<<20)
		first := true
		for sc.Scan() {
			line := sc.Text()
			if first {
				ts, err := time.Parse(time.RFC3339Nano, line)
				if err != nil {
					return nil, fmt.Errorf("index chunk %q: first line %q is not an RFC3339Nano time", k, line)
				}
				ch.Time = ts
				first = false
				continue
			}
			ch.Keys = append(ch.Keys, line)
		}
		if first {
			return nil, fmt.Errorf("index chunk %q is empty (no time header)", k)
		}
		out = append(out, ch)
	}
	sort.Slice(out, func(i, j int) bool { return out[i].Index < out[j].Index })
	return out, nil
}

// BlobTimes snapshots key -> update time of the blob store
func (w *World) BlobTimes() map[string]time.Time {
	out := map[string]time.Time{}
	for k, o := range w.Blob().Snapshot() {
		out[k] = o.Updated
	}
	return out
}

// LockKey is the purge lock object
func LockKey() string { return model.PurgeLock() }

// ---------------------------------------------------------------------------------------------
// running the purge commands the way the CLI does

// Run describes one invocation of a purge command
type Run struct {
	Dir      string        // local KV directory (--local-work-dir)
	Chunk    uint64        // keys per index chunk
	Parallel int           // --concurrency-factor
	Resume   bool          // --resume (implies force, as in the CLI)
	Force    bool          // --force
	DryRun   bool          // delete-unused --dry-run
	Ticker   time.Duration // uploader interval (verif hook), 0 = default 5 minutes
	// manual merging of indexes (docs/purge.md, --chunk-index): the command runs on context Main only (Alone:
	// no extra context is passed) and numbers its chunks after ChunkStart
	Main       int
	Alone      bool
	ChunkStart int
}

func (w *World) options(r Run) []core.PurgeOption {
	// like a library caller, an option is only passed when it differs from the documented default: every
	// purge call must start from the defaults, whatever an earlier call in the same process asked for
	opts := []core.PurgeOption{
		core.WithPurgeLogger(hx.Nop),
		core.WithPurgeLocalStore(r.Dir),
		core.WithPurgeParallel(r.Parallel),
	}
	if r.Force || r.Resume {
		opts = append(opts, core.WithPurgeForce(true))
	}
	if r.Resume {
		opts = append(opts, core.WithPurgeResumeIndex(true))
	}
	if r.DryRun {
		opts = append(opts, core.WithPurgeDryRun(true))
	}
	if extra := w.Extra(); len(extra) > 0 && !r.Alone {
		opts = append(opts, core.WithPurgeExtraContexts(extra))
	}
	if r.ChunkStart > 0 {
		opts = append(opts, core.WithPurgeIndexChunkStart(r.ChunkStart))
	}
	if r.Chunk > 0 {
		opts = append(opts, core.WithPurgeIndexChunkSize(r.Chunk))
	}
	if r.Ticker > 0 {
		opts = append(opts, core.VerifPurgeUploaderInterval(r.Ticker))
	}
	return opts
}

// Outcome of a command, mirroring cmd/datamon/cmd/purge_*.go: the command reports success only
// when the lock was taken, the operation returned nil and the lock was removed.
type Outcome struct {
	LockErr, OpErr, UnlockErr error
}

// OK tells whether the command reported success
func (o Outcome) OK() bool { return o.LockErr == nil && o.OpErr == nil && o.UnlockErr == nil }

func (o Outcome) String() string {
	return fmt.Sprintf("lock=%v op=%v unlock=%v", o.LockErr, o.OpErr, o.UnlockErr)
}

// BuildIndex is `datamon purge build-reverse-lookup`
func (w *World) BuildIndex(r Run) (*core.PurgeIndex, Outcome) {
	opts := w.options(r)
	stores := w.Purge[r.Main].Stores
	var out Outcome
	if out.LockErr = core.PurgeLock(stores, opts...); out.LockErr != nil {
		return nil, out
	}
	var d *core.PurgeIndex
	d, out.OpErr = core.PurgeBuildReverseIndex(stores, opts...)
	out.UnlockErr = core.PurgeUnlock(stores, opts...)
	return d, out
}

// DeleteUnused is `datamon purge delete-unused`
func (w *World) DeleteUnused(r Run) (*core.PurgeBlobs, Outcome) {
	opts := w.options(r)
	stores := w.Purge[r.Main].Stores
	var out Outcome
	if out.LockErr = core.PurgeLock(stores, opts...); out.LockErr != nil {
		return nil, out
	}
	var d *core.PurgeBlobs
	d, out.OpErr = core.PurgeDeleteUnused(stores, opts...)
	out.UnlockErr = core.PurgeUnlock(stores, opts...)
	return d, out
}

// IndexKeySet flattens chunks into a key -> occurrences map
func IndexKeySet(chunks []Chunk) map[string]int {
	out := map[string]int{}
	for _, c := range chunks {
		for _, k := range c.Keys {
			out[k]++
		}
	}
	return out
}

// DiffSets describes got vs want ("" when equal)
func DiffSets(got, want map[string]bool, gotName, wantName string) string {
	var missing, extra []string
	for k := range want {
		if !got[k] {
			missing = append(missing, short(k))
		}
	}
	for k := range got {
		if !want[k] {
			extra = append(extra, short(k))
		}
	}
	if len(missing) == 0 && len(extra) == 0 {
		return ""
	}
	sort.Strings(missing)
	sort.Strings(extra)
	return fmt.Sprintf("in %s but not in %s: %v; in %s but not in %s: %v", wantName, gotName, missing, gotName, wantName, extra)
}

func short(k string) string {
	if len(k) > 12 {
		return k[:12]
	}
	return k
}

// DrawHistory draws the history before the index: a few uploads first (so that destructive
// operations have something to act on), then a mix with a high share of deletes/squashes
func DrawHistory(t *rapid.T, s Shape, label string) []Op {
	n := rapid.IntRange(1, 5).Draw(t, label+"_uploads")
	ops := make([]Op, 0, n+8)
	for i := 0; i < n; i++ {
		ops = append(ops, DrawUpload(t, s))
	}
	return append(ops, DrawOps(t, s, 0, 8, 2, label+"_mixed")...)
}

// ---------------------------------------------------------------------------------------------
// an upload in flight: blobs written now, metadata committed later

// HeldUpload is a real core.Upload running in its own goroutine (its own actor) that is held right
// before its first metadata write (a file list or the descriptor), i.e. when all its blobs have been
// written or re-used, until Release is called.
type HeldUpload struct {
	w       *World
	op      Op
	bundle  *Bundle
	reached chan struct{}
	release chan struct{}
	done    chan error
	once    sync.Once
	err     error
}

// StartHeldUpload starts the upload and returns once it is parked before its first metadata write
// (or has ended early, in which case the error - or a harness error - is returned)
func (w *World) StartHeldUpload(o Op, phase string) (*HeldUpload, error) {
	if o.Kind != OpUpload {
		return nil, fmt.Errorf("harness: held op must be an upload")
	}
	if o.Ctx >= len(w.Users) {
		o.Ctx = 0
	}
	if o.Repo >= w.Shape.Repos[o.Ctx] {
		o.Repo = 0
	}
	repo := w.Shape.RepoName(o.Ctx, o.Repo)
	w.seq++
	id := hx.KSUID(w.seq, uint64(w.seq))
	tree := TreeOf(o)
	h := &HeldUpload{w: w, op: o, reached: make(chan struct{}), release: make(chan struct{}), done: make(chan error, 1)}
	h.bundle = &Bundle{Ctx: o.Ctx, Repo: repo, ID: id, Leaf: o.Leaf, Tree: tree, Phase: phase, Alive: true}
	flyer := w.Envs[o.Ctx].Actor("flyer")
	var first sync.Once
	flyer.Meta.Before(func(c *memstore.Call) error {
		if c.Op == memstore.OpPut && strings.Contains(c.Key, "bundles/"+repo+"/"+id+"/") {
			first.Do(func() {
				close(h.reached)
				<-h.release
			})
		}
		return nil
	})
	dir := w.Sc.Dir("src")
	if err := tree.Write(dir); err != nil {
		return nil, err
	}
	go func() {
		b := hx.NewBundle(repo, flyer.Stores, hx.Local(dir), o.Leaf, core.BundleID(id))
		h.done <- core.Upload(context.Background(), b)
	}()
	select {
	case <-h.reached:
		return h, nil
	case err := <-h.done:
		return nil, fmt.Errorf("%s (held): ended before writing any metadata: %v", o, err)
	}
}

// Finish lets the upload commit, waits for it and adds the bundle to the model (idempotent)
func (h *HeldUpload) Finish() error {
	h.once.Do(func() {
		close(h.release)
		if err := <-h.done; err != nil {
			h.err = fmt.Errorf("%s (held): %v", h.op, err)
			return
		}
		h.w.Bundles = append(h.w.Bundles, h.bundle)
	})
	return h.err
}
