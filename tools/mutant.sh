#!/bin/sh
# usage: tools/mutant.sh <patch-file|-> <ID> [tier]   -- runs a check against a scratch copy of /repo with the patch applied
# the scratch copy lives in /dev/shm/mutrepo-$$ and is removed afterwards
set -e
PATCH="$1"; ID="$2"; TIER="${3:-quick}"
D=/dev/shm/mutrepo-$$
rsync -a --exclude .git /repo/ "$D/"
trap 'rm -rf "$D"' EXIT
if [ "$PATCH" != "-" ]; then (cd "$D" && git apply "$PATCH"); fi
if [ -n "$MUT_SED" ]; then (cd "$D" && eval "$MUT_SED"); fi
cd "$(dirname "$0")/.."
VERIF_REPO="$D" ./check "$ID" --tier "$TIER" 2>&1 | grep -v "^\s*$" | tail -${MUT_TAIL:-12}
