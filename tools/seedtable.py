#!/usr/bin/env python3
"""Regenerates the table of DESIGN.md section 10.5 from seeded/*/meta.json (prints markdown to stdout, or
rewrites the table in DESIGN.md in place with --write)."""
import glob, json, re, sys
rows = []
stats = {"total": 0, "quick": 0, "strengthened": 0, "other": []}
def key(p):
    m = re.match(r".*/C(\d+)-(\d+)/meta.json", p)
    return (int(m.group(1)), int(m.group(2)))
for p in sorted(glob.glob("/verif/seeded/*/meta.json"), key=key):
    m = json.load(open(p))
    cr = m.get("check_result", "")
    sn = m.get("strengthening_needed")
    first = cr.split(" (exit")[0]
    if re.match(r"caught by \./check %s --tier quick" % m["breaks_property"], cr):
        col = "quick"
        stats["quick"] += 1
        if sn:
            col += " — " + sn
            stats["strengthened"] += 1
    else:
        col = cr
        stats["other"].append(m["id"])
        if sn:
            col += " — " + sn
    stats["total"] += 1
    title = m.get("title", "").replace("|", "/").replace("\n", " ")
    needs = m.get("needs_to_manifest", "")
    if not isinstance(needs, str):
        needs = json.dumps(needs)
    needs = needs.replace("|", "/").replace("\n", " ")
    if len(title) > 100:
        title = title[:100]
    if len(needs) > 140:
        needs = needs[:140] + "…"
    rows.append("| %s | %s | %s | %s | %s |" % (m["id"], m.get("round", 1), title, needs, col.replace("|", "/").replace("\n", " ")))
table = "| seed | round | change | needs to manifest | caught by |\n|---|---|---|---|---|\n" + "\n".join(rows) + "\n"
if "--write" in sys.argv:
    s = open("/verif/DESIGN.md").read()
    i = s.index("| seed | round | change | needs to manifest | caught by |")
    j = i
    lines = s[i:].split("\n")
    n = 0
    for ln in lines:
        if ln.startswith("|"):
            n += len(ln) + 1
        else:
            break
    s = s[:i] + table + s[i + n:]
    open("/verif/DESIGN.md", "w").write(s)
else:
    sys.stdout.write(table)
sys.stderr.write(json.dumps(stats) + "\n")
