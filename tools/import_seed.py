#!/usr/bin/env python3
"""Imports a confirmed seeded change from /tmp/seed/out-<PID>/change<k> into /verif/seeded/<PID>-<k>/.
usage: tools/import_seed.py PID k "<caught-by text>" [--needed-strengthening "text"]"""
import json, os, shutil, sys
pid, k, caught = sys.argv[1], sys.argv[2], sys.argv[3]
pre = os.environ.get("SEED_PRE", "out")
dk = os.environ.get("SEED_DESTK", k)
extra = sys.argv[5] if len(sys.argv) > 5 and sys.argv[4] == "--needed-strengthening" else ""
src = "/tmp/seed/%s-%s/change%s" % (pre, pid, k)
dst = "/verif/seeded/%s-%s" % (pid, dk)
os.makedirs(dst, exist_ok=True)
for f in os.listdir(src):
    if f.endswith(".log") or f.startswith("FOREIGN") or f in ("with.txt", "without.txt", "baseline.txt", "demo-with-change.txt", "demo-without-change.txt", "baseline-with-change.txt", "oracle.py") and False:
        continue
    p = os.path.join(src, f)
    if os.path.isfile(p) and os.path.getsize(p) < 400000:
        shutil.copy(p, os.path.join(dst, f))
meta = json.load(open(os.path.join(src, "meta.json")))
ver = {}
vp = os.path.join(src, "VERIFIED.json")
if os.path.exists(vp):
    ver = json.load(open(vp))
meta["id"] = "%s-%s" % (pid, dk)
meta["breaks_property"] = pid
meta["confirmed_in_scratch_worktree"] = {kk: ver.get(kk) for kk in ("applies", "builds", "baseline_green", "baseline_note", "demo_fails_with_change", "demo_passes_without_change", "verdict", "commands", "observed")}
meta["round"] = {"out": 1, "out2": 2, "out3": 3, "out4": 4, "out5": 5, "out6": 6, "out7": 7, "out8": 8}.get(pre, 1)
meta["check_run"] = ("tools/seedeval2.sh %s " % pre if pre != "out" else "tools/seedeval.sh ") + "%s %s  (= git apply of patch.diff on a scratch copy of /repo, then ./check %s --tier quick with VERIF_REPO pointing at the copy)" % (pid, k, pid)
meta["check_result"] = caught
if extra:
    meta["strengthening_needed"] = extra
json.dump(meta, open(os.path.join(dst, "meta.json"), "w"), indent=1)
print("imported", dst)
