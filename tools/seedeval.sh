#!/bin/sh
# usage: tools/seedeval.sh <PID> <k> [tier]  -- runs check PID against /tmp/seed/out-PID/change<k>/patch.diff (scratch copy), prints verdict
PID=$1; K=$2; TIER=${3:-quick}
P=/tmp/seed/out-$PID/change$K/patch.diff
git -C /repo apply --check "$P" 2>&1 | head -3
OUT=$(tools/mutant.sh "$P" "$PID" "$TIER" 2>&1)
if echo "$OUT" | grep -q "^VIOLATION"; then echo "SEED $PID-$K: CAUGHT ($TIER)"; else echo "SEED $PID-$K: MISSED ($TIER)"; echo "$OUT" | tail -3; fi
