#!/bin/sh
# Runs the repository's baseline test suite with the verif guard OFF and compares with BASELINE.json stable_pass
cd /repo && GOFLAGS= GOPROXY=off GOSUMDB=off go test -mod=mod -json -vet=off -count=1 -timeout 25m ./... > /dev/shm/baseline.json 2>/dev/shm/baseline.err
python3 - <<'PY'
import json
want=set(json.load(open('/root/.vp/BASELINE.json'))['stable_pass'])
res={}
for l in open('/dev/shm/baseline.json'):
    try: e=json.loads(l)
    except: continue
    if e.get('Test') and e.get('Action') in ('pass','fail','skip'):
        res[e['Package']+'::'+e['Test']]=e['Action']
bad=[t for t in sorted(want) if res.get(t)!='pass']
print("baseline stable tests: %d, passing now: %d" % (len(want), len(want)-len(bad)))
for t in bad: print("NOT PASSING:", t, res.get(t))
PY
git -C /repo checkout -- go.sum go.mod 2>/dev/null; git -C /repo status --short | head -5
