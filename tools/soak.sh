#!/bin/sh
# usage: tools/soak.sh <seed> [busy-loops]  -- runs every quick check at VERIF_SEED=<seed> with N busy loops hogging the CPUs
SEED=$1; N=${2:-16}
cd "$(dirname "$0")/.."
PIDS=""
i=0; while [ $i -lt $N ]; do ( while :; do :; done ) & PIDS="$PIDS $!"; i=$((i+1)); done
trap 'kill $PIDS 2>/dev/null' EXIT
for id in $(python3 -c "import json; print(' '.join(sorted(json.load(open('checks.json')))))"); do
  s=$(date +%s)
  OUT=$(VERIF_SEED=$SEED ./check $id --tier quick 2>&1); rc=$?
  echo "SOAK seed=$SEED $id rc=$rc $(( $(date +%s)-s ))s $(echo "$OUT" | grep -c '^VIOLATION') violations"
  [ $rc -ne 0 ] && echo "$OUT" | grep -v "draw" | tail -15
done
