#!/bin/sh
# usage: tools/seedeval2.sh <dir-prefix out|out2> <PID> <k> [tier]
PRE=$1; PID=$2; K=$3; TIER=${4:-quick}
P=/tmp/seed/$PRE-$PID/change$K/patch.diff
git -C /repo apply --check "$P" 2>&1 | head -3
OUT=$(tools/mutant.sh "$P" "$PID" "$TIER" 2>&1)
if echo "$OUT" | grep -q "^VIOLATION"; then echo "SEED $PRE $PID-$K: CAUGHT ($TIER)"; else echo "SEED $PRE $PID-$K: MISSED ($TIER)"; echo "$OUT" | tail -3; fi
